# environment for every go invocation of the verification machinery (offline)
export PATH=/opt/veriftools/go1.26.8/bin:$PATH
export GOTOOLCHAIN=local GOFLAGS=-mod=mod GOPROXY=off GOSUMDB=off GONOSUMDB='*' GONOSUMCHECK=1 GOFLAGS=-mod=mod
export CGO_ENABLED=1
unset GOWORK
