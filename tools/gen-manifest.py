#!/usr/bin/env python3
# Regenerates MANIFEST.json from the table below + `s3dbcheck -list` (which properties have rules built).
import json, subprocess, os
HERE=os.path.dirname(os.path.dirname(os.path.abspath(__file__)))
built=set()
out=subprocess.run([HERE+'/bin/s3dbcheck','-list'],capture_output=True,text=True).stdout
rules={}
for l in out.splitlines():
    p=l.split()
    built.add(p[0]); rules[p[0]]=p[1:]
NA={}
TEXT={
 "C01":("structural conditions that order/grouping independence of the merge needs (not convergence itself): the kv-level join is a comparison-only function whose decision table, extracted over the finite order domain, is the documented symmetric rule; the tree merge inserts the join for every differing key; a version counts as merged iff it was; the row merge is always expressed relative to the later entry's time and never pairs one side's time with the other side's value; the custom-merge wrapper takes value and metadata from the callback","decision-table extraction by abstract interpretation over a finite order domain (E8) + SSA value-flow / pairing rules"),
 "C09":("necessary conditions of 'vacuum removes only what no retained version needs': nodes are collected for exactly the versions whose version objects are deleted, per retired version against each of its own successors and only for links the successor dropped; links of the retained tree are subtracted; history is deleted from the just-committed handle after it became live; closed set of DELETE sites","SSA loop/range identity and value-flow rules (E6/E2), who-may-call tables"),
 "C10":("the single cutoff given to s3db_vacuum reaches, unchanged, the row-side test, the tombstone purge and the version-graph walk; what is reclaimed is computed from the just-committed version graph; vacuum's own tombstones are purged before it commits","SSA value-identity rules (E6)"),
 "C17":("the kv join LastWriteWins/firstTombstoneWins is comparison-only and its extracted decision table equals the documented rule (tombstone beats value, earliest tombstone wins, later modification wins) in all 28 order worlds; local writes and tree merges store that join; TraceHistory bounds each deeper level by the time just reported; Diff reports only unequal visible values","decision-table extraction by abstract interpretation over a finite order domain (E8) + SSA rules"),
 "C02":("necessary plumbing of the documented conflict rule, on all paths: one statement time taken from the connection and used for Set and for the row merge, every assigned column recorded, deltas always merged with the stored row","SSA value-identity and path rules (E6/E2)"),
 "C03":("request order and bookkeeping that every interleaving relies on, decided on all control-flow paths: PUT of the new version before any retirement, copy to merged/ before DELETE from current/ of the same name, a version recorded as merged on exactly the iterations that merged it, lookup order current/ then merged/ when skipping, closed set of DELETE sites","SSA dominance / must-pass-through rules with loop-safe edge dominance, phi-edge classification, who-may-call tables"),
 "C04":("crash atomicity as an ordering argument around a single-PUT commit point: node flush before the version PUT, content-derived name bound to the stored bytes, retirement only after the PUT, storage commit only in xSync, vacuum deletes only after its commit","SSA dominance rules + backward dependence slice + call-graph effects"),
 "C05":("transaction effects and protocol: write callbacks reach only GET, rollback reaches no request, snapshot/txStart typestate, transaction write-time flag protocol","call-graph effect analysis + typestate rules on SSA"),
 "C06":("two contract clauses only: dense xFilter argument numbering paired with the pushed operators, and the key constraints enforced before the write","SSA value-flow rule on ConstraintUsage.ArgvIndex + dominance"),
 "C07":("structural clauses of the key order: Order/Layer class agreement, no lossy numeric conversion in comparisons, uniqueness and NOT NULL guards dominate the write, NULL operands never reach Order, exhaustive type handling","table agreement (E4) + SSA dominance/value rules"),
 "C08":("the five value-conversion tables compose to the identity on SQLite storage classes","table extraction from type/enum switches and agreement check (E4)"),
 "C11":("a version name is bound to its bytes; only three PUT sites exist; explicit version sets never skip; s3db_version lists the recorded merged set","who-may-call tables + guard dominance + value flow"),
 "C12":("the diff cursor propagates every storage error, never makes a deleted/untested row current (flag-sensitive path search), and opens both sides read-only for exactly the requested versions","error-discipline analysis (E3) + flag-sensitive path search (E7) + effects"),
 "C13":("whole-program effect analysis: for every SQLite callback and exported API function no mutating S3 request method is reachable in the VTA call graph once edges dominated by the flag-false side of a read-only check are removed; flag dataflow rules (never cleared, never omitted, re-opens reuse the table's options). Holds for all statement sequences and bucket states because it is a property of the call graph, not of a run","static effect analysis: gated call-graph reachability (SSA dominators + VTA) and flag dataflow"),
 "C14":("every error of a call that can reach the S3 client is propagated on all paths (108 sites; deviations are a frozen exception table whose skips must be dominated by their NoSuchKey/skipUnreadable guards); every such call carries the connection's context; live handles are cancelled before they are replaced; split results are length-checked before indexing","error-flow analysis over SSA for all storage-reaching call sites (E3) + context provenance + typestate"),
 "C15":("the statement time plumbing (shared with C02) and the s3db_conn protocol: every path that changes an attribute reinstalls the request context, attributes are per connection","SSA path rules (E2/E7)"),
 "C16":("codec field agreement between marshalProto/unmarshalProto incl. the nil-link convention; nodes before version object; names bound to bytes","table agreement on the typed AST/SSA (E4) + shared order rules"),
 "C18":("the node store handed to the tree is the encrypting wrapper, plaintext is returned only after authentication succeeded, nothing random or time-dependent feeds the ciphertext","value-flow + dominance + call-graph effect rules"),
 "C19":("lock discipline of all package-level mutable state of the library packages and per-connection allocation of the attribute block","lockset analysis on SSA (E5)"),
 "C20":("option table agreement (switch / usage text / README), consistent integer parsing, registration undone on every error exit, schema rejections dominate acceptance, fields of the table under construction are not read before they are written","table agreement (E4) + SSA path rules"),
}
m={"version":1,
 "setup_cmd":"cd checker && . ../bin/env.sh && go build -o ../bin/s3dbcheck ./cmd/s3dbcheck",
 "hooks":{"guard":"verif","enable":"none needed: static analysis reads /repo as it is; the build tag 'verif' is reserved and unused","baseline_off_cmd":"cd /repo && go test -mod=mod -vet=off -count=1 -timeout 25m ./...","source_commits":[],"add_only":True},
 "engines":[{"name":"s3dbcheck","path":"checker/","serves_properties":sorted(built),"kind_free_text":"repository-specific static analyzer (go/packages + go/ssa + VTA call graph, golang.org/x/tools v0.50.0, go1.26.8)"}],
 "checks":[],"not_applicable":[],
 "notes":"All checks are static: the only code executed is the analyzer (and go list via go/packages). Exit 0 held; exit 1 + VIOLATION line; exit 2 + ERROR lines = the analyzer could not decide (lost anchor, type error), never success. Every claim is level 'other': a named structural clause that is a necessary condition of the property, not the behaviour as a whole (DESIGN.md section 5)."}
ids=["C%02d"%i for i in range(1,21)]
for id in ids:
    if id in built:
        t,tech=TEXT[id]
        m["checks"].append({"property_id":id,"quick_cmd":"./bin/check %s quick"%id,"thorough_cmd":"./bin/check %s thorough"%id,"evidence_file":"evidence/%s.json"%id,
          "replay_cmd_template":"./bin/check --explain {path}","engine":"s3dbcheck",
          "level_claimed":{"category":"other","text":"Decides, for every input/schedule/fault because it is a property of the code's shape: "+t+". Rules: "+", ".join(rules[id])+". It does not decide the runtime behaviour as a whole.","design_ref":"DESIGN.md section 5/"+id},
          "level_note":"trusted: Go type checker, go/ssa and VTA/CHA call graphs of x/tools v0.50.0; no reflective/cgo path into the S3 client; aws-sdk-go method names mean what they say; mast v1.2.33 as pinned by go.sum",
          "technique":"static analysis: "+tech})
    elif id in NA:
        m["not_applicable"].append({"property_id":id,"reason":NA[id]})
    else:
        m["not_applicable"].append({"property_id":id,"reason":"check not built yet (work in progress; planned clauses in DESIGN.md section 5/"+id+")"})
json.dump(m,open(HERE+'/MANIFEST.json','w'),indent=1)
print("claimed:",sorted(built))
