#!/bin/bash
# usage: try-mutant.sh <patch.diff> [property ...]   apply a patch to a scratch copy of /repo and run checks on it
set -u
. /verif/bin/env.sh
P=$1; shift
D=$(mktemp -d /tmp/mut.XXXXXX)
rsync -a --exclude .git /repo/ $D/
( cd $D && git init -q . 2>/dev/null; git -C $D apply --whitespace=nowarn "$P" ) || { echo "PATCH DOES NOT APPLY"; rm -rf $D; exit 3; }
for id in "$@"; do
  /verif/bin/s3dbcheck -repo $D -property $id -no-evidence -evidence-dir $D/.ev -known /verif/known_findings.txt 2>&1 | grep -E "^VIOLATION|^  violated|^ERROR|^property=" | sed "s|$D/||g" | cut -c1-400
done
rm -rf $D
