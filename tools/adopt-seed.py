#!/usr/bin/env python3
# usage: adopt-seed.py <src-dir> <id> <property> "<breaks>" "<needs>"
# copies a verified seeded change to /verif/seeded/<id>/ and writes meta.json
import sys, os, shutil, json, glob
src, sid, prop, breaks, needs = sys.argv[1:6]
dst = '/verif/seeded/' + sid
if os.path.exists(dst): shutil.rmtree(dst)
shutil.copytree(src, dst, ignore=shutil.ignore_patterns('PROMPT.txt','PROPERTY.txt'))
demos = [os.path.relpath(p, dst) for p in glob.glob(dst + '/**/*.go', recursive=True)]
meta = {
 "id": sid, "property": prop, "breaks": breaks, "needs_to_manifest": needs,
 "patch": "patch.diff", "demonstration": demos,
 "source": "written by an independent sub-agent that saw only the property text and a scratch worktree of /repo (nothing from /verif)",
 "confirmed_by": "tools/verify-seed.sh in a fresh scratch worktree of /repo HEAD: demonstration passes without the patch; with the patch: go build ok, 87/87 baseline tests pass, demonstration fails",
 "how_to_run_checks": "git -C /repo apply /verif/seeded/%s/patch.diff && /verif/bin/check %s quick; git -C /repo checkout -- .   (or tools/try-mutant.sh on a scratch copy)" % (sid, prop),
}
json.dump(meta, open(dst + '/meta.json', 'w'), indent=1)
print("adopted", sid, demos)
