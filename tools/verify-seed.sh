#!/bin/bash
# usage: verify-seed.sh <seed-dir>    (dir with patch.diff + demo files at repo-relative paths)
# Confirms in a scratch worktree of /repo: demo passes without the patch; with it: builds, the
# 87-test baseline passes, demo fails. Prints one RESULT line. Removes the worktree.
set -u
S=$(cd "$1" && pwd)
WT=$(mktemp -d /tmp/vseed.XXXXXX)
rmdir $WT
git -C /repo worktree add -q --detach $WT HEAD || exit 2
cleanup() { git -C /repo worktree remove --force $WT 2>/dev/null; rm -rf $WT; }
trap cleanup EXIT
cd $S
DEMOS=$(find . -type f -name '*.go' | sed 's|^\./||')
PKGS=""
for f in $DEMOS; do mkdir -p $WT/$(dirname $f); cp $f $WT/$f; PKGS="$PKGS ./$(dirname $f)/"; done
PKGS=$(echo $PKGS | tr ' ' '\n' | sort -u | tr '\n' ' ')
cd $WT
RUNPAT=${SEED_RUN:-'Seed|seed|Zz|ZZ'}
go test -mod=mod -vet=off -count=1 -run "$RUNPAT" $PKGS > $WT/.demo0.log 2>&1; d0=$?
grep -q "no tests to run" $WT/.demo0.log && ! grep -q "^ok.*[0-9]s$" $WT/.demo0.log && d0=99
git apply --whitespace=nowarn $S/patch.diff || { echo "RESULT $S patch-does-not-apply"; exit 1; }
go build -mod=mod ./... > $WT/.build.log 2>&1; b=$?
suite=$(/verif/tools/runtests.sh $WT | head -1)
go test -mod=mod -vet=off -count=1 -run "$RUNPAT" $PKGS > $WT/.demo1.log 2>&1; d1=$?
echo "RESULT $S demo_without=$d0 build=$b suite='$suite' demo_with=$d1 pkgs='$PKGS'"
if [ $d0 -ne 0 ]; then tail -5 $WT/.demo0.log; fi
if [ $d1 -eq 0 ]; then tail -5 $WT/.demo1.log; fi
