#!/bin/bash
# Regenerates checker/core/anchors.go from /repo's current tree (run when anchors are added).
. /verif/bin/env.sh
T=$(mktemp)
S3DBCHECK_RECORD_ANCHORS=$T /verif/bin/s3dbcheck -repo /repo -property all -no-evidence -evidence-dir /tmp/ev-anch -known /verif/known_findings.txt > /dev/null 2>&1
{
 echo 'package core'; echo
 echo '// AnchorSignatures: receiver + signature of every function the rules look up by name, recorded on'
 echo '// the reference tree (tools/record-anchors.sh). Used only as a fallback when a name no longer'
 echo '// resolves: if exactly one function of the same package has the recorded signature, the anchor'
 echo '// moved there (a rename), and the rules go on; otherwise the anchor is lost (exit 2).'
 echo 'var AnchorSignatures = map[string]string{'
 grep -v '^field:' $T | sort -u | python3 -c "import sys,json
for l in sys.stdin:
    k,v=l.rstrip('\n').split('\t'); print('\t%s: %s,'%(json.dumps(k),json.dumps(v)))"
 echo '}'
 echo
 echo '// AnchorFields: position and type of every struct field the rules look up by name, recorded on'
 echo '// the reference tree. Fallback only, when the name no longer resolves (an.LookupField).'
 echo 'var AnchorFields = map[string]string{'
 grep '^field:' $T | sed 's/^field://' | sort -u | python3 -c "import sys,json
for l in sys.stdin:
    k,v=l.rstrip('\n').split('\t'); print('\t%s: %s,'%(json.dumps(k),json.dumps(v)))"
 echo '}'
} > /verif/checker/core/anchors.go
rm -f $T; rm -rf /tmp/ev-anch
gofmt -w /verif/checker/core/anchors.go; grep -c '":' /verif/checker/core/anchors.go
