#!/bin/bash
# usage: try-benign.sh <patch> : applies a (supposedly behaviour-preserving) patch to a scratch copy and runs ALL checks
. /verif/bin/env.sh
P=$1
D=$(mktemp -d /tmp/ben.XXXXXX)
rsync -a --exclude .git /repo/ $D/
( cd $D && git apply --whitespace=nowarn "$P" ) || { echo "$(basename $P): PATCH DOES NOT APPLY"; rm -rf $D; exit 3; }
out=$(/verif/bin/s3dbcheck -repo $D -property all -no-evidence -evidence-dir $D/.ev -known /verif/known_findings.txt 2>&1 | grep -E "^  violated|^ERROR" | sed "s|$D/||g" | cut -c1-260)
if [ -z "$out" ]; then echo "$(basename $P): silent"; else echo "$(basename $P): NOISY"; echo "$out"; fi
rm -rf $D
