#!/bin/bash
# run the pinned suite in dir $1 (default /repo) and print pass count
D=${1:-/repo}
cd $D && go test -mod=mod -json -vet=off -count=1 -timeout 25m ./... 2>/dev/null > /tmp/test.$$.json
python3 - /tmp/test.$$.json <<'PY'
import json,sys
base=set(json.load(open('/root/.vp/BASELINE.json'))['stable_pass'])
res={}
for l in open(sys.argv[1]):
    try: e=json.loads(l)
    except: continue
    if e.get('Test') and e.get('Action') in('pass','fail','skip'):
        res[e['Package']+'::'+e['Test']]=e['Action']
ok=[t for t in base if res.get(t)=='pass']
bad=[(t,res.get(t)) for t in base if res.get(t)!='pass']
print('passed %d/%d'%(len(ok),len(base)))
for b in bad: print('  NOT PASS',b)
PY
rm -f /tmp/test.$$.json
