#!/usr/bin/env python3
# Builds checker/selftest/variants.json: every seeded variant with the rule(s) expected to fire.
import json, os, re, glob
HERE=os.path.dirname(os.path.dirname(os.path.abspath(__file__)))
out=[]
unfix={
 '7eeb7dc':['C12.errors','C14.errors'], '09c2b9d':['C12.live-rows'], '988224a':['C14.split-index'], 'd7e9f9a':['C20.intparse'],
 '96d38f1':['C20.unregister'], '187bc3c':['C16.codec-shape'], 'c9b62a4':['C06.argvindex-dense'], '94352cf':['C03.persist-lists'],
 'd3baf5d':['C11.historic-strict','C14.errors'], '6c87939':['C07.null-operand'], '319b65f':['C15.conn'], '660431a':['C14.handle'],
 'd0ba73d':['C14.handle'], '7d55337':['C07.compare-only'], '421ec03':['C09.gc-excludes-live'],
 '545bb24':['C06.scan-start'], '89794c8':['C06.scan-start'], '9aa571d':['C06.plan-total'], '665bed9':['C09.vacuum-outside-tx'], '9b85bdd':['C09.gc-evicts-cache'], '859b3e0':['C20.int-range'], 'd9d3bbc':['C20.notnull-enforced'], 'a1094e3':['C20.declared-names-quoted'], '5c065aa':['C20.type-per-column'], 'af243ca':['C20.list-grammar'], '6ff3789':['C09.gc-retires-first'], '2e219de':['C15.unassigned-kept'], '472af0c':['C18.legacy-selected'], '39edc01':['C19.own-http-client'], '58bd8a6':['C15.filter-restarts'], 'a0f7877':['C15.cancel-only-resets'], '1355c67':['C15.time-range','C04.vacuum-purge'], '130be57':['C17.tombstone-tests-agree'], 'a24b1d1':['C05.begin-releases'], 'c76a515':['C14.errors','C03.open-errors'], '66b377a':['C20.endpoint-resolved'], 'a8fb761':['C20.dup-case'], '72e85f6':['C09.gc-root-kept'], 'abef12c':['C12.options-default'], '331f3fb':['C15.filter-restarts'], '597c8bc':['C06.key-change-seen'], '1818fdc':['C15.reads-back-exactly'], '01926ab':['C03.prefix-clean'], '2db17cb':['C03.persist-lists'], '4f6c5c4':['C05.failed-tx-refuses'], '25e835d':['C05.create-begins'], 'd2fe75a':['C09.gc-keeps-staying'], 'a2b321f':['C14.errors'], '17d4576':['C12.live-from-has-entries'],
}
for c,rules in unfix.items():
    out.append({"name":"unfix-"+c,"patch":"checker/selftest/variants/unfix-%s.patch"%c,"expect":rules,"kind":"reverts the repair of a genuine defect (fix commit %s)"%c})
# handcrafted variants (checker/selftest/variants/hc-*.patch) carry their expectation in the first line: "# expect: rule[,rule]"
for p in sorted(glob.glob(HERE+'/checker/selftest/variants/hc-*.patch')):
    first=open(p).readline()
    m=re.match(r'#\s*expect:\s*(.*)',first)
    if m:
        out.append({"name":os.path.basename(p)[:-6],"patch":os.path.relpath(p,HERE),"expect":[x.strip() for x in m.group(1).split(',')],"kind":"handcrafted single-instance break"})
# seeded changes: expectation = what fired in RESULTS.md
res=HERE+'/seeded/RESULTS.md'
if os.path.exists(res):
    for l in open(res):
        m=re.match(r'\|\s*(\S+)\s*\|\s*(C\d+)\s*\|\s*detected\s*\|\s*(.*?)\s*\|',l)
        if m:
            out.append({"name":"seed-"+m.group(1),"patch":"seeded/%s/patch.diff"%m.group(1),"expect":m.group(3).split(),"kind":"independent seeded change (sub-agent), property "+m.group(2)})
benign=[]
for p in sorted(glob.glob(HERE+'/checker/selftest/benign/*.patch')+glob.glob(HERE+'/checker/selftest/benign/*.diff')):
    benign.append({"name":os.path.basename(p).rsplit('.',1)[0],"patch":os.path.relpath(p,HERE)})
json.dump({"variants":out,"benign":benign},open(HERE+'/checker/selftest/variants.json','w'),indent=1)
print(len(out),"variants,",len(benign),"benign")
