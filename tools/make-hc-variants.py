#!/usr/bin/env python3
# (Re)creates the handcrafted self-test variants checker/selftest/variants/hc-*.patch from /repo's current
# tree: one instance of one rule broken per variant; each must still compile. Run after /repo changes.
import subprocess, os, shutil, sys, tempfile
HERE=os.path.dirname(os.path.dirname(os.path.abspath(__file__)))
ENV=dict(os.environ, GOFLAGS='-mod=mod')
V=[]
def v(name, expect, file, old, new, count=1):
    V.append((name, expect, [(file, old, new, count)]))
def vm(name, expect, edits):
    V.append((name, expect, edits))

v('clock-in-delete','C02.clock,C02.time','vtable_common.go','''	t := updateTime(ctx)
	new.Deleted = true''','''	t := time.Now()
	new.Deleted = true''')
v('merge-pairing-cross','C02.merge-pairing','vtable_common.go','''			time.Unix(0, i1.ModEpochNanos), i1.Value.(*v1proto.Row),
			time.Unix(0, i2.ModEpochNanos), i2.Value.(*v1proto.Row),
			time.Unix(0, i2.ModEpochNanos),''','''			time.Unix(0, i2.ModEpochNanos), i1.Value.(*v1proto.Row),
			time.Unix(0, i1.ModEpochNanos), i2.Value.(*v1proto.Row),
			time.Unix(0, i1.ModEpochNanos),''')
v('nochange-ignored','C02.nochange','sqlite/vtable.go','''		if values[i].NoChange() {
			continue
		}
''','')
v('lww-skips-insert','C03.merge-inserts','kv/internal/crdt/crdt.go','''		} else if removed {
			newValue = removedValue.(crdt.Value)
		} else {
			return false, fmt.Errorf("no added/removed value")
		}
		err := newTree.Insert(ctx, key, newValue)
		if err != nil {
			return false, fmt.Errorf("insert: %w", err)
		}
		return true, nil
	})

type Config struct''','''		} else if removed {
			return true, nil
		} else {
			return false, fmt.Errorf("no added/removed value")
		}
		err := newTree.Insert(ctx, key, newValue)
		if err != nil {
			return false, fmt.Errorf("insert: %w", err)
		}
		return true, nil
	})

type Config struct''')
v('record-before-merge','C03.recorded-iff-merged','kv/kv.go','''			newTree, err := tree.Clone(ctx)''','''			mergedRoots[key] = rootBytes
			newTree, err := tree.Clone(ctx)''')
v('clone-resets-mergedroots','C03.retired-source','kv/kv.go','''	kvCopy.crdt = *crdtCopy
	return &kvCopy, nil''','''	kvCopy.crdt = *crdtCopy
	kvCopy.mergedRoots = map[string][]byte{}
	return &kvCopy, nil''')
v('delete-current-nonempty','C03.who-deletes','kv/kv.go','''	if s.crdt.Source != nil && !s.IsDirty() && s.Size() == 0 {''','''	if s.crdt.Source != nil && !s.IsDirty() {''')
v('name-from-half-hash','C04.content-named','kv/kv.go','''	hashBytes := blake2b.Sum256(rootBytes)''','''	hashBytes := blake2b.Sum256(rootBytes[:len(rootBytes)/2])''')
v('xcommit-commits','C04.two-phase','sqlite/vtable.go','''func (c *VirtualTable) Commit() error {
	if c.module.sc.txFixedWriteTime {''','''func (c *VirtualTable) Commit() error {
	if err := c.common.Commit(c.module.sc.ctx); err != nil {
		return toSqlite(err)
	}
	if c.module.sc.txFixedWriteTime {''')
v('vacuum-deletes-before-commit','C04.vacuum-order','vtable_common.go','''	_, err = db.Commit(ctx)
	if err != nil {
		return fmt.Errorf("s3db commit tombstones: %w", err)
	}
	table.Tree.Root.Cancel()
	table.Tree.Root = db
	db = nil

	err = kv.DeleteHistoricVersions(ctx, table.Tree.Root, beforeTime)
	if err != nil {
		return fmt.Errorf("s3db vacuum: %w", err)
	}
''','''	err = kv.DeleteHistoricVersions(ctx, db, beforeTime)
	if err != nil {
		return fmt.Errorf("s3db vacuum: %w", err)
	}
	_, err = db.Commit(ctx)
	if err != nil {
		return fmt.Errorf("s3db commit tombstones: %w", err)
	}
	table.Tree.Root.Cancel()
	table.Tree.Root = db
	db = nil
''')
v('insert-commits','C05.effects','vtable_common.go','''	err = c.Tree.Root.Set(ctx, t, NewKey(key), merged)
	if err != nil {
		c.txFailed = err
		return 0, fmt.Errorf("set: %w", err)
	}
	return 0, nil''','''	err = c.Tree.Root.Set(ctx, t, NewKey(key), merged)
	if err != nil {
		c.txFailed = err
		return 0, fmt.Errorf("set: %w", err)
	}
	if _, err = c.Tree.Root.Commit(ctx); err != nil {
		return 0, fmt.Errorf("commit: %w", err)
	}
	return 0, nil''')
v('value-drops-blob','C07.exhaustive','key.go','''	case v1proto.Type_BLOB:
		return k.Blob
	}
	return nil''','''	}
	return nil''')
v('insert-without-pk-test','C07.insert-guards','vtable_common.go','''	if ok && (!old.Deleted || !ot.Add(old.DeleteUpdateOffset.AsDuration()).Before(t)) {
		return 0, ErrS3DBConstraintPrimaryKey
	}
''','''	_ = ok
''')
v('int-text-equal','C07.order-layer','key.go','''			return order(flip, compareIntReal(v.Int, v2.Real))
		}
		return order(flip, -1)''','''			return order(flip, compareIntReal(v.Int, v2.Real))
		}
		if v2.Type == v1proto.Type_TEXT {
			return order(flip, len(v2.Text))
		}
		return order(flip, -1)''')
v('real-reads-int','C08.tables','vtable_common.go','''	case v1proto.Type_REAL:
		return s.Real
	case v1proto.Type_TEXT:
		return s.Text''','''	case v1proto.Type_REAL:
		return s.Int
	case v1proto.Type_TEXT:
		return s.Text''')
v('roots-prefixed','C11.roots','kv/kv.go','''			roots = append(roots, k)''','''			roots = append(roots, s.cfg.CustomRootPrefix+k)''')
v('open-puts-marker','C11.who-writes,C13.gated','kv/kv.go','''	if cfg.BranchFactor == 0 {
		cfg.BranchFactor = DefaultBranchFactor
	}''','''	if cfg.BranchFactor == 0 {
		cfg.BranchFactor = DefaultBranchFactor
	}
	if _, err := S3.PutObjectWithContext(ctx, &s3.PutObjectInput{Bucket: &cfg.Storage.BucketName, Key: aws.String(cfg.Storage.Prefix + "opened")}); err != nil {
		return nil, err
	}''')
v('diff-side-writable','C12.readonly','sqlite/s3db_changes.go','''	options.ReadOnly = true
''','')
v('commit-without-readonly-check','C13.gated','kv/kv.go','''	if s.readonly {
		return nil, ErrReadOnly
	}
	root, err := s.crdt.MakeRoot(ctx)''','''	root, err := s.crdt.MakeRoot(ctx)''')
v('set-without-readonly-check','C13.mutators','kv/kv.go','''	if s.readonly {
		return ErrReadOnly
	}
	return s.crdt.Set(ctx, when, key, value)''','''	return s.crdt.Set(ctx, when, key, value)''')
v('next-commits','C13.reads','vtable_common.go','''	if c.eof {
		dbg("NEXT EOF\\n")
		return nil
	}''','''	if c.eof {
		dbg("NEXT EOF\\n")
		_, err := c.t.Tree.Root.Commit(ctx)
		return err
	}''')
vm('sync-background-ctx','C14.ctx',[('sqlite/vtable.go','''	return toSqlite(c.common.Commit(c.module.sc.ctx))''','''	return toSqlite(c.common.Commit(context.Background()))''',1)])
vm('conn-in-global','C15.scope',[('sqlite/vtable.go','''type Module struct {
	sc *S3DBConn
}''','''type Module struct {
	sc *S3DBConn
}

var lastConn *S3DBConn''',1),('sqlite/vtable.go','''		err := api.CreateModule("s3db", &Module{sc},''','''		lastConn = sc
		err := api.CreateModule("s3db", &Module{sc},''',1)])
v('decode-drops-previousroot','C16.codec-fields','vtable_common.go','''			PreviousRoot:             in.Value[i].PreviousRoot,
''','')
vm('random-nonce','C18.deterministic',[('kv/crypto.go','''	"encoding/base64"''','''	"crypto/rand"
	"encoding/base64"''',1),('kv/crypto.go','''	copy(nonce[:], n[:encryptNonceLen])
	c := secretbox.Seal''','''	copy(nonce[:], n[:encryptNonceLen])
	if _, err := rand.Read(nonce[:8]); err != nil {
		return nil, err
	}
	c := secretbox.Seal''',1)])
v('undocumented-option','C20.options','vtable_common.go','''		case "s3_prefix":''','''		case "s3_region":
			table.S3Options.Endpoint = table.S3Options.Endpoint
		case "s3_prefix":''')

v('join-later-tombstone-wins','C17.join-table','kv/crdt/value.go','''	if newValue.TombstoneSinceEpochNanos < oldValue.TombstoneSinceEpochNanos {''','''	if newValue.TombstoneSinceEpochNanos > oldValue.TombstoneSinceEpochNanos {''')
v('update-skips-join','C17.local-update','kv/internal/crdt/crdt.go','''		err = c.Mast.Insert(ctx, key, winner)''','''		_ = winner
		err = c.Mast.Insert(ctx, key, cv)''')
v('diff-raw-values','C17.diff-visible','kv/kv.go','''			return f(key, myValue, fromValue)''','''			return f(key, addedValue, removedValue)''')
v('purge-with-clock','C10.one-cutoff,C02.clock','vtable_common.go','''	err = db.RemoveTombstones(ctx, beforeTime)''','''	err = db.RemoveTombstones(ctx, time.Now())''')
v('rows-cross-pairing','C01.rows-pairing','vtable_common.go','''				res.ColumnValues[k] = adj(t2, v2, outTime)''','''				res.ColumnValues[k] = adj(t1, v2, outTime)''')

v('order-always-consumed','C06.order-consumed','vtable_common.go','''		if order[0].Column != c.KeyCol {
			out.AlreadyOrdered = false
		} else {''','''		if order[0].Column != c.KeyCol {
			out.EstimatedCost *= 2
		} else {''')
v('direction-from-term-count','C06.order-consumed','vtable_common.go','''	if desc {
		out.IdxStr = "desc " + out.IdxStr''','''	if _ = desc; len(order) > 1 {
		out.IdxStr = "desc " + out.IdxStr''')
v('seek-on-kept-cursor','C06.scan-start,C06.fresh-cursor','vtable_common.go','''	var err error
	c.cursor, err = c.t.Tree.Root.Cursor(ctx)
	if err != nil {
		return fmt.Errorf("cursor: %w", err)
	}
	if !c.desc {''','''	var err error
	if c.cursor == nil {
		c.cursor, err = c.t.Tree.Root.Cursor(ctx)
		if err != nil {
			return fmt.Errorf("cursor: %w", err)
		}
	}
	if !c.desc {''')

v('mapop-gt-as-lt','C06.op-table','sqlite/vtable.go','''	case sqlite.INDEX_CONSTRAINT_GT:
		return s3db.OpGT''','''	case sqlite.INDEX_CONSTRAINT_GT:
		return s3db.OpLT''')
v('window-eq-strict','C06.window','vtable_common.go','''				c.ltMax = op == OpLT''','''				c.ltMax = op != OpLE''')
v('window-ge-tightens-max','C06.window','vtable_common.go','''		if op == OpLT || op == OpLE || op == OpEQ {''','''		if op == OpLT || op == OpLE || op == OpEQ || op == OpGE {''')
v('next-stops-at-equal','C06.window-next','vtable_common.go','''				if c.ltMax && cmp >= 0 || cmp > 0 {''','''				if cmp >= 0 {''')
v('next-skips-min-always','C06.window-next','vtable_common.go','''			if c.min != nil && c.gtMin && k.(*Key).Order(c.min) == 0 {''','''			if c.min != nil && k.(*Key).Order(c.min) == 0 {''')
v('next-desc-stops-above-min','C06.window-next','vtable_common.go','''				if c.gtMin && cmp <= 0 || cmp < 0 {''','''				if c.gtMin && cmp <= 0 || cmp > 0 {''')

v('write-time-local-zone','C02.utc','sqlite/s3db_conn.go','''			newWriteTime, err = time.Parse(s3db.SQLiteTimeFormat, writeTime.Text())''','''			newWriteTime, err = time.ParseInLocation(s3db.SQLiteTimeFormat, writeTime.Text(), time.Local)''')
v('clone-copies-handle','C05.clone-deep','kv/internal/crdt/crdt.go','''	clone := c
	clonedMast, err := c.Mast.Clone(ctx)
	if err != nil {
		return nil, err
	}
	clone.Mast = &clonedMast
	return &clone, nil''','''	clone := c
	if !c.Mast.IsDirty() {
		m := *c.Mast
		clone.Mast = &m
		return &clone, nil
	}
	clonedMast, err := c.Mast.Clone(ctx)
	if err != nil {
		return nil, err
	}
	clone.Mast = &clonedMast
	return &clone, nil''')
v('column-honours-nochange','C01.column-always-answers','sqlite/vtable.go','''	v, err := c.common.Column(i)
	if err != nil {
		return toSqlite(err)
	}
	setContextResult(ctx, v, i)''','''	if i > 0 && ctx.NoChange() {
		return nil
	}
	v, err := c.common.Column(i)
	if err != nil {
		return toSqlite(err)
	}
	setContextResult(ctx, v, i)''')
v('evict-key-without-slash','C09.gc-evicts-cache','kv/kv.go','''			cache.Remove(fmt.Sprintf("%s/%s", s.persist.NodeURLPrefix(), l))''','''			cache.Remove(s.persist.NodeURLPrefix() + l)''')
v('evict-key-name-first','C09.gc-evicts-cache','kv/kv.go','''			cache.Remove(fmt.Sprintf("%s/%s", s.persist.NodeURLPrefix(), l))''','''			cache.Remove(fmt.Sprintf("%s/%s", l, s.persist.NodeURLPrefix()))''')

outdir=HERE+'/checker/selftest/variants'

v('gc-collects-all-links','C09.gc-diff-pairs','kv/kv.go','''					if removed {
						if ls, ok := link.(string); ok {
							candidateBlocks[ls] = 1
						}
					}
					return true, nil''','''					_ = removed
					if ls, ok := link.(string); ok {
						candidateBlocks[ls] = 1
					}
					return true, nil''')

for f in os.listdir(outdir):
    if f.startswith('hc-'): os.remove(outdir+'/'+f)
bad=0
for name,expect,edits in V:
    d=tempfile.mkdtemp(prefix='hc.',dir='/var/tmp')
    try:
        subprocess.run(['rsync','-a','--exclude','.git','/repo/',d+'/r/'],check=True)
        r=d+'/r'
        subprocess.run('git init -q . && git add -A && git -c user.email=a@b -c user.name=x commit -qm base',shell=True,cwd=r,check=True,stdout=subprocess.DEVNULL)
        ok=True
        for file,old,new,count in edits:
            s=open(r+'/'+file).read()
            if s.count(old)<1:
                print('ANCHOR NOT FOUND',name,file); ok=False; break
            s=s.replace(old,new,count)
            open(r+'/'+file,'w').write(s)
        if not ok: bad+=1; continue
        b=subprocess.run(['go','build','./...'],cwd=r,env=ENV,capture_output=True,text=True)
        if b.returncode!=0:
            print('DOES NOT BUILD',name,b.stderr[:300]); bad+=1; continue
        diff=subprocess.run(['git','diff'],cwd=r,capture_output=True,text=True).stdout
        open(outdir+'/hc-'+name+'.patch','w').write('# expect: %s\n'%expect+diff)
        print('ok',name)
    finally:
        shutil.rmtree(d,ignore_errors=True)
sys.exit(1 if bad else 0)
