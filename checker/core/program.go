// Package core loads /repo into typed syntax, SSA and call graphs, and carries the
// obligation / evidence / known-finding plumbing shared by every rule.
package core

import (
	"crypto/sha256"
	"encoding/hex"
	"fmt"
	"go/ast"
	"go/token"
	"go/types"
	"io"
	"os"
	"path/filepath"
	"sort"
	"strings"
	"time"

	"golang.org/x/tools/go/callgraph"
	"golang.org/x/tools/go/callgraph/cha"
	"golang.org/x/tools/go/callgraph/vta"
	"golang.org/x/tools/go/packages"
	"golang.org/x/tools/go/ssa"
	"golang.org/x/tools/go/ssa/ssautil"
)

// ModPath is the module path of the repository under analysis.
const ModPath = "github.com/jrhy/s3db"

// Program is the resolved program: every rule reads it, none mutates it.
type Program struct {
	RepoDir  string
	Fset     *token.FileSet
	Roots    []*packages.Package          // the repo's own packages
	ByPath   map[string]*packages.Package // every loaded package (with syntax)
	SSA      *ssa.Program
	AllFuncs map[*ssa.Function]bool
	TreeHash string
	LoadSecs float64

	vtaCG *callgraph.Graph
	chaCG *callgraph.Graph

	declOf map[*types.Func]*FuncSyntax

	// Renamed records anchors that were resolved by signature because their name changed.
	Renamed map[string]string
}

// FuncSyntax ties a declared function to its syntax.
type FuncSyntax struct {
	Decl *ast.FuncDecl
	Pkg  *packages.Package
}

// Load type-checks ./... under dir (tests off), with optional overlay files.
func Load(dir string, overlay map[string][]byte) (*Program, error) {
	t0 := time.Now()
	os.Unsetenv("GOWORK")
	fset := token.NewFileSet()
	cfg := &packages.Config{
		Mode:    packages.LoadAllSyntax,
		Dir:     dir,
		Fset:    fset,
		Tests:   false,
		Overlay: overlay,
		Env:     append(os.Environ(), "GOWORK=off", "GOFLAGS=-mod=mod", "GOPROXY=off", "GOTOOLCHAIN=local"),
	}
	pkgs, err := packages.Load(cfg, "./...")
	if err != nil {
		return nil, fmt.Errorf("packages.Load: %w", err)
	}
	if len(pkgs) == 0 {
		return nil, fmt.Errorf("no packages loaded from %s", dir)
	}
	p := &Program{RepoDir: dir, Fset: fset, ByPath: map[string]*packages.Package{}, declOf: map[*types.Func]*FuncSyntax{}}
	var errs []string
	packages.Visit(pkgs, nil, func(pk *packages.Package) {
		p.ByPath[pk.PkgPath] = pk
		for _, e := range pk.Errors {
			errs = append(errs, fmt.Sprintf("%s: %s", pk.PkgPath, e.Msg))
		}
	})
	if len(errs) > 0 {
		sort.Strings(errs)
		if len(errs) > 8 {
			errs = errs[:8]
		}
		return nil, fmt.Errorf("type/load errors: %s", strings.Join(errs, "; "))
	}
	for _, pk := range pkgs {
		if pk.PkgPath == ModPath || strings.HasPrefix(pk.PkgPath, ModPath+"/") {
			p.Roots = append(p.Roots, pk)
		}
	}
	sort.Slice(p.Roots, func(i, j int) bool { return p.Roots[i].PkgPath < p.Roots[j].PkgPath })
	if len(p.Roots) < 10 {
		return nil, fmt.Errorf("only %d repo packages loaded (expected >= 10)", len(p.Roots))
	}
	for _, pk := range p.Roots {
		for _, f := range pk.Syntax {
			for _, d := range f.Decls {
				if fd, ok := d.(*ast.FuncDecl); ok {
					if obj, ok := pk.TypesInfo.Defs[fd.Name].(*types.Func); ok {
						p.declOf[obj] = &FuncSyntax{Decl: fd, Pkg: pk}
					}
				}
			}
		}
	}
	prog, _ := ssautil.AllPackages(pkgs, ssa.InstantiateGenerics)
	prog.Build()
	p.SSA = prog
	p.AllFuncs = ssautil.AllFunctions(prog)
	normaliseComparisons(p.AllFuncs)
	p.TreeHash = treeHash(dir, p.Roots)
	p.ResolveAnchors()
	p.LoadSecs = time.Since(t0).Seconds()
	return p, nil
}

func treeHash(dir string, roots []*packages.Package) string {
	h := sha256.New()
	var files []string
	for _, pk := range roots {
		files = append(files, pk.CompiledGoFiles...)
		files = append(files, pk.OtherFiles...)
	}
	sort.Strings(files)
	for _, f := range files {
		fh, err := os.Open(f)
		if err != nil {
			continue
		}
		rel, _ := filepath.Rel(dir, f)
		io.WriteString(h, rel+"\x00")
		io.Copy(h, fh)
		fh.Close()
	}
	return hex.EncodeToString(h.Sum(nil))[:16]
}

// VTA returns the VTA call graph seeded by CHA (built once).
func (p *Program) VTA() *callgraph.Graph {
	if p.vtaCG == nil {
		p.vtaCG = vta.CallGraph(p.AllFuncs, p.CHA())
	}
	return p.vtaCG
}

// CHA returns the class-hierarchy call graph (built once).
func (p *Program) CHA() *callgraph.Graph {
	if p.chaCG == nil {
		p.chaCG = cha.CallGraph(p.SSA)
	}
	return p.chaCG
}

// IsRepoPkg reports whether the package belongs to the repository.
func IsRepoPkg(pk *types.Package) bool {
	if pk == nil {
		return false
	}
	return pk.Path() == ModPath || strings.HasPrefix(pk.Path(), ModPath+"/")
}

// Pkg returns a repo package by path relative to the module ("" = root).
func (p *Program) Pkg(rel string) *packages.Package {
	path := ModPath
	if rel != "" {
		path += "/" + rel
	}
	return p.ByPath[path]
}

// Pos renders a position relative to the repo dir.
func (p *Program) Pos(pos token.Pos) string {
	if !pos.IsValid() {
		return "-"
	}
	ps := p.Fset.Position(pos)
	rel, err := filepath.Rel(p.RepoDir, ps.Filename)
	if err != nil || strings.HasPrefix(rel, "..") {
		rel = ps.Filename
		if i := strings.Index(rel, "/pkg/mod/"); i >= 0 {
			rel = rel[i+len("/pkg/mod/"):]
		}
	}
	return fmt.Sprintf("%s:%d", rel, ps.Line)
}

// Syntax returns the declaration of a function object, if it is a repo function.
func (p *Program) Syntax(fn *types.Func) *FuncSyntax { return p.declOf[fn] }

// LookupFunc resolves "pkgrel.Func" or "pkgrel.(*T).M" / "pkgrel.(T).M" to the SSA function.
// pkgrel is the path relative to the module ("" for the root package, written as "s3db").
func (p *Program) LookupFunc(pkgRel, recv, name string) *ssa.Function {
	fn := p.lookupFuncByName(pkgRel, recv, name)
	key := pkgRel + "|" + recv + "|" + name
	if fn != nil {
		if rec := os.Getenv("S3DBCHECK_RECORD_ANCHORS"); rec != "" {
			if f, err := os.OpenFile(rec, os.O_APPEND|os.O_CREATE|os.O_WRONLY, 0o644); err == nil {
				fmt.Fprintf(f, "%s\t%s\n", key, anchorSig(fn))
				f.Close()
			}
		}
		return fn
	}
	// renamed? fall back to the unique function of the same package and receiver with the
	// signature recorded for this anchor on the reference tree
	want, ok := AnchorSignatures[key]
	if !ok {
		return nil
	}
	pk := p.Pkg(pkgRel)
	if pk == nil {
		return nil
	}
	var cands []*ssa.Function
	for f := range p.AllFuncs {
		if f.Pkg == nil || f.Pkg.Pkg != pk.Types || f.Parent() != nil || len(f.Blocks) == 0 || f.Synthetic != "" {
			continue
		}
		if anchorSig(f) == want {
			cands = append(cands, f)
		}
	}
	if len(cands) != 1 {
		// a function turned into a method of its first parameter's type (or back): compare the
		// receiver-plus-parameters multiset
		cands = nil
		wantLoose := looseSig(want)
		for f := range p.AllFuncs {
			if f.Pkg == nil || f.Pkg.Pkg != pk.Types || f.Parent() != nil || len(f.Blocks) == 0 || f.Synthetic != "" {
				continue
			}
			if looseSig(anchorSig(f)) == wantLoose && (f.Name() == name || true) {
				cands = append(cands, f)
			}
		}
		if len(cands) > 1 {
			// prefer the one that kept the name
			var same []*ssa.Function
			for _, f := range cands {
				if f.Name() == name {
					same = append(same, f)
				}
			}
			if len(same) == 1 {
				cands = same
			}
		}
	}
	if len(cands) == 1 {
		if p.Renamed == nil {
			p.Renamed = map[string]string{}
		}
		p.Renamed[key] = cands[0].Name()
		// keep reporting (and matching exception tables) under the anchor's reference name
		pkgName := pkgRel
		if pkgName == "" {
			pkgName = "s3db"
		}
		disp := pkgName + "." + name
		if recv != "" {
			if strings.HasPrefix(recv, "*") {
				disp = "(*" + pkgName + "." + recv[1:] + ")." + name
			} else {
				disp = "(" + pkgName + "." + recv + ")." + name
			}
		}
		displayOverride[cands[0]] = disp
		return cands[0]
	}
	return nil
}

// displayOverride maps a function that was found by signature (renamed anchor) to the stable
// name of its anchor.
var displayOverride = map[*ssa.Function]string{}

// ResolveAnchors looks every recorded anchor up once so that renamed anchors are known before
// any rule reports or matches by name.
func (p *Program) ResolveAnchors() {
	for key := range AnchorSignatures {
		parts := strings.SplitN(key, "|", 3)
		if len(parts) == 3 {
			p.LookupFunc(parts[0], parts[1], parts[2])
		}
	}
}

// looseSig normalises an anchorSig so that "func(A,B)(R)" and "(A)func(B)(R)" compare equal.
func looseSig(sig string) string {
	recv := ""
	rest := sig
	if strings.HasPrefix(sig, "(") {
		if i := strings.Index(sig, ")func("); i >= 0 {
			recv = sig[1:i]
			rest = sig[i+1:]
		}
	}
	// rest = func(P...)(R...)
	i := strings.Index(rest, ")(")
	if !strings.HasPrefix(rest, "func(") || i < 0 {
		return sig
	}
	params := rest[len("func("):i]
	results := rest[i+1:]
	var ps []string
	if recv != "" {
		ps = append(ps, recv)
	}
	if params != "" {
		ps = append(ps, splitTopLevel(params)...)
	}
	sort.Strings(ps)
	return "func{" + strings.Join(ps, ";") + "}" + results
}

// splitTopLevel splits a comma-separated type list, ignoring commas nested in brackets.
func splitTopLevel(s string) []string {
	var out []string
	depth, start := 0, 0
	for i, r := range s {
		switch r {
		case '(', '[', '{':
			depth++
		case ')', ']', '}':
			depth--
		case ',':
			if depth == 0 {
				out = append(out, s[start:i])
				start = i + 1
			}
		}
	}
	return append(out, s[start:])
}

// anchorSig renders receiver kind + signature of a function (names of parameters excluded).
func anchorSig(fn *ssa.Function) string {
	s := ""
	if r := fn.Signature.Recv(); r != nil {
		s = "(" + r.Type().String() + ")"
	}
	sig := fn.Signature
	var ps, rs []string
	for i := 0; i < sig.Params().Len(); i++ {
		ps = append(ps, sig.Params().At(i).Type().String())
	}
	for i := 0; i < sig.Results().Len(); i++ {
		rs = append(rs, sig.Results().At(i).Type().String())
	}
	v := ""
	if sig.Variadic() {
		v = "..."
	}
	return s + "func(" + strings.Join(ps, ",") + v + ")(" + strings.Join(rs, ",") + ")"
}

func (p *Program) lookupFuncByName(pkgRel, recv, name string) *ssa.Function {
	pk := p.Pkg(pkgRel)
	if pk == nil {
		return nil
	}
	sp := p.SSA.Package(pk.Types)
	if sp == nil {
		return nil
	}
	if recv == "" {
		return sp.Func(name)
	}
	ptr := strings.HasPrefix(recv, "*")
	tn, _ := pk.Types.Scope().Lookup(strings.TrimPrefix(recv, "*")).(*types.TypeName)
	if tn == nil {
		return nil
	}
	var T types.Type = tn.Type()
	if ptr {
		T = types.NewPointer(T)
	}
	sel := p.SSA.MethodSets.MethodSet(T).Lookup(pk.Types, name)
	if sel == nil {
		return nil
	}
	return p.SSA.MethodValue(sel)
}

// FuncName is a stable, line-free name for an SSA function: pkgrel.(*T).M or pkgrel.F$1.
func FuncName(fn *ssa.Function) string {
	if fn == nil {
		return "<nil>"
	}
	if d, ok := displayOverride[fn]; ok {
		return d
	}
	if par := fn.Parent(); par != nil {
		if _, ok := displayOverride[par]; ok && strings.HasPrefix(fn.Name(), par.Name()) {
			return FuncName(par) + fn.Name()[len(par.Name()):]
		}
	}
	s := fn.String()
	s = strings.ReplaceAll(s, ModPath+"/", "")
	s = strings.ReplaceAll(s, ModPath, "s3db")
	s = strings.ReplaceAll(s, "github.com/aws/aws-sdk-go/service/", "aws/")
	s = strings.ReplaceAll(s, "github.com/jrhy/mast", "mast")
	return s
}

// RepoFuncs returns every SSA function (incl. closures) whose package is a repo package,
// optionally filtered by package-relative path predicate.
func (p *Program) RepoFuncs(keep func(pkgRel string) bool) []*ssa.Function {
	var out []*ssa.Function
	for fn := range p.AllFuncs {
		pk := fn.Package()
		if pk == nil && fn.Parent() != nil {
			pk = fn.Parent().Package()
		}
		if pk == nil || pk.Pkg == nil || !IsRepoPkg(pk.Pkg) {
			continue
		}
		if fn.Synthetic != "" && fn.Blocks == nil {
			continue
		}
		rel := strings.TrimPrefix(strings.TrimPrefix(pk.Pkg.Path(), ModPath), "/")
		if keep != nil && !keep(rel) {
			continue
		}
		out = append(out, fn)
	}
	sort.Slice(out, func(i, j int) bool {
		if out[i].String() != out[j].String() {
			return out[i].String() < out[j].String()
		}
		return out[i].Pos() < out[j].Pos()
	})
	return out
}

// PkgRel returns the module-relative package path of fn ("" for root), ok=false outside the repo.
func PkgRel(fn *ssa.Function) (string, bool) {
	for f := fn; f != nil; f = f.Parent() {
		if pk := f.Package(); pk != nil && pk.Pkg != nil {
			if !IsRepoPkg(pk.Pkg) {
				return "", false
			}
			return strings.TrimPrefix(strings.TrimPrefix(pk.Pkg.Path(), ModPath), "/"), true
		}
	}
	if fn.Object() != nil && fn.Object().Pkg() != nil && IsRepoPkg(fn.Object().Pkg()) {
		return strings.TrimPrefix(strings.TrimPrefix(fn.Object().Pkg().Path(), ModPath), "/"), true
	}
	return "", false
}

// VTAIfBuilt returns the VTA graph only if a rule already needed it.
func (p *Program) VTAIfBuilt() *callgraph.Graph { return p.vtaCG }

// normaliseComparisons puts the constant operand of every comparison on the right ("nil == x" ->
// "x == nil", "0 < n" -> "n > 0"). Comparisons have no effect and their operands are values
// computed before, so the two forms are the same instruction; the rules then need to know one
// form only, and a maintainer who writes the other one (benign variant X12) changes no verdict.
func normaliseComparisons(fns map[*ssa.Function]bool) {
	flip := map[token.Token]token.Token{token.EQL: token.EQL, token.NEQ: token.NEQ,
		token.LSS: token.GTR, token.GTR: token.LSS, token.LEQ: token.GEQ, token.GEQ: token.LEQ}
	for fn := range fns {
		for _, b := range fn.Blocks {
			for _, in := range b.Instrs {
				bo, ok := in.(*ssa.BinOp)
				if !ok {
					continue
				}
				nop, isCmp := flip[bo.Op]
				if !isCmp {
					continue
				}
				_, xc := bo.X.(*ssa.Const)
				_, yc := bo.Y.(*ssa.Const)
				if xc && !yc {
					bo.X, bo.Y = bo.Y, bo.X
					bo.Op = nop
				}
			}
		}
	}
}
