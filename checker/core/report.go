package core

import (
	"bufio"
	"encoding/json"
	"fmt"
	"os"
	"path/filepath"
	"sort"
	"strings"
)

// Status of an obligation.
type Status string

const (
	Discharged Status = "discharged"
	Violated   Status = "violated"
	Undecided  Status = "undecided"
)

// Obligation is one rule instance: property / rule / construct (line-free key).
type Obligation struct {
	Property  string   `json:"property"`
	Rule      string   `json:"rule"`
	Construct string   `json:"construct"`
	Status    Status   `json:"status"`
	Pos       string   `json:"pos,omitempty"`
	Detail    string   `json:"detail,omitempty"`
	Path      []string `json:"path,omitempty"`
	Known     bool     `json:"known_finding,omitempty"`
}

// Key is the stable identity used by known_findings.txt.
func (o *Obligation) Key() string { return o.Rule + ":" + o.Construct }

// Report collects obligations and measured counts for one property run.
type Report struct {
	Property    string
	Obls        []*Obligation
	Counts      map[string]int // rule -> instances
	Stats       map[string]int // free-form measured counts (functions analysed, call sites...)
	Notes       []string
	Errors      []string // infrastructure failures (exit 2)
	funcsSeen   map[string]bool
	RulesRun    []string
	Explanation []string
}

func NewReport(property string) *Report {
	return &Report{Property: property, Counts: map[string]int{}, Stats: map[string]int{}, funcsSeen: map[string]bool{}}
}

// Add records an obligation under this report's property.
func (r *Report) Add(rule, construct string, st Status, pos, detail string, path ...string) *Obligation {
	o := &Obligation{Property: r.Property, Rule: rule, Construct: construct, Status: st, Pos: pos, Detail: detail, Path: path}
	r.Obls = append(r.Obls, o)
	r.Counts[rule]++
	return o
}

func (r *Report) OK(rule, construct, pos, detail string) {
	r.Add(rule, construct, Discharged, pos, detail)
}
func (r *Report) Bad(rule, construct, pos, detail string, path ...string) {
	r.Add(rule, construct, Violated, pos, detail, path...)
}
func (r *Report) Unk(rule, construct, pos, detail string) {
	r.Add(rule, construct, Undecided, pos, detail)
}

// Cond discharges when ok, otherwise violates.
func (r *Report) Cond(ok bool, rule, construct, pos, good, bad string) {
	if ok {
		r.OK(rule, construct, pos, good)
	} else {
		r.Bad(rule, construct, pos, bad)
	}
}

// Errorf records an infrastructure failure: the check cannot be believed (exit 2).
func (r *Report) Errorf(format string, a ...any) {
	r.Errors = append(r.Errors, fmt.Sprintf(format, a...))
}

// SawFunc counts a function as analysed.
func (r *Report) SawFunc(name string) { r.funcsSeen[name] = true }

// Min fails the run if a rule produced fewer instances than confirmed by hand.
func (r *Report) Min(rule string, n int) {
	if r.Counts[rule] < n {
		r.Errorf("rule %s matched %d instances, fewer than the %d confirmed on the reference tree (anchor lost?)", rule, r.Counts[rule], n)
	}
}

// Explain adds a sentence to coverage.explanation.
func (r *Report) Explain(s string) { r.Explanation = append(r.Explanation, s) }

// ---- known findings ---------------------------------------------------------------------

// KnownFinding is one "finding:" line of known_findings.txt.
type KnownFinding struct {
	Property string
	Key      string
	What     string
}

// LoadKnown parses known_findings.txt. Lines:
//
//	finding: property=Cxx key=<rule>:<construct> :: <what fails>
//	fixed:   property=Cxx <commit> <what failed>           (documentation only)
func LoadKnown(path string) ([]KnownFinding, error) {
	f, err := os.Open(path)
	if err != nil {
		if os.IsNotExist(err) {
			return nil, nil
		}
		return nil, err
	}
	defer f.Close()
	var out []KnownFinding
	sc := bufio.NewScanner(f)
	sc.Buffer(make([]byte, 1<<20), 1<<20)
	for sc.Scan() {
		line := strings.TrimSpace(sc.Text())
		if !strings.HasPrefix(line, "finding:") {
			continue
		}
		rest := strings.TrimSpace(strings.TrimPrefix(line, "finding:"))
		what := ""
		if i := strings.Index(rest, " :: "); i >= 0 {
			what = rest[i+4:]
			rest = rest[:i]
		}
		var kf KnownFinding
		kf.What = what
		if !strings.HasPrefix(rest, "property=") {
			return nil, fmt.Errorf("known_findings: malformed line %q", line)
		}
		sp := strings.SplitN(rest, " ", 2)
		kf.Property = strings.TrimPrefix(sp[0], "property=")
		if len(sp) < 2 || !strings.HasPrefix(strings.TrimSpace(sp[1]), "key=") {
			return nil, fmt.Errorf("known_findings: malformed line %q", line)
		}
		kf.Key = strings.TrimPrefix(strings.TrimSpace(sp[1]), "key=")
		out = append(out, kf)
	}
	return out, sc.Err()
}

// ---- evidence + exit ---------------------------------------------------------------------

type EvidenceMeta struct {
	Tier        string
	Seed        int64
	WallS       float64
	CheckerCmd  string
	Packages    int
	RepoPkgs    int
	CGNodes     int
	CGEdges     int
	CGAlgo      string
	TreeHash    string
	SelfTest    map[string]any
	ReplayDir   string
	EvidenceOut string
}

// Finish applies known findings, prints lines, writes evidence, returns the exit code.
func (r *Report) Finish(known []KnownFinding, m EvidenceMeta) int {
	sort.SliceStable(r.Obls, func(i, j int) bool {
		if r.Obls[i].Rule != r.Obls[j].Rule {
			return r.Obls[i].Rule < r.Obls[j].Rule
		}
		return r.Obls[i].Construct < r.Obls[j].Construct
	})
	// duplicate keys make known-finding matching ambiguous: disambiguate deterministically
	seen := map[string]int{}
	for _, o := range r.Obls {
		seen[o.Key()]++
		if n := seen[o.Key()]; n > 1 {
			o.Construct = fmt.Sprintf("%s#%d", o.Construct, n)
		}
	}
	nViol, nKnown, nUndec, nDis := 0, 0, 0, 0
	var viol []*Obligation
	usedKnown := map[int]bool{}
	for _, o := range r.Obls {
		switch o.Status {
		case Discharged:
			nDis++
		case Undecided:
			nUndec++
		case Violated:
			matched := false
			for i, k := range known {
				if k.Property == r.Property && k.Key == o.Key() {
					matched = true
					usedKnown[i] = true
					o.Known = true
					fmt.Printf("KNOWN-FINDING: property=%s %s %s (%s)\n", r.Property, o.Key(), firstNonEmpty(k.What, o.Detail), o.Pos)
					break
				}
			}
			if matched {
				nKnown++
			} else {
				nViol++
				viol = append(viol, o)
			}
		}
	}
	for i, k := range known {
		if k.Property == r.Property && !usedKnown[i] {
			r.Notes = append(r.Notes, fmt.Sprintf("known finding no longer reported (repaired?): %s", k.Key))
			fmt.Printf("NOTE: property=%s listed finding not reproduced on this tree: %s\n", r.Property, k.Key)
		}
	}
	os.MkdirAll(m.ReplayDir, 0o755)
	// stale replay files of this property
	if old, _ := filepath.Glob(filepath.Join(m.ReplayDir, r.Property+"-*.json")); old != nil {
		for _, f := range old {
			os.Remove(f)
		}
	}
	for i, o := range viol {
		rp := filepath.Join(m.ReplayDir, fmt.Sprintf("%s-%d.json", r.Property, i+1))
		b, _ := json.MarshalIndent(o, "", " ")
		os.WriteFile(rp, b, 0o644)
		fmt.Printf("  violated %s\n    at %s\n    %s\n", o.Key(), o.Pos, o.Detail)
		for _, s := range o.Path {
			fmt.Printf("      %s\n", s)
		}
		fmt.Printf("VIOLATION property=%s replay=%s\n", r.Property, rp)
	}
	for _, o := range r.Obls {
		if o.Status == Undecided {
			fmt.Printf("ERROR: property=%s undecided obligation %s at %s: %s\n", r.Property, o.Key(), o.Pos, o.Detail)
		}
	}
	for _, e := range r.Errors {
		fmt.Printf("ERROR: property=%s %s\n", r.Property, e)
	}

	// samples: rotate by seed, always include violated/known ones
	var samples []any
	for _, o := range r.Obls {
		if o.Status != Discharged {
			samples = append(samples, o)
		}
	}
	if n := len(r.Obls); n > 0 {
		start := int(m.Seed % int64(n))
		if start < 0 {
			start = -start
		}
		perRule := map[string]int{}
		for i := 0; i < n && len(samples) < 40; i++ {
			o := r.Obls[(start+i)%n]
			if o.Status == Discharged && perRule[o.Rule] < 3 {
				perRule[o.Rule]++
				samples = append(samples, o)
			}
		}
	}
	ruleInst := map[string]int{}
	for k, v := range r.Counts {
		ruleInst[k] = v
	}
	expl := strings.Join(r.Explanation, " ")
	if expl == "" {
		expl = "static rules over the type-checked program, SSA and call graph of /repo"
	}
	cov := map[string]any{
		"explanation":        expl,
		"obligations":        len(r.Obls),
		"discharged":         nDis,
		"violated_known":     nKnown,
		"violated_new":       nViol,
		"undecided":          nUndec,
		"rule_instances":     ruleInst,
		"functions_analysed": len(r.funcsSeen),
		"stats":              r.Stats,
		"packages":           m.Packages,
		"repo_packages":      m.RepoPkgs,
		"callgraph":          map[string]any{"algo": m.CGAlgo, "nodes": m.CGNodes, "edges": m.CGEdges},
		"tree_hash":          m.TreeHash,
		"exhaustive":         true,
		"samples":            samples,
		"checker_cmd":        m.CheckerCmd,
		"trusted_base": []string{
			"Go type checker, go/packages, go/ssa, callgraph/vta+cha of golang.org/x/tools v0.50.0",
			"no reflective/cgo/assembly call path into the S3 client (asserted: repo packages do not use reflect.Value.Call/Method or plugin)",
			"aws-sdk-go request methods do what their names say; mast v1.2.33 as pinned by go.sum",
		},
		"notes":       r.Notes,
		"infra_error": r.Errors,
	}
	if m.SelfTest != nil {
		cov["self_validation"] = m.SelfTest
	}
	ev := map[string]any{
		"property_id": r.Property,
		"tier":        m.Tier,
		"seed":        m.Seed,
		"level":       "other",
		"coverage":    cov,
		"assumptions": []string{
			"decides the named structural clauses only (see coverage.explanation and DESIGN.md section 5), not the runtime behaviour as a whole",
			"call-graph soundness as in trusted_base",
		},
		"wall_s":     m.WallS,
		"violations": nViol,
	}
	b, _ := json.MarshalIndent(ev, "", " ")
	if m.EvidenceOut != "" {
		os.MkdirAll(filepath.Dir(m.EvidenceOut), 0o755)
		if err := os.WriteFile(m.EvidenceOut, b, 0o644); err != nil {
			fmt.Printf("ERROR: cannot write evidence: %v\n", err)
			return 2
		}
	}
	fmt.Printf("property=%s tier=%s obligations=%d discharged=%d known=%d violated=%d undecided=%d rules=%d funcs=%d wall=%.1fs\n",
		r.Property, m.Tier, len(r.Obls), nDis, nKnown, nViol, nUndec, len(r.Counts), len(r.funcsSeen), m.WallS)
	if nViol > 0 {
		return 1
	}
	if nUndec > 0 || len(r.Errors) > 0 {
		return 2
	}
	return 0
}

func firstNonEmpty(a, b string) string {
	if a != "" {
		return a
	}
	return b
}
