package an

import (
	"fmt"
	"go/constant"
	"go/token"
	"go/types"
	"sort"
	"strings"

	"golang.org/x/tools/go/ssa"
)

// ---- bool-flag path facts -------------------------------------------------------------------

type boolEnv map[ssa.Value]bool

func (e boolEnv) key() string {
	var ks []string
	for v, b := range e {
		ks = append(ks, fmt.Sprintf("%s=%v", v.Name(), b))
	}
	sort.Strings(ks)
	return strings.Join(ks, ",")
}

func (e boolEnv) clone() boolEnv {
	n := boolEnv{}
	for k, v := range e {
		n[k] = v
	}
	return n
}

func constBoolVal(v ssa.Value) (bool, bool) {
	if k, ok := v.(*ssa.Const); ok && k.Value != nil && k.Value.Kind() == constant.Bool {
		return constant.BoolVal(k.Value), true
	}
	return false, false
}

// ReachableWithFacts reports whether target is reachable when control takes the edge
// from->to, propagating the values of boolean phis (flags such as "skip") and following only the
// feasible side of branches on known flags. Blocks in stop are not entered (use the block that
// (re)defines the value under test so that a later loop iteration does not count).
// init seeds known boolean values (may be nil).
func ReachableWithFacts(from, to, target *ssa.BasicBlock, stop map[*ssa.BasicBlock]bool, init map[ssa.Value]bool) bool {
	return ReachableWithFactsAvoiding(from, to, target, stop, init, nil)
}

// ReachableWithFactsAvoiding is ReachableWithFacts with a set of forbidden edges. If to is nil
// the walk starts at block from itself (its phis are not evaluated).
func ReachableWithFactsAvoiding(from, to, target *ssa.BasicBlock, stop map[*ssa.BasicBlock]bool, init map[ssa.Value]bool, forbid map[[2]*ssa.BasicBlock]bool) bool {
	type state struct {
		b   *ssa.BasicBlock
		env boolEnv
	}
	seen := map[string]bool{}
	enter := func(p, b *ssa.BasicBlock, env boolEnv) boolEnv {
		env = env.clone()
		idx := -1
		for i, pp := range b.Preds {
			if pp == p {
				idx = i
				break
			}
		}
		// parallel assignment: read all incoming values against the old env
		old := env.clone()
		for _, in := range b.Instrs {
			ph, ok := in.(*ssa.Phi)
			if !ok {
				break
			}
			if !isBool(ph.Type()) || idx < 0 {
				continue
			}
			inc := ph.Edges[idx]
			if c, ok := constBoolVal(inc); ok {
				env[ph] = c
			} else if v, ok := old[inc]; ok {
				env[ph] = v
			} else {
				delete(env, ph)
			}
		}
		return env
	}
	start := boolEnv{}
	for k, v := range init {
		start[k] = v
	}
	var work []state
	first := true
	if to == nil {
		work = []state{{from, start}}
	} else {
		first = false
		work = []state{{to, enter(from, to, start)}}
	}
	for len(work) > 0 {
		s := work[len(work)-1]
		work = work[:len(work)-1]
		if stop[s.b] && !first {
			continue
		}
		first = false
		k := fmt.Sprintf("%d|%s", s.b.Index, s.env.key())
		if seen[k] {
			continue
		}
		seen[k] = true
		if s.b == target {
			return true
		}
		succs := s.b.Succs
		if iff, ok := s.b.Instrs[len(s.b.Instrs)-1].(*ssa.If); ok {
			cond, neg := StripNot(iff.Cond)
			val, known := s.env[cond]
			if c, ok := constBoolVal(cond); ok {
				val, known = c, true
			}
			if known {
				if neg {
					val = !val
				}
				if val {
					succs = succs[:1]
				} else {
					succs = succs[1:]
				}
			}
		}
		for _, n := range succs {
			if forbid[[2]*ssa.BasicBlock{s.b, n}] {
				continue
			}
			work = append(work, state{n, enter(s.b, n, s.env)})
		}
	}
	return false
}

func isBool(t types.Type) bool {
	b, ok := t.Underlying().(*types.Basic)
	return ok && b.Kind() == types.Bool
}

// ---- structural value keys --------------------------------------------------------------------

// ExprKey renders v as an expression over "root" SSA values (parameters, call results, phis,
// extracts of calls): two values with equal keys denote the same expression. It looks through
// loads, field addresses, type assertions and identity conversions. Memory is assumed not to be
// written between the two evaluations (callers check that where it matters).
func ExprKey(v ssa.Value) string {
	switch x := v.(type) {
	case *ssa.UnOp:
		if x.Op == token.MUL {
			return "*(" + ExprKey(x.X) + ")"
		}
	case *ssa.FieldAddr:
		fv := FieldVar(x.X.Type(), x.Field)
		n := fmt.Sprint(x.Field)
		if fv != nil {
			n = fv.Name()
		}
		return "&(" + ExprKey(x.X) + ")." + n
	case *ssa.Field:
		fv := FieldVar(x.X.Type(), x.Field)
		n := fmt.Sprint(x.Field)
		if fv != nil {
			n = fv.Name()
		}
		return "(" + ExprKey(x.X) + ")." + n
	case *ssa.IndexAddr:
		return "&(" + ExprKey(x.X) + ")[" + ExprKey(x.Index) + "]"
	case *ssa.BinOp:
		return "(" + ExprKey(x.X) + x.Op.String() + ExprKey(x.Y) + ")"
	case *ssa.Call:
		if b, ok := x.Call.Value.(*ssa.Builtin); ok && (b.Name() == "len" || b.Name() == "cap") && len(x.Call.Args) == 1 {
			return b.Name() + "(" + ExprKey(x.Call.Args[0]) + ")"
		}
		// pure constructors of the time package: equal arguments give equal values
		if f := x.Call.StaticCallee(); f != nil && f.Pkg != nil && f.Pkg.Pkg.Path() == "time" && (f.Name() == "Unix" || f.Name() == "UnixMilli" || f.Name() == "UnixMicro") {
			var as []string
			for _, a := range x.Call.Args {
				as = append(as, ExprKey(a))
			}
			return "time." + f.Name() + "(" + strings.Join(as, ",") + ")"
		}
	case *ssa.Const:
		return "const:" + x.String()
	case *ssa.TypeAssert:
		return "assert[" + x.AssertedType.String() + "](" + ExprKey(x.X) + ")"
	case *ssa.Extract:
		if ta, ok := x.Tuple.(*ssa.TypeAssert); ok && x.Index == 0 {
			return "assert[" + ta.AssertedType.String() + "](" + ExprKey(ta.X) + ")"
		}
	case *ssa.ChangeType:
		return ExprKey(x.X)
	case *ssa.MakeInterface:
		return ExprKey(x.X)
	case *ssa.ChangeInterface:
		return ExprKey(x.X)
	}
	return v.Name()
}

// ExprRoot returns the root SSA value of the expression (see ExprKey).
func ExprRoot(v ssa.Value) ssa.Value {
	for {
		switch x := v.(type) {
		case *ssa.UnOp:
			if x.Op != token.MUL {
				return v
			}
			v = x.X
		case *ssa.FieldAddr:
			v = x.X
		case *ssa.Field:
			v = x.X
		case *ssa.TypeAssert:
			v = x.X
		case *ssa.Extract:
			if ta, ok := x.Tuple.(*ssa.TypeAssert); ok && x.Index == 0 {
				v = ta.X
			} else {
				return v
			}
		case *ssa.ChangeType:
			v = x.X
		case *ssa.MakeInterface:
			v = x.X
		case *ssa.ChangeInterface:
			v = x.X
		default:
			return v
		}
	}
}

// ---- backward dependence ------------------------------------------------------------------------

// DependsOn reports whether v is computed (through operands, and through stores into local
// allocations that v reads) from some value satisfying pred.
func DependsOn(v ssa.Value, pred func(ssa.Value) bool) bool {
	seen := map[ssa.Value]bool{}
	var walk func(v ssa.Value, depth int) bool
	walk = func(v ssa.Value, depth int) bool {
		if v == nil || seen[v] || depth > 40 {
			return false
		}
		seen[v] = true
		if pred(v) {
			return true
		}
		// memory: loads / slices of local allocations depend on what was stored into them
		var base ssa.Value
		switch x := v.(type) {
		case *ssa.UnOp:
			if x.Op == token.MUL {
				base = x.X
			}
		case *ssa.Slice:
			base = x.X
		}
		if base != nil {
			root := base
			for {
				if fa, ok := root.(*ssa.FieldAddr); ok {
					root = fa.X
				} else if ia, ok := root.(*ssa.IndexAddr); ok {
					root = ia.X
				} else {
					break
				}
			}
			if al, ok := root.(*ssa.Alloc); ok {
				if storesInto(al, func(val ssa.Value) bool { return walk(val, depth+1) }) {
					return true
				}
			}
		}
		if al, ok := v.(*ssa.Alloc); ok {
			// a pointer to a local literal: depends on what is stored into it
			if storesInto(al, func(val ssa.Value) bool { return walk(val, depth+1) }) {
				return true
			}
		}
		if in, ok := v.(ssa.Instruction); ok {
			for _, op := range in.Operands(nil) {
				if *op != nil && walk(*op, depth+1) {
					return true
				}
			}
		}
		return false
	}
	return walk(v, 0)
}

// storesInto visits every value stored into al or into an element/field address derived from it.
func storesInto(al ssa.Value, f func(ssa.Value) bool) bool {
	refs := al.Referrers()
	if refs == nil {
		return false
	}
	for _, r := range *refs {
		switch x := r.(type) {
		case *ssa.Store:
			if x.Addr == al && f(x.Val) {
				return true
			}
		case *ssa.FieldAddr:
			if storesInto(x, f) {
				return true
			}
		case *ssa.IndexAddr:
			if storesInto(x, f) {
				return true
			}
		}
	}
	return false
}

// DependsOnThroughAppend is DependsOn (operands include the arguments of append, which is an
// ordinary call in SSA, so this is the same relation; kept separate for readability).
func DependsOnThroughAppend(v ssa.Value, pred func(ssa.Value) bool) bool { return DependsOn(v, pred) }
