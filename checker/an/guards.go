package an

import (
	"go/constant"
	"go/token"
	"go/types"

	"golang.org/x/tools/go/ssa"
)

// sideDominating returns true if the successor of iff taken when cond has value want
// is entered only through iff and dominates b.
func sideDominates(iff *ssa.If, want bool, e Edge) bool {
	blk := iff.Block()
	si := 0
	if !want {
		si = 1
	}
	if OnlyVia(blk, si, e.From) {
		return true
	}
	// the guarded edge is the branch edge itself (e.g. "if cond { continue }" compiled to a
	// direct jump to the loop header)
	return blk == e.From && blk.Succs[si] == e.To && blk.Succs[1-si] != e.To
}

// Edge is a control-flow edge; To may be nil when only the block matters.
type Edge struct{ From, To *ssa.BasicBlock }

// eachIf calls f for every If of fn with its condition stripped of negations.
func eachIf(fn *ssa.Function, f func(iff *ssa.If, cond ssa.Value, neg bool)) {
	for _, b := range fn.Blocks {
		if len(b.Instrs) == 0 {
			continue
		}
		if iff, ok := b.Instrs[len(b.Instrs)-1].(*ssa.If); ok {
			c, neg := StripNot(iff.Cond)
			f(iff, c, neg)
		}
	}
}

// GuardedByCall reports whether b executes only when a call to pkgPath.name returned true.
func GuardedByCall(b Edge, pkgPath, name string) bool {
	found := false
	eachIf(b.From.Parent(), func(iff *ssa.If, cond ssa.Value, neg bool) {
		call, ok := cond.(*ssa.Call)
		if !ok {
			return
		}
		f := call.Call.StaticCallee()
		if f == nil || f.Pkg == nil || f.Pkg.Pkg.Path() != pkgPath || f.Name() != name {
			return
		}
		if sideDominates(iff, !neg, b) {
			found = true
		}
	})
	return found
}

// GuardedByStringEq reports whether b executes only when <method call>() == the given string
// constant (e.g. ae.Code() == "NoSuchKey").
func GuardedByStringEq(b Edge, method, konst string) bool {
	found := false
	eachIf(b.From.Parent(), func(iff *ssa.If, cond ssa.Value, neg bool) {
		bo, ok := cond.(*ssa.BinOp)
		if !ok || (bo.Op != token.EQL && bo.Op != token.NEQ) {
			return
		}
		isConst := func(v ssa.Value) bool {
			k, ok := v.(*ssa.Const)
			return ok && k.Value != nil && k.Value.Kind() == constant.String && constant.StringVal(k.Value) == konst
		}
		isCall := func(v ssa.Value) bool {
			c, ok := v.(*ssa.Call)
			return ok && calleeName(c) == method
		}
		if !(isConst(bo.X) && isCall(bo.Y) || isConst(bo.Y) && isCall(bo.X)) {
			return
		}
		want := bo.Op == token.EQL
		if neg {
			want = !want
		}
		if sideDominates(iff, want, b) {
			found = true
		}
	})
	return found
}

// GuardedByValue reports whether b executes only when boolean value v (a parameter, a
// loaded flag, ...) is `want`.
func GuardedByValue(b Edge, match func(ssa.Value) bool, want bool) bool {
	found := false
	eachIf(b.From.Parent(), func(iff *ssa.If, cond ssa.Value, neg bool) {
		if !match(cond) {
			return
		}
		w := want
		if neg {
			w = !w
		}
		if sideDominates(iff, w, b) {
			found = true
		}
	})
	return found
}

// ParamNamed returns the parameter of fn with that name.
// ParamOfType finds a parameter by its present name and, if the name is gone (a rename is the
// maintainer's business), the single parameter whose type prints as typ.
func ParamOfType(fn *ssa.Function, name, typ string) *ssa.Parameter {
	if p := ParamNamed(fn, name); p != nil && p.Type().String() == typ {
		return p
	}
	var found *ssa.Parameter
	for _, p := range fn.Params {
		if p.Type().String() == typ {
			if found != nil {
				return nil
			}
			found = p
		}
	}
	return found
}

// BoolParamUnderError finds a bool parameter by its present name and, if the name is gone, by
// role: the single bool parameter that is tested on the non-nil side of an error test (the
// "may this failure be passed over" switch of a loader).
func BoolParamUnderError(fn *ssa.Function, name string) *ssa.Parameter {
	if p := ParamOfType(fn, name, "bool"); p != nil {
		return p
	}
	var found *ssa.Parameter
	for _, p := range fn.Params {
		if p.Type().String() != "bool" {
			continue
		}
		hit := false
		eachIf(fn, func(iff *ssa.If, cond ssa.Value, neg bool) {
			if cond != ssa.Value(p) {
				return
			}
			if GuardedByNilTest(Edge{From: iff.Block()}, func(v ssa.Value) bool { return IsErrorType(v.Type()) }, false) {
				hit = true
			}
		})
		if hit {
			if found != nil {
				return nil
			}
			found = p
		}
	}
	return found
}

func ParamNamed(fn *ssa.Function, name string) *ssa.Parameter {
	for _, p := range fn.Params {
		if p.Name() == name {
			return p
		}
	}
	return nil
}

// anyNilTest recognises "v == nil"/"v != nil" (and the comma-ok assertion of an error to an
// interface every error implements) on any value; returns the tested value and the successor
// indices of the nil and non-nil sides.
func anyNilTest(iff *ssa.If) (val ssa.Value, nilIdx int, ok bool) {
	cond, neg := StripNot(iff.Cond)
	switch c := cond.(type) {
	case *ssa.BinOp:
		if c.Op != token.NEQ && c.Op != token.EQL {
			return nil, 0, false
		}
		var v ssa.Value
		if isNilConst(c.Y) {
			v = c.X
		} else if isNilConst(c.X) {
			v = c.Y
		} else {
			return nil, 0, false
		}
		isNE := c.Op == token.NEQ
		if neg {
			isNE = !isNE
		}
		if isNE {
			return v, 1, true
		}
		return v, 0, true
	case *ssa.Extract:
		ta, isTA := c.Tuple.(*ssa.TypeAssert)
		if !isTA || !ta.CommaOk || c.Index != 1 {
			return nil, 0, false
		}
		it, isI := ta.AssertedType.Underlying().(*types.Interface)
		if !isI || !types.Implements(ta.X.Type(), it) {
			return nil, 0, false
		}
		if neg {
			return ta.X, 0, true
		}
		return ta.X, 1, true
	}
	return nil, 0, false
}

// DeadBlocks returns blocks that cannot execute because they lie on the non-nil side of a nil
// test of a value that an earlier test (whose nil side leads here) already found to be nil.
// SSA values are immutable, so the fact is sound.
func DeadBlocks(fn *ssa.Function) map[*ssa.BasicBlock]bool {
	type test struct {
		b      *ssa.BasicBlock
		val    ssa.Value
		nilIdx int
	}
	var tests []test
	for _, b := range fn.Blocks {
		if len(b.Instrs) == 0 {
			continue
		}
		if iff, ok := b.Instrs[len(b.Instrs)-1].(*ssa.If); ok {
			if v, ni, ok := anyNilTest(iff); ok {
				tests = append(tests, test{b, v, ni})
			}
		}
	}
	dead := map[*ssa.BasicBlock]bool{}
	for _, t2 := range tests {
		for _, t1 := range tests {
			if t1.b == t2.b || t1.val != t2.val {
				continue
			}
			if !OnlyVia(t1.b, t1.nilIdx, t2.b) {
				continue
			}
			// t2's non-nil side is dead
			nn := t2.b.Succs[1-t2.nilIdx]
			for _, b := range fn.Blocks {
				if b == nn && len(nn.Preds) == 1 || OnlyVia(t2.b, 1-t2.nilIdx, b) {
					dead[b] = true
				}
			}
		}
	}
	return dead
}

// GuardedByNilTest reports whether edge b is only taken when a value accepted by match is nil
// (wantNil) or non-nil.
func GuardedByNilTest(b Edge, match func(ssa.Value) bool, wantNil bool) bool {
	found := false
	eachIf(b.From.Parent(), func(iff *ssa.If, cond ssa.Value, neg bool) {
		v, nilIdx, ok := anyNilTest(iff)
		if !ok || !match(v) {
			return
		}
		si := nilIdx
		if !wantNil {
			si = 1 - nilIdx
		}
		blk := iff.Block()
		if OnlyVia(blk, si, b.From) || (blk == b.From && blk.Succs[si] == b.To) {
			found = true
		}
	})
	return found
}

// ---- one-level summaries of boolean helper functions -------------------------------------------

// trueImplies reports whether a true result of fn implies pred holds "at the return": every
// path that returns true passes a block for which pred(edge) holds, or returns a value that is
// itself such a condition. Used to see through helpers like isNoSuchKey(err).
func trueImplies(fn *ssa.Function, pred func(e Edge) bool, valuePred func(v ssa.Value) bool) bool {
	if fn == nil || len(fn.Blocks) == 0 {
		return false
	}
	var okVal func(v ssa.Value, from *ssa.BasicBlock, depth int) bool
	okVal = func(v ssa.Value, from *ssa.BasicBlock, depth int) bool {
		if depth > 6 {
			return false
		}
		if c, isC := constBoolVal(v); isC {
			return !c // a constant false never yields true; a constant true implies nothing
		}
		if valuePred != nil && valuePred(v) && pred(Edge{From: from}) {
			return true
		}
		if pred(Edge{From: from}) && valuePred == nil {
			return true
		}
		if ph, ok := v.(*ssa.Phi); ok {
			for i, e := range ph.Edges {
				if !okVal(e, ph.Block().Preds[i], depth+1) {
					return false
				}
			}
			return true
		}
		if in, ok := v.(ssa.Instruction); ok && in.Block() != nil {
			if valuePred != nil && valuePred(v) && pred(Edge{From: in.Block()}) {
				return true
			}
		}
		return false
	}
	for _, b := range fn.Blocks {
		ret, ok := b.Instrs[len(b.Instrs)-1].(*ssa.Return)
		if !ok || len(ret.Results) != 1 {
			continue
		}
		if !okVal(RetVal(ret, 0), b, 0) {
			return false
		}
	}
	return true
}

// NoSuchKeyHelper reports whether fn is a bool helper whose true result implies
// errors.As(..) && <x>.Code() == "NoSuchKey".
func NoSuchKeyHelper(fn *ssa.Function) bool {
	if fn == nil || fn.Signature.Results().Len() != 1 || !isBool(fn.Signature.Results().At(0).Type()) {
		return false
	}
	isCodeEq := func(v ssa.Value) bool {
		bo, ok := v.(*ssa.BinOp)
		if !ok || bo.Op != token.EQL {
			return false
		}
		isConst := func(x ssa.Value) bool {
			k, ok := x.(*ssa.Const)
			return ok && k.Value != nil && k.Value.Kind() == constant.String && constant.StringVal(k.Value) == "NoSuchKey"
		}
		isCall := func(x ssa.Value) bool {
			c, ok := x.(*ssa.Call)
			return ok && calleeName(c) == "Code"
		}
		return isConst(bo.X) && isCall(bo.Y) || isConst(bo.Y) && isCall(bo.X)
	}
	return trueImplies(fn, func(e Edge) bool { return GuardedByCall(e, "errors", "As") }, isCodeEq)
}

// GuardedByNoSuchKey: edge e is only taken when the error is a well-formed NoSuchKey answer,
// tested inline or through a one-level bool helper.
func GuardedByNoSuchKey(e Edge) bool {
	if GuardedByCall(e, "errors", "As") && GuardedByStringEq(e, "Code", "NoSuchKey") {
		return true
	}
	found := false
	eachIf(e.From.Parent(), func(iff *ssa.If, cond ssa.Value, neg bool) {
		call, ok := cond.(*ssa.Call)
		if !ok {
			return
		}
		f := call.Call.StaticCallee()
		if f == nil || !NoSuchKeyHelper(f) {
			return
		}
		if sideDominates(iff, !neg, e) {
			found = true
		}
	})
	return found
}

// NilTestOf is the exported form of anyNilTest.
func NilTestOf(iff *ssa.If) (val ssa.Value, nilIdx int, ok bool) { return anyNilTest(iff) }
