// Package an holds the analysis engines shared by the rules (DESIGN.md section 4).
package an

import (
	"fmt"
	"go/token"
	"go/types"
	"os"
	"sort"
	"strings"

	"golang.org/x/tools/go/callgraph"
	"golang.org/x/tools/go/ssa"

	"s3dbcheck/core"
)

// ---- E1: effects = gated reachability of S3 request methods over the call graph ----------

type SinkKind int

const (
	SinkRead SinkKind = iota // GET/HEAD/LIST/Select/Wait
	SinkMut                  // everything else: PUT, DELETE, COPY, Create*, Upload*, ...
)

const awsPrefix = "github.com/aws/aws-sdk-go"
const s3PkgPath = "github.com/aws/aws-sdk-go/service/s3"

// SinkOf classifies fn if it is a request method of *service/s3.S3.
func SinkOf(fn *ssa.Function) (SinkKind, bool) {
	if fn == nil || fn.Signature == nil || fn.Signature.Recv() == nil {
		return 0, false
	}
	t := fn.Signature.Recv().Type()
	if pt, ok := t.(*types.Pointer); ok {
		t = pt.Elem()
	}
	nt, ok := t.(*types.Named)
	if !ok || nt.Obj().Pkg() == nil || nt.Obj().Pkg().Path() != s3PkgPath || nt.Obj().Name() != "S3" {
		return 0, false
	}
	n := fn.Name()
	for _, pre := range []string{"Get", "Head", "List", "Select", "Wait"} {
		if strings.HasPrefix(n, pre) {
			return SinkRead, true
		}
	}
	return SinkMut, true
}

// FlagField names a read-only flag anchor.
type FlagField struct{ PkgRel, Type, Field string }

// ReadOnlyFlags are the three flags that mean "this handle must not modify the bucket".
var ReadOnlyFlags = []FlagField{
	{"kv", "DB", "readonly"},
	{"kv", "OpenOptions", "ReadOnly"},
	{"", "S3Options", "ReadOnly"},
}

// Effects answers reachability queries.
type Effects struct {
	P     *core.Program
	CG    *callgraph.Graph
	Flags map[*types.Var]string // resolved flag fields
	gates map[*ssa.Function][]*Gate
	// exception: the in-process fake S3 server bootstrap (creates the fake's own bucket).
	skipPkgs map[string]bool
}

// Gate is a conditional on a read-only flag.
type Gate struct {
	Fn        *ssa.Function
	If        *ssa.If
	Flag      string
	FalseSucc *ssa.BasicBlock // block entered only when the flag is false (nil: not usable)
	TrueSucc  *ssa.BasicBlock
}

func NewEffects(p *core.Program, cg *callgraph.Graph) (*Effects, error) {
	e := &Effects{P: p, CG: cg, Flags: map[*types.Var]string{}, gates: map[*ssa.Function][]*Gate{},
		skipPkgs: map[string]bool{"github.com/jrhy/mast/persist/s3test": true}}
	for _, ff := range ReadOnlyFlags {
		v := LookupField(p, ff.PkgRel, ff.Type, ff.Field)
		if v == nil {
			return nil, fmt.Errorf("read-only flag anchor %s.%s.%s not found", ff.PkgRel, ff.Type, ff.Field)
		}
		e.Flags[v] = ff.Type + "." + ff.Field
	}
	return e, nil
}

// LookupField resolves a struct field object of a repo type.
func LookupField(p *core.Program, pkgRel, typ, field string) *types.Var {
	pk := p.Pkg(pkgRel)
	if pk == nil {
		return nil
	}
	tn, _ := pk.Types.Scope().Lookup(typ).(*types.TypeName)
	if tn == nil {
		// an unexported type that was renamed: the only struct of the package that has the
		// recorded field (same name, position and type)
		if want, ok := core.AnchorFields[pkgRel+"|"+typ+"|"+field]; ok {
			var idx int
			fmt.Sscanf(want, "%d:", &idx)
			wantT := want[strings.Index(want, ":")+1:]
			var cands []*types.TypeName
			for _, n := range pk.Types.Scope().Names() {
				t2, ok := pk.Types.Scope().Lookup(n).(*types.TypeName)
				if !ok {
					continue
				}
				if st2, ok := t2.Type().Underlying().(*types.Struct); ok && idx < st2.NumFields() && st2.Field(idx).Name() == field && st2.Field(idx).Type().String() == wantT {
					cands = append(cands, t2)
				}
			}
			if len(cands) == 1 {
				tn = cands[0]
			}
		}
	}
	if tn == nil {
		return nil
	}
	st, ok := tn.Type().Underlying().(*types.Struct)
	if !ok {
		return nil
	}
	key := pkgRel + "|" + typ + "|" + field
	for i := 0; i < st.NumFields(); i++ {
		if st.Field(i).Name() == field {
			if rec := os.Getenv("S3DBCHECK_RECORD_ANCHORS"); rec != "" {
				if f, err := os.OpenFile(rec, os.O_APPEND|os.O_CREATE|os.O_WRONLY, 0o644); err == nil {
					fmt.Fprintf(f, "field:%s\t%d:%s\n", key, i, st.Field(i).Type().String())
					f.Close()
				}
			}
			return st.Field(i)
		}
	}
	// renamed? (the name of an unexported field is the maintainer's business) fall back to what was
	// recorded on the reference tree: the only field of the recorded type, or — several fields of
	// that type — the one at the recorded position, provided no field of the struct carries a
	// name the table does not know for it (a rename, not a reshuffle)
	want, ok := core.AnchorFields[key]
	if !ok {
		return nil
	}
	var idx int
	var wantT string
	if _, err := fmt.Sscanf(want, "%d:", &idx); err != nil {
		return nil
	}
	wantT = want[strings.Index(want, ":")+1:]
	var cands []*types.Var
	for i := 0; i < st.NumFields(); i++ {
		if st.Field(i).Type().String() == wantT {
			cands = append(cands, st.Field(i))
		}
	}
	if len(cands) == 1 {
		return cands[0]
	}
	if len(cands) > 1 && idx < st.NumFields() && st.Field(idx).Type().String() == wantT {
		// the other recorded fields of the struct still sit where they were recorded
		for k2, w2 := range core.AnchorFields {
			if !strings.HasPrefix(k2, pkgRel+"|"+typ+"|") || k2 == key {
				continue
			}
			var i2 int
			fmt.Sscanf(w2, "%d:", &i2)
			if i2 >= st.NumFields() || st.Field(i2).Type().String() != w2[strings.Index(w2, ":")+1:] {
				return nil
			}
		}
		return st.Field(idx)
	}
	return nil
}

// FieldOfLoad returns the struct field read by v if v is a load of x.f (through FieldAddr+load or Field).
func FieldOfLoad(v ssa.Value) *types.Var {
	switch x := v.(type) {
	case *ssa.UnOp:
		if x.Op == token.MUL {
			if fa, ok := x.X.(*ssa.FieldAddr); ok {
				return FieldVar(fa.X.Type(), fa.Field)
			}
		}
	case *ssa.Field:
		return FieldVar(x.X.Type(), x.Field)
	}
	return nil
}

// FieldVar returns field #i of the struct (or pointer to struct) type t.
func FieldVar(t types.Type, i int) *types.Var {
	if pt, ok := t.Underlying().(*types.Pointer); ok {
		t = pt.Elem()
	}
	st, ok := t.Underlying().(*types.Struct)
	if !ok || i >= st.NumFields() {
		return nil
	}
	return st.Field(i)
}

// StripNot removes leading boolean negations; neg reports an odd count.
func StripNot(v ssa.Value) (ssa.Value, bool) {
	neg := false
	for {
		u, ok := v.(*ssa.UnOp)
		if !ok || u.Op != token.NOT {
			return v, neg
		}
		neg = !neg
		v = u.X
	}
}

// Gates lists the read-only gates of fn.
func (e *Effects) Gates(fn *ssa.Function) []*Gate {
	if g, ok := e.gates[fn]; ok {
		return g
	}
	var out []*Gate
	for _, b := range fn.Blocks {
		if len(b.Instrs) == 0 {
			continue
		}
		iff, ok := b.Instrs[len(b.Instrs)-1].(*ssa.If)
		if !ok {
			continue
		}
		c, neg := StripNot(iff.Cond)
		fv := FieldOfLoad(c)
		if fv == nil {
			continue
		}
		name, ok := e.Flags[fv]
		if !ok {
			continue
		}
		g := &Gate{Fn: fn, If: iff, Flag: name}
		t, f := b.Succs[0], b.Succs[1]
		if neg {
			t, f = f, t
		}
		// t: flag is true, f: flag is false
		if len(f.Preds) == 1 {
			g.FalseSucc = f
		}
		if len(t.Preds) == 1 {
			g.TrueSucc = t
		}
		out = append(out, g)
	}
	e.gates[fn] = out
	return out
}

// Gated reports whether instr executes only when some read-only flag is false.
func (e *Effects) Gated(instr ssa.Instruction) *Gate {
	b := instr.Block()
	if b == nil {
		return nil
	}
	for _, g := range e.Gates(b.Parent()) {
		if g.FalseSucc != nil && g.FalseSucc.Dominates(b) {
			return g
		}
	}
	return nil
}

// Step is one call edge on a reported path.
type Step struct {
	Caller *ssa.Function
	Site   ssa.CallInstruction
	Callee *ssa.Function
}

// SinkHit is a reachable sink with one witness path.
type SinkHit struct {
	Sink *ssa.Function
	Kind SinkKind
	Path []Step
}

// ReachResult of one query.
type ReachResult struct {
	Hits      []SinkHit
	Visited   int
	CutEdges  int // edges skipped because gated
	CutToSink int // gated edges whose callee reaches (or is) a sink
}

// Reach walks the call graph from entries. With cutGated, call edges whose site is gated by a
// read-only flag are not followed. The walk stops at the aws-sdk-go boundary.
func (e *Effects) Reach(entries []*ssa.Function, cutGated bool) *ReachResult {
	type qe struct {
		fn   *ssa.Function
		prev *qe
		site ssa.CallInstruction
	}
	res := &ReachResult{}
	seen := map[*ssa.Function]bool{}
	var queue []*qe
	for _, fn := range entries {
		if fn != nil && !seen[fn] {
			seen[fn] = true
			queue = append(queue, &qe{fn: fn})
		}
	}
	hit := map[*ssa.Function]bool{}
	for len(queue) > 0 {
		cur := queue[0]
		queue = queue[1:]
		res.Visited++
		node := e.CG.Nodes[cur.fn]
		if node == nil {
			continue
		}
		outs := append([]*callgraph.Edge(nil), node.Out...)
		sort.SliceStable(outs, func(i, j int) bool {
			pi, pj := token.NoPos, token.NoPos
			if outs[i].Site != nil {
				pi = outs[i].Site.Pos()
			}
			if outs[j].Site != nil {
				pj = outs[j].Site.Pos()
			}
			if pi != pj {
				return pi < pj
			}
			return outs[i].Callee.Func.String() < outs[j].Callee.Func.String()
		})
		for _, ed := range outs {
			callee := ed.Callee.Func
			if callee == nil {
				continue
			}
			if cutGated && ed.Site != nil && e.Gated(ed.Site) != nil {
				res.CutEdges++
				continue
			}
			if k, ok := SinkOf(callee); ok {
				if !hit[callee] {
					hit[callee] = true
					h := SinkHit{Sink: callee, Kind: k}
					h.Path = append(h.Path, Step{cur.fn, ed.Site, callee})
					for q := cur; q.prev != nil; q = q.prev {
						h.Path = append([]Step{{q.prev.fn, q.site, q.fn}}, h.Path...)
					}
					res.Hits = append(res.Hits, h)
				}
				continue
			}
			if pk := pkgPathOf(callee); strings.HasPrefix(pk, awsPrefix) || e.skipPkgs[pk] {
				continue
			}
			if !seen[callee] {
				seen[callee] = true
				queue = append(queue, &qe{fn: callee, prev: cur, site: ed.Site})
			}
		}
	}
	sort.Slice(res.Hits, func(i, j int) bool { return res.Hits[i].Sink.Name() < res.Hits[j].Sink.Name() })
	return res
}

func pkgPathOf(fn *ssa.Function) string {
	for f := fn; f != nil; f = f.Parent() {
		if f.Pkg != nil && f.Pkg.Pkg != nil {
			return f.Pkg.Pkg.Path()
		}
	}
	if fn.Object() != nil && fn.Object().Pkg() != nil {
		return fn.Object().Pkg().Path()
	}
	if o := fn.Origin(); o != nil && o != fn {
		return pkgPathOf(o)
	}
	return ""
}

// PkgPathOf is exported for rules.
func PkgPathOf(fn *ssa.Function) string { return pkgPathOf(fn) }

// ReachSet returns every function from which some sink of the wanted kinds is reachable
// (reverse closure over the call graph, no gates). kinds==nil: any sink.
func (e *Effects) ReachSet(want func(SinkKind) bool) map[*ssa.Function]bool {
	return e.reachSet(want, false)
}

// ReachSetCut is ReachSet with read-only-gated call edges removed.
func (e *Effects) ReachSetCut(want func(SinkKind) bool) map[*ssa.Function]bool {
	return e.reachSet(want, true)
}

func (e *Effects) reachSet(want func(SinkKind) bool, cut bool) map[*ssa.Function]bool {
	out := map[*ssa.Function]bool{}
	var work []*ssa.Function
	for fn, node := range e.CG.Nodes {
		if fn == nil {
			continue
		}
		if k, ok := SinkOf(fn); ok && (want == nil || want(k)) {
			for _, in := range node.In {
				c := in.Caller.Func
				if cut && in.Site != nil && e.Gated(in.Site) != nil {
					continue
				}
				if c != nil && !out[c] {
					out[c] = true
					work = append(work, c)
				}
			}
		}
	}
	for len(work) > 0 {
		fn := work[len(work)-1]
		work = work[:len(work)-1]
		pk := pkgPathOf(fn)
		if e.skipPkgs[pk] {
			delete(out, fn)
			continue
		}
		node := e.CG.Nodes[fn]
		if node == nil {
			continue
		}
		for _, in := range node.In {
			c := in.Caller.Func
			if c == nil || out[c] {
				continue
			}
			if strings.HasPrefix(pkgPathOf(c), awsPrefix) {
				continue
			}
			if cut && in.Site != nil && e.Gated(in.Site) != nil {
				continue
			}
			out[c] = true
			work = append(work, c)
		}
	}
	return out
}

// PathStrings renders a witness path.
func (e *Effects) PathStrings(path []Step) []string {
	var out []string
	for _, s := range path {
		pos := "-"
		if s.Site != nil {
			pos = e.P.Pos(s.Site.Pos())
		}
		out = append(out, fmt.Sprintf("%s -> %s  (%s)", core.FuncName(s.Caller), core.FuncName(s.Callee), pos))
	}
	return out
}

// Callees returns the possible callees of a call instruction according to the graph.
func (e *Effects) Callees(site ssa.CallInstruction) []*ssa.Function {
	fn := site.Parent()
	node := e.CG.Nodes[fn]
	if node == nil {
		return nil
	}
	var out []*ssa.Function
	for _, ed := range node.Out {
		if ed.Site == site && ed.Callee.Func != nil {
			out = append(out, ed.Callee.Func)
		}
	}
	return out
}
