package an

import (
	"go/types"
	"sort"
	"strings"

	"golang.org/x/tools/go/ssa"

	"s3dbcheck/core"
)

const sqlitePkgPath = "go.riyazali.net/sqlite"

// Entry is an externally invocable function of the repository.
type Entry struct {
	Fn     *ssa.Function
	Iface  string // sqlite interface it implements ("" for exported API)
	Method string
	Recv   string // receiver type name without package ("" for functions)
	PkgRel string
}

// Name is a stable label.
func (e Entry) Name() string { return core.FuncName(e.Fn) }

// LibraryPkg reports whether a module-relative package path is library code whose
// behaviour the properties are about (not CLI mains, examples or test helpers).
func LibraryPkg(rel string) bool {
	switch {
	case rel == "test", rel == "example-go-app", strings.HasPrefix(rel, "kv/cmd"):
		return false
	}
	return true
}

// SqliteEntries discovers every method of a repo type that implements an interface of
// go.riyazali.net/sqlite: these are the callbacks SQLite can invoke.
func SqliteEntries(p *core.Program) []Entry {
	spk := p.ByPath[sqlitePkgPath]
	if spk == nil {
		return nil
	}
	type ifc struct {
		name string
		t    *types.Interface
	}
	var ifaces []ifc
	sc := spk.Types.Scope()
	for _, n := range sc.Names() {
		tn, ok := sc.Lookup(n).(*types.TypeName)
		if !ok || !tn.Exported() {
			continue
		}
		if it, ok := tn.Type().Underlying().(*types.Interface); ok && it.NumMethods() > 0 {
			ifaces = append(ifaces, ifc{n, it})
		}
	}
	var out []Entry
	seen := map[*ssa.Function]bool{}
	for _, pk := range p.Roots {
		rel := strings.TrimPrefix(strings.TrimPrefix(pk.PkgPath, core.ModPath), "/")
		psc := pk.Types.Scope()
		for _, n := range psc.Names() {
			tn, ok := psc.Lookup(n).(*types.TypeName)
			if !ok || tn.IsAlias() {
				continue
			}
			if _, isIface := tn.Type().Underlying().(*types.Interface); isIface {
				continue
			}
			for _, T := range []types.Type{tn.Type(), types.NewPointer(tn.Type())} {
				for _, ic := range ifaces {
					if !types.Implements(T, ic.t) {
						continue
					}
					ms := p.SSA.MethodSets.MethodSet(T)
					for i := 0; i < ic.t.NumMethods(); i++ {
						m := ic.t.Method(i)
						sel := ms.Lookup(m.Pkg(), m.Name())
						if sel == nil {
							continue
						}
						fn := p.SSA.MethodValue(sel)
						if fn == nil {
							continue
						}
						// unwrap promoted-method wrappers to the declared method when it is a repo method
						if seen[fn] {
							continue
						}
						seen[fn] = true
						out = append(out, Entry{Fn: fn, Iface: ic.name, Method: m.Name(), Recv: n, PkgRel: rel})
					}
				}
			}
		}
	}
	sort.Slice(out, func(i, j int) bool { return out[i].Name() < out[j].Name() })
	return out
}

// ExportedAPI lists exported functions and exported methods of exported types of a repo package.
func ExportedAPI(p *core.Program, pkgRel string) []Entry {
	pk := p.Pkg(pkgRel)
	if pk == nil {
		return nil
	}
	sp := p.SSA.Package(pk.Types)
	var out []Entry
	seen := map[*ssa.Function]bool{}
	sc := pk.Types.Scope()
	for _, n := range sc.Names() {
		switch o := sc.Lookup(n).(type) {
		case *types.Func:
			if o.Exported() {
				if fn := sp.Func(n); fn != nil && !seen[fn] {
					seen[fn] = true
					out = append(out, Entry{Fn: fn, Method: n, PkgRel: pkgRel})
				}
			}
		case *types.TypeName:
			if !o.Exported() || o.IsAlias() {
				continue
			}
			if _, isIface := o.Type().Underlying().(*types.Interface); isIface {
				continue
			}
			for _, T := range []types.Type{o.Type(), types.NewPointer(o.Type())} {
				ms := p.SSA.MethodSets.MethodSet(T)
				for i := 0; i < ms.Len(); i++ {
					sel := ms.At(i)
					if !sel.Obj().Exported() {
						continue
					}
					fn := p.SSA.MethodValue(sel)
					if fn == nil || seen[fn] {
						continue
					}
					seen[fn] = true
					out = append(out, Entry{Fn: fn, Method: sel.Obj().Name(), Recv: n, PkgRel: pkgRel})
				}
			}
		}
	}
	sort.Slice(out, func(i, j int) bool { return out[i].Name() < out[j].Name() })
	return out
}
