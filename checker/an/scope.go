package an

import (
	"golang.org/x/tools/go/ssa"
)

// ---- bounded interprocedural view: an anchor function plus the helpers split out of it -----------
//
// Rules are written against one anchor function. A maintainer may split that function: extract a
// helper, wrap a block into an immediately-invoked closure. A Scope is the anchor plus every
// same-package function that is (transitively, bounded) statically called from it and has no
// other caller, so that an instruction inside a helper has exactly one position in the anchor:
// the call site through which it is reached ("lifting"). Ordering and success-dominance are then
// decided on lifted positions; dominance by a helper's success additionally requires that the
// helper propagates the inner error (checked with the error-flow engine).

// Scope is an anchor function with its single-caller helpers.
type Scope struct {
	Root  *ssa.Function
	Funcs []*ssa.Function
	up    map[*ssa.Function]ssa.CallInstruction
	in    map[*ssa.Function]bool
}

// CallSiteIndex maps a function to its static call sites in a set of functions.
type CallSiteIndex map[*ssa.Function][]ssa.CallInstruction

// BuildCallSiteIndex indexes the static call sites of all given functions.
func BuildCallSiteIndex(fns []*ssa.Function) CallSiteIndex {
	idx := CallSiteIndex{}
	for _, f := range fns {
		for _, call := range Calls(f) {
			if cal := call.Common().StaticCallee(); cal != nil {
				idx[cal] = append(idx[cal], call)
			}
		}
	}
	return idx
}

// NewScope builds the scope of root (depth-bounded).
func NewScope(root *ssa.Function, idx CallSiteIndex, maxDepth int) *Scope {
	s := &Scope{Root: root, up: map[*ssa.Function]ssa.CallInstruction{}, in: map[*ssa.Function]bool{root: true}}
	if root == nil {
		return s
	}
	s.Funcs = []*ssa.Function{root}
	pkg := pkgPathOf(root)
	type item struct {
		fn    *ssa.Function
		depth int
	}
	work := []item{{root, 0}}
	for len(work) > 0 {
		it := work[0]
		work = work[1:]
		if it.depth >= maxDepth {
			continue
		}
		for _, call := range Calls(it.fn) {
			cal := call.Common().StaticCallee()
			if cal == nil || s.in[cal] || len(cal.Blocks) == 0 || pkgPathOf(cal) != pkg {
				continue
			}
			// exactly one static call site in the library: the position is unambiguous
			if sites := idx[cal]; len(sites) != 1 {
				continue
			}
			// exported functions can be called from outside: their body is not "part of" root
			if cal.Parent() == nil && cal.Object() != nil && cal.Object().Exported() {
				continue
			}
			s.in[cal] = true
			s.up[cal] = call
			s.Funcs = append(s.Funcs, cal)
			work = append(work, item{cal, it.depth + 1})
		}
	}
	return s
}

// Contains reports whether fn belongs to the scope.
func (s *Scope) Contains(fn *ssa.Function) bool { return s.in[fn] }

// Calls lists the call instructions of every function of the scope.
func (s *Scope) Calls() []ssa.CallInstruction {
	var out []ssa.CallInstruction
	for _, f := range s.Funcs {
		out = append(out, Calls(f)...)
	}
	return out
}

// chain returns in, then the call sites through which its function is reached, up to Root.
func (s *Scope) chain(in ssa.Instruction) []ssa.Instruction {
	out := []ssa.Instruction{in}
	for f := in.Parent(); f != s.Root; {
		site, ok := s.up[f]
		if !ok {
			return out
		}
		out = append(out, site)
		f = site.Parent()
	}
	return out
}

// Lift returns the position of in within Root (in itself if it already is in Root).
func (s *Scope) Lift(in ssa.Instruction) ssa.Instruction {
	c := s.chain(in)
	return c[len(c)-1]
}

// common returns the representatives of a and b in the deepest function both chains pass through.
func (s *Scope) common(a, b ssa.Instruction) (ssa.Instruction, ssa.Instruction, bool) {
	ca, cb := s.chain(a), s.chain(b)
	for _, x := range ca {
		for _, y := range cb {
			if x.Parent() == y.Parent() {
				return x, y, true
			}
		}
	}
	return nil, nil, false
}

// Common is the exported form of common.
func (s *Scope) Common(a, b ssa.Instruction) (ssa.Instruction, ssa.Instruction, bool) {
	return s.common(a, b)
}

// Before: a executes before b on every path to b (lifted dominance).
func (s *Scope) Before(a, b ssa.Instruction) bool {
	x, y, ok := s.common(a, b)
	if !ok || x == y {
		return false
	}
	return InstrBefore(x, y)
}

// ErrPropagatedUp reports whether a failure of call (somewhere in the scope) makes every helper on
// the way up to `level` return a non-nil error, i.e. success of the helper implies success of call.
func (s *Scope) errPropagatedUp(call ssa.CallInstruction, level *ssa.Function) (bool, string) {
	cur := call
	for cur.Parent() != level {
		f := cur.Parent()
		ev, hasErr := ErrResult(cur)
		if !hasErr || ev == nil {
			return false, "an inner call's error is not available in helper " + f.Name()
		}
		if fl := AnalyzeErr(f, ev); fl.Verdict != ErrPropagated {
			return false, "helper " + f.Name() + " does not propagate the inner error (" + fl.Verdict.String() + ")"
		}
		site, ok := s.up[f]
		if !ok {
			return false, "helper " + f.Name() + " has no unique call site"
		}
		cur = site
	}
	return true, ""
}

// SuccessDominates: target runs only after call returned a nil error, where call and target may
// live in different functions of the scope.
func (s *Scope) SuccessDominates(call ssa.CallInstruction, target ssa.Instruction) (bool, string) {
	x, y, ok := s.common(call, target)
	if !ok {
		return false, "not in one scope"
	}
	level := x.Parent()
	xc, isCall := x.(ssa.CallInstruction)
	if !isCall {
		return false, "internal: lifted position is not a call"
	}
	if okp, why := s.errPropagatedUp(call, level); !okp {
		return false, why
	}
	if x == y {
		return false, "both inside the same helper call"
	}
	return SuccessDominates(xc, y)
}

// ArgOfParam maps a parameter of a helper in the scope to the argument at its call site,
// repeatedly, until the value is no longer a parameter of a helper.
func (s *Scope) ArgOfParam(v ssa.Value) ssa.Value {
	for i := 0; i < 4; i++ {
		p, ok := Unwrap(v).(*ssa.Parameter)
		if !ok {
			return v
		}
		f := p.Parent()
		site, ok := s.up[f]
		if !ok || f == s.Root {
			return v
		}
		args := site.Common().Args
		found := false
		for i, fp := range f.Params {
			if fp == p && i < len(args) {
				v = args[i]
				found = true
			}
		}
		if !found {
			// closures: parameters map to call args; free variables to bindings
			return v
		}
	}
	return v
}

// ResolveFree maps a free variable of a closure in the scope to the value bound to it.
func (s *Scope) ResolveFree(v ssa.Value) ssa.Value {
	fv, ok := v.(*ssa.FreeVar)
	if !ok {
		return v
	}
	f := fv.Parent()
	site, ok := s.up[f]
	if !ok {
		return v
	}
	mc, ok := site.Common().Value.(*ssa.MakeClosure)
	if !ok {
		return v
	}
	for i, x := range f.FreeVars {
		if x == fv && i < len(mc.Bindings) {
			return mc.Bindings[i]
		}
	}
	return v
}
