package an

import (
	"go/token"
	"go/types"

	"golang.org/x/tools/go/ssa"
)

// ---- E3: error discipline --------------------------------------------------------------------

var errorType = types.Universe.Lookup("error").Type()

// IsErrorType reports whether t is the predeclared error interface (or a named interface with
// exactly error's method set, such as crdt.MergeError).
func IsErrorType(t types.Type) bool {
	if types.Identical(t, errorType) {
		return true
	}
	it, ok := t.Underlying().(*types.Interface)
	if !ok {
		return false
	}
	return it.NumMethods() == 1 && it.Method(0).Name() == "Error" && types.Implements(t, errorType.Underlying().(*types.Interface))
}

// ErrResult returns the SSA value holding the error result of a call (nil if unused / none).
// hasErr reports whether the callee signature ends in error.
func ErrResult(call ssa.CallInstruction) (val ssa.Value, hasErr bool) {
	sig := call.Common().Signature()
	n := sig.Results().Len()
	if n == 0 || !IsErrorType(sig.Results().At(n-1).Type()) {
		return nil, false
	}
	v := call.Value()
	if v == nil { // go / defer
		return nil, true
	}
	if n == 1 {
		if v.Referrers() == nil || len(*v.Referrers()) == 0 {
			return nil, true
		}
		return v, true
	}
	for _, ref := range *v.Referrers() {
		if ex, ok := ref.(*ssa.Extract); ok && ex.Index == n-1 {
			return ex, true
		}
	}
	return nil, true
}

// ErrVerdict classifies what happens to an error value.
type ErrVerdict int

const (
	ErrPropagated ErrVerdict = iota
	ErrDropped               // never read, or only compared with a sentinel / logged
	ErrSwallowed             // nil-tested, but the non-nil side goes on (continue / fallthrough / return nil)
	ErrStored                // stored into a field or passed somewhere we do not follow
)

func (v ErrVerdict) String() string {
	return [...]string{"propagated", "dropped", "swallowed", "stored"}[v]
}

// ErrFlow is the analysis result for one error value.
type ErrFlow struct {
	Verdict ErrVerdict
	Why     string
	At      token.Pos // where it is swallowed / stored
	// Swallows lists every place where the non-nil side leaves its own branch (continue,
	// fall through) or returns nil; rules use them to check the guards of by-design skips.
	Swallows []Swallow
	// NilTests are the recognised nil tests (for rules that need the guard structure)
	NilTests []*NilTest
}

// NilTest is "if d != nil" (or equivalent) on a value derived from the error.
type NilTest struct {
	If      *ssa.If
	NonNil  *ssa.BasicBlock
	Nil     *ssa.BasicBlock
	Val     ssa.Value
	Dead    bool // non-nil side unreachable by path facts
	Handled bool
	Why     string
}

// derive computes the values that carry e (phi, conversions, wrappers returning error,
// spills through non-escaping locals and variadic slices).
func derive(e ssa.Value) map[ssa.Value]bool {
	d := map[ssa.Value]bool{e: true}
	work := []ssa.Value{e}
	add := func(v ssa.Value) {
		if v != nil && !d[v] {
			d[v] = true
			work = append(work, v)
		}
	}
	for len(work) > 0 {
		v := work[len(work)-1]
		work = work[:len(work)-1]
		refs := v.Referrers()
		if refs == nil {
			continue
		}
		for _, ref := range *refs {
			switch r := ref.(type) {
			case *ssa.Phi:
				add(r)
			case *ssa.ChangeInterface:
				add(r)
			case *ssa.MakeInterface:
				add(r)
			case *ssa.ChangeType:
				add(r)
			case *ssa.TypeAssert:
				if r.X == v && r.CommaOk {
					// the asserted value carries the error too
					for _, rr := range *r.Referrers() {
						if ex, ok := rr.(*ssa.Extract); ok && ex.Index == 0 {
							add(ex)
						}
					}
				} else if r.X == v {
					add(r)
				}
			case *ssa.Store:
				if r.Val != v {
					continue
				}
				switch a := r.Addr.(type) {
				case *ssa.Alloc:
					// spilled local: every load carries it
					for _, ar := range *a.Referrers() {
						if ld, ok := ar.(*ssa.UnOp); ok && ld.Op == token.MUL {
							add(ld)
						}
					}
				case *ssa.IndexAddr:
					// variadic argument array: alloc -> slice -> call
					if al, ok := a.X.(*ssa.Alloc); ok {
						for _, ar := range *al.Referrers() {
							if sl, ok := ar.(*ssa.Slice); ok {
								add(sl)
							}
						}
					}
				}
			case ssa.CallInstruction:
				// wrapper: a call taking the error (or a slice holding it) and returning error
				cv := r.Value()
				if cv == nil {
					continue
				}
				isArg := false
				for _, a := range r.Common().Args {
					if a == v {
						isArg = true
					}
				}
				if !isArg {
					continue
				}
				sig := r.Common().Signature()
				if sig.Results().Len() == 1 && IsErrorType(sig.Results().At(0).Type()) {
					add(cv)
				}
			}
		}
	}
	return d
}

// isNilConst reports whether v is the nil constant.
func isNilConst(v ssa.Value) bool {
	k, ok := v.(*ssa.Const)
	return ok && k.IsNil()
}

// IsNilConst is exported for rules.
func IsNilConst(v ssa.Value) bool { return isNilConst(v) }

// nilTestOf recognises an If whose condition is a nil test of a value in d.
// Returns the non-nil and nil successors.
func nilTestOf(iff *ssa.If, d map[ssa.Value]bool) (nonNil, nilB *ssa.BasicBlock, val ssa.Value, ok bool) {
	cond, neg := StripNot(iff.Cond)
	b := iff.Block()
	switch c := cond.(type) {
	case *ssa.BinOp:
		if c.Op != token.NEQ && c.Op != token.EQL {
			return
		}
		var v ssa.Value
		if d[c.X] && isNilConst(c.Y) {
			v = c.X
		} else if d[c.Y] && isNilConst(c.X) {
			v = c.Y
		} else {
			return
		}
		isNE := c.Op == token.NEQ
		if neg {
			isNE = !isNE
		}
		if isNE {
			return b.Succs[0], b.Succs[1], v, true
		}
		return b.Succs[1], b.Succs[0], v, true
	case *ssa.Extract:
		// ok of "x, ok := err.(I)" where every non-nil error implements I
		ta, isTA := c.Tuple.(*ssa.TypeAssert)
		if !isTA || !ta.CommaOk || c.Index != 1 || !d[ta.X] {
			return
		}
		it, isI := ta.AssertedType.Underlying().(*types.Interface)
		if !isI || !types.Implements(ta.X.Type(), it) {
			return
		}
		if neg {
			return b.Succs[1], b.Succs[0], ta.X, true
		}
		return b.Succs[0], b.Succs[1], ta.X, true
	}
	return
}

// ErrorHandlers: callee names that surface an error to SQLite without a Go return value.
var ErrorHandlers = map[string]bool{"ResultError": true}

// AnalyzeErr decides what happens to error value e inside fn.
func AnalyzeErr(fn *ssa.Function, e ssa.Value) *ErrFlow {
	res := &ErrFlow{}
	d := derive(e)
	fnReturnsErr := false
	if r := fn.Signature.Results(); r.Len() > 0 && IsErrorType(r.At(r.Len()-1).Type()) {
		fnReturnsErr = true
	}
	returned := false
	handlerArg := false
	var stored token.Pos
	for v := range d {
		refs := v.Referrers()
		if refs == nil {
			continue
		}
		for _, ref := range *refs {
			switch r := ref.(type) {
			case *ssa.Return:
				returned = true
			case *ssa.Store:
				if r.Val == v {
					switch r.Addr.(type) {
					case *ssa.Alloc, *ssa.IndexAddr:
					default:
						stored = r.Pos()
					}
				}
			case ssa.CallInstruction:
				if ErrorHandlers[calleeName(r)] {
					for _, a := range r.Common().Args {
						if a == v {
							handlerArg = true
						}
					}
				}
			}
		}
	}
	// nil tests
	for _, b := range fn.Blocks {
		if len(b.Instrs) == 0 {
			continue
		}
		iff, ok := b.Instrs[len(b.Instrs)-1].(*ssa.If)
		if !ok {
			continue
		}
		nn, nb, val, ok := nilTestOf(iff, d)
		if !ok {
			continue
		}
		res.NilTests = append(res.NilTests, &NilTest{If: iff, NonNil: nn, Nil: nb, Val: val})
	}
	// dead tests: dominated by the nil side of another test on the same SSA value
	for _, t := range res.NilTests {
		for _, o := range res.NilTests {
			if o == t || o.Val != t.Val {
				continue
			}
			if len(o.Nil.Preds) == 1 && o.Nil.Dominates(t.If.Block()) {
				t.Dead = true
				t.Why = "non-nil side unreachable: already on the nil side of an earlier test of the same value"
			}
		}
	}
	swallowed := false
	handledSomewhere := false
	for _, t := range res.NilTests {
		if t.Dead {
			continue
		}
		sw := nonNilSideSurfaces(fn, t.NonNil, fnReturnsErr, d)
		t.Handled = len(sw) == 0
		if len(sw) == 0 {
			handledSomewhere = true
			t.Why = "non-nil side exits with an error on every path"
		} else {
			swallowed = true
			t.Why = sw[0].Why
			res.At = sw[0].Pos
			res.Why = sw[0].Why
			res.Swallows = append(res.Swallows, sw...)
		}
	}
	if swallowed {
		// path-sensitive confirmation: follow only the paths that are feasible when e is non-nil
		res.Swallows = feasibleSwallows(fn, e, d, res.Swallows, fnReturnsErr)
		if len(res.Swallows) == 0 {
			swallowed = false
			handledSomewhere = true
			res.At = token.NoPos
			res.Why = ""
		} else {
			res.At = res.Swallows[0].Pos
			res.Why = res.Swallows[0].Why
		}
	}
	if !swallowed && fnReturnsErr && (returned || handledSomewhere) {
		// a path that reaches a return without passing any test of the error: walk the function from
		// the definition with the fact "e is non-nil"; every return reached must surface an error
		if pos, ok := bypassesTests(fn, e, d); ok {
			swallowed = true
			res.At = pos
			res.Why = "a path from the call reaches this return, which reports success, without passing a test of the error (the error is tested only on other paths)"
			res.Swallows = append(res.Swallows, Swallow{Pos: pos, Why: res.Why})
		}
	}
	switch {
	case swallowed:
		res.Verdict = ErrSwallowed
	case returned || handlerArg || handledSomewhere:
		res.Verdict = ErrPropagated
		res.Why = "returned, wrapped into the returned error, or nil-tested with an error exit on the non-nil side"
	case stored.IsValid():
		res.Verdict = ErrStored
		res.At = stored
		res.Why = "stored, not returned"
	default:
		res.Verdict = ErrDropped
		res.Why = "never returned and never nil-tested (at most compared with a sentinel or logged)"
	}
	return res
}

type handlerState bool

func (h handlerState) Key() string {
	if h {
		return "h"
	}
	return "-"
}

// feasibleSwallows drops the swallow edges that no feasible path takes: the function is walked
// from the definition of e with the fact "e is non-nil" (facts travel through phis; a second
// test of the same value follows its feasible side only, see typestate.go). If every return
// reached that way surfaces an error, nothing is swallowed; otherwise the swallows whose edge
// (or returning block) was reached are kept.
func feasibleSwallows(fn *ssa.Function, e ssa.Value, d map[ssa.Value]bool, sws []Swallow, fnReturnsErr bool) []Swallow {
	def, ok := e.(ssa.Instruction)
	if !ok || def.Block() == nil {
		return sws
	}
	if _, isPhi := e.(*ssa.Phi); isPhi {
		return sws
	}
	b := def.Block()
	idx := -1
	for i, in := range b.Instrs {
		if in == def {
			idx = i
		}
	}
	if idx < 0 {
		return sws
	}
	facts := map[ssa.Value]bool{e: false}
	h := THooks{Instr: func(in ssa.Instruction, st TState) TState {
		if c, ok := in.(ssa.CallInstruction); ok && ErrorHandlers[calleeName(c)] {
			return handlerState(true)
		}
		return st
	}}
	exits, edges := WalkTypestateFrom(b, idx+1, handlerState(false), facts, h, nil)
	visited := map[*ssa.BasicBlock]bool{b: true}
	for e := range edges {
		visited[e[1]] = true
	}
	badExit := map[*ssa.BasicBlock]bool{}
	anyBad := false
	for _, ex := range exits {
		good := false
		if fnReturnsErr {
			n := len(ex.Ret.Results)
			good = ex.ErrNil == 0 || d[ex.Ret.Results[n-1]] || d[RetErr(ex.Ret)]
		} else {
			good = bool(ex.St.(handlerState))
		}
		if !good {
			badExit[ex.Ret.Block()] = true
			anyBad = true
		}
	}
	if !anyBad {
		// panics are not exits: keep swallows that are reachable panics
		var out []Swallow
		for _, sw := range sws {
			if sw.To == nil && visited[sw.From] {
				if _, isPanic := sw.From.Instrs[len(sw.From.Instrs)-1].(*ssa.Panic); isPanic {
					out = append(out, sw)
				}
			}
		}
		return out
	}
	var out []Swallow
	for _, sw := range sws {
		switch {
		case sw.To != nil:
			if edges[[2]*ssa.BasicBlock{sw.From, sw.To}] {
				out = append(out, sw)
			}
		default:
			if _, isRet := sw.From.Instrs[len(sw.From.Instrs)-1].(*ssa.Return); isRet {
				if badExit[sw.From] {
					out = append(out, sw)
				}
			} else if visited[sw.From] {
				out = append(out, sw)
			}
		}
	}
	return out
}

func calleeName(c ssa.CallInstruction) string {
	cc := c.Common()
	if cc.IsInvoke() {
		return cc.Method.Name()
	}
	if f := cc.StaticCallee(); f != nil {
		return f.Name()
	}
	return ""
}

// Swallow describes one way the non-nil side fails to surface the error.
type Swallow struct {
	From *ssa.BasicBlock // block in which the error branch is left (or which returns)
	To   *ssa.BasicBlock // successor through which it is left (nil: From itself returns)
	Why  string
	Pos  token.Pos
}

// nonNilSideSurfaces: every path from n must end in a Return whose error operand is the error
// itself (or derived from it), or — while still on the branch that belongs to this test alone
// (the region dominated by n) — in a Return of some non-nil error, or, in functions without an
// error result, in a Return after a call to an error handler such as ResultError. Every edge
// through which the branch is left towards a path that does not return the error (continue,
// fall through to the join, return nil) is reported.
func nonNilSideSurfaces(fn *ssa.Function, n *ssa.BasicBlock, fnReturnsErr bool, d map[ssa.Value]bool) []Swallow {
	own := len(n.Preds) == 1
	var out []Swallow
	// outside the region only "returns the error value itself" counts
	memo := map[*ssa.BasicBlock]int{} // 0 unknown, 1 in progress, 2 ok, 3 bad
	var outsideOK func(b *ssa.BasicBlock) bool
	outsideOK = func(b *ssa.BasicBlock) bool {
		switch memo[b] {
		case 1, 2:
			return true
		case 3:
			return false
		}
		memo[b] = 1
		ok := true
		switch last := b.Instrs[len(b.Instrs)-1].(type) {
		case *ssa.Return:
			ok = fnReturnsErr && (d[last.Results[len(last.Results)-1]] || d[RetErr(last)])
		case *ssa.Panic:
			ok = false
		default:
			for _, s := range b.Succs {
				if !outsideOK(s) {
					ok = false
					break
				}
			}
		}
		if ok {
			memo[b] = 2
		} else {
			memo[b] = 3
		}
		return ok
	}
	if !own {
		if !outsideOK(n) {
			out = append(out, Swallow{From: n, Why: "the non-nil side shares its block with other paths and does not return the error", Pos: firstPos(n)})
		}
		return out
	}
	type st struct {
		b       *ssa.BasicBlock
		handler bool
	}
	seen := map[st]bool{}
	var walk func(b *ssa.BasicBlock, handler bool)
	walk = func(b *ssa.BasicBlock, handler bool) {
		s := st{b, handler}
		if seen[s] {
			return
		}
		seen[s] = true
		for _, in := range b.Instrs {
			if c, ok := in.(ssa.CallInstruction); ok && ErrorHandlers[calleeName(c)] {
				handler = true
			}
		}
		switch last := b.Instrs[len(b.Instrs)-1].(type) {
		case *ssa.Return:
			if fnReturnsErr {
				op := RetErr(last)
				if isNilConst(op) {
					out = append(out, Swallow{From: b, Why: "the non-nil side returns a nil error", Pos: last.Pos()})
				}
				return
			}
			if !handler {
				out = append(out, Swallow{From: b, Why: "the non-nil side returns without reporting the error", Pos: last.Pos()})
			}
			return
		case *ssa.Panic:
			out = append(out, Swallow{From: b, Why: "the non-nil side panics", Pos: last.Pos()})
			return
		}
		for _, s := range b.Succs {
			if n.Dominates(s) {
				walk(s, handler)
				continue
			}
			// leaving the error branch
			if !fnReturnsErr && handler {
				continue
			}
			if !outsideOK(s) {
				out = append(out, Swallow{From: b, To: s, Why: "the non-nil side goes on with normal flow without returning the error", Pos: lastPos(b)})
			}
		}
	}
	walk(n, false)
	return out
}

func lastPos(b *ssa.BasicBlock) token.Pos {
	for i := len(b.Instrs) - 1; i >= 0; i-- {
		if b.Instrs[i].Pos().IsValid() {
			return b.Instrs[i].Pos()
		}
	}
	return token.NoPos
}

func firstPos(b *ssa.BasicBlock) token.Pos {
	for _, in := range b.Instrs {
		if in.Pos().IsValid() {
			return in.Pos()
		}
	}
	return token.NoPos
}

// ---- context provenance -------------------------------------------------------------------------

const contextPkg = "context"

// IsContextType reports whether t is context.Context.
func IsContextType(t types.Type) bool {
	nt, ok := t.(*types.Named)
	return ok && nt.Obj().Pkg() != nil && nt.Obj().Pkg().Path() == contextPkg && nt.Obj().Name() == "Context"
}

// CtxOrigin classifies where a context value comes from.
// ok=false with why set when a fresh root context (Background/TODO/WithoutCancel) feeds it.
func CtxOrigin(v ssa.Value, allowedFields map[*types.Var]bool, depth int) (string, bool) {
	if depth > 8 {
		return "derivation too deep", false
	}
	switch x := v.(type) {
	case *ssa.Parameter:
		return "parameter " + x.Name(), true
	case *ssa.FreeVar:
		return "captured " + x.Name(), true
	case *ssa.Phi:
		for _, e := range x.Edges {
			if e == x {
				continue
			}
			if why, ok := CtxOrigin(e, allowedFields, depth+1); !ok {
				return why, false
			}
		}
		return "phi of good contexts", true
	case *ssa.UnOp:
		if x.Op == token.MUL {
			if fv := FieldOfLoad(x); fv != nil {
				if allowedFields[fv] {
					return "connection field " + fv.Name(), true
				}
				return "field " + fv.Name() + " is not a per-connection context", false
			}
			if fr, ok := x.X.(*ssa.FreeVar); ok {
				return "captured " + fr.Name(), true
			}
			if al, ok := x.X.(*ssa.Alloc); ok {
				for _, r := range *al.Referrers() {
					if st, ok := r.(*ssa.Store); ok && st.Addr == al {
						if why, ok := CtxOrigin(st.Val, allowedFields, depth+1); !ok {
							return why, false
						}
					}
				}
				return "local holding good contexts", true
			}
		}
	case *ssa.Field:
		if fv := FieldVar(x.X.Type(), x.Field); fv != nil && allowedFields[fv] {
			return "connection field " + fv.Name(), true
		}
	case *ssa.MakeInterface:
		return CtxOrigin(x.X, allowedFields, depth+1)
	case *ssa.ChangeInterface:
		return CtxOrigin(x.X, allowedFields, depth+1)
	case *ssa.Extract:
		return CtxOrigin(x.Tuple, allowedFields, depth+1)
	case *ssa.Call:
		if f := x.Call.StaticCallee(); f != nil && f.Pkg != nil && f.Pkg.Pkg.Path() == contextPkg {
			switch f.Name() {
			case "Background", "TODO", "WithoutCancel":
				return "context." + f.Name() + "() detaches the request from the connection's deadline", false
			default:
				if len(x.Call.Args) > 0 {
					return CtxOrigin(x.Call.Args[0], allowedFields, depth+1)
				}
			}
		}
		// a repo helper deriving a context from its first context argument (writetime.NewContext)
		for _, a := range x.Call.Args {
			if IsContextType(a.Type()) {
				return CtxOrigin(a, allowedFields, depth+1)
			}
		}
		// an accessor without a context argument: what it returns
		if f := x.Call.StaticCallee(); f != nil && len(f.Blocks) > 0 && f.Signature.Results().Len() == 1 {
			n := 0
			for _, b := range f.Blocks {
				ret, ok := b.Instrs[len(b.Instrs)-1].(*ssa.Return)
				if !ok || len(ret.Results) != 1 {
					continue
				}
				n++
				if why, ok := CtxOrigin(ret.Results[0], allowedFields, depth+1); !ok {
					return why, false
				}
			}
			if n > 0 {
				return "what " + f.Name() + "() returns", true
			}
		}
	}
	return "context of unrecognised origin: " + v.String(), false
}


// bypassesTests: with e non-nil, is a return reachable that reports success (a nil error constant)
// although e was neither tested on the way nor is part of what is returned? Only returns whose
// error is the nil constant count: "unknown" results (another call's error) are left alone.
func bypassesTests(fn *ssa.Function, e ssa.Value, d map[ssa.Value]bool) (token.Pos, bool) {
	def, ok := e.(ssa.Instruction)
	if !ok || def.Block() == nil {
		return token.NoPos, false
	}
	if _, isPhi := e.(*ssa.Phi); isPhi {
		return token.NoPos, false
	}
	b := def.Block()
	idx := -1
	for i, in := range b.Instrs {
		if in == def {
			idx = i
		}
	}
	if idx < 0 {
		return token.NoPos, false
	}
	// e must be tested somewhere by a plain nil test (otherwise other verdicts apply)
	facts := map[ssa.Value]bool{e: false}
	// a comparison with a sentinel (err == ErrNoMore…), errors.Is / errors.As: on the matching side
	// the error has been looked at and found to be a condition, not a failure
	h := THooks{Branch: func(iff *ssa.If, side bool, st TState) TState {
		cond, neg := StripNot(iff.Cond)
		switch x := cond.(type) {
		case *ssa.BinOp:
			if (x.Op == token.EQL || x.Op == token.NEQ) && (d[x.X] || d[x.Y]) && !isNilConst(x.X) && !isNilConst(x.Y) {
				if (x.Op == token.EQL) == (side != neg) {
					return handlerState(true)
				}
			}
		case *ssa.Call:
			if f := x.Call.StaticCallee(); f != nil && f.Pkg != nil && f.Pkg.Pkg.Path() == "errors" && (f.Name() == "Is" || f.Name() == "As") && side != neg {
				for _, a := range x.Call.Args {
					if d[a] {
						return handlerState(true)
					}
				}
			}
		}
		return st
	}}
	exits, _ := WalkTypestateFrom(b, idx+1, handlerState(false), facts, h, nil)
	for _, ex := range exits {
		n := len(ex.Ret.Results)
		if n == 0 || bool(ex.St.(handlerState)) {
			continue
		}
		if ex.ErrNil == 1 && !d[ex.Ret.Results[n-1]] && !d[RetErr(ex.Ret)] {
			if k, isK := RetErr(ex.Ret).(*ssa.Const); isK && k.IsNil() {
				return ex.Ret.Pos(), true
			}
		}
	}
	return token.NoPos, false
}
