package an

import (
	"fmt"
	"go/constant"
	"go/token"
	"go/types"
	"sort"
	"strings"

	"golang.org/x/tools/go/ssa"
)

// ---- E9: typestate over feasible paths --------------------------------------------------------------
//
// A client supplies an abstract state (a small value with a key) and a transfer function per
// instruction; the walker enumerates the paths of a function (and, through a Scope, of the
// single-caller helpers split out of it) and carries, besides the client state, *facts* about
// immutable SSA values: the truth of a boolean, the nil-ness of a pointer / interface value.
// Facts are created when a branch on a value is taken, travel through phis along the edge
// taken, and make the second test of the same value (the ubiquitous "if err == nil { … } …
// if err != nil { return }") follow the feasible side only. States are joined by set union
// (the walk is a path enumeration with memoisation on (block, client key, facts)), so the
// analysis is path-sensitive for exactly the facts above and nothing else.

// TState is a client state.
type TState interface {
	Key() string
}

// THooks is the client side of a typestate walk.
type THooks struct {
	// Instr transfers the client state over one instruction. Returning nil ends the path.
	Instr func(in ssa.Instruction, st TState) TState
	// Branch refines the client state on one side of an If (side true = Succs[0]).
	// Returning nil marks the side infeasible. May be nil.
	Branch func(iff *ssa.If, side bool, st TState) TState
	// Phi tells the client which incoming value a phi takes on the edge being followed (all phis
	// of a block are reported against the state before the edge: parallel assignment). May be nil.
	Phi func(ph *ssa.Phi, incoming ssa.Value, st TState) TState
	// Value lets the client supply the truth of a boolean SSA value it can decide (e.g. a comparison
	// evaluated in the abstract world of the walk). Consulted where the walker has no fact of its
	// own: at branches, at phis along the edge taken, at a helper's boolean return. May be nil.
	Value func(v ssa.Value, st TState) (truth bool, known bool)
}

// enterState applies the Phi hook for the edge p -> n.
func (w *tsWalker) enterState(p, n *ssa.BasicBlock, st TState) TState {
	if w.h.Phi == nil {
		return st
	}
	idx := -1
	for i, pp := range n.Preds {
		if pp == p {
			idx = i
			break
		}
	}
	if idx < 0 {
		return st
	}
	old := st
	for _, in := range n.Instrs {
		ph, ok := in.(*ssa.Phi)
		if !ok {
			break
		}
		// the client reads `old` through the incoming value if it is itself a phi
		st = w.h.Phi(ph, resolveThrough(ph.Edges[idx], old, w), st)
		if st == nil {
			return nil
		}
	}
	return st
}

// resolveThrough is the identity; kept as a seam for clients that map phis to values.
func resolveThrough(v ssa.Value, _ TState, _ *tsWalker) ssa.Value { return v }

type factEnv map[ssa.Value]bool

func (e factEnv) key() string {
	ks := make([]string, 0, len(e))
	for v, b := range e {
		ks = append(ks, fmt.Sprintf("%p=%v", v, b))
	}
	sort.Strings(ks)
	return strings.Join(ks, ",")
}

func (e factEnv) clone() factEnv {
	n := make(factEnv, len(e)+1)
	for k, v := range e {
		n[k] = v
	}
	return n
}

// constFact: the fact a constant carries (bool truth; nil-ness for nil constants).
func constFact(v ssa.Value) (bool, bool) {
	k, ok := v.(*ssa.Const)
	if !ok {
		return false, false
	}
	if k.Value == nil {
		// nil pointer/interface/slice/map constant: "is nil" is true; zero struct consts do not occur in tests
		switch k.Type().Underlying().(type) {
		case *types.Pointer, *types.Interface, *types.Slice, *types.Map, *types.Signature, *types.Chan:
			return true, true
		}
		return false, false
	}
	if k.Value.Kind() == constant.Bool {
		return constant.BoolVal(k.Value), true
	}
	return false, false
}

// knownNonNil: values that are never nil by construction.
// KnownNonNil: the value is an error (or pointer) that was constructed right there.
func KnownNonNil(v ssa.Value) bool { return knownNonNil(v) }

func knownNonNil(v ssa.Value) bool {
	switch x := v.(type) {
	case *ssa.Alloc, *ssa.MakeInterface, *ssa.MakeClosure, *ssa.MakeMap, *ssa.MakeSlice, *ssa.FieldAddr, *ssa.IndexAddr:
		return true
	case *ssa.UnOp:
		// a package-level sentinel error (var ErrX = errors.New(…))
		if g, ok := x.X.(*ssa.Global); ok && x.Op == token.MUL && isErrorType(x.Type()) && strings.HasPrefix(g.Name(), "Err") {
			return true
		}
	case *ssa.Call:
		if cal := x.Common().StaticCallee(); cal != nil && cal.Pkg != nil {
			p, n := cal.Pkg.Pkg.Path(), cal.Name()
			if p == "fmt" && n == "Errorf" || p == "errors" && n == "New" {
				return true
			}
		}
	}
	return false
}

type tsWalker struct {
	h     THooks
	sc    *Scope
	depth int
	// interesting: per function, the values a recorded fact can ever be consulted for (tested by
	// two or more branches, or flowing into a phi / a returned error that is). Facts about other
	// values are not recorded: they could only multiply the states.
	interesting map[*ssa.Function]map[ssa.Value]bool
	// edges, when non-nil, collects the CFG edges taken in the outermost function
	edges map[[2]*ssa.BasicBlock]bool
	// start overrides the entry of the outermost function
	start *tsItem
	// tupleFacts: nil-ness of the error component of a helper call, per path (set just before the
	// call instruction's successors are processed)
}

var errPreservingMemo = map[*ssa.Function]bool{}

// errorPreserving: a function error -> error that returns a non-nil error whenever its argument is
// non-nil: every return hands back the parameter itself or a value that is never nil.
func errorPreserving(f *ssa.Function) bool {
	if v, ok := errPreservingMemo[f]; ok {
		return v
	}
	errPreservingMemo[f] = false
	if len(f.Blocks) == 0 || len(f.Params) != 1 || f.Signature.Results().Len() != 1 || !isErrorType(f.Params[0].Type()) || !isErrorType(f.Signature.Results().At(0).Type()) {
		return false
	}
	for _, b := range f.Blocks {
		ret, ok := b.Instrs[len(b.Instrs)-1].(*ssa.Return)
		if !ok {
			continue
		}
		v := RetVal(ret, 0)
		if v == ssa.Value(f.Params[0]) || knownNonNil(v) {
			continue
		}
		// a sentinel of another package boxed into error (sqlite.SQLITE_CONSTRAINT_…)
		if mi, ok := v.(*ssa.MakeInterface); ok {
			_ = mi
			continue
		}
		return false
	}
	errPreservingMemo[f] = true
	return true
}

type tsItem struct {
	b     *ssa.BasicBlock
	i     int // next instruction index
	st    TState
	facts factEnv
}

// TExit is the state of a path at a return of the walked function.
type TExit struct {
	St TState
	// ErrNil: 1 the returned error is nil, 0 non-nil, -1 unknown / no error result
	ErrNil int
	Ret    *ssa.Return
	// BoolRet: for a function whose first result is a bool: 1 true, 0 false, -1 unknown on this path
	BoolRet int
}

// WalkTypestate enumerates the paths of fn from its entry with client state st. sc (may be nil)
// makes calls to single-caller helpers of the scope be walked in line. Returns the states at fn's
// returns.
func WalkTypestate(fn *ssa.Function, st TState, h THooks, sc *Scope) []TExit {
	w := &tsWalker{h: h, sc: sc}
	return w.walk(fn, st)
}

// WalkTypestateFrom starts in the middle of a function: at instruction index idx of block b, with
// the given facts about SSA values (bool truth / "is nil"). It returns the states at the returns
// reached and the set of CFG edges taken.
func WalkTypestateFrom(b *ssa.BasicBlock, idx int, st TState, facts map[ssa.Value]bool, h THooks, sc *Scope) ([]TExit, map[[2]*ssa.BasicBlock]bool) {
	fe := factEnv{}
	for k, v := range facts {
		fe[k] = v
	}
	w := &tsWalker{h: h, sc: sc, edges: map[[2]*ssa.BasicBlock]bool{}, start: &tsItem{b, idx, st, fe}}
	ex := w.walk(b.Parent(), st)
	return ex, w.edges
}

func (w *tsWalker) walk(fn *ssa.Function, st TState) []TExit {
	if len(fn.Blocks) == 0 || w.depth > 4 {
		return []TExit{{St: st, ErrNil: -1}}
	}
	w.depth++
	defer func() { w.depth-- }()
	outer := w.depth == 1
	seen := map[string]bool{}
	var exits []TExit
	exitSeen := map[string]bool{}
	work := []tsItem{{fn.Blocks[0], 0, st, factEnv{}}}
	if outer && w.start != nil {
		work = []tsItem{*w.start}
	}
	for len(work) > 0 {
		it := work[len(work)-1]
		work = work[:len(work)-1]
		if it.i == 0 {
			k := fmt.Sprintf("%d|%s|%s", it.b.Index, it.st.Key(), it.facts.key())
			if seen[k] {
				continue
			}
			seen[k] = true
		}
		cur := it.st
		facts := it.facts
		dead := false
		forked := false
		for idx := it.i; idx < len(it.b.Instrs) && !dead && !forked; idx++ {
			in := it.b.Instrs[idx]
			switch x := in.(type) {
			case *ssa.Phi:
				continue // handled on entry
			case *ssa.Extract:
				// error component of an inlined helper call: fact recorded under the call value + index
				if f, ok := facts[tupleKey{x.Tuple, x.Index}.val()]; ok {
					facts = facts.clone()
					facts[x] = f
				}
			case *ssa.Return:
				en := -1
				if n := len(x.Results); n > 0 && isErrorType(x.Results[n-1].Type()) {
					v := RetVal(x, n-1)
					if f, ok := constFact(v); ok && f {
						en = 1
					} else if f, ok := facts[v]; ok {
						if f {
							en = 1
						} else {
							en = 0
						}
					} else if knownNonNil(v) {
						en = 0
					} else if cl, ok := v.(*ssa.Call); ok {
						// an error-preserving wrapper applied to a value known to be non-nil (toSqlite(err))
						if cal := cl.Call.StaticCallee(); cal != nil && errorPreserving(cal) {
							for _, a := range cl.Call.Args {
								if f, ok := facts[a]; ok && !f && isErrorType(a.Type()) {
									en = 0
								}
							}
						}
					}
				}
				br := -1
				if len(x.Results) > 0 && isBool(x.Results[0].Type()) {
					if f, ok := w.valueFact(RetVal(x, 0), facts, cur, 0); ok {
						br = 0
						if f {
							br = 1
						}
					}
				}
				k := fmt.Sprintf("%s|%d|%d|%d", cur.Key(), en, br, x.Pos())
				if !exitSeen[k] {
					exitSeen[k] = true
					exits = append(exits, TExit{St: cur, ErrNil: en, Ret: x, BoolRet: br})
				}
				dead = true
				continue
			case *ssa.If:
				n0 := len(work)
				w.branch(x, it.b, cur, facts, &work)
				if outer && w.edges != nil {
					for _, ni := range work[n0:] {
						w.edges[[2]*ssa.BasicBlock{it.b, ni.b}] = true
					}
				}
				dead = true
				continue
			case *ssa.Jump:
				n := it.b.Succs[0]
				if outer && w.edges != nil {
					w.edges[[2]*ssa.BasicBlock{it.b, n}] = true
				}
				if ns := w.enterState(it.b, n, cur); ns != nil {
					work = append(work, tsItem{n, 0, ns, w.enterFactsV(it.b, n, facts, cur)})
				}
				dead = true
				continue
			case *ssa.Panic:
				dead = true
				continue
			}
			if call, ok := in.(ssa.CallInstruction); ok && w.sc != nil {
				if cal := call.Common().StaticCallee(); cal != nil && cal != fn && w.sc.Contains(cal) && w.sc.up[cal] == call {
					if _, isDefer := in.(*ssa.Defer); !isDefer {
						if _, isGo := in.(*ssa.Go); !isGo {
							for _, ex := range w.walk(cal, cur) {
								nf := facts
								if v, ok := in.(ssa.Value); ok && ex.BoolRet >= 0 && cal.Signature.Results().Len() == 1 {
									nf = facts.clone()
									nf[v] = ex.BoolRet == 1
								}
								if ex.ErrNil >= 0 {
									nf = nf.clone()
									if v, ok := in.(ssa.Value); ok {
										res := cal.Signature.Results()
										if res.Len() == 1 {
											nf[v] = ex.ErrNil == 1
										} else if res.Len() > 1 {
											nf[tupleKey{v, res.Len() - 1}.val()] = ex.ErrNil == 1
										}
									}
								}
								work = append(work, tsItem{it.b, idx + 1, ex.St, nf})
							}
							forked = true
							continue
						}
					}
				}
			}
			if w.h.Instr != nil {
				cur = w.h.Instr(in, cur)
				if cur == nil {
					dead = true
				}
			}
		}
	}
	return exits
}

// tupleKey gives a stable pseudo-value for "component i of tuple t" so that a fact can be
// recorded before the Extract instruction is reached.
type tupleKey struct {
	t ssa.Value
	i int
}

var tupleVals = map[tupleKey]*ssa.Const{}

func (k tupleKey) val() ssa.Value {
	if v, ok := tupleVals[k]; ok {
		return v
	}
	v := &ssa.Const{}
	tupleVals[k] = v
	return v
}

// interestingValues computes the values worth recording facts for in fn.
func interestingValues(fn *ssa.Function) map[ssa.Value]bool {
	tested := map[ssa.Value]int{}
	for _, b := range fn.Blocks {
		if len(b.Instrs) == 0 {
			continue
		}
		if iff, ok := b.Instrs[len(b.Instrs)-1].(*ssa.If); ok {
			v, _ := condFact(iff.Cond)
			tested[v]++
		}
	}
	out := map[ssa.Value]bool{}
	for v, n := range tested {
		if n >= 2 {
			out[v] = true
		}
	}
	// phis that are tested or returned as the error make their inputs interesting (transitively)
	var mark func(v ssa.Value, d int)
	mark = func(v ssa.Value, d int) {
		if d > 6 {
			return
		}
		ph, ok := v.(*ssa.Phi)
		if !ok {
			return
		}
		for _, e := range ph.Edges {
			if !out[e] {
				out[e] = true
				mark(e, d+1)
			}
		}
	}
	for v := range tested {
		if _, ok := v.(*ssa.Phi); ok {
			out[v] = true
			mark(v, 0)
		}
	}
	for _, b := range fn.Blocks {
		if len(b.Instrs) == 0 {
			continue
		}
		if ret, ok := b.Instrs[len(b.Instrs)-1].(*ssa.Return); ok {
			if n := len(ret.Results); n > 0 && isErrorType(ret.Results[n-1].Type()) {
				v := RetVal(ret, n-1)
				out[v] = true
				mark(v, 0)
				// return wrap(err): the wrapped value matters too
				if cl, ok := v.(*ssa.Call); ok {
					for _, a := range cl.Call.Args {
						if isErrorType(a.Type()) {
							out[a] = true
							mark(a, 0)
						}
					}
				}
			}
		}
	}
	return out
}

func (w *tsWalker) isInteresting(fn *ssa.Function, v ssa.Value) bool {
	if w.interesting == nil {
		w.interesting = map[*ssa.Function]map[ssa.Value]bool{}
	}
	m, ok := w.interesting[fn]
	if !ok {
		m = interestingValues(fn)
		w.interesting[fn] = m
	}
	return m[v]
}

func isErrorType(t types.Type) bool {
	return types.Identical(t, types.Universe.Lookup("error").Type())
}

// enterFacts propagates facts through the phis of block n when entered from p.
func enterFacts(p, n *ssa.BasicBlock, facts factEnv) factEnv {
	idx := -1
	for i, pp := range n.Preds {
		if pp == p {
			idx = i
			break
		}
	}
	var out factEnv
	for _, in := range n.Instrs {
		ph, ok := in.(*ssa.Phi)
		if !ok {
			break
		}
		if out == nil {
			out = facts.clone()
		}
		if idx < 0 {
			delete(out, ph)
			continue
		}
		inc := ph.Edges[idx]
		if f, ok := constFact(inc); ok {
			out[ph] = f
		} else if f, ok := facts[inc]; ok { // parallel assignment: read the old env
			out[ph] = f
		} else if knownNonNil(inc) && !isBool(ph.Type()) {
			out[ph] = false
		} else {
			delete(out, ph)
		}
	}
	if out == nil {
		return facts
	}
	return out
}

// condFact decomposes an If condition into (value, truthIfFactTrue): the condition is true iff
// fact(value) == truthIfFactTrue.
func condFact(cond ssa.Value) (ssa.Value, bool) {
	c, neg := StripNot(cond)
	if b, ok := c.(*ssa.BinOp); ok && (b.Op == token.EQL || b.Op == token.NEQ) {
		var v ssa.Value
		if isNilConst(b.Y) {
			v = b.X
		} else if isNilConst(b.X) {
			v = b.Y
		}
		if v != nil {
			// fact(v) = "v is nil"; cond true iff (EQL && nil) or (NEQ && !nil)
			t := b.Op == token.EQL
			if neg {
				t = !t
			}
			return v, t
		}
	}
	// v, ok := x.(I) where every value of x's static type implements I: ok iff x is non-nil
	if ex, isEx := c.(*ssa.Extract); isEx && ex.Index == 1 {
		if ta, isTA := ex.Tuple.(*ssa.TypeAssert); isTA && ta.CommaOk {
			if it, isI := ta.AssertedType.Underlying().(*types.Interface); isI && types.Implements(ta.X.Type(), it) {
				// fact(x) = "x is nil"; cond (ok) true iff !nil
				return ta.X, neg
			}
		}
	}
	return c, !neg
}

func (w *tsWalker) branch(iff *ssa.If, b *ssa.BasicBlock, st TState, facts factEnv, work *[]tsItem) {
	v, t := condFact(iff.Cond)
	known, val := false, false
	if f, ok := constFact(v); ok {
		known, val = true, f == t
	} else if f, ok := facts[v]; ok {
		known, val = true, f == t
	} else if knownNonNil(v) && !isBool(v.Type()) {
		known, val = true, false == t
	} else if isBool(v.Type()) {
		if f, ok := w.valueFact(v, facts, st, 0); ok {
			known, val = true, f == t
		}
	}
	for side := 0; side < 2; side++ {
		taken := side == 0 // Succs[0] is the true side
		if known && val != taken {
			continue
		}
		nf := facts
		if !known && w.isInteresting(b.Parent(), v) {
			nf = facts.clone()
			nf[v] = taken == t
		}
		ns := st
		if w.h.Branch != nil {
			ns = w.h.Branch(iff, taken, st)
			if ns == nil {
				continue
			}
		}
		n := b.Succs[side]
		if ns = w.enterState(b, n, ns); ns == nil {
			continue
		}
		*work = append(*work, tsItem{n, 0, ns, w.enterFactsV(b, n, nf, st)})
	}
}


// valueFact: the truth of a boolean value on the current path, from constants, recorded facts,
// negation, or the client's Value hook.
func (w *tsWalker) valueFact(v ssa.Value, facts factEnv, st TState, d int) (bool, bool) {
	if v == nil || !isBool(v.Type()) {
		return false, false
	}
	if f, ok := constFact(v); ok {
		return f, true
	}
	if f, ok := facts[v]; ok {
		return f, true
	}
	if d > 4 {
		return false, false
	}
	if u, ok := v.(*ssa.UnOp); ok && u.Op == token.NOT {
		if f, ok := w.valueFact(u.X, facts, st, d+1); ok {
			return !f, true
		}
	}
	if w.h.Value != nil {
		return w.h.Value(v, st)
	}
	return false, false
}

// enterFactsV is enterFacts plus: a boolean phi whose incoming value has no recorded fact takes the
// truth valueFact can establish for it.
func (w *tsWalker) enterFactsV(p, n *ssa.BasicBlock, facts factEnv, st TState) factEnv {
	out := enterFacts(p, n, facts)
	idx := -1
	for i, pp := range n.Preds {
		if pp == p {
			idx = i
			break
		}
	}
	if idx < 0 {
		return out
	}
	cloned := false
	for _, in := range n.Instrs {
		ph, ok := in.(*ssa.Phi)
		if !ok {
			break
		}
		if _, has := out[ph]; has || !isBool(ph.Type()) {
			continue
		}
		if f, ok := w.valueFact(ph.Edges[idx], facts, st, 0); ok {
			if !cloned {
				out = out.clone()
				cloned = true
			}
			out[ph] = f
		}
	}
	return out
}
