package an

import (
	"go/token"
	"go/types"

	"golang.org/x/tools/go/ssa"
)

// ---- E2 helpers: ordering / dominance on SSA --------------------------------------------------

// Reachable reports whether `to` is reachable from `from` following successor edges without
// entering any block in `without`. from==to counts only if a cycle leads back.
func Reachable(from, to *ssa.BasicBlock, without map[*ssa.BasicBlock]bool) bool {
	seen := map[*ssa.BasicBlock]bool{}
	var stack []*ssa.BasicBlock
	push := func(b *ssa.BasicBlock) {
		if !seen[b] && !without[b] {
			seen[b] = true
			stack = append(stack, b)
		}
	}
	for _, s := range from.Succs {
		push(s)
	}
	for len(stack) > 0 {
		b := stack[len(stack)-1]
		stack = stack[:len(stack)-1]
		if b == to {
			return true
		}
		for _, s := range b.Succs {
			push(s)
		}
	}
	return false
}

// ReachableFromBlock is Reachable but starting at the block itself (inclusive).
func ReachableFromBlock(from, to *ssa.BasicBlock, without map[*ssa.BasicBlock]bool) bool {
	if from == to {
		return true
	}
	if without[from] {
		return false
	}
	return Reachable(from, to, without)
}

// OnlyVia reports whether, each time control reaches target, the most recent execution of the
// branch block br left through successor index si. (br dominates target, and with br removed
// from the graph target cannot be reached from the other successor.) This is the loop-safe
// form of "the si-edge of br dominates target".
func OnlyVia(br *ssa.BasicBlock, si int, target *ssa.BasicBlock) bool {
	if len(br.Succs) != 2 || br == target {
		return false
	}
	if !br.Dominates(target) {
		return false
	}
	other := br.Succs[1-si]
	want := br.Succs[si]
	if other == want {
		return false
	}
	wo := map[*ssa.BasicBlock]bool{br: true}
	return !ReachableFromBlock(other, target, wo)
}

// SuccessDominates reports whether target is only reached after `call` returned a nil error
// (since the call's last execution). detail explains failure.
func SuccessDominates(call ssa.CallInstruction, target ssa.Instruction) (bool, string) {
	ev, hasErr := ErrResult(call)
	if !hasErr {
		return false, "callee returns no error"
	}
	if ev == nil {
		return false, "error result is discarded"
	}
	d := derive(ev)
	fn := call.Parent()
	tb := target.Block()
	for _, b := range fn.Blocks {
		if len(b.Instrs) == 0 {
			continue
		}
		iff, ok := b.Instrs[len(b.Instrs)-1].(*ssa.If)
		if !ok {
			continue
		}
		_, nilB, _, ok := nilTestOf(iff, d)
		if !ok {
			continue
		}
		si := 0
		if b.Succs[1] == nilB {
			si = 1
		}
		// the test must itself come after the call
		if !(call.Block() == b || call.Block().Dominates(b)) {
			continue
		}
		if OnlyVia(b, si, tb) {
			return true, ""
		}
	}
	return false, "no nil test of the error whose success edge dominates it"
}

// InCycle reports whether block b can reach itself.
func InCycle(b *ssa.BasicBlock) bool { return Reachable(b, b, nil) }

// InstrBefore reports whether a executes before b on every path to b (a dominates b).
func InstrBefore(a, b ssa.Instruction) bool {
	ab, bb := a.Block(), b.Block()
	if ab == bb {
		for _, in := range ab.Instrs {
			if in == a {
				return true
			}
			if in == b {
				return false
			}
		}
		return false
	}
	return ab.Dominates(bb)
}

// Calls lists the call instructions of fn (incl. defer/go) in block order.
func Calls(fn *ssa.Function) []ssa.CallInstruction {
	var out []ssa.CallInstruction
	for _, b := range fn.Blocks {
		for _, in := range b.Instrs {
			if c, ok := in.(ssa.CallInstruction); ok {
				out = append(out, c)
			}
		}
	}
	return out
}

// RecvValue returns the receiver operand of a method call (static or invoke), or nil.
func RecvValue(call ssa.CallInstruction) ssa.Value {
	cc := call.Common()
	if cc.IsInvoke() {
		return cc.Value
	}
	f := cc.StaticCallee()
	if f == nil || f.Signature.Recv() == nil || len(cc.Args) == 0 {
		return nil
	}
	return cc.Args[0]
}

// FieldPath returns the chain of struct fields through which v was loaded, innermost last:
// s.root.Prefix -> [root, Prefix]. It looks through loads, FieldAddr, Field, and the implicit
// dereference of an embedded pointer.
func FieldPath(v ssa.Value) []*types.Var {
	var out []*types.Var
	for {
		switch x := v.(type) {
		case *ssa.UnOp:
			if x.Op != token.MUL {
				return out
			}
			v = x.X
		case *ssa.FieldAddr:
			out = append([]*types.Var{FieldVar(x.X.Type(), x.Field)}, out...)
			v = x.X
		case *ssa.Field:
			out = append([]*types.Var{FieldVar(x.X.Type(), x.Field)}, out...)
			v = x.X
		case *ssa.ChangeType:
			v = x.X
		case *ssa.MakeInterface:
			v = x.X
		case *ssa.TypeAssert:
			v = x.X
		case *ssa.Extract:
			if ta, ok := x.Tuple.(*ssa.TypeAssert); ok && x.Index == 0 {
				v = ta.X
			} else {
				return out
			}
		default:
			return out
		}
	}
}

// HasField reports whether the field path of v contains f.
func HasField(v ssa.Value, f *types.Var) bool {
	for _, x := range FieldPath(v) {
		if x == f {
			return true
		}
	}
	return false
}

// CalleeIs reports whether the call statically calls the method/function with that name whose
// receiver's named type is (pkgPath, typeName) ("" typeName: package-level function).
func CalleeIs(call ssa.CallInstruction, pkgPath, typeName, name string) bool {
	cc := call.Common()
	if cc.IsInvoke() {
		if cc.Method.Name() != name {
			return false
		}
		if typeName == "" {
			return false
		}
		nt := namedOf(cc.Value.Type())
		return nt != nil && nt.Obj().Name() == typeName && nt.Obj().Pkg() != nil && nt.Obj().Pkg().Path() == pkgPath
	}
	f := cc.StaticCallee()
	if f == nil || f.Name() != name {
		return false
	}
	if typeName == "" {
		return f.Signature.Recv() == nil && pkgPathOf(f) == pkgPath
	}
	if f.Signature.Recv() == nil {
		return false
	}
	nt := namedOf(f.Signature.Recv().Type())
	return nt != nil && nt.Obj().Name() == typeName && nt.Obj().Pkg() != nil && nt.Obj().Pkg().Path() == pkgPath
}

func namedOf(t types.Type) *types.Named {
	if pt, ok := t.(*types.Pointer); ok {
		t = pt.Elem()
	}
	nt, _ := t.(*types.Named)
	return nt
}

// NamedOf is exported for rules.
func NamedOf(t types.Type) *types.Named { return namedOf(t) }

// StoreToFieldOf finds, among the referrers of a local struct alloc, the value stored to the
// field named `field` (composite literal initialisation).
func StoreToFieldOf(al ssa.Value, field string) ssa.Value {
	refs := al.Referrers()
	if refs == nil {
		return nil
	}
	for _, r := range *refs {
		fa, ok := r.(*ssa.FieldAddr)
		if !ok {
			continue
		}
		fv := FieldVar(fa.X.Type(), fa.Field)
		if fv == nil || fv.Name() != field {
			continue
		}
		for _, rr := range *fa.Referrers() {
			if st, ok := rr.(*ssa.Store); ok && st.Addr == fa {
				return st.Val
			}
		}
	}
	return nil
}

// Unwrap strips conversions that do not change identity.
func Unwrap(v ssa.Value) ssa.Value {
	for {
		switch x := v.(type) {
		case *ssa.ChangeType:
			v = x.X
		case *ssa.MakeInterface:
			v = x.X
		case *ssa.ChangeInterface:
			v = x.X
		default:
			return v
		}
	}
}

// SameValue: the two operands are the same SSA value, modulo identity conversions and loads of
// the same local alloc that has exactly one store (address-taken locals).
func SameValue(a, b ssa.Value) bool {
	a, b = resolveLocal(Unwrap(a)), resolveLocal(Unwrap(b))
	return a == b
}

func resolveLocal(v ssa.Value) ssa.Value {
	for i := 0; i < 4; i++ {
		u, ok := v.(*ssa.UnOp)
		if !ok || u.Op != token.MUL {
			return v
		}
		al, ok := u.X.(*ssa.Alloc)
		if !ok {
			return v
		}
		var only ssa.Value
		n := 0
		for _, r := range *al.Referrers() {
			if st, ok := r.(*ssa.Store); ok && st.Addr == al {
				n++
				only = st.Val
			}
		}
		if n != 1 {
			return v
		}
		v = Unwrap(only)
	}
	return v
}

// ReturnsReachableAvoiding reports whether some function exit (Return) is reachable from `from`
// without entering any block of `avoid`. from itself counts if it returns and is not avoided.
func ReturnsReachableAvoiding(from *ssa.BasicBlock, avoid map[*ssa.BasicBlock]bool) bool {
	if avoid[from] {
		return false
	}
	seen := map[*ssa.BasicBlock]bool{from: true}
	stack := []*ssa.BasicBlock{from}
	for len(stack) > 0 {
		b := stack[len(stack)-1]
		stack = stack[:len(stack)-1]
		if _, ok := b.Instrs[len(b.Instrs)-1].(*ssa.Return); ok {
			return true
		}
		for _, s := range b.Succs {
			if !seen[s] && !avoid[s] {
				seen[s] = true
				stack = append(stack, s)
			}
		}
	}
	return false
}

// StoresToField lists the stores in fn whose address is a FieldAddr of the given field.
func StoresToField(fn *ssa.Function, f *types.Var) []*ssa.Store {
	var out []*ssa.Store
	for _, b := range fn.Blocks {
		for _, in := range b.Instrs {
			st, ok := in.(*ssa.Store)
			if !ok {
				continue
			}
			if fa, ok := st.Addr.(*ssa.FieldAddr); ok && FieldVar(fa.X.Type(), fa.Field) == f {
				out = append(out, st)
			}
		}
	}
	return out
}

// IsZeroValue reports whether v is the zero value of its type: a nil/zero constant, or a load
// of a fresh local allocation that is never stored to (the SSA form of T{}).
func IsZeroValue(v ssa.Value) bool {
	switch x := v.(type) {
	case *ssa.Const:
		return x.Value == nil || x.IsNil()
	case *ssa.UnOp:
		if x.Op != token.MUL {
			return false
		}
		al, ok := x.X.(*ssa.Alloc)
		if !ok {
			return false
		}
		for _, r := range *al.Referrers() {
			switch rr := r.(type) {
			case *ssa.Store:
				if rr.Addr == al {
					return false
				}
			case *ssa.UnOp, *ssa.DebugRef:
			default:
				return false
			}
		}
		return true
	}
	return false
}

// RetVal returns operand i of a Return, looking through the result-slot spill that go/ssa
// introduces in functions with defer ("*slot = v; rundefers; t = *slot; return t").
func RetVal(ret *ssa.Return, i int) ssa.Value {
	v := ret.Results[i]
	ld, ok := v.(*ssa.UnOp)
	if !ok || ld.Op != token.MUL {
		return v
	}
	al, ok := ld.X.(*ssa.Alloc)
	if !ok {
		return v
	}
	// the latest store to the slot in this block before the load
	var last ssa.Value
	for _, in := range ret.Block().Instrs {
		if in == ssa.Instruction(ld) {
			break
		}
		if st, ok := in.(*ssa.Store); ok && st.Addr == ssa.Value(al) {
			last = st.Val
		}
	}
	if last != nil {
		return last
	}
	// a single store anywhere (named result assigned once)
	var only ssa.Value
	n := 0
	for _, r := range *al.Referrers() {
		if st, ok := r.(*ssa.Store); ok && st.Addr == ssa.Value(al) {
			n++
			only = st.Val
		}
	}
	if n == 1 {
		return only
	}
	return v
}

// RetErr is the error operand (last result) of a Return, spill-resolved.
func RetErr(ret *ssa.Return) ssa.Value { return RetVal(ret, len(ret.Results)-1) }

// ReturnsError reports whether a function has a result of type error.
func ReturnsError(f *ssa.Function) bool {
	res := f.Signature.Results()
	for i := 0; i < res.Len(); i++ {
		if IsErrorType(res.At(i).Type()) {
			return true
		}
	}
	return false
}
