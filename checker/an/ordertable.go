package an

import (
	"fmt"
	"go/constant"
	"go/token"
	"go/types"

	"golang.org/x/tools/go/ssa"
)

// ---- E8: decision tables of comparison-only functions -----------------------------------------
//
// Some functions of the repository (the kv-level join LastWriteWins and its helpers) touch their
// two inputs only through comparisons of the same field on both sides and through zero tests.
// Their behaviour is then a finite decision table over an "order world": for each compared field
// the sign of A.f - B.f, and for each zero-tested field whether it is zero on each side. The table
// is extracted by abstract interpretation of the SSA form over that finite domain (no concrete
// values, no solver); a condition that is not of this shape makes the extraction fail loudly.

// OrderWorld is one abstract world for entities "A" and "B".
type OrderWorld struct {
	Cmp     map[string]int  // field -> sign(A.f - B.f)
	NonZero map[string]bool // "A.f" / "B.f" -> field is non-zero
}

func (w OrderWorld) String() string {
	return fmt.Sprintf("cmp=%v nonzero=%v", w.Cmp, w.NonZero)
}

type absKind int

const (
	absEntity absKind = iota // A or B (pointer or value copy)
	absField                 // field of an entity
	absConst                 // integer constant
	absBool
)

type absVal struct {
	kind  absKind
	who   string // "A" / "B"
	field string
	k     int64
	b     bool
}

type tableEval struct {
	w     OrderWorld
	depth int
	// FieldsSeen records which comparisons / zero tests the function performs (for reporting).
	FieldsSeen map[string]bool
}

// EvalOrderFunc abstractly evaluates fn (two entity parameters bound to args) in world w and
// returns which entity is returned ("A"/"B") for entity-valued functions.
func EvalOrderFunc(fn *ssa.Function, w OrderWorld) (string, map[string]bool, error) {
	ev := &tableEval{w: w, FieldsSeen: map[string]bool{}}
	if len(fn.Params) != 2 {
		return "", nil, fmt.Errorf("%s: expected two parameters", fn.Name())
	}
	res, err := ev.call(fn, []absVal{{kind: absEntity, who: "A"}, {kind: absEntity, who: "B"}})
	if err != nil {
		return "", ev.FieldsSeen, err
	}
	if res.kind != absEntity {
		return "", ev.FieldsSeen, fmt.Errorf("%s does not return one of its inputs", fn.Name())
	}
	return res.who, ev.FieldsSeen, nil
}

func (ev *tableEval) call(fn *ssa.Function, args []absVal) (absVal, error) {
	if ev.depth > 6 {
		return absVal{}, fmt.Errorf("call depth exceeded at %s", fn.Name())
	}
	if len(fn.Blocks) == 0 {
		return absVal{}, fmt.Errorf("%s has no body", fn.Name())
	}
	ev.depth++
	defer func() { ev.depth-- }()
	env := map[ssa.Value]absVal{}
	for i, p := range fn.Params {
		if i < len(args) {
			env[p] = args[i]
		}
	}
	allocs := map[*ssa.Alloc]absVal{}
	b := fn.Blocks[0]
	var prev *ssa.BasicBlock
	for steps := 0; steps < 200; steps++ {
		for _, in := range b.Instrs {
			switch x := in.(type) {
			case *ssa.Phi:
				for i, p := range b.Preds {
					if p == prev {
						v, err := ev.val(x.Edges[i], env, allocs)
						if err != nil {
							return absVal{}, err
						}
						env[x] = v
					}
				}
			case *ssa.Alloc:
				// filled by the store below
			case *ssa.Store:
				if al, ok := x.Addr.(*ssa.Alloc); ok {
					v, err := ev.val(x.Val, env, allocs)
					if err != nil {
						return absVal{}, err
					}
					allocs[al] = v
				} else {
					return absVal{}, fmt.Errorf("%s writes memory (%s): not a pure comparison function", fn.Name(), x)
				}
			case *ssa.If:
				c, err := ev.val(x.Cond, env, allocs)
				if err != nil {
					return absVal{}, err
				}
				if c.kind != absBool {
					return absVal{}, fmt.Errorf("non-boolean condition in %s", fn.Name())
				}
				prev = b
				if c.b {
					b = b.Succs[0]
				} else {
					b = b.Succs[1]
				}
			case *ssa.Jump:
				prev = b
				b = b.Succs[0]
			case *ssa.Return:
				if len(x.Results) != 1 {
					return absVal{}, fmt.Errorf("%s returns %d values", fn.Name(), len(x.Results))
				}
				return ev.val(x.Results[0], env, allocs)
			case *ssa.DebugRef:
			default:
				if v, ok := in.(ssa.Value); ok {
					av, err := ev.val(v, env, allocs)
					if err != nil {
						// tolerated if never used: remember the error lazily
						continue
					}
					env[v] = av
				}
			}
			if _, isTerm := in.(*ssa.If); isTerm {
				break
			}
			if _, isTerm := in.(*ssa.Jump); isTerm {
				break
			}
		}
	}
	return absVal{}, fmt.Errorf("%s: evaluation did not terminate (loop?)", fn.Name())
}

func (ev *tableEval) val(v ssa.Value, env map[ssa.Value]absVal, allocs map[*ssa.Alloc]absVal) (absVal, error) {
	if a, ok := env[v]; ok {
		return a, nil
	}
	switch x := v.(type) {
	case *ssa.Const:
		if x.Value == nil {
			return absVal{kind: absConst, k: 0}, nil
		}
		switch x.Value.Kind() {
		case constant.Int:
			return absVal{kind: absConst, k: x.Int64()}, nil
		case constant.Bool:
			return absVal{kind: absBool, b: constant.BoolVal(x.Value)}, nil
		}
	case *ssa.UnOp:
		switch x.Op {
		case token.MUL: // load
			if al, ok := x.X.(*ssa.Alloc); ok {
				if a, ok := allocs[al]; ok {
					return a, nil
				}
				return absVal{}, fmt.Errorf("load of an uninitialised local")
			}
			a, err := ev.val(x.X, env, allocs)
			if err != nil {
				return absVal{}, err
			}
			return a, nil // *entityPtr -> entity copy; *fieldAddr -> field
		case token.NOT:
			a, err := ev.val(x.X, env, allocs)
			if err != nil {
				return absVal{}, err
			}
			if a.kind != absBool {
				return absVal{}, fmt.Errorf("! of a non-boolean")
			}
			return absVal{kind: absBool, b: !a.b}, nil
		}
	case *ssa.FieldAddr:
		var base absVal
		var err error
		if al, ok := x.X.(*ssa.Alloc); ok {
			a, ok := allocs[al]
			if !ok {
				return absVal{}, fmt.Errorf("field of an uninitialised local")
			}
			base = a
		} else {
			base, err = ev.val(x.X, env, allocs)
			if err != nil {
				return absVal{}, err
			}
		}
		if base.kind != absEntity {
			return absVal{}, fmt.Errorf("field access on a non-input value")
		}
		fv := FieldVar(x.X.Type(), x.Field)
		return absVal{kind: absField, who: base.who, field: fv.Name()}, nil
	case *ssa.Field:
		base, err := ev.val(x.X, env, allocs)
		if err != nil {
			return absVal{}, err
		}
		if base.kind != absEntity {
			return absVal{}, fmt.Errorf("field access on a non-input value")
		}
		fv := FieldVar(x.X.Type(), x.Field)
		return absVal{kind: absField, who: base.who, field: fv.Name()}, nil
	case *ssa.BinOp:
		l, err := ev.val(x.X, env, allocs)
		if err != nil {
			return absVal{}, err
		}
		r, err := ev.val(x.Y, env, allocs)
		if err != nil {
			return absVal{}, err
		}
		switch x.Op {
		case token.EQL, token.NEQ, token.LSS, token.LEQ, token.GTR, token.GEQ:
		default:
			return absVal{}, fmt.Errorf("arithmetic %s on input values: not comparison-only", x.Op)
		}
		if (l.kind == absConst || r.kind == absConst) && (l.kind == absField || r.kind == absField) && x.Op != token.EQL && x.Op != token.NEQ {
			return absVal{}, fmt.Errorf("ordering comparison of a field with a constant (%s): only zero tests are supported", x.Op)
		}
		sign, err := ev.sign(l, r)
		if err != nil {
			return absVal{}, err
		}
		var res bool
		switch x.Op {
		case token.EQL:
			res = sign == 0
		case token.NEQ:
			res = sign != 0
		case token.LSS:
			res = sign < 0
		case token.LEQ:
			res = sign <= 0
		case token.GTR:
			res = sign > 0
		case token.GEQ:
			res = sign >= 0
		}
		return absVal{kind: absBool, b: res}, nil
	case *ssa.Call:
		cal := x.Call.StaticCallee()
		if cal == nil {
			return absVal{}, fmt.Errorf("dynamic call %s", x)
		}
		var args []absVal
		for _, a := range x.Call.Args {
			av, err := ev.val(a, env, allocs)
			if err != nil {
				return absVal{}, err
			}
			args = append(args, av)
		}
		return ev.call(cal, args)
	case *ssa.Alloc:
		if a, ok := allocs[x]; ok {
			return a, nil
		}
	case *ssa.Parameter:
		return absVal{}, fmt.Errorf("unbound parameter %s", x.Name())
	}
	return absVal{}, fmt.Errorf("unsupported operation %T (%s) in a comparison-only function", v, v)
}

// sign returns sign(l - r) in the current world.
func (ev *tableEval) sign(l, r absVal) (int, error) {
	switch {
	case l.kind == absField && r.kind == absField && l.field == r.field && l.who != r.who:
		ev.FieldsSeen["cmp:"+l.field] = true
		s, ok := ev.w.Cmp[l.field]
		if !ok {
			return 0, fmt.Errorf("world does not order field %s", l.field)
		}
		if l.who == "B" {
			s = -s
		}
		return s, nil
	case l.kind == absField && r.kind == absField && l.field == r.field && l.who == r.who:
		return 0, nil
	case l.kind == absField && r.kind == absConst && r.k == 0:
		ev.FieldsSeen["zero:"+l.field] = true
		nz, ok := ev.w.NonZero[l.who+"."+l.field]
		if !ok {
			return 0, fmt.Errorf("world does not say whether %s.%s is zero", l.who, l.field)
		}
		if nz {
			return 1, nil // only (in)equality with zero is meaningful; callers use ==/!=
		}
		return 0, nil
	case r.kind == absField && l.kind == absConst && l.k == 0:
		s, err := ev.sign(r, l)
		return -s, err
	case l.kind == absEntity && r.kind == absEntity:
		if l.who == r.who {
			return 0, nil
		}
		return 1, nil // distinct pointers
	case l.kind == absConst && r.kind == absConst:
		switch {
		case l.k < r.k:
			return -1, nil
		case l.k > r.k:
			return 1, nil
		}
		return 0, nil
	}
	return 0, fmt.Errorf("comparison of %v with %v is not between the same field of both inputs (or a zero test)", l, r)
}

var _ = types.Universe
