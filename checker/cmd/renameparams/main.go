// renameparams rewrites a scratch copy of the repository so that every parameter (and, with
// -locals, every local variable) of every library function gets another name. It produces a
// behaviour-preserving variant for the checker's own false-alarm test (selftest/benign/X5, X6);
// it is never run on /repo and is not part of any check.
package main

import (
	"flag"
	"fmt"
	"go/ast"
	"go/format"
	"go/token"
	"go/types"
	"os"
	"strings"

	"golang.org/x/tools/go/packages"
)

func main() {
	dir := flag.String("repo", "", "scratch copy")
	locals := flag.Bool("locals", false, "rename local variables too")
	funcs := flag.Bool("funcs", false, "rename unexported package-level functions instead")
	fields := flag.Bool("fields", false, "with -funcs: unexported struct fields instead")
	typesF := flag.Bool("types", false, "with -funcs: unexported named types instead")
	invert := flag.Bool("invert", false, "instead of renaming: turn every if/else round (if !(c) {B} else {A})")
	commute := flag.Bool("commute", false, "instead of renaming: x == nil -> nil == x, n != 0 -> 0 != n")
	methods := flag.Bool("methods", false, "with -funcs: unexported methods instead of functions")
	flag.Parse()
	cfg := &packages.Config{Mode: packages.LoadSyntax, Dir: *dir}
	pkgs, err := packages.Load(cfg, "./...")
	if err != nil {
		panic(err)
	}
	// objects the (unedited) tests refer to keep their names
	usedByTests := map[string]bool{}
	if *funcs {
		tcfg := &packages.Config{Mode: packages.LoadSyntax, Dir: *dir, Tests: true}
		tpkgs, err := packages.Load(tcfg, "./...")
		if err != nil {
			panic(err)
		}
		for _, tp := range tpkgs {
			for i, f := range tp.Syntax {
				if !strings.HasSuffix(tp.CompiledGoFiles[i], "_test.go") {
					continue
				}
				ast.Inspect(f, func(nd ast.Node) bool {
					if id, ok := nd.(*ast.Ident); ok {
						if o := tp.TypesInfo.Uses[id]; o != nil && o.Pkg() != nil {
							usedByTests[o.Pkg().Path()+"."+o.Name()] = true
						}
					}
					return true
				})
			}
		}
	}
	if *invert || *commute {
		cnt := 0
		for _, p := range pkgs {
			if len(p.Errors) > 0 {
				fmt.Fprintln(os.Stderr, p.Errors)
				os.Exit(2)
			}
			if strings.Contains(p.PkgPath, "/proto") || strings.Contains(p.PkgPath, "example") || strings.Contains(p.PkgPath, "/cmd/") {
				continue
			}
			for i, f := range p.Syntax {
				name := p.CompiledGoFiles[i]
				if strings.HasSuffix(name, "_test.go") || strings.HasSuffix(name, ".pb.go") || !strings.HasPrefix(name, *dir) {
					continue
				}
				changed := false
				ast.Inspect(f, func(nd ast.Node) bool {
					switch x := nd.(type) {
					case *ast.IfStmt:
						if !*invert {
							return true
						}
						if els, ok := x.Else.(*ast.BlockStmt); ok {
							x.Cond = &ast.UnaryExpr{Op: token.NOT, X: &ast.ParenExpr{X: x.Cond}}
							x.Body, x.Else = els, x.Body
							changed = true
							cnt++
						}
					case *ast.BinaryExpr:
						if !*commute || (x.Op != token.EQL && x.Op != token.NEQ) {
							return true
						}
						simple := false
						switch y := x.Y.(type) {
						case *ast.Ident:
							simple = y.Name == "nil"
						case *ast.BasicLit:
							simple = true
						}
						if simple {
							x.X, x.Y = x.Y, x.X
							changed = true
							cnt++
						}
					}
					return true
				})
				if changed {
					var sb strings.Builder
					if err := format.Node(&sb, p.Fset, f); err != nil {
						panic(err)
					}
					if err := os.WriteFile(name, []byte(sb.String()), 0o644); err != nil {
						panic(err)
					}
				}
			}
		}
		fmt.Println("rewritten:", cnt)
		return
	}
	n := 0
	for _, p := range pkgs {
		if len(p.Errors) > 0 {
			fmt.Fprintln(os.Stderr, p.Errors)
			os.Exit(2)
		}
		if strings.Contains(p.PkgPath, "/proto") || strings.Contains(p.PkgPath, "example") || strings.Contains(p.PkgPath, "/cmd/") {
			continue
		}
		ren := map[types.Object]string{}
		for id, obj := range p.TypesInfo.Defs {
			v, ok := obj.(*types.Var)
			if !ok || v.IsField() || id.Name == "_" || v.Parent() == nil || v.Parent() == p.Types.Scope() || v.Parent() == types.Universe {
				continue
			}
			ren[obj] = ""
		}
		// parameters: objects defined in a FuncType's Params list (not receivers, not results)
		isParam := map[types.Object]bool{}
		for _, f := range p.Syntax {
			ast.Inspect(f, func(nd ast.Node) bool {
				ft, ok := nd.(*ast.FuncType)
				if !ok || ft.Params == nil {
					return true
				}
				for _, fl := range ft.Params.List {
					for _, nm := range fl.Names {
						if o := p.TypesInfo.Defs[nm]; o != nil {
							isParam[o] = true
						}
					}
				}
				return true
			})
		}
		if *funcs {
			ren = map[types.Object]string{}
			for id, obj := range p.TypesInfo.Defs {
				if *typesF {
					if tn, ok := obj.(*types.TypeName); ok && !tn.Exported() && tn.Parent() == p.Types.Scope() && !usedByTests[p.PkgPath+"."+id.Name] {
						ren[obj] = id.Name + "Typ"
					}
					continue
				}
				if *fields {
					if v, ok := obj.(*types.Var); ok && v.IsField() && !v.Exported() && !v.Embedded() && id.Name != "_" && !usedByTests[p.PkgPath+"."+id.Name] {
						ren[obj] = id.Name + "Fld"
					}
					continue
				}
				fn, ok := obj.(*types.Func)
				if !ok || fn.Exported() || id.Name == "init" || id.Name == "main" || id.Name == "_" {
					continue
				}
				if sig := fn.Type().(*types.Signature); (sig.Recv() != nil) != *methods {
					continue
				} else if sig.Recv() != nil {
					// a method some interface of the package asks for keeps its name
					asked := false
					for _, nm := range p.Types.Scope().Names() {
						if it, ok := p.Types.Scope().Lookup(nm).Type().Underlying().(*types.Interface); ok {
							for i := 0; i < it.NumMethods(); i++ {
								if it.Method(i).Name() == id.Name {
									asked = true
								}
							}
						}
					}
					if asked {
						continue
					}
				}
				if usedByTests[p.PkgPath+"."+id.Name] {
					continue
				}
				ren[obj] = id.Name + "Impl"
			}
		}
		for o := range ren {
			if *funcs {
				continue
			}
			if isParam[o] {
				ren[o] = o.Name() + "Arg"
			} else if *locals {
				ren[o] = o.Name() + "Loc"
			} else {
				delete(ren, o)
			}
		}
		for i, f := range p.Syntax {
			name := p.CompiledGoFiles[i]
			if strings.HasSuffix(name, "_test.go") || strings.HasSuffix(name, ".pb.go") || !strings.HasPrefix(name, *dir) {
				continue
			}
			changed := false
			ast.Inspect(f, func(nd ast.Node) bool {
				// keep struct-literal keys and selector fields alone: they are not in Defs/Uses as these objects
				id, ok := nd.(*ast.Ident)
				if !ok {
					return true
				}
				o := p.TypesInfo.Defs[id]
				if o == nil {
					o = p.TypesInfo.Uses[id]
				}
				if nn, ok := ren[o]; ok && nn != "" {
					id.Name = nn
					changed = true
					n++
				}
				return true
			})
			if changed {
				var sb strings.Builder
				if err := format.Node(&sb, p.Fset, f); err != nil {
					panic(err)
				}
				if err := os.WriteFile(name, []byte(sb.String()), 0o644); err != nil {
					panic(err)
				}
			}
		}
	}
	fmt.Println("renamed identifiers:", n)
	_ = token.NoPos
}
