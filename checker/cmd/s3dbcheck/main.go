// s3dbcheck decides the structural clauses of the s3db properties by static analysis of
// the repository's current source. See /verif/DESIGN.md.
package main

import (
	"encoding/json"
	"flag"
	"fmt"
	"os"
	"path/filepath"
	"runtime/debug"
	"sort"
	"strconv"
	"strings"
	"time"

	"s3dbcheck/core"
	"s3dbcheck/rules"
)

func main() {
	repo := flag.String("repo", "/repo", "repository to analyse")
	prop := flag.String("property", "", "property id (Cxx), or 'all'")
	tier := flag.String("tier", "quick", "quick|thorough")
	evDir := flag.String("evidence-dir", "/verif/evidence", "directory for evidence files")
	known := flag.String("known", "/verif/known_findings.txt", "known findings file (never written)")
	list := flag.Bool("list", false, "list properties and rules")
	dump := flag.Bool("dump", false, "print every obligation")
	explain := flag.String("explain", "", "replay file: re-run the property of that obligation and print it")
	selftestDir := flag.String("selftest-dir", "/verif/checker/selftest", "directory with self-validation variants")
	noEvidence := flag.Bool("no-evidence", false, "do not write evidence (self-test workers)")
	jsonOut := flag.String("json", "", "write all obligations as JSON to this file (self-test workers)")
	flag.Parse()
	rules.SelfTestDir = *selftestDir

	if *list {
		for _, id := range rules.Properties() {
			fmt.Println(id, strings.Join(rules.RuleNames(id), " "))
		}
		return
	}
	var filter string
	if *explain != "" {
		b, err := os.ReadFile(*explain)
		if err != nil {
			fmt.Println("ERROR:", err)
			os.Exit(2)
		}
		var o core.Obligation
		if err := json.Unmarshal(b, &o); err != nil {
			fmt.Println("ERROR:", err)
			os.Exit(2)
		}
		*prop = o.Property
		filter = o.Key()
		*dump = true
		*noEvidence = true
	}
	if *prop == "" {
		fmt.Println("usage: s3dbcheck -property Cxx [-tier quick|thorough]")
		os.Exit(2)
	}
	seed := int64(0)
	if s := os.Getenv("VERIF_SEED"); s != "" {
		if v, err := strconv.ParseInt(s, 10, 64); err == nil {
			seed = v
		}
	}
	t0 := time.Now()
	p, err := core.Load(*repo, nil)
	if err != nil {
		fmt.Printf("ERROR: load %s: %v\n", *repo, err)
		os.Exit(2)
	}
	kf, err := core.LoadKnown(*known)
	if err != nil {
		fmt.Printf("ERROR: %v\n", err)
		os.Exit(2)
	}
	props := []string{*prop}
	if *prop == "all" {
		props = rules.Properties()
	}
	exit := 0
	var all []*core.Obligation
	for _, id := range props {
		t1 := time.Now()
		r := core.NewReport(id)
		func() {
			defer func() {
				if e := recover(); e != nil {
					r.Errorf("analyzer panic: %v\n%s", e, debug.Stack())
				}
			}()
			if !rules.Run(p, id, r) {
				r.Errorf("no rules registered for %s", id)
			}
		}()
		if *dump {
			for _, o := range r.Obls {
				if filter != "" && o.Key() != filter {
					continue
				}
				fmt.Printf("%-10s %-60s %s\n    %s\n    %s\n", o.Status, o.Key(), o.Pos, o.Detail, strings.Join(o.Path, "\n    "))
			}
		}
		for k, v := range p.Renamed {
			r.Notes = append(r.Notes, "anchor "+k+" resolved by signature to renamed function "+v)
		}
		all = append(all, r.Obls...)
		m := core.EvidenceMeta{
			Tier: *tier, Seed: seed,
			CheckerCmd: "bin/s3dbcheck -repo " + *repo + " -property " + id + " -tier " + *tier,
			Packages:   len(p.ByPath), RepoPkgs: len(p.Roots),
			TreeHash:  p.TreeHash,
			ReplayDir: filepath.Join(*evDir, "replay"),
		}
		if cg := p.VTAIfBuilt(); cg != nil {
			m.CGAlgo = "vta(cha)"
			m.CGNodes = len(cg.Nodes)
			n := 0
			for _, nd := range cg.Nodes {
				n += len(nd.Out)
			}
			m.CGEdges = n
		}
		if !*noEvidence {
			m.EvidenceOut = filepath.Join(*evDir, id+".json")
		}
		if *tier == "thorough" && os.Getenv("S3DBCHECK_WORKER") == "" {
			m.SelfTest = rules.SelfValidate(p, id, r, seed)
		}
		m.WallS = time.Since(t1).Seconds()
		if len(props) == 1 {
			m.WallS = time.Since(t0).Seconds()
		}
		if c := r.Finish(kf, m); c > exit {
			if exit != 1 {
				exit = c
			}
			if c == 1 {
				exit = 1
			}
		}
	}
	if *jsonOut != "" {
		sort.SliceStable(all, func(i, j int) bool { return all[i].Key() < all[j].Key() })
		b, _ := json.MarshalIndent(all, "", " ")
		os.WriteFile(*jsonOut, b, 0o644)
	}
	os.Exit(exit)
}
