package rules

import "s3dbcheck/core"

// SelfValidate is installed by selftest_run.go (thorough tier).
var SelfValidate func(p *core.Program, id string, r *core.Report, seed int64) map[string]any
