package rules

import (
	"fmt"
	"go/constant"
	"go/token"
	"sort"
	"go/types"
	"strings"

	"golang.org/x/tools/go/ssa"

	"s3dbcheck/an"
	"s3dbcheck/core"
)

const (
	mastPersistS3 = "github.com/jrhy/mast/persist/s3"
	kvPkg         = core.ModPath + "/kv"
	crdtPkg       = core.ModPath + "/kv/internal/crdt"
	mastPkg       = "github.com/jrhy/mast"
)

func init() {
	register(&Rule{Name: "C03.commit-order", Min: 5, Run: c03CommitOrder,
		Doc: "Commit: version PUT only after MakeRoot succeeded; retirement only after the PUT succeeded; success only after the PUT"})
	register(&Rule{Name: "C03.retire", Min: 5, Run: c03Retire,
		Doc: "moveMergedRoots: DELETE from current/ only after the copy to merged/ of the same version succeeded, never for the new version"})
	register(&Rule{Name: "C03.recorded-iff-merged", Min: 6, Run: c03Recorded,
		Doc: "mergeRoots: a version is recorded as merged on exactly the loop iterations that merged it"})
	register(&Rule{Name: "C03.merge-inserts", Min: 4, Run: c03MergeInserts,
		Doc: "merge callbacks insert the winner for every key that differs, except 'already present'"})
	register(&Rule{Name: "C03.retired-source", Min: 2, Run: c03RetiredSource,
		Doc: "what Commit retires is DB.mergedRoots, written only from mergeRoots' result and by Commit"})
	register(&Rule{Name: "C03.persist-lists", Min: 2, Run: c03PersistLists,
		Doc: "Open: when unreadable versions are skipped the lookup order is current/ then merged/; an explicit version set looks in both and never skips"})
	register(&Rule{Name: "C03.who-deletes", Min: 4, Run: c03WhoDeletes,
		Doc: "every DELETE request site in library code is one of the confirmed ones, on the confirmed prefix"})
	claim("C03", "C03 clauses decided (the request order and bookkeeping every interleaving relies on, on all control-flow paths): commit-order, retire, recorded-iff-merged, merge-inserts, retired-source, persist-lists (lookup order current/ then merged/ when skipping), who-deletes. Not decided: linearizability of whole schedules, S3 listing consistency, liveness.",
		"C03.commit-order", "C03.retire", "C03.recorded-iff-merged", "C03.merge-inserts", "C03.retired-source", "C03.persist-lists", "C03.who-deletes")
}

func mustFunc(c *Ctx, pkgRel, recv, name string) *ssa.Function {
	fn := c.P.LookupFunc(pkgRel, recv, name)
	if fn == nil || len(fn.Blocks) == 0 {
		c.R.Errorf("anchor function %s.%s.%s not found", pkgRel, recv, name)
		return nil
	}
	c.R.SawFunc(core.FuncName(fn))
	return fn
}

func mustField(c *Ctx, pkgRel, typ, field string) *types.Var {
	v := an.LookupField(c.P, pkgRel, typ, field)
	if v == nil {
		c.R.Errorf("anchor field %s.%s.%s not found", pkgRel, typ, field)
	}
	return v
}

// persistStoreCalls returns the calls of mast's s3 Persist.Store in fn whose receiver was loaded
// through the given DB field.
func persistStoreCalls(fn *ssa.Function, through *types.Var) []ssa.CallInstruction {
	var out []ssa.CallInstruction
	for _, call := range an.Calls(fn) {
		if !an.CalleeIs(call, mastPersistS3, "Persist", "Store") {
			continue
		}
		if rv := an.RecvValue(call); rv != nil && an.HasField(rv, through) {
			out = append(out, call)
		}
	}
	return out
}

// mutatingCalls lists the calls in fn that are, or can reach, a mutating S3 request.
func mutatingCalls(c *Ctx, fn *ssa.Function) []ssa.CallInstruction {
	e := c.Eff()
	mut := e.ReachSet(func(k an.SinkKind) bool { return k == an.SinkMut })
	var out []ssa.CallInstruction
	for _, call := range an.Calls(fn) {
		for _, cal := range e.Callees(call) {
			if isMut(cal) || mut[cal] {
				out = append(out, call)
				break
			}
		}
	}
	return out
}

// ---- C03.commit-order -------------------------------------------------------------------------

func c03CommitOrder(c *Ctx) {
	const rule = "C03.commit-order"
	fn := mustFunc(c, "kv", "*DB", "Commit")
	rootF := mustField(c, "kv", "DB", "root")
	if fn == nil || rootF == nil {
		return
	}
	name := core.FuncName(fn)
	puts := persistStoreCalls(fn, rootF)
	if len(puts) != 1 {
		c.R.Bad(rule, name+": version PUT", c.P.Pos(fn.Pos()), fmt.Sprintf("expected exactly one s.root.Store call (the single commit point), found %d", len(puts)))
		return
	}
	put := puts[0]
	pos := c.P.Pos(put.Pos())
	var mk ssa.CallInstruction
	for _, call := range an.Calls(fn) {
		if an.CalleeIs(call, crdtPkg, "Tree", "MakeRoot") {
			mk = call
		}
	}
	if mk == nil {
		c.R.Bad(rule, name+": MakeRoot before PUT", pos, "Commit does not call crdt.Tree.MakeRoot (which flushes all dirty nodes) before writing the version object")
	} else {
		ok, why := an.SuccessDominates(mk, put)
		c.R.Cond(ok, rule, name+": MakeRoot before PUT", pos, "version PUT only after MakeRoot (node flush) returned nil", "version object can be written although flushing the nodes failed or was not attempted: "+why)
	}
	c.R.Cond(!an.InCycle(put.Block()), rule, name+": single PUT", pos, "the version PUT is not in a loop", "the version PUT is inside a loop: a commit is no longer one request")
	// every other mutating call only after the PUT succeeded
	for _, call := range mutatingCalls(c, fn) {
		if call == put || call == mk {
			continue
		}
		ok, why := an.SuccessDominates(put, call)
		c.R.Cond(ok, rule, name+": "+calleeLabel(call)+" after PUT", c.P.Pos(call.Pos()),
			"runs only after the version PUT succeeded", "a request that retires/overwrites versions can run before the new version exists: "+why)
	}
	// once the version PUT succeeded the commit is published: no error may be reported after it
	ne := 0
	for _, b := range fn.Blocks {
		ret, ok := b.Instrs[len(b.Instrs)-1].(*ssa.Return)
		if !ok || an.IsNilConst(an.RetErr(ret)) {
			continue
		}
		if after, _ := an.SuccessDominates(put, ret); after {
			ne++
			c.R.Bad(rule, fmt.Sprintf("%s: no failure after the commit point #%d", name, ne), c.P.Pos(ret.Pos()),
				"Commit can return an error after the version PUT succeeded: the caller (xSync) rolls back locally while the bucket already holds the transaction as the current version")
		}
	}
	if ne == 0 {
		c.R.OK(rule, name+": no failure after the commit point", pos, "no error return is reachable once the version PUT succeeded")
	}
	// every nil-error return: after PUT success, or on a path that issued no mutating request
	muts := mutatingCalls(c, fn)
	n := 0
	for _, b := range fn.Blocks {
		ret, ok := b.Instrs[len(b.Instrs)-1].(*ssa.Return)
		if !ok || !an.IsNilConst(an.RetErr(ret)) {
			continue
		}
		n++
		okPut, _ := an.SuccessDominates(put, ret)
		clean := true
		for _, m := range muts {
			if an.ReachableFromBlock(m.Block(), b, nil) {
				clean = false
			}
		}
		c.R.Cond(okPut || clean, rule, fmt.Sprintf("%s: success return #%d", name, n), c.P.Pos(ret.Pos()),
			"success is acknowledged only after the version PUT succeeded (or nothing was written)", "Commit can return success on a path where the version PUT did not succeed")
	}
}

// ---- C03.retire -------------------------------------------------------------------------------

// deleteCalls lists DeleteObject* request calls of fn (invoke on an S3 interface or the client).
func deleteCalls(fn *ssa.Function) []ssa.CallInstruction {
	var out []ssa.CallInstruction
	_, _, isWrapper := deleteWrapper(fn)
	for _, call := range an.Calls(fn) {
		if f := call.Common().StaticCallee(); f != nil {
			if _, _, ok := deleteWrapper(f); ok {
				// a call of a thin "delete this key of this bucket" helper is the delete site
				out = append(out, call)
				continue
			}
		}
		if isWrapper {
			// the request inside the helper is accounted for at the helper's call sites
			continue
		}
		n := ""
		cc := call.Common()
		if cc.IsInvoke() {
			n = cc.Method.Name()
		} else if f := cc.StaticCallee(); f != nil {
			if _, ok := an.SinkOf(f); ok {
				n = f.Name()
			}
		}
		if strings.HasPrefix(n, "DeleteObject") {
			out = append(out, call)
		}
	}
	return out
}

// deleteTarget describes the Key/Bucket of a DeleteObjectInput literal passed to a delete call.
type deleteTarget struct {
	PrefixThrough []*types.Var // field path of the Prefix load
	KeySuffix     ssa.Value    // what is appended to the prefix
	BucketThrough []*types.Var
}

// deleteWrapper recognises a thin helper around one DELETE request: a library function with
// exactly one DeleteObject call whose Key and Bucket are parameters of the helper as they are
// (aws.String(p) or &p). It returns the parameter indices of key and bucket.
var deleteWrapperCache = map[*ssa.Function][3]int{}

func deleteWrapper(fn *ssa.Function) (keyIdx, bucketIdx int, ok bool) {
	if r, seen := deleteWrapperCache[fn]; seen {
		return r[0], r[1], r[2] == 1
	}
	deleteWrapperCache[fn] = [3]int{-1, -1, 0}
	if fn == nil || fn.Blocks == nil || fn.Pkg == nil || !strings.HasPrefix(fn.Pkg.Pkg.Path(), "github.com/jrhy/s3db") {
		return -1, -1, false
	}
	var inner ssa.CallInstruction
	n := 0
	for _, call := range an.Calls(fn) {
		nm := ""
		cc := call.Common()
		if cc.IsInvoke() {
			nm = cc.Method.Name()
		} else if f := cc.StaticCallee(); f != nil {
			if _, ok := an.SinkOf(f); ok {
				nm = f.Name()
			}
		}
		if strings.HasPrefix(nm, "DeleteObject") {
			inner = call
			n++
		}
	}
	if n != 1 {
		return -1, -1, false
	}
	var input ssa.Value
	for _, a := range inner.Common().Args {
		if nt := an.NamedOf(a.Type()); nt != nil && nt.Obj().Name() == "DeleteObjectInput" {
			input = a
		}
	}
	if input == nil {
		return -1, -1, false
	}
	paramIdx := func(v ssa.Value) int {
		if v == nil {
			return -1
		}
		if kc, ok := v.(*ssa.Call); ok && len(kc.Call.Args) == 1 { // aws.String(p)
			v = kc.Call.Args[0]
		} else if al, ok := v.(*ssa.Alloc); ok { // &p: the spilled parameter
			var src ssa.Value
			cnt := 0
			for _, ref := range *al.Referrers() {
				if st, ok := ref.(*ssa.Store); ok && st.Addr == ssa.Value(al) {
					src = st.Val
					cnt++
				}
			}
			if cnt != 1 {
				return -1
			}
			v = src
		}
		for i, p := range fn.Params {
			if ssa.Value(p) == v {
				return i
			}
		}
		return -1
	}
	k := paramIdx(an.StoreToFieldOf(input, "Key"))
	b := paramIdx(an.StoreToFieldOf(input, "Bucket"))
	if k < 0 || b < 0 {
		return -1, -1, false
	}
	deleteWrapperCache[fn] = [3]int{k, b, 1}
	return k, b, true
}

func deleteTargetOf(call ssa.CallInstruction) *deleteTarget {
	args := call.Common().Args
	if f := call.Common().StaticCallee(); f != nil {
		if k, b, ok := deleteWrapper(f); ok && k < len(args) && b < len(args) {
			t := &deleteTarget{}
			if bo, ok := an.Unwrap(args[k]).(*ssa.BinOp); ok && bo.Op == token.ADD {
				t.PrefixThrough = an.FieldPath(bo.X)
				t.KeySuffix = bo.Y
			}
			t.BucketThrough = an.FieldPath(args[b])
			return t
		}
	}
	var input ssa.Value
	for _, a := range args {
		if nt := an.NamedOf(a.Type()); nt != nil && nt.Obj().Name() == "DeleteObjectInput" {
			input = a
		}
	}
	if input == nil {
		return nil
	}
	t := &deleteTarget{}
	key := an.StoreToFieldOf(input, "Key")
	if kc, ok := key.(*ssa.Call); ok && len(kc.Call.Args) == 1 { // aws.String(prefix + suffix)
		if bo, ok := kc.Call.Args[0].(*ssa.BinOp); ok && bo.Op == token.ADD {
			t.PrefixThrough = an.FieldPath(bo.X)
			t.KeySuffix = bo.Y
		}
	}
	bucket := an.StoreToFieldOf(input, "Bucket")
	if bc, ok := bucket.(*ssa.Call); ok && len(bc.Call.Args) == 1 {
		t.BucketThrough = an.FieldPath(bc.Call.Args[0])
	} else if bucket != nil {
		t.BucketThrough = an.FieldPath(bucket)
	}
	return t
}

func pathHas(p []*types.Var, f *types.Var) bool {
	for _, x := range p {
		if x == f {
			return true
		}
	}
	return false
}

func pathNames(p []*types.Var) string {
	var s []string
	for _, x := range p {
		if x != nil {
			s = append(s, x.Name())
		}
	}
	return strings.Join(s, ".")
}

// staticCallSites returns the static call sites of fn in library code.
func staticCallSites(c *Ctx, fn *ssa.Function) []ssa.CallInstruction {
	var out []ssa.CallInstruction
	for _, f := range c.P.RepoFuncs(an.LibraryPkg) {
		for _, call := range an.Calls(f) {
			if call.Common().StaticCallee() == fn {
				out = append(out, call)
			}
		}
	}
	return out
}

// throughCaller maps a parameter of a helper to the argument at its only call site (one-level
// summary, DESIGN.md E2). Returns v itself when it is not a parameter.
func throughCaller(c *Ctx, fn *ssa.Function, v ssa.Value) (ssa.Value, ssa.CallInstruction) {
	p, ok := an.Unwrap(v).(*ssa.Parameter)
	if !ok {
		return v, nil
	}
	sites := staticCallSites(c, fn)
	if len(sites) != 1 {
		return v, nil
	}
	for i, fp := range fn.Params {
		if fp == p && i < len(sites[0].Common().Args) {
			return sites[0].Common().Args[i], sites[0]
		}
	}
	return v, nil
}

// retireFunc finds the function that retires merged parents: it copies to DB.merged and deletes
// under DB.root. Found by what it does, so that extracting a per-version helper does not lose it.
func retireFunc(c *Ctx) *ssa.Function {
	rootF := an.LookupField(c.P, "kv", "DB", "root")
	mergedF := an.LookupField(c.P, "kv", "DB", "merged")
	if rootF == nil || mergedF == nil {
		return nil
	}
	var found *ssa.Function
	for _, fn := range c.P.RepoFuncs(func(rel string) bool { return rel == "kv" }) {
		if len(persistStoreCalls(fn, mergedF)) == 0 {
			continue
		}
		for _, d := range deleteCalls(fn) {
			if t := deleteTargetOf(d); t != nil && pathHas(t.PrefixThrough, rootF) {
				found = fn
			}
		}
	}
	if found == nil {
		found = c.P.LookupFunc("kv", "*DB", "moveMergedRoots")
	}
	return found
}

func c03Retire(c *Ctx) {
	const rule = "C03.retire"
	fn := retireFunc(c)
	rootF := mustField(c, "kv", "DB", "root")
	mergedF := mustField(c, "kv", "DB", "merged")
	if fn == nil || len(fn.Blocks) == 0 || rootF == nil || mergedF == nil {
		c.R.Errorf("cannot find the function that retires merged versions (copy to DB.merged + DELETE under DB.root)")
		return
	}
	c.R.SawFunc(core.FuncName(fn))
	name := core.FuncName(fn)
	copies := persistStoreCalls(fn, mergedF)
	dels := deleteCalls(fn)
	if len(copies) != 1 || len(dels) != 1 {
		c.R.Bad(rule, name+": shape", c.P.Pos(fn.Pos()), fmt.Sprintf("expected one copy to merged/ and one DELETE, found %d and %d", len(copies), len(dels)))
		return
	}
	cp, del := copies[0], dels[0]
	ok, why := an.SuccessDominates(cp, del)
	c.R.Cond(ok, rule, name+": DELETE after copy", c.P.Pos(del.Pos()), "a version is deleted from current/ only after its copy to merged/ succeeded (same iteration)",
		"a version can be deleted from current/ before it exists in merged/: an opener that listed it finds it nowhere ("+why+")")
	tgt := deleteTargetOf(del)
	if tgt == nil || tgt.KeySuffix == nil {
		c.R.Bad(rule, name+": DELETE target", c.P.Pos(del.Pos()), "cannot identify the key of the DELETE request (expected aws.String(s.root.Prefix + key))")
		return
	}
	c.R.Cond(pathHas(tgt.PrefixThrough, rootF) && pathHas(tgt.BucketThrough, rootF), rule, name+": DELETE under current/", c.P.Pos(del.Pos()),
		"the DELETE addresses s.root (root/current/) prefix and bucket", "the DELETE addresses "+pathNames(tgt.PrefixThrough)+" / "+pathNames(tgt.BucketThrough)+", not the current/ prefix of this table")
	// same key, value of the same map entry
	cargs := cp.Common().Args // recv, ctx, key, value
	keyV, valV := cargs[2], cargs[3]
	c.R.Cond(an.SameValue(keyV, tgt.KeySuffix), rule, name+": same version copied and deleted", c.P.Pos(del.Pos()),
		"the version copied to merged/ is the version deleted from current/", "the copy and the DELETE address different version names")
	// the entry and the guard may live in the caller when the per-version work is a helper
	keyC, siteK := throughCaller(c, fn, keyV)
	valC, siteV := throughCaller(c, fn, valV)
	guardFn := fn
	var guardTargets []*ssa.BasicBlock
	if siteK != nil && siteK == siteV {
		guardFn = siteK.Parent()
		guardTargets = []*ssa.BasicBlock{siteK.Block()}
		c.R.SawFunc(core.FuncName(guardFn))
	} else {
		keyC, valC = keyV, valV
		guardTargets = []*ssa.BasicBlock{cp.Block(), del.Block()}
	}
	kx, ok1 := an.Unwrap(keyC).(*ssa.Extract)
	vx, ok2 := an.Unwrap(valC).(*ssa.Extract)
	sameEntry := ok1 && ok2 && kx.Tuple == vx.Tuple && kx.Index == 1 && vx.Index == 2
	if sameEntry {
		if nx, ok := kx.Tuple.(*ssa.Next); !ok || nx.IsString {
			sameEntry = false
		}
	}
	c.R.Cond(sameEntry, rule, name+": copy carries the entry's bytes", c.P.Pos(cp.Pos()),
		"the bytes written to merged/<name> are the map value of <name>", "the bytes copied to merged/ are not the recorded bytes of that version name")
	// never for the new version: only via the "not the new version" edge of newRoot == key
	// the new version's name is a string parameter of the guard's function (by role: the one the
	// entry's name is compared with; its name is the maintainer's business)
	isNameParam := func(v ssa.Value) bool {
		p, ok := an.Unwrap(v).(*ssa.Parameter)
		if !ok || p.Parent() != guardFn {
			return false
		}
		b, ok := p.Type().Underlying().(*types.Basic)
		return ok && b.Kind() == types.String
	}
	guarded := false
	{
		for _, b := range guardFn.Blocks {
			iff, ok := b.Instrs[len(b.Instrs)-1].(*ssa.If)
			if !ok {
				continue
			}
			cond, neg := an.StripNot(iff.Cond)
			bo, ok := cond.(*ssa.BinOp)
			if !ok || (bo.Op != token.EQL && bo.Op != token.NEQ) {
				continue
			}
			if !(isNameParam(bo.X) && an.SameValue(bo.Y, keyC) || isNameParam(bo.Y) && an.SameValue(bo.X, keyC)) {
				continue
			}
			eq := bo.Op == token.EQL
			if neg {
				eq = !eq
			}
			si := 1 // successor taken when newRoot != key
			if !eq {
				si = 0
			}
			all := true
			for _, t := range guardTargets {
				if !an.OnlyVia(b, si, t) {
					all = false
				}
			}
			if all {
				guarded = true
			}
		}
	}
	c.R.Cond(guarded, rule, name+": new version is never retired", c.P.Pos(cp.Pos()),
		"copy and DELETE run only when the entry is not the version just written", "the version just committed can be retired (deleted from current/) by its own commit")
}

// ---- C03.who-deletes --------------------------------------------------------------------------

func c03WhoDeletes(c *Ctx) {
	const rule = "C03.who-deletes"
	rootF := mustField(c, "kv", "DB", "root")
	mergedF := mustField(c, "kv", "DB", "merged")
	persistF := mustField(c, "kv", "DB", "persist")
	if rootF == nil || mergedF == nil || persistF == nil {
		return
	}
	retire := retireFunc(c)
	dhFn := c.P.LookupFunc("kv", "", "DeleteHistoricVersions")
	var dhScope *an.Scope
	if dhFn != nil {
		dhScope = c.Scope(dhFn)
	}
	// allowed(fn, prefix): the role of the function decides, not its name
	allowedSite := func(fn *ssa.Function, pfx string) (string, bool) {
		switch {
		case fn == retire && pfx == "root":
			return "retirement after copy (C03.retire)", true
		case dhScope != nil && dhScope.Contains(fn) && pfx == "persist":
			return "vacuum: node objects of superseded versions", true
		case dhScope != nil && dhScope.Contains(fn) && pfx == "merged":
			return "vacuum: superseded version objects in merged/", true
		case dhScope != nil && dhScope.Contains(fn) && pfx == "root":
			return "vacuum: the empty current version (guard checked below)", true
		}
		return "", false
	}
	for _, fn := range c.P.RepoFuncs(an.LibraryPkg) {
		for _, del := range deleteCalls(fn) {
			tgt := deleteTargetOf(del)
			pfx := "?"
			if tgt != nil {
				switch {
				case pathHas(tgt.PrefixThrough, rootF):
					pfx = "root"
				case pathHas(tgt.PrefixThrough, mergedF):
					pfx = "merged"
				case pathHas(tgt.PrefixThrough, persistF):
					pfx = "persist"
				}
			}
			fname := core.FuncName(fn)
			c.R.SawFunc(fname)
			reason, ok := allowedSite(fn, pfx)
			construct := fname + ": DELETE under DB." + pfx
			if !ok {
				c.R.Bad(rule, construct, c.P.Pos(del.Pos()), "a DELETE request at a site / on a prefix that is not one of the confirmed ones: objects other clients rely on may disappear")
				continue
			}
			if dhScope != nil && dhScope.Contains(fn) && pfx == "root" && retiredListElement(fn, tgt.KeySuffix) {
				c.R.OK(rule, construct+" (retired names)", c.P.Pos(del.Pos()), "vacuum: completes the best-effort retirement of a version whose history it is about to delete (C09.gc-retires-first)")
				continue
			}
			if dhScope != nil && dhScope.Contains(fn) && pfx == "root" {
				// only for an empty, clean, committed tree
				sizeZero := false
				for _, b := range fn.Blocks {
					iff, isIf := b.Instrs[len(b.Instrs)-1].(*ssa.If)
					if !isIf {
						continue
					}
					cond, neg := an.StripNot(iff.Cond)
					bo, isBo := cond.(*ssa.BinOp)
					if !isBo || (bo.Op != token.EQL && bo.Op != token.NEQ) {
						continue
					}
					isSize := func(v ssa.Value) bool {
						cl, ok := v.(*ssa.Call)
						return ok && an.CalleeIs(cl, kvPkg, "DB", "Size")
					}
					isZero := func(v ssa.Value) bool {
						k, ok := v.(*ssa.Const)
						return ok && k.Value != nil && k.Value.Kind() == constant.Int && constant.Sign(k.Value) == 0
					}
					if !(isSize(bo.X) && isZero(bo.Y) || isSize(bo.Y) && isZero(bo.X)) {
						continue
					}
					eq := bo.Op == token.EQL
					if neg {
						eq = !eq
					}
					si := 0
					if !eq {
						si = 1
					}
					if an.OnlyVia(b, si, del.Block()) {
						sizeZero = true
					}
				}
				c.R.Cond(sizeZero, rule, construct, c.P.Pos(del.Pos()), reason+": only when Size()==0", "the current version can be deleted although the table is not empty")
				continue
			}
			c.R.OK(rule, construct, c.P.Pos(del.Pos()), reason)
		}
	}
}

// retiredListElement: the key suffix of a DELETE is an element of the very list of retired version
// names over which the function also deletes under merged/ (the first result of
// getHistoricRootsAndNodes).
func retiredListElement(fn *ssa.Function, suffix ssa.Value) bool {
	listOf := func(v ssa.Value) ssa.Value {
		if v == nil {
			return nil
		}
		ld, ok := an.Unwrap(v).(*ssa.UnOp)
		if !ok || ld.Op != token.MUL {
			return nil
		}
		ia, ok := ld.X.(*ssa.IndexAddr)
		if !ok {
			return nil
		}
		return ia.X
	}
	mine := listOf(suffix)
	if mine == nil {
		return false
	}
	for _, d := range deleteCalls(fn) {
		t := deleteTargetOf(d)
		if t == nil {
			continue
		}
		for _, f := range t.PrefixThrough {
			if f.Name() == "merged" && listOf(t.KeySuffix) == mine {
				return true
			}
		}
	}
	return false
}

// ---- C03.retired-source ------------------------------------------------------------------------

func c03RetiredSource(c *Ctx) {
	const rule = "C03.retired-source"
	fn := mustFunc(c, "kv", "*DB", "Commit")
	mrF := mustField(c, "kv", "DB", "mergedRoots")
	open := mustFunc(c, "kv", "", "Open")
	mergeRootsFn := mustFunc(c, "kv", "", "mergeRoots")
	if fn == nil || mrF == nil || open == nil || mergeRootsFn == nil {
		return
	}
	// the map handed to moveMergedRoots is s.mergedRoots
	for _, call := range an.Calls(fn) {
		if !an.CalleeIs(call, kvPkg, "DB", "moveMergedRoots") {
			continue
		}
		args := call.Common().Args
		v := args[len(args)-1]
		c.R.Cond(an.FieldOfLoad(v) == mrF, rule, core.FuncName(fn)+": retires DB.mergedRoots", c.P.Pos(call.Pos()),
			"Commit retires exactly the versions recorded in DB.mergedRoots", "Commit retires a set other than DB.mergedRoots: "+v.String())
	}
	// writers of DB.mergedRoots
	for _, f := range c.P.RepoFuncs(func(rel string) bool { return rel == "kv" }) {
		for _, b := range f.Blocks {
			for _, in := range b.Instrs {
				st, ok := in.(*ssa.Store)
				if !ok {
					continue
				}
				fa, ok := st.Addr.(*ssa.FieldAddr)
				if !ok || an.FieldVar(fa.X.Type(), fa.Field) != mrF {
					continue
				}
				fname := core.FuncName(f)
				construct := fname + ": writes DB.mergedRoots"
				switch f {
				case open:
					// must be the map result of mergeRoots
					good := false
					if ex, ok := an.Unwrap(st.Val).(*ssa.Extract); ok {
						if cl, ok := ex.Tuple.(*ssa.Call); ok && cl.Call.StaticCallee() == mergeRootsFn && ex.Index == 1 {
							good = true
						}
					}
					c.R.Cond(good, rule, construct, c.P.Pos(st.Pos()), "initialised from the map mergeRoots returned (what was really merged)", "DB.mergedRoots initialised from something other than mergeRoots' result")
				case fn:
					// {name: rootBytes} of the version just written: a fresh map made in Commit
					_, isMake := an.Unwrap(st.Val).(*ssa.MakeMap)
					ok2, _ := false, ""
					if isMake {
						rootF := an.LookupField(c.P, "kv", "DB", "root")
						if puts := persistStoreCalls(fn, rootF); len(puts) == 1 {
							ok2, _ = an.SuccessDominates(puts[0], st)
						}
					}
					c.R.Cond(isMake && ok2, rule, construct, c.P.Pos(st.Pos()), "reset to {new version} only after the version PUT succeeded", "DB.mergedRoots rewritten before/without a successful version PUT")
				default:
					c.R.Bad(rule, construct, c.P.Pos(st.Pos()), "DB.mergedRoots is written outside Open and Commit: versions that were not merged could be retired")
				}
			}
		}
	}
}

// ---- C03.persist-lists -----------------------------------------------------------------------

// persistKind classifies a mast.Persist value built in Open by the constant suffix passed to
// toPersist ("root/current/", "root/merged/").
func persistKind(v ssa.Value) string {
	v = an.Unwrap(v)
	if cl, ok := v.(*ssa.Call); ok {
		for _, a := range cl.Call.Args {
			if k, ok := a.(*ssa.Const); ok && k.Value != nil && k.Value.Kind() == constant.String {
				switch constant.StringVal(k.Value) {
				case "root/current/":
					return "current"
				case "root/merged/":
					return "merged"
				case "node/":
					return "node"
				}
			}
		}
	}
	return "?"
}

// sliceLitElems returns the element values of a slice built from an array literal, in order.
func sliceLitElems(v ssa.Value) ([]ssa.Value, bool) {
	sl, ok := v.(*ssa.Slice)
	if !ok {
		return nil, false
	}
	al, ok := sl.X.(*ssa.Alloc)
	if !ok {
		return nil, false
	}
	at, ok := al.Type().Underlying().(*types.Pointer).Elem().Underlying().(*types.Array)
	if !ok {
		return nil, false
	}
	elems := make([]ssa.Value, at.Len())
	for _, r := range *al.Referrers() {
		ia, ok := r.(*ssa.IndexAddr)
		if !ok {
			continue
		}
		k, ok := ia.Index.(*ssa.Const)
		if !ok {
			return nil, false
		}
		idx, _ := constant.Int64Val(k.Value)
		for _, rr := range *ia.Referrers() {
			if st, ok := rr.(*ssa.Store); ok && st.Addr == ia && int(idx) < len(elems) {
				elems[idx] = st.Val
			}
		}
	}
	for _, e := range elems {
		if e == nil {
			return nil, false
		}
	}
	return elems, true
}

func c03PersistLists(c *Ctx) {
	const rule = "C03.persist-lists"
	open := mustFunc(c, "kv", "", "Open")
	mergeRootsFn := mustFunc(c, "kv", "", "mergeRoots")
	if open == nil || mergeRootsFn == nil {
		return
	}
	pIdx, sIdx := -1, -1
	// by role when the names are gone: the list of stores is the []mast.Persist parameter, the
	// switch is the bool tested on the failing side of a load
	pP := an.ParamOfType(mergeRootsFn, "persists", "[]"+mastPkg+".Persist")
	sP := an.BoolParamUnderError(mergeRootsFn, "skipUnreadable")
	for i, p := range mergeRootsFn.Params {
		switch {
		case pP != nil && p == pP:
			pIdx = i
		case sP != nil && p == sP:
			sIdx = i
		}
	}
	if pIdx < 0 || sIdx < 0 {
		c.R.Errorf("mergeRoots parameters persists/skipUnreadable not found")
		return
	}
	n := 0
	for _, call := range an.Calls(open) {
		if call.Common().StaticCallee() != mergeRootsFn {
			continue
		}
		args := call.Common().Args
		pv, sv := args[pIdx], args[sIdx]
		type kase struct {
			p    ssa.Value
			skip ssa.Value
		}
		var cases []kase
		pp, pIsPhi := pv.(*ssa.Phi)
		sp, sIsPhi := sv.(*ssa.Phi)
		switch {
		case pIsPhi && sIsPhi && pp.Block() == sp.Block():
			for i := range pp.Edges {
				cases = append(cases, kase{pp.Edges[i], sp.Edges[i]})
			}
		case sIsPhi && !pIsPhi:
			for i := range sp.Edges {
				cases = append(cases, kase{pv, sp.Edges[i]})
			}
		case !sIsPhi && !pIsPhi:
			cases = append(cases, kase{pv, sv})
		default:
			c.R.Unk(rule, "kv.Open: persists/skipUnreadable pairing", c.P.Pos(call.Pos()), "cannot pair the persist list with skipUnreadable (unexpected data flow)")
			continue
		}
		// the selection may have moved into a helper that returns a struct: the pairs are then the
		// field stores of each struct literal, and the call reads the same two fields
		if len(cases) == 1 {
			if _, isC := constBool(cases[0].skip); !isC {
				pf, sf := fieldOfValue(pv), fieldOfValue(sv)
				if pf != nil && sf != nil {
					var lit []kase
					for _, f := range c.Scope(open).Funcs {
						for _, b := range f.Blocks {
							for _, in := range b.Instrs {
								al, ok := in.(*ssa.Alloc)
								if !ok {
									continue
								}
								var pVal, sVal ssa.Value
								for _, r := range *al.Referrers() {
									fa, ok := r.(*ssa.FieldAddr)
									if !ok {
										continue
									}
									fv := an.FieldVar(fa.X.Type(), fa.Field)
									for _, rr := range *fa.Referrers() {
										if st, ok := rr.(*ssa.Store); ok && st.Addr == ssa.Value(fa) {
											if fv == pf {
												pVal = st.Val
											}
											if fv == sf {
												sVal = st.Val
											}
										}
									}
								}
								if pVal != nil && sVal != nil {
									lit = append(lit, kase{pVal, sVal})
								}
							}
						}
					}
					if len(lit) > 0 {
						cases = lit
					}
				}
			}
		}
		for _, k := range cases {
			n++
			skip, isConst := constBool(k.skip)
			if !isConst {
				c.R.Unk(rule, fmt.Sprintf("kv.Open: mergeRoots case #%d", n), c.P.Pos(call.Pos()), "skipUnreadable is not a constant on this path")
				continue
			}
			elems, ok := sliceLitElems(k.p)
			if !ok {
				c.R.Unk(rule, fmt.Sprintf("kv.Open: mergeRoots case skip=%v", skip), c.P.Pos(call.Pos()), "persist list is not a slice literal")
				continue
			}
			var kinds []string
			osc := c.Scope(open)
			for _, e := range elems {
				kinds = append(kinds, persistKind(osc.ArgOfParam(an.Unwrap(e))))
			}
			ks := strings.Join(kinds, ",")
			pos := c.P.Pos(call.Pos())
			if skip {
				// retirement is PUT merged/X then DELETE current/X: looking in current/ first and
				// merged/ second can never miss X; the other order, or current/ alone, can.
				ci, mi := indexOf(kinds, "current"), indexOf(kinds, "merged")
				c.R.Cond(ci >= 0 && mi > ci, rule, "kv.Open: listing open looks in current/ then merged/", pos,
					"lookup order ["+ks+"]: a listed version retired meanwhile is still found",
					"lookup order ["+ks+"] while unreadable versions are skipped: a listed version that a concurrent commit retires between the lookups is silently skipped")
			} else {
				c.R.Cond(indexOf(kinds, "current") >= 0 && indexOf(kinds, "merged") >= 0, rule, "kv.Open: explicit versions are looked up in merged/ and current/", pos,
					"lookup list ["+ks+"], nothing is skipped", "explicit version set is not looked up in both merged/ and current/: ["+ks+"]")
				c.R.Cond(lastIndexOf(kinds, "merged") > lastIndexOf(kinds, "current"), rule, "kv.Open: a named version that is being retired is found", pos,
					"lookup list ["+ks+"]: merged/ is looked at after current/", "lookup list ["+ks+"] ends with current/: a commit moves a version from current/ to merged/ (PUT merged/, then DELETE current/), so an open whose GET of merged/ comes before the PUT and whose GET of current/ comes after the DELETE finds the version in neither place and fails with 'not found' although it exists at every moment")
			}
		}
	}
	// every other lookup list handed to loadRootFromAny (the version graph of history and vacuum)
	if loadAny := c.P.LookupFunc("kv", "", "loadRootFromAny"); loadAny != nil {
		rootF := an.LookupField(c.P, "kv", "DB", "root")
		mergedF := an.LookupField(c.P, "kv", "DB", "merged")
		for _, fn := range c.P.RepoFuncs(func(rel string) bool { return rel == "kv" }) {
			if fn == mergeRootsFn {
				continue
			}
			for _, call := range an.Calls(fn) {
				if call.Common().StaticCallee() != loadAny {
					continue
				}
				elems, ok := sliceLitElems(call.Common().Args[1])
				if !ok {
					continue
				}
				var kinds []string
				for _, e := range elems {
					k := persistKind(an.Unwrap(e))
					switch an.FieldOfLoad(an.Unwrap(e)) {
					case rootF:
						k = "current"
					case mergedF:
						k = "merged"
					}
					if mi, isMI := an.Unwrap(e).(*ssa.MakeInterface); isMI {
						switch an.FieldOfLoad(mi.X) {
						case rootF:
							k = "current"
						case mergedF:
							k = "merged"
						}
					}
					kinds = append(kinds, k)
				}
				ks := strings.Join(kinds, ",")
				if indexOf(kinds, "current") < 0 {
					continue
				}
				c.R.Cond(lastIndexOf(kinds, "merged") > lastIndexOf(kinds, "current"), rule, core.FuncName(fn)+": a version that is being retired is found", c.P.Pos(call.Pos()),
					"lookup list ["+ks+"]: merged/ is looked at after current/", "lookup list ["+ks+"] ends with current/: a version that a commit retires between the two lookups is found in neither place")
			}
		}
	}
	// the DB literal binds root->current, merged->merged
	for _, pair := range [][2]string{{"root", "current"}, {"merged", "merged"}, {"persist", "node"}} {
		f := an.LookupField(c.P, "kv", "DB", pair[0])
		found := false
		for _, b := range open.Blocks {
			for _, in := range b.Instrs {
				st, ok := in.(*ssa.Store)
				if !ok {
					continue
				}
				fa, ok := st.Addr.(*ssa.FieldAddr)
				if !ok || an.FieldVar(fa.X.Type(), fa.Field) != f {
					continue
				}
				found = true
				k := persistKind(st.Val)
				c.R.Cond(k == pair[1], rule, "kv.Open: DB."+pair[0]+" is the "+pair[1]+" store", c.P.Pos(st.Pos()),
					"DB."+pair[0]+" addresses "+pair[1], "DB."+pair[0]+" is bound to the '"+k+"' prefix")
			}
		}
		if !found {
			c.R.Unk(rule, "kv.Open: DB."+pair[0]+" binding", c.P.Pos(open.Pos()), "no store to DB."+pair[0]+" found in Open")
		}
	}
}

func lastIndexOf(xs []string, s string) int {
	r := -1
	for i, x := range xs {
		if x == s {
			r = i
		}
	}
	return r
}

func indexOf(xs []string, s string) int {
	for i, x := range xs {
		if x == s {
			return i
		}
	}
	return -1
}

// ---- C03.recorded-iff-merged -------------------------------------------------------------------

func c03Recorded(c *Ctx) {
	const rule = "C03.recorded-iff-merged"
	fn := mustFunc(c, "kv", "", "mergeRoots")
	loadAny := mustFunc(c, "kv", "", "loadRootFromAny")
	emptyRootFn := mustFunc(c, "kv", "", "emptyRoot")
	if fn == nil || loadAny == nil || emptyRootFn == nil {
		return
	}
	name := core.FuncName(fn)
	// header phi of the tree accumulator
	var T *ssa.Phi
	for _, b := range fn.Blocks {
		for _, in := range b.Instrs {
			ph, ok := in.(*ssa.Phi)
			if !ok {
				break
			}
			nt := an.NamedOf(ph.Type())
			if nt == nil || nt.Obj().Name() != "Tree" || nt.Obj().Pkg().Path() != crdtPkg {
				continue
			}
			hasNil, hasSelf := false, false
			for _, e := range ph.Edges {
				if an.IsNilConst(e) {
					hasNil = true
				}
				if e == ph {
					hasSelf = true
				}
			}
			if hasNil && hasSelf && T == nil {
				T = ph
			}
		}
	}
	if T == nil {
		c.R.Unk(rule, name+": accumulator", c.P.Pos(fn.Pos()), "cannot find the loop-carried *crdt.Tree accumulator (nil-initialised phi)")
		return
	}
	H := T.Block()
	// the load of this iteration's version
	var L *ssa.Call
	for _, call := range an.Calls(fn) {
		if cl, ok := call.(*ssa.Call); ok && cl.Call.StaticCallee() == loadAny && H.Dominates(cl.Block()) {
			L = cl
		}
	}
	if L == nil {
		c.R.Unk(rule, name+": version load", c.P.Pos(fn.Pos()), "no loadRootFromAny call in the loop")
		return
	}
	var rootV, rootBytes ssa.Value
	for _, r := range *L.Referrers() {
		if ex, ok := r.(*ssa.Extract); ok {
			switch ex.Index {
			case 0:
				rootV = ex
			case 1:
				rootBytes = ex
			}
		}
	}
	keyV := L.Call.Args[2]
	// graft = crdt.Load(..., *root); empty = crdt.Load(..., emptyRoot(..))
	var graft ssa.Value
	empties := map[ssa.Value]bool{}
	for _, call := range an.Calls(fn) {
		cl, ok := call.(*ssa.Call)
		if !ok || !an.CalleeIs(cl, crdtPkg, "", "Load") {
			continue
		}
		rootArg := cl.Call.Args[len(cl.Call.Args)-1]
		var tree ssa.Value
		for _, r := range *cl.Referrers() {
			if ex, ok := r.(*ssa.Extract); ok && ex.Index == 0 {
				tree = ex
			}
		}
		if tree == nil {
			continue
		}
		if ld, ok := rootArg.(*ssa.UnOp); ok && ld.Op == token.MUL && ld.X == rootV {
			graft = tree
		} else if ec, ok := an.Unwrap(rootArg).(*ssa.Call); ok && ec.Call.StaticCallee() == emptyRootFn {
			empties[tree] = true
		} else if ld, ok := rootArg.(*ssa.UnOp); ok && ld.Op == token.MUL {
			// emptyRoot stored in a local first
			if al, ok := ld.X.(*ssa.Alloc); ok {
				for _, r := range *al.Referrers() {
					if st, ok := r.(*ssa.Store); ok {
						if ec, ok := an.Unwrap(st.Val).(*ssa.Call); ok && ec.Call.StaticCallee() == emptyRootFn {
							empties[tree] = true
						}
					}
				}
			}
		}
	}
	if graft == nil || rootBytes == nil {
		c.R.Unk(rule, name+": graft", c.P.Pos(L.Pos()), "cannot find graft = crdt.Load(.., *root) for the loaded version")
		return
	}
	// recordings
	var recs []*ssa.MapUpdate
	for _, b := range fn.Blocks {
		if !H.Dominates(b) || b == H {
			continue
		}
		for _, in := range b.Instrs {
			if mu, ok := in.(*ssa.MapUpdate); ok {
				if _, isMake := mu.Map.(*ssa.MakeMap); isMake {
					recs = append(recs, mu)
				}
			}
		}
	}
	if len(recs) == 0 {
		c.R.Bad(rule, name+": recording", c.P.Pos(L.Pos()), "no 'mergedRoots[key] = rootBytes' in the merge loop: merged versions are never retired and nothing is listed as merged")
		return
	}
	for i, mu := range recs {
		good := an.SameValue(mu.Key, keyV) && mu.Value == rootBytes
		c.R.Cond(good, rule, fmt.Sprintf("%s: recording #%d binds key to its own bytes", name, i+1), c.P.Pos(mu.Pos()),
			"mergedRoots[key] = the bytes loaded for key", "a version is recorded under another name or with other bytes than were loaded for it")
	}
	// merge calls: Merge(newTree, graft) with newTree = Clone(...)
	type mergeInfo struct {
		call    ssa.CallInstruction
		newTree ssa.Value
	}
	var merges []mergeInfo
	for _, call := range an.Calls(fn) {
		if an.CalleeIs(call, crdtPkg, "Tree", "Merge") {
			a := call.Common().Args
			if len(a) >= 3 && a[2] == graft {
				merges = append(merges, mergeInfo{call, a[0]})
			}
		}
	}
	// classify a value arriving at the header along an edge leaving block `from`
	var classify func(v ssa.Value, from *ssa.BasicBlock, depth int) string
	classify = func(v ssa.Value, from *ssa.BasicBlock, depth int) string {
		if depth > 6 {
			return "other"
		}
		if v == T {
			return "unchanged"
		}
		if empties[v] {
			return "neutral"
		}
		if v == graft {
			return "merged"
		}
		for _, m := range merges {
			if m.newTree == v {
				if ok, _ := an.SuccessDominates(m.call, from.Instrs[len(from.Instrs)-1]); ok {
					return "merged"
				}
				return "unmerged-clone"
			}
		}
		// newTree, err := helper(ctx, tree, graft, …): a single-caller helper that returns, besides nil,
		// only a clone of its tree parameter into which its graft parameter was merged successfully
		if ex, ok := v.(*ssa.Extract); ok && ex.Index == 0 {
			if cl, ok := ex.Tuple.(*ssa.Call); ok && cl.Call.StaticCallee() != nil && c.Scope(fn).Contains(cl.Call.StaticCallee()) {
				h := cl.Call.StaticCallee()
				gi := -1
				for i, a := range cl.Call.Args {
					if a == graft {
						gi = i
					}
				}
				summary := false
				if gi >= 0 && gi < len(h.Params) {
					for ti, hp := range h.Params {
						if ti != gi && types.Identical(hp.Type(), h.Params[gi].Type()) && helperClonesAndMerges(h, hp, h.Params[gi]) {
							summary = true
						}
					}
				}
				if summary {
					okS, _ := an.SuccessDominates(cl, from.Instrs[len(from.Instrs)-1])
					nonNil := an.GuardedByNilTest(an.Edge{From: from}, func(w ssa.Value) bool { return w == v }, false)
					if okS && nonNil {
						return "merged"
					}
					return "unmerged-clone"
				}
			}
		}
		if ph, ok := v.(*ssa.Phi); ok {
			res := ""
			for i, e := range ph.Edges {
				k := classify(e, ph.Block().Preds[i], depth+1)
				if k == "neutral" {
					k = "unchanged"
				}
				if res == "" {
					res = k
				} else if res != k {
					return "mixed(" + res + "," + k + ")"
				}
			}
			return res
		}
		return "other"
	}
	nm, nu := 0, 0
	for i, p := range H.Preds {
		if !H.Dominates(p) {
			continue // loop entry
		}
		v := T.Edges[i]
		through := false
		for _, mu := range recs {
			if mu.Block() == p || mu.Block().Dominates(p) {
				through = true
			}
		}
		k := classify(v, p, 0)
		if k == "neutral" {
			k = "unchanged"
		}
		pos := c.P.Pos(lastInstrPos(p))
		switch {
		case through && k == "merged":
			nm++
			c.R.OK(rule, fmt.Sprintf("%s: iteration end #%d records and merges", name, nm), pos, "the version is recorded on the path that grafted/merged it")
		case !through && k == "unchanged":
			nu++
			c.R.OK(rule, fmt.Sprintf("%s: skip path #%d leaves tree and record untouched", name, nu), pos, "skipped version: tree unchanged, nothing recorded")
		case through:
			c.R.Bad(rule, fmt.Sprintf("%s: recorded but not merged", name), pos, "a version is recorded as merged on a path where the accumulated tree is "+k+": the next commit retires a version whose rows were never merged (permanent loss)")
		default:
			c.R.Bad(rule, fmt.Sprintf("%s: merged but not recorded", name), pos, "the accumulated tree becomes "+k+" on a path that does not record the version: it is never retired / not listed by s3db_version")
		}
	}
	if nm == 0 {
		c.R.Bad(rule, name+": no merging path", c.P.Pos(fn.Pos()), "no loop path both merges and records a version")
	}
}

// helperClonesAndMerges: every return of h hands back nil, or the clone of `tree` after Merge(clone, graft) succeeded.
func helperClonesAndMerges(h *ssa.Function, tree, graft *ssa.Parameter) bool {
	var clone ssa.Value
	var cloneCall, mergeCall ssa.CallInstruction
	for _, call := range an.Calls(h) {
		recv := an.Unwrap(call.Common().Args[0])
		if ld, ok := recv.(*ssa.UnOp); ok && ld.Op == token.MUL {
			recv = an.Unwrap(ld.X) // value receiver: (*tree).Clone
		}
		if an.CalleeIs(call, crdtPkg, "Tree", "Clone") && recv == ssa.Value(tree) {
			if cv, ok := call.(ssa.Value); ok {
				for _, r := range *cv.Referrers() {
					if ex, ok := r.(*ssa.Extract); ok && ex.Index == 0 {
						clone, cloneCall = ex, call
					}
				}
			}
		}
	}
	if clone == nil {
		return false
	}
	for _, call := range an.Calls(h) {
		if an.CalleeIs(call, crdtPkg, "Tree", "Merge") {
			a := call.Common().Args
			if len(a) >= 3 && a[0] == clone && an.Unwrap(a[2]) == ssa.Value(graft) {
				mergeCall = call
			}
		}
	}
	if mergeCall == nil {
		return false
	}
	for _, b := range h.Blocks {
		ret, ok := b.Instrs[len(b.Instrs)-1].(*ssa.Return)
		if !ok || len(ret.Results) == 0 {
			continue
		}
		v := an.RetVal(ret, 0)
		if an.IsNilConst(v) {
			continue
		}
		if v != clone {
			return false
		}
		if ok1, _ := an.SuccessDominates(cloneCall, ret); !ok1 {
			return false
		}
		if ok2, _ := an.SuccessDominates(mergeCall, ret); !ok2 {
			return false
		}
	}
	return true
}

func lastInstrPos(b *ssa.BasicBlock) token.Pos {
	for i := len(b.Instrs) - 1; i >= 0; i-- {
		if b.Instrs[i].Pos().IsValid() {
			return b.Instrs[i].Pos()
		}
	}
	for _, p := range b.Preds {
		for i := len(p.Instrs) - 1; i >= 0; i-- {
			if p.Instrs[i].Pos().IsValid() {
				return p.Instrs[i].Pos()
			}
		}
	}
	return token.NoPos
}

// ---- C03.merge-inserts -------------------------------------------------------------------------

func c03MergeInserts(c *Ctx) {
	const rule = "C03.merge-inserts"
	// the merge callbacks are the function literals of type crdt.MergeFunc
	pk := c.P.Pkg("kv/internal/crdt")
	if pk == nil {
		c.R.Errorf("package kv/internal/crdt not loaded")
		return
	}
	mfT, _ := pk.Types.Scope().Lookup("MergeFunc").(*types.TypeName)
	if mfT == nil {
		c.R.Errorf("anchor type crdt.MergeFunc not found")
		return
	}
	sig := mfT.Type().Underlying().(*types.Signature)
	n := 0
	for _, fn := range c.P.RepoFuncs(func(rel string) bool { return rel == "kv/internal/crdt" }) {
		if fn.Parent() == nil || !types.Identical(fn.Signature, sig) {
			continue
		}
		if fn.Signature.Params().Len() != sig.Params().Len() {
			continue
		}
		n++
		name := core.FuncName(fn)
		c.R.SawFunc(name)
		var ins []ssa.CallInstruction
		for _, call := range an.Calls(fn) {
			if an.CalleeIs(call, mastPkg, "Mast", "Insert") {
				ins = append(ins, call)
			}
		}
		if len(ins) == 0 {
			c.R.Bad(rule, name+": inserts", c.P.Pos(fn.Pos()), "merge callback never inserts into the merged tree")
			continue
		}
		added := fn.Params[2]
		keyP := fn.Params[4]
		addedV, removedV := fn.Params[5], fn.Params[6]
		k := 0
		for _, b := range fn.Blocks {
			ret, ok := b.Instrs[len(b.Instrs)-1].(*ssa.Return)
			if !ok || !an.IsNilConst(an.RetErr(ret)) {
				continue
			}
			k++
			after := false
			for _, in := range ins {
				if ok, _ := an.SuccessDominates(in, ret); ok {
					after = true
				}
			}
			present := an.GuardedByValue(an.Edge{From: b}, func(v ssa.Value) bool { return v == added }, true)
			c.R.Cond(after || present, rule, fmt.Sprintf("%s: nil-error return #%d", name, k), c.P.Pos(ret.Pos()),
				"returns success only after Insert succeeded, or because the entry is already present (added)",
				"the callback reports success for a differing key without inserting the winner: the key's newer value is lost in the merged tree")
		}
		for i, in := range ins {
			a := in.Common().Args // recv, ctx, key, value
			goodKey := an.Unwrap(a[2]) == ssa.Value(keyP)
			goodVal := valueDerivesFrom(a[3], addedV, removedV, 0)
			c.R.Cond(goodKey && goodVal, rule, fmt.Sprintf("%s: Insert #%d inserts the key's winner", name, i+1), c.P.Pos(in.Pos()),
				"Insert(key, value derived from the removed value or the join of both)", "Insert is not fed from this key's values")
		}
	}
	if n < 2 {
		c.R.Errorf("only %d merge callbacks of type crdt.MergeFunc found (LWW and convertMergeFunc expected)", n)
	}
}

// valueDerivesFrom: v comes from type assertions of the added/removed parameters, or from a
// call / load of a call result that takes such values (the join).
func valueDerivesFrom(v ssa.Value, addedV, removedV ssa.Value, depth int) bool {
	if depth > 8 {
		return false
	}
	v = an.Unwrap(v)
	switch x := v.(type) {
	case *ssa.TypeAssert:
		return x.X == addedV || x.X == removedV
	case *ssa.Phi:
		for _, e := range x.Edges {
			if e == x {
				continue
			}
			if k, ok := e.(*ssa.Const); ok && k.Value == nil {
				continue // zero value on paths that return before the insert
			}
			if !valueDerivesFrom(e, addedV, removedV, depth+1) {
				return false
			}
		}
		return true
	case *ssa.UnOp:
		if x.Op == token.MUL {
			if al, ok := x.X.(*ssa.Alloc); ok {
				any := false
				for _, r := range *al.Referrers() {
					if st, ok := r.(*ssa.Store); ok && st.Addr == al {
						any = true
						if !valueDerivesFrom(st.Val, addedV, removedV, depth+1) {
							return false
						}
					}
				}
				return any
			}
			return valueDerivesFrom(x.X, addedV, removedV, depth+1)
		}
	case *ssa.Call:
		for _, a := range x.Call.Args {
			if valueDerivesFrom(a, addedV, removedV, depth+1) {
				return true
			}
		}
	case *ssa.Alloc:
		for _, r := range *x.Referrers() {
			if st, ok := r.(*ssa.Store); ok && st.Addr == x {
				if valueDerivesFrom(st.Val, addedV, removedV, depth+1) {
					return true
				}
			}
		}
	}
	return false
}

func init() {
	register(&Rule{Name: "C03.open-errors", Min: 20, Run: func(c *Ctx) {
		errorsRule(c, "C03.open-errors", func(pos string) bool { return strings.HasPrefix(pos, "kv/kv.go:") })
	}, Doc: "no storage error is dropped in the kv layer (open, merge, commit): a version is skipped only under its NoSuchKey / skipUnreadable guards"})
	byProp["C03"] = append(byProp["C03"], "C03.open-errors")
	explain["C03"] += " open-errors: the error discipline of C14 restricted to kv/kv.go — an opener may leave a listed version out only on a well-formed NoSuchKey (every swallow edge is dominated by that test), never because a transient fault on one location was forgotten."
}

// fieldOfValue returns the struct field a value is read from (x.f as Field, or a load of &x.f).
func fieldOfValue(v ssa.Value) *types.Var {
	if fv := an.FieldOfLoad(v); fv != nil {
		return fv
	}
	if f, ok := v.(*ssa.Field); ok {
		return an.FieldVar(f.X.Type(), f.Field)
	}
	return nil
}

// ---- C03.list-complete: a listing is read to its last page ------------------------------------------

func init() {
	register(&Rule{Name: "C03.list-complete", Min: 2, Run: c03ListComplete,
		Doc: "every LIST of the bucket is paged to the end: the loop stops only on the response's IsTruncated / NextContinuationToken, and the next request carries NextContinuationToken"})
	byProp["C03"] = append(byProp["C03"], "C03.list-complete", "C05.snapshot")
	explain["C03"] += " snapshot (shared with C05): after a commit that failed the tree looks clean although nodes were never stored; the rollback SQLite forces must discard it unconditionally, or the next successful commit publishes a version that links missing objects and retires its parent — committed rows disappear for every later opener."
	byProp["C09"] = append(byProp["C09"], "C03.list-complete")
	explain["C03"] += " list-complete: S3 answers a LIST with at most one page; an opener that stops after a page sees only some of the current versions (and a writable one commits that partial merge). At every ListObjectsV2 call site the request sits in a loop, the only conditions that end the loop normally are functions of the response's IsTruncated / NextContinuationToken, and the following request's ContinuationToken is the response's NextContinuationToken on every way back to the loop head."
}

func c03ListComplete(c *Ctx) {
	const rule = "C03.list-complete"
	n := 0
	for _, fn := range c.P.RepoFuncs(an.LibraryPkg) {
		for _, call := range an.Calls(fn) {
			lbl := calleeLabel(call)
			if lbl != "ListObjectsV2WithContext" && lbl != "ListObjectsV2" && lbl != "ListObjectsWithContext" && lbl != "ListObjects" {
				continue
			}
			cv, ok := call.(ssa.Value)
			if !ok {
				continue
			}
			n++
			name := core.FuncName(fn)
			c.R.SawFunc(name)
			pos := c.P.Pos(call.Pos())
			var out, errv ssa.Value
			for _, r := range *cv.Referrers() {
				if ex, ok := r.(*ssa.Extract); ok {
					if ex.Index == 0 {
						out = ex
					} else {
						errv = ex
					}
				}
			}
			H := loopHeaderOf(call.Block())
			if H == nil || out == nil {
				c.R.Bad(rule, name+": LIST is paged", pos, "the LIST request is not in a loop (or its result is unused): S3 returns at most one page of keys per request, the rest of the listing is never read")
				continue
			}
			inLoop := func(b *ssa.BasicBlock) bool {
				return H.Dominates(b) && an.ReachableFromBlock(b, H, nil)
			}
			isOutField := func(v ssa.Value) (string, bool) {
				f := an.FieldOfLoad(v)
				if f == nil {
					return "", false
				}
				p := an.FieldPath(v)
				_ = p
				if root := an.ExprRoot(v); root != out {
					return "", false
				}
				return f.Name(), true
			}
			// conditions that decide whether the loop goes on
			allowed := map[string]bool{"IsTruncated": true, "NextContinuationToken": true}
			good := true
			why := ""
			nconds := 0
			for _, b := range fn.Blocks {
				if !inLoop(b) {
					continue
				}
				iff, ok := b.Instrs[len(b.Instrs)-1].(*ssa.If)
				if !ok {
					continue
				}
				r0 := b.Succs[0] == H || an.ReachableFromBlock(b.Succs[0], H, nil) && H.Dominates(b.Succs[0])
				r1 := b.Succs[1] == H || an.ReachableFromBlock(b.Succs[1], H, nil) && H.Dominates(b.Succs[1])
				if r0 == r1 {
					continue
				}
				// the error test of the request itself
				if v, _, isNil := nilTestedValue(iff); isNil && errv != nil && v == errv {
					continue
				}
				nconds++
				fields := map[string]bool{}
				other := false
				seen := map[ssa.Value]bool{}
				var walk func(v ssa.Value, d int)
				walk = func(v ssa.Value, d int) {
					if v == nil || seen[v] || d > 12 {
						return
					}
					seen[v] = true
					if fnm, ok := isOutField(v); ok {
						fields[fnm] = true
						return
					}
					switch x := v.(type) {
					case *ssa.Const:
						return
					case *ssa.Parameter, *ssa.FreeVar, *ssa.Global:
						other = true
						return
					case *ssa.Phi:
						for _, e := range x.Edges {
							walk(e, d+1)
						}
						return
					}
					if in, ok := v.(ssa.Instruction); ok {
						ops := in.Operands(nil)
						if len(ops) == 0 {
							other = true
						}
						for _, op := range ops {
							if *op != nil {
								if _, isFn := (*op).(*ssa.Function); isFn {
									continue
								}
								if _, isB := (*op).(*ssa.Builtin); isB {
									continue
								}
								walk(*op, d+1)
							}
						}
					}
				}
				walk(iff.Cond, 0)
				var badF []string
				for f := range fields {
					if !allowed[f] {
						badF = append(badF, f)
					}
				}
				sort.Strings(badF)
				if len(badF) > 0 || other || len(fields) == 0 {
					good = false
					why = fmt.Sprintf("the condition at %s that ends the listing depends on %v (other inputs: %v): only IsTruncated / NextContinuationToken of the response say whether there is another page — e.g. ContinuationToken merely echoes the request and is nil on the first page, so the loop would stop after one page and the opener would merge only some of the current versions", c.P.Pos(iff.Cond.Pos()), badF, other)
				}
			}
			if nconds == 0 {
				good, why = false, "no condition on the response decides whether another page is requested"
			}
			c.R.Cond(good, rule, name+": stops only at the last page", pos, "the loop ends normally only on IsTruncated / NextContinuationToken of the response", why)
			// continuation token
			tokOK := false
			var tokStore *ssa.Store
			for _, b := range fn.Blocks {
				for _, in := range b.Instrs {
					st, ok := in.(*ssa.Store)
					if !ok {
						continue
					}
					fa, ok := st.Addr.(*ssa.FieldAddr)
					if !ok {
						continue
					}
					fv := an.FieldVar(fa.X.Type(), fa.Field)
					if fv == nil || fv.Name() != "ContinuationToken" && fv.Name() != "Marker" {
						continue
					}
					if fnm, ok := isOutField(st.Val); ok && (fnm == "NextContinuationToken" || fnm == "NextMarker") && inLoop(b) {
						tokOK = true
						tokStore = st
					}
				}
			}
			if !tokOK {
				c.R.Bad(rule, name+": next request continues the listing", pos, "no assignment of the response's NextContinuationToken to the next request's ContinuationToken: every request would return the first page")
				continue
			}
			back := true
			for _, p := range H.Preds {
				if H.Dominates(p) && !(tokStore.Block() == p || tokStore.Block().Dominates(p)) {
					back = false
				}
			}
			c.R.Cond(back, rule, name+": next request continues the listing", c.P.Pos(tokStore.Pos()), "every way back to the loop head passes the assignment of NextContinuationToken", "some way back to the loop head skips the assignment of the continuation token: the same page would be requested again")
		}
	}
	if n == 0 {
		c.R.Unk(rule, "LIST call sites", "-", "no ListObjectsV2 call found in library code")
	}
}

// nilTestedValue recognises "v == nil" / "v != nil".
func nilTestedValue(iff *ssa.If) (ssa.Value, bool, bool) {
	cond, neg := an.StripNot(iff.Cond)
	bo, ok := cond.(*ssa.BinOp)
	if !ok || bo.Op != token.EQL && bo.Op != token.NEQ {
		return nil, false, false
	}
	var v ssa.Value
	if an.IsNilConst(bo.Y) {
		v = bo.X
	} else if an.IsNilConst(bo.X) {
		v = bo.Y
	} else {
		return nil, false, false
	}
	return v, (bo.Op == token.NEQ) != neg, true
}
