package rules

import (
	"fmt"
	"go/constant"
	"go/token"
	"go/types"
	"sort"
	"strings"

	"golang.org/x/tools/go/ssa"

	"s3dbcheck/an"
	"s3dbcheck/core"
)

func init() {
	register(&Rule{Name: "C08.tables", Min: 5, Run: c08Tables,
		Doc: "the five value-conversion tables compose to the identity on SQLite storage classes"})
	claim("C08", "C08: one clause. tables: for each storage class S in {INTEGER, FLOAT, TEXT, BLOB, NULL} the tables extracted from the code compose to the identity: valueToGo(S) yields Go type G; NewKey has a case for G producing proto type P and field F; FromSQLiteValue and (*Key).Value read the same field F for P; setContextResult has a case for G and calls the Result method of class S; NULL maps to 'no field'. delta (shared with C02): every value given to INSERT/UPDATE, NULL included, is recorded. Not decided: bit-identity of individual values (empty text/blob, NaN, -0.0) — runtime values and dependency behaviour.",
		"C08.tables", "C02.delta")
}

// caseOf describes the switch/type-switch case that governs block b: the If in its single
// predecessor whose true side is b.
type caseInfo struct {
	constVal *int64     // x == K
	isNil    bool       // v == nil
	typ      types.Type // typeassert,ok v.(T)
	val      ssa.Value  // the asserted value (extract #0) for type cases
}

func caseOf(b *ssa.BasicBlock) (caseInfo, bool) {
	if len(b.Preds) != 1 {
		return caseInfo{}, false
	}
	p := b.Preds[0]
	iff, ok := p.Instrs[len(p.Instrs)-1].(*ssa.If)
	if !ok || p.Succs[0] != b {
		return caseInfo{}, false
	}
	switch c := iff.Cond.(type) {
	case *ssa.BinOp:
		if c.Op != token.EQL {
			return caseInfo{}, false
		}
		if an.IsNilConst(c.Y) || an.IsNilConst(c.X) {
			return caseInfo{isNil: true}, true
		}
		if k, ok := c.Y.(*ssa.Const); ok && k.Value != nil && k.Value.Kind() == constant.Int {
			v := k.Int64()
			return caseInfo{constVal: &v}, true
		}
	case *ssa.Extract:
		if ta, ok := c.Tuple.(*ssa.TypeAssert); ok && ta.CommaOk && c.Index == 1 {
			ci := caseInfo{typ: ta.AssertedType}
			for _, r := range *ta.Referrers() {
				if ex, ok := r.(*ssa.Extract); ok && ex.Index == 0 {
					ci.val = ex
				}
			}
			return ci, true
		}
	}
	return caseInfo{}, false
}

func enumNames(c *Ctx, pkgPath, typeName, prefix string) map[int64]string {
	pk := c.P.ByPath[pkgPath]
	if pk == nil {
		return nil
	}
	tn, _ := pk.Types.Scope().Lookup(typeName).(*types.TypeName)
	if tn == nil {
		return nil
	}
	out := map[int64]string{}
	for _, n := range pk.Types.Scope().Names() {
		k, ok := pk.Types.Scope().Lookup(n).(*types.Const)
		if !ok || !types.Identical(k.Type(), tn.Type()) || !strings.HasPrefix(n, prefix) {
			continue
		}
		v, _ := constant.Int64Val(k.Val())
		out[v] = strings.TrimPrefix(n, prefix)
	}
	return out
}

func c08Tables(c *Ctx) {
	const rule = "C08.tables"
	v2g := mustFunc(c, "sqlite", "", "valueToGo")
	scr := mustFunc(c, "sqlite", "", "setContextResult")
	newKey := mustFunc(c, "", "", "NewKey")
	fsv := mustFunc(c, "", "", "FromSQLiteValue")
	kval := mustFunc(c, "", "*Key", "Value")
	protoNames, typeField := protoTypeNames(c)
	sqlNames := enumNames(c, "go.riyazali.net/sqlite", "ColumnType", "SQLITE_")
	if v2g == nil || scr == nil || newKey == nil || fsv == nil || kval == nil || protoNames == nil || typeField == nil || len(sqlNames) < 5 {
		if len(sqlNames) < 5 {
			c.R.Errorf("cannot read the sqlite.ColumnType constants")
		}
		return
	}
	// T1: valueToGo: SQLite class -> Go type ("nil" for NULL)
	t1 := map[string]string{}
	for _, b := range v2g.Blocks {
		ci, ok := caseOf(b)
		if !ok || ci.constVal == nil {
			continue
		}
		ret, ok := b.Instrs[len(b.Instrs)-1].(*ssa.Return)
		if !ok {
			continue
		}
		r := ret.Results[0]
		g := "?"
		if an.IsNilConst(r) {
			g = "nil"
		} else if mi, ok := r.(*ssa.MakeInterface); ok {
			g = mi.X.Type().String()
		}
		t1[sqlNames[*ci.constVal]] = g
	}
	// T2: NewKey: Go type -> (proto type, field)
	type pf struct{ p, f string }
	t2 := map[string]pf{}
	for _, b := range newKey.Blocks {
		ci, ok := caseOf(b)
		if !ok {
			continue
		}
		g := "nil"
		if ci.typ != nil {
			g = ci.typ.String()
		} else if !ci.isNil {
			continue
		}
		for _, in := range b.Instrs {
			al, ok := in.(*ssa.Alloc)
			if !ok {
				continue
			}
			nt := an.NamedOf(al.Type().Underlying().(*types.Pointer).Elem())
			if nt == nil || nt.Obj().Name() != "SQLiteValue" {
				continue
			}
			e := pf{p: protoNames[0], f: ""}
			for _, r := range *al.Referrers() {
				fa, ok := r.(*ssa.FieldAddr)
				if !ok {
					continue
				}
				fv := an.FieldVar(fa.X.Type(), fa.Field)
				for _, rr := range *fa.Referrers() {
					st, ok := rr.(*ssa.Store)
					if !ok || st.Addr != ssa.Value(fa) {
						continue
					}
					if fv == typeField {
						if k, ok := st.Val.(*ssa.Const); ok {
							e.p = protoNames[k.Int64()]
						}
					} else if fv.Exported() {
						// the stored value must come from the case variable
						if ci.val != nil && an.DependsOn(st.Val, func(v ssa.Value) bool { return v == ci.val }) {
							e.f = fv.Name()
						} else {
							e.f = "?" + fv.Name()
						}
					}
				}
			}
			t2[g] = e
		}
		if _, done := t2[g]; !done {
			// one-level summary: the case delegates to a same-package constructor
			for _, in := range b.Instrs {
				cl, ok := in.(*ssa.Call)
				if !ok {
					continue
				}
				cal := cl.Call.StaticCallee()
				if cal == nil || an.PkgPathOf(cal) != core.ModPath || len(cal.Blocks) == 0 || len(cal.Params) != 1 {
					continue
				}
				if ci.val == nil || !an.DependsOn(cl.Call.Args[0], func(v ssa.Value) bool { return v == ci.val }) {
					continue
				}
				for _, cb := range cal.Blocks {
					for _, cin := range cb.Instrs {
						al, ok := cin.(*ssa.Alloc)
						if !ok {
							continue
						}
						nt := an.NamedOf(al.Type().Underlying().(*types.Pointer).Elem())
						if nt == nil || nt.Obj().Name() != "SQLiteValue" {
							continue
						}
						e := pf{p: protoNames[0], f: ""}
						for _, r := range *al.Referrers() {
							fa, ok := r.(*ssa.FieldAddr)
							if !ok {
								continue
							}
							fv := an.FieldVar(fa.X.Type(), fa.Field)
							for _, rr := range *fa.Referrers() {
								st, ok := rr.(*ssa.Store)
								if !ok || st.Addr != ssa.Value(fa) {
									continue
								}
								if fv == typeField {
									if k, ok := st.Val.(*ssa.Const); ok {
										e.p = protoNames[k.Int64()]
									}
								} else if fv.Exported() {
									if an.DependsOn(st.Val, func(v ssa.Value) bool { return v == ssa.Value(cal.Params[0]) }) {
										e.f = fv.Name()
									} else {
										e.f = "?" + fv.Name()
									}
								}
							}
						}
						t2[g] = e
					}
				}
			}
		}
	}
	// T3/T4: proto type -> field read (FromSQLiteValue, Key.Value)
	readTable := func(fn *ssa.Function) map[string]string {
		out := map[string]string{}
		tagWalk(fn, typeField, func(in ssa.Instruction, f tagFacts) {
			ret, ok := in.(*ssa.Return)
			if !ok || len(f) != 1 {
				return
			}
			var tag int64
			for _, v := range f {
				tag = v
			}
			r := ret.Results[0]
			name := "?"
			if an.IsNilConst(r) {
				name = ""
			} else if mi, ok := r.(*ssa.MakeInterface); ok {
				if fv := an.FieldOfLoad(mi.X); fv != nil {
					name = fv.Name() + ":" + mi.X.Type().String()
				}
			}
			out[protoNames[tag]] = name
		})
		return out
	}
	t3, t4 := readTable(fsv), readTable(kval)
	// T5: setContextResult: Go type -> Result method
	t5 := map[string]string{}
	for _, b := range scr.Blocks {
		ci, ok := caseOf(b)
		if !ok {
			continue
		}
		g := "nil"
		if ci.typ != nil {
			g = ci.typ.String()
		} else if !ci.isNil {
			continue
		}
		for _, call := range b.Instrs {
			cl, ok := call.(ssa.CallInstruction)
			if !ok {
				continue
			}
			n := calleeLabel(cl)
			if strings.HasPrefix(n, "Result") {
				t5[g] = n
			}
		}
	}
	c.R.Stats["C08.valueToGo_cases"] = len(t1)
	// the Go type read for a storage class holds every value of the class
	lossless := map[string]string{"INTEGER": "int64", "FLOAT": "float64", "TEXT": "string", "BLOB": "[]byte", "NULL": "nil"}
	for _, s := range []string{"INTEGER", "FLOAT", "TEXT", "BLOB", "NULL"} {
		g, ok := t1[s]
		if !ok {
			continue
		}
		c.R.Cond(g == lossless[s], rule, "sqlite.valueToGo: "+s+" read at full width", c.P.Pos(v2g.Pos()),
			s+" is read as "+lossless[s], fmt.Sprintf("SQLITE_%s is read as %s, not %s: the binding's narrower accessor drops part of the value before s3db sees it (Value.Int() is sqlite3_value_int: the low 32 bits) — integers 2^32 apart become one key, large keys are stored as different numbers", s, g, lossless[s]))
	}
	c.R.Stats["C08.NewKey_cases"] = len(t2)
	c.R.Stats["C08.setContextResult_cases"] = len(t5)
	resultClass := map[string]string{"ResultInt64": "INTEGER", "ResultInt": "INTEGER", "ResultFloat": "FLOAT", "ResultText": "TEXT", "ResultBlob": "BLOB", "ResultNull": "NULL"}
	classes := []string{"INTEGER", "FLOAT", "TEXT", "BLOB", "NULL"}
	sort.Strings(classes)
	for _, s := range classes {
		construct := "storage class " + s + " round-trips"
		g, ok := t1[s]
		if !ok {
			c.R.Bad(rule, construct, c.P.Pos(v2g.Pos()), "valueToGo has no case for SQLITE_"+s)
			continue
		}
		e, ok := t2[g]
		if !ok {
			c.R.Bad(rule, construct, c.P.Pos(newKey.Pos()), fmt.Sprintf("valueToGo yields %s for %s but NewKey has no case for it (it panics)", g, s))
			continue
		}
		var problems []string
		if s == "NULL" {
			if e.f != "" || e.p != "NULL" {
				problems = append(problems, fmt.Sprintf("NewKey(nil) produces (%s,%s), not the NULL type without a field", e.p, e.f))
			}
			if t3["NULL"] != "" && t3["NULL"] != "?" {
				// NULL falls to the default return nil: reported as absent from the table, fine
			}
		} else {
			want := e.f + ":" + g
			if strings.HasPrefix(e.f, "?") || e.f == "" {
				problems = append(problems, fmt.Sprintf("NewKey case %s does not store the value into a field (%s)", g, e.f))
			}
			if t3[e.p] != want {
				problems = append(problems, fmt.Sprintf("NewKey stores %s as (%s, field %s) but FromSQLiteValue reads %q for %s", g, e.p, e.f, t3[e.p], e.p))
			}
			if t4[e.p] != want {
				problems = append(problems, fmt.Sprintf("NewKey stores %s as (%s, field %s) but (*Key).Value reads %q for %s", g, e.p, e.f, t4[e.p], e.p))
			}
		}
		m, ok := t5[g]
		if !ok {
			problems = append(problems, fmt.Sprintf("setContextResult has no case for %s (the value is reported as an error)", g))
		} else if resultClass[m] != s {
			problems = append(problems, fmt.Sprintf("setContextResult returns %s through %s, which is storage class %s", g, m, resultClass[m]))
		}
		c.R.Cond(len(problems) == 0, rule, construct, c.P.Pos(v2g.Pos()),
			fmt.Sprintf("%s -> %s -> (%s,%s) -> %s -> %s", s, g, e.p, e.f, g, t5[g]), strings.Join(problems, "; "))
	}
	_ = core.ModPath
}

// ---- C08.unaltered: conversions pass values through unmodified --------------------------------------

func init() {
	register(&Rule{Name: "C08.unaltered", Min: 8, Run: c08Unaltered,
		Doc: "the conversion functions and the write path hand a value on as it is (identity up to integer widening): no sanitising, no canonicalising"})
	byProp["C08"] = append(byProp["C08"], "C08.unaltered")
	explain["C08"] += " unaltered: valueToGo returns exactly what the sqlite.Value accessor yields, NewKey stores exactly the case variable (or its integer widening), setContextResult passes exactly the case variable to the Result method, and the key of an INSERT/UPDATE/DELETE/seek reaches NewKey without passing through any repository function — 'a value that cannot be stored is refused, never altered'."
}

// identityOf strips conversions that keep the value (interface boxing, named-type changes, integer
// widening) and returns the underlying value.
func identityOf(v ssa.Value) ssa.Value {
	for {
		switch x := v.(type) {
		case *ssa.MakeInterface:
			v = x.X
		case *ssa.ChangeInterface:
			v = x.X
		case *ssa.ChangeType:
			v = x.X
		case *ssa.Convert:
			if isInteger(x.X.Type()) && isInteger(x.Type()) {
				v = x.X
				continue
			}
			return v
		default:
			return v
		}
	}
}

func c08Unaltered(c *Ctx) {
	const rule = "C08.unaltered"
	v2g := mustFunc(c, "sqlite", "", "valueToGo")
	scr := mustFunc(c, "sqlite", "", "setContextResult")
	newKey := mustFunc(c, "", "", "NewKey")
	if v2g == nil || scr == nil || newKey == nil {
		return
	}
	// valueToGo: each returned value is the accessor call on the parameter itself
	valP := v2g.Params[0]
	for _, b := range v2g.Blocks {
		ret, ok := b.Instrs[len(b.Instrs)-1].(*ssa.Return)
		if !ok || an.IsNilConst(ret.Results[0]) {
			continue
		}
		x := identityOf(ret.Results[0])
		good := false
		label := "?"
		if cl, ok := x.(*ssa.Call); ok {
			label = calleeLabel(cl)
			if rv := an.RecvValue(cl); rv == ssa.Value(valP) {
				if f := cl.Call.StaticCallee(); f != nil && an.PkgPathOf(f) == "go.riyazali.net/sqlite" {
					good = true
				}
				if cl.Call.IsInvoke() {
					good = true
				}
			}
		}
		c.R.Cond(good, rule, fmt.Sprintf("%s: returns value.%s() unmodified", core.FuncName(v2g), label), c.P.Pos(ret.Pos()),
			"the SQLite value accessor's result is returned as it is", "valueToGo passes the value through another function before storing it (e.g. repairs invalid UTF-8): what is read back is not what was written, instead of the write being refused")
	}
	// NewKey: the field gets the case variable itself
	for _, b := range newKey.Blocks {
		ci, ok := caseOf(b)
		if !ok || ci.val == nil {
			continue
		}
		check := func(al *ssa.Alloc, param ssa.Value, where string) {
			for _, r := range *al.Referrers() {
				fa, ok := r.(*ssa.FieldAddr)
				if !ok {
					continue
				}
				fv := an.FieldVar(fa.X.Type(), fa.Field)
				if fv == nil || !fv.Exported() || fv.Name() == "Type" {
					continue
				}
				for _, rr := range *fa.Referrers() {
					st, ok := rr.(*ssa.Store)
					if !ok || st.Addr != ssa.Value(fa) {
						continue
					}
					c.R.Cond(identityOf(st.Val) == param, rule, fmt.Sprintf("%s: case %s stores the value unmodified", where, ci.typ), c.P.Pos(st.Pos()),
						"field "+fv.Name()+" = the case variable (up to integer widening)", "the value is transformed before it is stored in field "+fv.Name())
				}
			}
		}
		for _, in := range b.Instrs {
			switch x := in.(type) {
			case *ssa.Alloc:
				if nt := an.NamedOf(x.Type().Underlying().(*types.Pointer).Elem()); nt != nil && nt.Obj().Name() == "SQLiteValue" {
					check(x, ci.val, core.FuncName(newKey))
				}
			case *ssa.Call:
				cal := x.Call.StaticCallee()
				if cal == nil || an.PkgPathOf(cal) != core.ModPath || len(cal.Params) != 1 || len(cal.Blocks) == 0 {
					continue
				}
				if identityOf(x.Call.Args[0]) != ci.val {
					continue
				}
				for _, cb := range cal.Blocks {
					for _, cin := range cb.Instrs {
						if al, ok := cin.(*ssa.Alloc); ok {
							if nt := an.NamedOf(al.Type().Underlying().(*types.Pointer).Elem()); nt != nil && nt.Obj().Name() == "SQLiteValue" {
								check(al, cal.Params[0], core.FuncName(cal))
							}
						}
					}
				}
			}
		}
	}
	// setContextResult: Result*(x) gets the case variable itself
	for _, b := range scr.Blocks {
		ci, ok := caseOf(b)
		if !ok || ci.val == nil {
			continue
		}
		for _, in := range b.Instrs {
			cl, ok := in.(ssa.CallInstruction)
			if !ok || !strings.HasPrefix(calleeLabel(cl), "Result") {
				continue
			}
			a := cl.Common().Args
			c.R.Cond(len(a) > 0 && identityOf(a[len(a)-1]) == ci.val, rule, fmt.Sprintf("%s: %s gets the value unmodified", core.FuncName(scr), calleeLabel(cl)), c.P.Pos(cl.Pos()),
				"the case variable is passed as it is", "the value is transformed before it is handed back to SQLite")
		}
	}
	// keys reach NewKey without passing through a repository function
	for _, fn := range c.P.RepoFuncs(func(rel string) bool { return rel == "" }) {
		fname := core.FuncName(fn)
		if fname == "s3db.toSQLiteValue" {
			continue
		}
		n := 0
		for _, call := range an.Calls(fn) {
			if call.Common().StaticCallee() != newKey {
				continue
			}
			n++
			arg := call.Common().Args[0]
			var via string
			// the immediate producers of the key (through boxing and phis): none may be a call of a
			// repository function
			var producers func(v ssa.Value, depth int)
			producers = func(v ssa.Value, depth int) {
				v = identityOf(v)
				if depth > 6 {
					return
				}
				switch x := v.(type) {
				case *ssa.Phi:
					for _, e := range x.Edges {
						if e != v {
							producers(e, depth+1)
						}
					}
				case *ssa.Call:
					if f := x.Call.StaticCallee(); f != nil && strings.HasPrefix(an.PkgPathOf(f), core.ModPath) {
						via = core.FuncName(f)
					}
				}
			}
			producers(arg, 0)
			c.R.Cond(via == "", rule, fmt.Sprintf("%s: key #%d reaches NewKey unaltered", fname, n), c.P.Pos(call.Pos()),
				"the key value is the statement's value", "the key passes through "+via+" before it becomes a Key (canonicalised / altered): a REAL 2.0 key would come back as INTEGER 2")
		}
	}
}

// ---- C08.read-once: a value is not read with a converting accessor before it is dispatched on its type

func init() {
	register(&Rule{Name: "C08.read-once", Min: 2, Run: c08ReadOnce,
		Doc: "no sqlite.Value is read with a converting accessor (Text / Blob / Len) before it is dispatched on its Type(): sqlite3_value_text() converts a BLOB or number in place, after which Type() reports TEXT"})
	byProp["C08"] = append(byProp["C08"], "C08.read-once")
	byProp["C07"] = append(byProp["C07"], "C08.read-once", "C08.tables")
	byProp["C08"] = append(byProp["C08"], "C02.time")
	explain["C07"] += " tables / read-once (shared with C08): key values reach the comparator through valueToGo, so each storage class must be read at full width (an INTEGER read through the 32-bit accessor makes keys 2^32 apart equal) and before any in-place conversion."
	explain["C08"] += " time (shared with C02): a written value survives a merge with other writers' versions only if the merged row's column times are expressed relative to the time the merged entry is stored under; otherwise the merged row claims a future write time and later writes are silently dropped."
	explain["C08"] += " read-once: sqlite3_value_text / _blob / _bytes may convert the value in place (SQLite C API), so after key.Text() a BLOB key reports Type()==TEXT and valueToGo builds a TEXT key: the row is not found and the UPDATE silently does nothing. In every callback of package sqlite (with one-level summaries of helpers), no converting accessor that is not inside the matching arm of a dispatch on the value's own Type() can run before the same value (or the slice holding it) reaches a type dispatch (valueToGo / valuesToGo / Type())."
}

// liveBlocks: blocks reachable from the entry when branches on constant conditions are pruned.
func liveBlocks(fn *ssa.Function) map[*ssa.BasicBlock]bool {
	live := map[*ssa.BasicBlock]bool{}
	if len(fn.Blocks) == 0 {
		return live
	}
	work := []*ssa.BasicBlock{fn.Blocks[0]}
	for len(work) > 0 {
		b := work[len(work)-1]
		work = work[:len(work)-1]
		if live[b] {
			continue
		}
		live[b] = true
		succs := b.Succs
		if iff, ok := b.Instrs[len(b.Instrs)-1].(*ssa.If); ok {
			if v, isC := constBool(iff.Cond); isC {
				if v {
					succs = succs[:1]
				} else {
					succs = succs[1:]
				}
			}
		}
		work = append(work, succs...)
	}
	return live
}

const riyazaliPkg = "go.riyazali.net/sqlite"

func isSqliteValue(t types.Type) bool {
	n := an.NamedOf(t)
	return n != nil && n.Obj().Pkg() != nil && n.Obj().Pkg().Path() == riyazaliPkg && n.Obj().Name() == "Value"
}

// valueRoot: the parameter (a Value or a slice of Values) an expression of type sqlite.Value comes from.
func valueRoot(v ssa.Value) ssa.Value {
	for i := 0; i < 8; i++ {
		switch x := v.(type) {
		case *ssa.UnOp:
			if x.Op != token.MUL {
				return v
			}
			v = x.X
		case *ssa.IndexAddr:
			v = x.X
		case *ssa.Index:
			v = x.X
		case *ssa.Alloc:
			// spilled parameter / range copy: single store
			var src ssa.Value
			n := 0
			for _, r := range *x.Referrers() {
				if st, ok := r.(*ssa.Store); ok && st.Addr == ssa.Value(x) {
					src = st.Val
					n++
				}
			}
			if n != 1 {
				return v
			}
			v = src
		case *ssa.Slice:
			v = x.X
		case *ssa.Phi:
			return v
		default:
			return v
		}
	}
	return v
}

func c08ReadOnce(c *Ctx) {
	const rule = "C08.read-once"
	fns := c.P.RepoFuncs(func(rel string) bool { return rel == "sqlite" })
	converting := map[string]bool{"Text": true, "Blob": true, "Len": true}
	type ev struct {
		in   ssa.Instruction
		root ssa.Value
		what string
	}
	// summaries: which parameters a function converts (unguarded) / dispatches on
	conv := map[*ssa.Function]map[int]string{}
	disp := map[*ssa.Function]map[int]bool{}
	paramIndex := func(fn *ssa.Function, v ssa.Value) int {
		for i, p := range fn.Params {
			if ssa.Value(p) == v {
				return i
			}
		}
		return -1
	}
	typeGuarded := func(call ssa.CallInstruction, root ssa.Value) bool {
		// some enclosing case compares Type() of the same root with a constant
		for b := call.Block(); b != nil; b = b.Idom() {
			if len(b.Preds) != 1 {
				continue
			}
			p := b.Preds[0]
			iff, ok := p.Instrs[len(p.Instrs)-1].(*ssa.If)
			if !ok {
				continue
			}
			cond, _ := an.StripNot(iff.Cond)
			bo, ok := cond.(*ssa.BinOp)
			if !ok {
				continue
			}
			for _, side := range []ssa.Value{bo.X, bo.Y} {
				if cl, ok := side.(*ssa.Call); ok && calleeLabel(cl) == "Type" {
					if rv := an.RecvValue(cl); rv != nil && valueRoot(rv) == root {
						return true
					}
				}
			}
		}
		return false
	}
	events := func(fn *ssa.Function) (cs, ds []ev) {
		live := liveBlocks(fn)
		for _, call := range an.Calls(fn) {
			if !live[call.Block()] {
				continue
			}
			cc := call.Common()
			if f := cc.StaticCallee(); f != nil && an.PkgPathOf(f) == riyazaliPkg && len(cc.Args) > 0 && isSqliteValue(cc.Args[0].Type()) {
				root := valueRoot(cc.Args[0])
				switch {
				case converting[f.Name()]:
					if !typeGuarded(call, root) {
						cs = append(cs, ev{call, root, "Value." + f.Name() + "()"})
					}
				case f.Name() == "Type":
					ds = append(ds, ev{call, root, "Type()"})
				}
				continue
			}
			if f := cc.StaticCallee(); f != nil {
				for i, a := range cc.Args {
					if w, ok := conv[f][i]; ok {
						cs = append(cs, ev{call, valueRoot(a), core.FuncName(f) + " (" + w + ")"})
					}
					if disp[f][i] {
						ds = append(ds, ev{call, valueRoot(a), core.FuncName(f)})
					}
				}
			}
		}
		return
	}
	for round := 0; round < 3; round++ {
		for _, fn := range fns {
			cs, ds := events(fn)
			for _, e := range cs {
				if i := paramIndex(fn, e.root); i >= 0 {
					if conv[fn] == nil {
						conv[fn] = map[int]string{}
					}
					conv[fn][i] = e.what
				}
			}
			for _, e := range ds {
				if i := paramIndex(fn, e.root); i >= 0 {
					if disp[fn] == nil {
						disp[fn] = map[int]bool{}
					}
					disp[fn][i] = true
				}
			}
		}
	}
	n := 0
	for _, fn := range fns {
		cs, ds := events(fn)
		if len(ds) == 0 {
			continue
		}
		name := core.FuncName(fn)
		roots := map[ssa.Value]bool{}
		for _, d := range ds {
			roots[d.root] = true
		}
		for root := range roots {
			n++
			var bad *ev
			var at ev
			for i := range cs {
				a := cs[i]
				if a.root != root {
					continue
				}
				for _, d := range ds {
					if d.root != root || d.in == a.in {
						continue
					}
					if an.InstrBefore(a.in, d.in) || a.in.Block() != d.in.Block() && an.ReachableFromBlock(a.in.Block(), d.in.Block(), nil) {
						bad, at = &cs[i], d
					}
				}
			}
			c.R.SawFunc(name)
			key := fmt.Sprintf("%s: %s dispatched before any conversion", name, root.Name())
			if bad != nil {
				c.R.Bad(rule, key, c.P.Pos(bad.in.Pos()), fmt.Sprintf("%s runs on the value before it is dispatched on its type by %s at %s: sqlite3_value_text/_blob convert in place, so a BLOB (or numeric) value reports TEXT afterwards — a BLOB-keyed row is looked up under a TEXT key, not found, and the UPDATE/DELETE silently does nothing", bad.what, at.what, c.P.Pos(at.in.Pos())))
			} else {
				c.R.OK(rule, key, c.P.Pos(fn.Pos()), "no unguarded converting accessor can run before the type dispatch")
			}
		}
	}
	if n == 0 {
		c.R.Unk(rule, "sqlite: type dispatches", "-", "no dispatch on a sqlite.Value's type found")
	}
}

// ---- C08.result-text: the binding hands SQLite a real string for every TEXT, the empty one included ---

func init() {
	register(&Rule{Name: "C08.result-text", Min: 1, Run: c08ResultText,
		Doc: "in the pinned SQLite binding, the character pointer given to sqlite3_result_text is non-nil on every path: a nil pointer makes the result SQL NULL"})
	byProp["C08"] = append(byProp["C08"], "C08.result-text", "C04.vacuum-purge", "C03.open-errors")
	byProp["C04"] = append(byProp["C04"], "C09.vacuum-handle", "C05.snapshot")
	byProp["C16"] = append(byProp["C16"], "C09.vacuum-handle")
	explain["C16"] += " vacuum-handle (shared with C09): 'every object a version refers to exists' after a vacuum — what must stay is computed from the handle that holds the vacuumed, committed tree, not from the one it replaced."
	explain["C08"] += " vacuum-purge (shared with C04) and open-errors (shared with C03): 'returned … after merge with other writers' versions, and vacuum' — a vacuum marker that is not swept swallows the next INSERT of that key (acknowledged, never stored), and a read fault during a merge that is skipped instead of failing returns a table without another writer's rows."
	explain["C04"] += " vacuum-handle (shared with C09) and snapshot (shared with C05): after a vacuum or a commit that was interrupted the surviving handle must sit on a tree whose objects exist — the vacuumed tree becomes live before history is deleted, and a failed commit's tree is discarded unconditionally."
	explain["C08"] += " result-text: setContextResult returns TEXT through the binding's Context.ResultText; sqlite3_result_text with a NULL pointer yields SQL NULL whatever the length, so the pointer argument of that call must be non-nil on every path of ResultText (its sibling ResultBlob always passes an allocated buffer). Violated in the pinned binding for the empty string: recorded known finding."
}

func c08ResultText(c *Ctx) {
	const rule = "C08.result-text"
	pk := c.P.ByPath[riyazaliPkg]
	if pk == nil {
		c.R.Unk(rule, "binding: loaded", "-", "package "+riyazaliPkg+" not loaded")
		return
	}
	sp := c.P.SSA.Package(pk.Types)
	var fn *ssa.Function
	for f := range c.P.AllFuncs {
		if f.Pkg == sp && f.Name() == "ResultText" && f.Signature.Recv() != nil && len(f.Blocks) > 0 && f.Synthetic == "" {
			fn = f
		}
	}
	if fn == nil {
		c.R.Unk(rule, "binding: Context.ResultText", "-", "method not found")
		return
	}
	n := 0
	var calls []ssa.CallInstruction
	calls = append(calls, an.Calls(fn)...)
	for _, af := range fn.AnonFuncs { // cgo wraps the C call into a closure
		calls = append(calls, an.Calls(af)...)
	}
	// where a cgo closure is created / called in fn (the point the captured variable is read at)
	var closureAt *ssa.BasicBlock
	bindings := map[*ssa.FreeVar]ssa.Value{}
	for _, b := range fn.Blocks {
		for _, in := range b.Instrs {
			if mc, ok := in.(*ssa.MakeClosure); ok {
				closureAt = b
				cf := mc.Fn.(*ssa.Function)
				for i, fv := range cf.FreeVars {
					if i < len(mc.Bindings) {
						bindings[fv] = mc.Bindings[i]
					}
				}
			}
		}
	}
	for _, call := range calls {
		lbl := calleeLabel(call)
		if !strings.Contains(lbl, "sqlite3_result_text") {
			continue
		}
		n++
		args := call.Common().Args
		// the char* argument: the first pointer-typed argument after the context
		var ptr ssa.Value
		for i, a := range args {
			if i == 0 {
				continue
			}
			if _, ok := a.Type().Underlying().(*types.Pointer); ok {
				ptr = a
				break
			}
		}
		mayNil := false
		if ptr != nil {
			seen := map[ssa.Value]bool{}
			var walk func(v ssa.Value, d int)
			walk = func(v ssa.Value, d int) {
				if v == nil || seen[v] || d > 8 {
					return
				}
				seen[v] = true
				switch x := v.(type) {
				case *ssa.Const:
					if x.IsNil() {
						mayNil = true
					}
				case *ssa.Phi:
					for _, e := range x.Edges {
						walk(e, d+1)
					}
				case *ssa.UnOp:
					if x.Op == token.MUL {
						addr := x.X
						readAt := x.Block()
						if fv, ok := addr.(*ssa.FreeVar); ok {
							if bnd, ok := bindings[fv]; ok {
								addr = bnd
								readAt = closureAt
							}
						}
						if al, ok := addr.(*ssa.Alloc); ok {
							stores := 0
							for _, r := range *al.Referrers() {
								if st, ok := r.(*ssa.Store); ok && st.Addr == ssa.Value(al) {
									stores++
									walk(st.Val, d+1)
									if readAt == nil || !st.Block().Dominates(readAt) {
										mayNil = true // the zero value survives on some path
									}
								}
							}
							if stores == 0 {
								mayNil = true
							}
						}
					}
				case *ssa.ChangeType:
					walk(x.X, d+1)
				case *ssa.Convert:
					walk(x.X, d+1)
				}
			}
			walk(ptr, 0)
		}
		c.R.Cond(ptr != nil && !mayNil, rule, "sqlite.(Context).ResultText: a string is always passed", c.P.Pos(call.Pos()),
			"the character pointer is allocated on every path",
			"the character pointer passed to sqlite3_result_text can be nil (the empty string is not allocated): SQLite then returns SQL NULL, so an empty TEXT written to a key or non-key column reads back as NULL with typeof() 'null' ('insert into e values(1,'''')' -> b is NULL)")
	}
	if n == 0 {
		c.R.Unk(rule, "sqlite.(Context).ResultText: a string is always passed", c.P.Pos(fn.Pos()), "no call of sqlite3_result_text found")
	}
}
