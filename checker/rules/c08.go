package rules

import (
	"fmt"
	"go/constant"
	"go/token"
	"go/types"
	"sort"
	"strings"

	"golang.org/x/tools/go/ssa"

	"s3dbcheck/an"
	"s3dbcheck/core"
)

func init() {
	register(&Rule{Name: "C08.tables", Min: 5, Run: c08Tables,
		Doc: "the five value-conversion tables compose to the identity on SQLite storage classes"})
	claim("C08", "C08: one clause. tables: for each storage class S in {INTEGER, FLOAT, TEXT, BLOB, NULL} the tables extracted from the code compose to the identity: valueToGo(S) yields Go type G; NewKey has a case for G producing proto type P and field F; FromSQLiteValue and (*Key).Value read the same field F for P; setContextResult has a case for G and calls the Result method of class S; NULL maps to 'no field'. delta (shared with C02): every value given to INSERT/UPDATE, NULL included, is recorded. Not decided: bit-identity of individual values (empty text/blob, NaN, -0.0) — runtime values and dependency behaviour.",
		"C08.tables", "C02.delta")
}

// caseOf describes the switch/type-switch case that governs block b: the If in its single
// predecessor whose true side is b.
type caseInfo struct {
	constVal *int64     // x == K
	isNil    bool       // v == nil
	typ      types.Type // typeassert,ok v.(T)
	val      ssa.Value  // the asserted value (extract #0) for type cases
}

func caseOf(b *ssa.BasicBlock) (caseInfo, bool) {
	if len(b.Preds) != 1 {
		return caseInfo{}, false
	}
	p := b.Preds[0]
	iff, ok := p.Instrs[len(p.Instrs)-1].(*ssa.If)
	if !ok || p.Succs[0] != b {
		return caseInfo{}, false
	}
	switch c := iff.Cond.(type) {
	case *ssa.BinOp:
		if c.Op != token.EQL {
			return caseInfo{}, false
		}
		if an.IsNilConst(c.Y) || an.IsNilConst(c.X) {
			return caseInfo{isNil: true}, true
		}
		if k, ok := c.Y.(*ssa.Const); ok && k.Value != nil && k.Value.Kind() == constant.Int {
			v := k.Int64()
			return caseInfo{constVal: &v}, true
		}
	case *ssa.Extract:
		if ta, ok := c.Tuple.(*ssa.TypeAssert); ok && ta.CommaOk && c.Index == 1 {
			ci := caseInfo{typ: ta.AssertedType}
			for _, r := range *ta.Referrers() {
				if ex, ok := r.(*ssa.Extract); ok && ex.Index == 0 {
					ci.val = ex
				}
			}
			return ci, true
		}
	}
	return caseInfo{}, false
}

func enumNames(c *Ctx, pkgPath, typeName, prefix string) map[int64]string {
	pk := c.P.ByPath[pkgPath]
	if pk == nil {
		return nil
	}
	tn, _ := pk.Types.Scope().Lookup(typeName).(*types.TypeName)
	if tn == nil {
		return nil
	}
	out := map[int64]string{}
	for _, n := range pk.Types.Scope().Names() {
		k, ok := pk.Types.Scope().Lookup(n).(*types.Const)
		if !ok || !types.Identical(k.Type(), tn.Type()) || !strings.HasPrefix(n, prefix) {
			continue
		}
		v, _ := constant.Int64Val(k.Val())
		out[v] = strings.TrimPrefix(n, prefix)
	}
	return out
}

func c08Tables(c *Ctx) {
	const rule = "C08.tables"
	v2g := mustFunc(c, "sqlite", "", "valueToGo")
	scr := mustFunc(c, "sqlite", "", "setContextResult")
	newKey := mustFunc(c, "", "", "NewKey")
	fsv := mustFunc(c, "", "", "FromSQLiteValue")
	kval := mustFunc(c, "", "*Key", "Value")
	protoNames, typeField := protoTypeNames(c)
	sqlNames := enumNames(c, "go.riyazali.net/sqlite", "ColumnType", "SQLITE_")
	if v2g == nil || scr == nil || newKey == nil || fsv == nil || kval == nil || protoNames == nil || typeField == nil || len(sqlNames) < 5 {
		if len(sqlNames) < 5 {
			c.R.Errorf("cannot read the sqlite.ColumnType constants")
		}
		return
	}
	// T1: valueToGo: SQLite class -> Go type ("nil" for NULL)
	t1 := map[string]string{}
	for _, b := range v2g.Blocks {
		ci, ok := caseOf(b)
		if !ok || ci.constVal == nil {
			continue
		}
		ret, ok := b.Instrs[len(b.Instrs)-1].(*ssa.Return)
		if !ok {
			continue
		}
		r := ret.Results[0]
		g := "?"
		if an.IsNilConst(r) {
			g = "nil"
		} else if mi, ok := r.(*ssa.MakeInterface); ok {
			g = mi.X.Type().String()
		}
		t1[sqlNames[*ci.constVal]] = g
	}
	// T2: NewKey: Go type -> (proto type, field)
	type pf struct{ p, f string }
	t2 := map[string]pf{}
	for _, b := range newKey.Blocks {
		ci, ok := caseOf(b)
		if !ok {
			continue
		}
		g := "nil"
		if ci.typ != nil {
			g = ci.typ.String()
		} else if !ci.isNil {
			continue
		}
		for _, in := range b.Instrs {
			al, ok := in.(*ssa.Alloc)
			if !ok {
				continue
			}
			nt := an.NamedOf(al.Type().Underlying().(*types.Pointer).Elem())
			if nt == nil || nt.Obj().Name() != "SQLiteValue" {
				continue
			}
			e := pf{p: protoNames[0], f: ""}
			for _, r := range *al.Referrers() {
				fa, ok := r.(*ssa.FieldAddr)
				if !ok {
					continue
				}
				fv := an.FieldVar(fa.X.Type(), fa.Field)
				for _, rr := range *fa.Referrers() {
					st, ok := rr.(*ssa.Store)
					if !ok || st.Addr != ssa.Value(fa) {
						continue
					}
					if fv == typeField {
						if k, ok := st.Val.(*ssa.Const); ok {
							e.p = protoNames[k.Int64()]
						}
					} else if fv.Exported() {
						// the stored value must come from the case variable
						if ci.val != nil && an.DependsOn(st.Val, func(v ssa.Value) bool { return v == ci.val }) {
							e.f = fv.Name()
						} else {
							e.f = "?" + fv.Name()
						}
					}
				}
			}
			t2[g] = e
		}
		if _, done := t2[g]; !done {
			// one-level summary: the case delegates to a same-package constructor
			for _, in := range b.Instrs {
				cl, ok := in.(*ssa.Call)
				if !ok {
					continue
				}
				cal := cl.Call.StaticCallee()
				if cal == nil || an.PkgPathOf(cal) != core.ModPath || len(cal.Blocks) == 0 || len(cal.Params) != 1 {
					continue
				}
				if ci.val == nil || !an.DependsOn(cl.Call.Args[0], func(v ssa.Value) bool { return v == ci.val }) {
					continue
				}
				for _, cb := range cal.Blocks {
					for _, cin := range cb.Instrs {
						al, ok := cin.(*ssa.Alloc)
						if !ok {
							continue
						}
						nt := an.NamedOf(al.Type().Underlying().(*types.Pointer).Elem())
						if nt == nil || nt.Obj().Name() != "SQLiteValue" {
							continue
						}
						e := pf{p: protoNames[0], f: ""}
						for _, r := range *al.Referrers() {
							fa, ok := r.(*ssa.FieldAddr)
							if !ok {
								continue
							}
							fv := an.FieldVar(fa.X.Type(), fa.Field)
							for _, rr := range *fa.Referrers() {
								st, ok := rr.(*ssa.Store)
								if !ok || st.Addr != ssa.Value(fa) {
									continue
								}
								if fv == typeField {
									if k, ok := st.Val.(*ssa.Const); ok {
										e.p = protoNames[k.Int64()]
									}
								} else if fv.Exported() {
									if an.DependsOn(st.Val, func(v ssa.Value) bool { return v == ssa.Value(cal.Params[0]) }) {
										e.f = fv.Name()
									} else {
										e.f = "?" + fv.Name()
									}
								}
							}
						}
						t2[g] = e
					}
				}
			}
		}
	}
	// T3/T4: proto type -> field read (FromSQLiteValue, Key.Value)
	readTable := func(fn *ssa.Function) map[string]string {
		out := map[string]string{}
		tagWalk(fn, typeField, func(in ssa.Instruction, f tagFacts) {
			ret, ok := in.(*ssa.Return)
			if !ok || len(f) != 1 {
				return
			}
			var tag int64
			for _, v := range f {
				tag = v
			}
			r := ret.Results[0]
			name := "?"
			if an.IsNilConst(r) {
				name = ""
			} else if mi, ok := r.(*ssa.MakeInterface); ok {
				if fv := an.FieldOfLoad(mi.X); fv != nil {
					name = fv.Name() + ":" + mi.X.Type().String()
				}
			}
			out[protoNames[tag]] = name
		})
		return out
	}
	t3, t4 := readTable(fsv), readTable(kval)
	// T5: setContextResult: Go type -> Result method
	t5 := map[string]string{}
	for _, b := range scr.Blocks {
		ci, ok := caseOf(b)
		if !ok {
			continue
		}
		g := "nil"
		if ci.typ != nil {
			g = ci.typ.String()
		} else if !ci.isNil {
			continue
		}
		for _, call := range b.Instrs {
			cl, ok := call.(ssa.CallInstruction)
			if !ok {
				continue
			}
			n := calleeLabel(cl)
			if strings.HasPrefix(n, "Result") {
				t5[g] = n
			}
		}
	}
	c.R.Stats["C08.valueToGo_cases"] = len(t1)
	c.R.Stats["C08.NewKey_cases"] = len(t2)
	c.R.Stats["C08.setContextResult_cases"] = len(t5)
	resultClass := map[string]string{"ResultInt64": "INTEGER", "ResultInt": "INTEGER", "ResultFloat": "FLOAT", "ResultText": "TEXT", "ResultBlob": "BLOB", "ResultNull": "NULL"}
	classes := []string{"INTEGER", "FLOAT", "TEXT", "BLOB", "NULL"}
	sort.Strings(classes)
	for _, s := range classes {
		construct := "storage class " + s + " round-trips"
		g, ok := t1[s]
		if !ok {
			c.R.Bad(rule, construct, c.P.Pos(v2g.Pos()), "valueToGo has no case for SQLITE_"+s)
			continue
		}
		e, ok := t2[g]
		if !ok {
			c.R.Bad(rule, construct, c.P.Pos(newKey.Pos()), fmt.Sprintf("valueToGo yields %s for %s but NewKey has no case for it (it panics)", g, s))
			continue
		}
		var problems []string
		if s == "NULL" {
			if e.f != "" || e.p != "NULL" {
				problems = append(problems, fmt.Sprintf("NewKey(nil) produces (%s,%s), not the NULL type without a field", e.p, e.f))
			}
			if t3["NULL"] != "" && t3["NULL"] != "?" {
				// NULL falls to the default return nil: reported as absent from the table, fine
			}
		} else {
			want := e.f + ":" + g
			if strings.HasPrefix(e.f, "?") || e.f == "" {
				problems = append(problems, fmt.Sprintf("NewKey case %s does not store the value into a field (%s)", g, e.f))
			}
			if t3[e.p] != want {
				problems = append(problems, fmt.Sprintf("NewKey stores %s as (%s, field %s) but FromSQLiteValue reads %q for %s", g, e.p, e.f, t3[e.p], e.p))
			}
			if t4[e.p] != want {
				problems = append(problems, fmt.Sprintf("NewKey stores %s as (%s, field %s) but (*Key).Value reads %q for %s", g, e.p, e.f, t4[e.p], e.p))
			}
		}
		m, ok := t5[g]
		if !ok {
			problems = append(problems, fmt.Sprintf("setContextResult has no case for %s (the value is reported as an error)", g))
		} else if resultClass[m] != s {
			problems = append(problems, fmt.Sprintf("setContextResult returns %s through %s, which is storage class %s", g, m, resultClass[m]))
		}
		c.R.Cond(len(problems) == 0, rule, construct, c.P.Pos(v2g.Pos()),
			fmt.Sprintf("%s -> %s -> (%s,%s) -> %s -> %s", s, g, e.p, e.f, g, t5[g]), strings.Join(problems, "; "))
	}
	_ = core.ModPath
}

// ---- C08.unaltered: conversions pass values through unmodified --------------------------------------

func init() {
	register(&Rule{Name: "C08.unaltered", Min: 8, Run: c08Unaltered,
		Doc: "the conversion functions and the write path hand a value on as it is (identity up to integer widening): no sanitising, no canonicalising"})
	byProp["C08"] = append(byProp["C08"], "C08.unaltered")
	explain["C08"] += " unaltered: valueToGo returns exactly what the sqlite.Value accessor yields, NewKey stores exactly the case variable (or its integer widening), setContextResult passes exactly the case variable to the Result method, and the key of an INSERT/UPDATE/DELETE/seek reaches NewKey without passing through any repository function — 'a value that cannot be stored is refused, never altered'."
}

// identityOf strips conversions that keep the value (interface boxing, named-type changes, integer
// widening) and returns the underlying value.
func identityOf(v ssa.Value) ssa.Value {
	for {
		switch x := v.(type) {
		case *ssa.MakeInterface:
			v = x.X
		case *ssa.ChangeInterface:
			v = x.X
		case *ssa.ChangeType:
			v = x.X
		case *ssa.Convert:
			if isInteger(x.X.Type()) && isInteger(x.Type()) {
				v = x.X
				continue
			}
			return v
		default:
			return v
		}
	}
}

func c08Unaltered(c *Ctx) {
	const rule = "C08.unaltered"
	v2g := mustFunc(c, "sqlite", "", "valueToGo")
	scr := mustFunc(c, "sqlite", "", "setContextResult")
	newKey := mustFunc(c, "", "", "NewKey")
	if v2g == nil || scr == nil || newKey == nil {
		return
	}
	// valueToGo: each returned value is the accessor call on the parameter itself
	valP := v2g.Params[0]
	for _, b := range v2g.Blocks {
		ret, ok := b.Instrs[len(b.Instrs)-1].(*ssa.Return)
		if !ok || an.IsNilConst(ret.Results[0]) {
			continue
		}
		x := identityOf(ret.Results[0])
		good := false
		label := "?"
		if cl, ok := x.(*ssa.Call); ok {
			label = calleeLabel(cl)
			if rv := an.RecvValue(cl); rv == ssa.Value(valP) {
				if f := cl.Call.StaticCallee(); f != nil && an.PkgPathOf(f) == "go.riyazali.net/sqlite" {
					good = true
				}
				if cl.Call.IsInvoke() {
					good = true
				}
			}
		}
		c.R.Cond(good, rule, fmt.Sprintf("%s: returns value.%s() unmodified", core.FuncName(v2g), label), c.P.Pos(ret.Pos()),
			"the SQLite value accessor's result is returned as it is", "valueToGo passes the value through another function before storing it (e.g. repairs invalid UTF-8): what is read back is not what was written, instead of the write being refused")
	}
	// NewKey: the field gets the case variable itself
	for _, b := range newKey.Blocks {
		ci, ok := caseOf(b)
		if !ok || ci.val == nil {
			continue
		}
		check := func(al *ssa.Alloc, param ssa.Value, where string) {
			for _, r := range *al.Referrers() {
				fa, ok := r.(*ssa.FieldAddr)
				if !ok {
					continue
				}
				fv := an.FieldVar(fa.X.Type(), fa.Field)
				if fv == nil || !fv.Exported() || fv.Name() == "Type" {
					continue
				}
				for _, rr := range *fa.Referrers() {
					st, ok := rr.(*ssa.Store)
					if !ok || st.Addr != ssa.Value(fa) {
						continue
					}
					c.R.Cond(identityOf(st.Val) == param, rule, fmt.Sprintf("%s: case %s stores the value unmodified", where, ci.typ), c.P.Pos(st.Pos()),
						"field "+fv.Name()+" = the case variable (up to integer widening)", "the value is transformed before it is stored in field "+fv.Name())
				}
			}
		}
		for _, in := range b.Instrs {
			switch x := in.(type) {
			case *ssa.Alloc:
				if nt := an.NamedOf(x.Type().Underlying().(*types.Pointer).Elem()); nt != nil && nt.Obj().Name() == "SQLiteValue" {
					check(x, ci.val, core.FuncName(newKey))
				}
			case *ssa.Call:
				cal := x.Call.StaticCallee()
				if cal == nil || an.PkgPathOf(cal) != core.ModPath || len(cal.Params) != 1 || len(cal.Blocks) == 0 {
					continue
				}
				if identityOf(x.Call.Args[0]) != ci.val {
					continue
				}
				for _, cb := range cal.Blocks {
					for _, cin := range cb.Instrs {
						if al, ok := cin.(*ssa.Alloc); ok {
							if nt := an.NamedOf(al.Type().Underlying().(*types.Pointer).Elem()); nt != nil && nt.Obj().Name() == "SQLiteValue" {
								check(al, cal.Params[0], core.FuncName(cal))
							}
						}
					}
				}
			}
		}
	}
	// setContextResult: Result*(x) gets the case variable itself
	for _, b := range scr.Blocks {
		ci, ok := caseOf(b)
		if !ok || ci.val == nil {
			continue
		}
		for _, in := range b.Instrs {
			cl, ok := in.(ssa.CallInstruction)
			if !ok || !strings.HasPrefix(calleeLabel(cl), "Result") {
				continue
			}
			a := cl.Common().Args
			c.R.Cond(len(a) > 0 && identityOf(a[len(a)-1]) == ci.val, rule, fmt.Sprintf("%s: %s gets the value unmodified", core.FuncName(scr), calleeLabel(cl)), c.P.Pos(cl.Pos()),
				"the case variable is passed as it is", "the value is transformed before it is handed back to SQLite")
		}
	}
	// keys reach NewKey without passing through a repository function
	for _, fn := range c.P.RepoFuncs(func(rel string) bool { return rel == "" }) {
		fname := core.FuncName(fn)
		if fname == "s3db.toSQLiteValue" {
			continue
		}
		n := 0
		for _, call := range an.Calls(fn) {
			if call.Common().StaticCallee() != newKey {
				continue
			}
			n++
			arg := call.Common().Args[0]
			var via string
			// the immediate producers of the key (through boxing and phis): none may be a call of a
			// repository function
			var producers func(v ssa.Value, depth int)
			producers = func(v ssa.Value, depth int) {
				v = identityOf(v)
				if depth > 6 {
					return
				}
				switch x := v.(type) {
				case *ssa.Phi:
					for _, e := range x.Edges {
						if e != v {
							producers(e, depth+1)
						}
					}
				case *ssa.Call:
					if f := x.Call.StaticCallee(); f != nil && strings.HasPrefix(an.PkgPathOf(f), core.ModPath) {
						via = core.FuncName(f)
					}
				}
			}
			producers(arg, 0)
			c.R.Cond(via == "", rule, fmt.Sprintf("%s: key #%d reaches NewKey unaltered", fname, n), c.P.Pos(call.Pos()),
				"the key value is the statement's value", "the key passes through "+via+" before it becomes a Key (canonicalised / altered): a REAL 2.0 key would come back as INTEGER 2")
		}
	}
}
