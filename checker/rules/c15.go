package rules

import (
	"fmt"
	"go/constant"
	"go/types"
	"regexp"
	"strings"

	"golang.org/x/tools/go/ssa"

	"s3dbcheck/an"
	"s3dbcheck/core"
)

func init() {
	defer func() {
		byProp["C15"] = append(byProp["C15"], "C14.ctx", "C02.delta")
		byProp["C14"] = append(byProp["C14"], "C20.unregister")
		explain["C15"] += " ctx (shared with C14): write_time and deadline live in the connection's context, so every write callback must pass the context as it is at the time of the call (sc.ctx), never a copy taken earlier. delta (shared with C02): every accepted statement is stored with its write time, also one that assigns the values the row already has — otherwise the row keeps an older time and a delayed older statement wins."
		explain["C14"] += " unregister (shared with C20): an attach that fails on a storage fault leaves no registration behind, so the same name can be attached once the fault clears and name-based functions never find a table without a tree."
	}()

	register(&Rule{Name: "C15.conn", Min: 7, Run: c15Conn,
		Doc: "s3db_conn protocol: every path that changes an attribute reinstalls the context; ResetContext installs each attribute iff set; columns, fields and arguments agree"})
	register(&Rule{Name: "C15.scope", Min: 2, Run: c15Scope,
		Doc: "the attribute block is allocated per connection and never held in package-level state"})
	claim("C15", "C15 clauses decided: time and clock (shared with C02: one statement time, taken from the connection's context), conn (attribute protocol: a changed write_time/deadline is always installed into the request context, each one independently of the other; the readable columns are the fields the update sets, position by position), scope (per-connection attribute block). Not decided: idempotence of re-executed statements, tie-breaking between equal write times, and the 'older write cannot undo' rule — runtime merge semantics.",
		"C02.time", "C02.clock", "C15.conn", "C15.scope", "C05.txtime")
}

func c15Conn(c *Ctx) {
	const rule = "C15.conn"
	upd := mustFunc(c, "sqlite", "*ConnModule", "Update")
	reset := mustFunc(c, "sqlite", "*S3DBConn", "ResetContext")
	col := mustFunc(c, "sqlite", "*ConnCursor", "Column")
	conn := mustFunc(c, "sqlite", "*ConnModule", "Connect")
	dl := mustField(c, "sqlite", "S3DBConn", "deadline")
	wt := mustField(c, "sqlite", "S3DBConn", "writeTime")
	if upd == nil || reset == nil || col == nil || conn == nil || dl == nil || wt == nil {
		return
	}
	// (1) Update: every store to an attribute is followed by ResetContext on every path to any return
	resetBlocks := map[*ssa.BasicBlock]bool{}
	var resetCalls []ssa.CallInstruction
	for _, call := range an.Calls(upd) {
		if call.Common().StaticCallee() == reset {
			resetBlocks[call.Block()] = true
			resetCalls = append(resetCalls, call)
		}
	}
	for _, f := range []*types.Var{dl, wt} {
		stores := an.StoresToField(upd, f)
		if len(stores) == 0 {
			c.R.Bad(rule, core.FuncName(upd)+": sets "+f.Name(), c.P.Pos(upd.Pos()), "UPDATE s3db_conn never stores the attribute")
			continue
		}
		for i, st := range stores {
			ok := false
			for _, rc := range resetCalls {
				if rc.Block() == st.Block() && an.InstrBefore(st, rc) {
					ok = true
				}
			}
			if !ok {
				ok = true
				for _, s := range st.Block().Succs {
					if an.ReturnsReachableAvoiding(s, resetBlocks) {
						ok = false
					}
				}
				if _, isRet := st.Block().Instrs[len(st.Block().Instrs)-1].(*ssa.Return); isRet {
					ok = false
				}
			}
			c.R.Cond(ok, rule, fmt.Sprintf("%s: %s change #%d is installed", core.FuncName(upd), f.Name(), i+1), c.P.Pos(st.Pos()),
				"every path from the assignment to a return (error returns included) passes ResetContext()",
				"the attribute can be changed and the function return without ResetContext(): what s3db_conn reports and what the request context enforces disagree")
		}
	}
	// (2) ResetContext: each attribute is installed iff it is set, independently of the other
	type inst struct {
		field  *types.Var
		callee string
		pkg    string
	}
	for _, in := range []inst{{wt, "NewContext", core.ModPath + "/writetime"}, {dl, "WithDeadline", "context"}} {
		var call ssa.CallInstruction
		for _, cl := range an.Calls(reset) {
			if f := cl.Common().StaticCallee(); f != nil && f.Name() == in.callee && an.PkgPathOf(f) == in.pkg {
				call = cl
			}
		}
		construct := fmt.Sprintf("%s: installs %s iff set", core.FuncName(reset), in.field.Name())
		if call == nil {
			c.R.Bad(rule, construct, c.P.Pos(reset.Pos()), "ResetContext never calls "+in.callee+": the attribute has no effect on requests")
			continue
		}
		isZeroOf := func(v ssa.Value) bool {
			cl, ok := v.(*ssa.Call)
			return ok && cl.Call.StaticCallee() != nil && cl.Call.StaticCallee().Name() == "IsZero" && len(cl.Call.Args) == 1 && an.FieldOfLoad(cl.Call.Args[0]) == in.field
		}
		guarded := an.GuardedByValue(an.Edge{From: call.Block()}, isZeroOf, false)
		// no other condition decides it
		var extra []string
		for _, blk := range reset.Blocks {
			iff, ok := blk.Instrs[len(blk.Instrs)-1].(*ssa.If)
			if !ok || blk == call.Block() {
				continue
			}
			if !(an.OnlyVia(blk, 0, call.Block()) || an.OnlyVia(blk, 1, call.Block())) {
				continue
			}
			cond, _ := an.StripNot(iff.Cond)
			if isZeroOf(cond) {
				continue
			}
			extra = append(extra, cond.String())
		}
		c.R.Cond(guarded && len(extra) == 0, rule, construct, c.P.Pos(call.Pos()),
			"installed exactly when the attribute is non-zero", "installing "+in.field.Name()+" additionally depends on "+strings.Join(extra, ", ")+" (or is not guarded by IsZero): e.g. a write_time is ignored whenever a deadline is set")
		// the value installed is the field
		okArg := false
		for _, a := range call.Common().Args {
			if an.FieldOfLoad(a) == in.field {
				okArg = true
			}
		}
		c.R.Cond(okArg, rule, fmt.Sprintf("%s: %s installs the attribute's value", core.FuncName(reset), in.callee), c.P.Pos(call.Pos()), "the field itself is passed", "a value other than the attribute is installed")
	}
	// (2b) the layers are stacked: every derived context is built on the connection's current one
	ctxF := mustField(c, "sqlite", "S3DBConn", "ctx")
	if ctxF != nil {
		for _, cl := range an.Calls(reset) {
			f := cl.Common().StaticCallee()
			if f == nil {
				continue
			}
			isDerive := (an.PkgPathOf(f) == "context" && (f.Name() == "WithDeadline" || f.Name() == "WithTimeout" || f.Name() == "WithCancel" || f.Name() == "WithValue")) ||
				(an.PkgPathOf(f) == core.ModPath+"/writetime" && f.Name() == "NewContext")
			if !isDerive {
				continue
			}
			parent := cl.Common().Args[0]
			c.R.Cond(an.FieldOfLoad(parent) == ctxF, rule, fmt.Sprintf("%s: %s extends the connection's context", core.FuncName(reset), f.Name()), c.P.Pos(cl.Pos()),
				"the parent is sc.ctx, so earlier layers are kept", "a layer is built on a fresh context instead of sc.ctx: the layer installed before it (e.g. the write time when a deadline is set) is lost")
		}
	}
	// (3) column k of the declared schema <-> field read by Column case k <-> field fed from values[k] in Update
	var declared []string
	for _, call := range an.Calls(conn) {
		for _, a := range call.Common().Args {
			if k, ok := a.(*ssa.Const); ok && k.Value != nil && k.Value.Kind() == constant.String {
				s := constant.StringVal(k.Value)
				if m := regexp.MustCompile(`(?is)create\s+table\s+\w+\s*\((.*)\)`).FindStringSubmatch(s); m != nil {
					for _, part := range strings.Split(m[1], ",") {
						f := strings.Fields(part)
						if len(f) > 0 {
							declared = append(declared, f[0])
						}
					}
				}
			}
		}
	}
	norm := func(s string) string { return strings.ToLower(strings.ReplaceAll(s, "_", "")) }
	// Column: which attribute field is read under i == k
	colField := map[int64]string{}
	iP := col.Params[len(col.Params)-1]
	for _, b := range col.Blocks {
		iff, ok := b.Instrs[len(b.Instrs)-1].(*ssa.If)
		if !ok {
			continue
		}
		cond, neg := an.StripNot(iff.Cond)
		bo, ok := cond.(*ssa.BinOp)
		if !ok || bo.X != ssa.Value(iP) {
			continue
		}
		k, ok := bo.Y.(*ssa.Const)
		if !ok {
			continue
		}
		si := 0
		if neg {
			si = 1
		}
		for _, blk := range col.Blocks {
			if !an.OnlyVia(b, si, blk) {
				continue
			}
			for _, in := range blk.Instrs {
				// named after the anchor, not after the field's present name
				if fv := fieldOfAddrOrLoad(in); fv == dl {
					colField[k.Int64()] = "deadline"
				} else if fv == wt {
					colField[k.Int64()] = "writeTime"
				}
			}
		}
	}
	// Update: which values[k] feeds which field
	updField := map[int64]string{}
	for fi, f := range []*types.Var{dl, wt} {
		anchorName := []string{"deadline", "writeTime"}[fi]
		for _, st := range an.StoresToField(upd, f) {
			an.DependsOn(st.Val, func(v ssa.Value) bool {
				ia, ok := v.(*ssa.IndexAddr)
				if !ok {
					return false
				}
				if _, isParam := ia.X.(*ssa.Parameter); !isParam {
					return false
				}
				if k, ok := ia.Index.(*ssa.Const); ok {
					updField[k.Int64()] = anchorName
				}
				return false
			})
		}
	}
	if len(declared) < 2 {
		c.R.Unk(rule, core.FuncName(conn)+": declared columns", c.P.Pos(conn.Pos()), "cannot extract the column list from the declared schema")
		return
	}
	for k, name := range declared {
		cf, uf := colField[int64(k)], updField[int64(k)]
		good := norm(cf) == norm(name) && norm(uf) == norm(name)
		c.R.Cond(good, rule, fmt.Sprintf("s3db_conn column %d (%s) reads and writes the same attribute", k, name), c.P.Pos(col.Pos()),
			"declared column, xColumn case and xUpdate argument agree", fmt.Sprintf("column %d is declared %q, xColumn reads %q, xUpdate writes %q", k, name, cf, uf))
	}
}

func fieldOfAddrOrLoad(in ssa.Instruction) *types.Var {
	switch x := in.(type) {
	case *ssa.FieldAddr:
		return an.FieldVar(x.X.Type(), x.Field)
	case *ssa.Field:
		return an.FieldVar(x.X.Type(), x.Field)
	}
	return nil
}

func c15Scope(c *Ctx) {
	const rule = "C15.scope"
	pk := c.P.Pkg("sqlite")
	if pk == nil {
		c.R.Errorf("package sqlite not loaded")
		return
	}
	tn, _ := pk.Types.Scope().Lookup("S3DBConn").(*types.TypeName)
	if tn == nil {
		c.R.Errorf("anchor type sqlite.S3DBConn not found")
		return
	}
	mentions := func(t types.Type) bool {
		found := false
		var walk func(t types.Type, d int)
		walk = func(t types.Type, d int) {
			if d > 6 || found {
				return
			}
			switch x := t.(type) {
			case *types.Named:
				if x.Obj() == tn {
					found = true
					return
				}
				if x.Obj().Pkg() == pk.Types {
					walk(x.Underlying(), d+1)
				}
			case *types.Pointer:
				walk(x.Elem(), d+1)
			case *types.Slice:
				walk(x.Elem(), d+1)
			case *types.Array:
				walk(x.Elem(), d+1)
			case *types.Map:
				walk(x.Key(), d+1)
				walk(x.Elem(), d+1)
			case *types.Struct:
				for i := 0; i < x.NumFields(); i++ {
					walk(x.Field(i).Type(), d+1)
				}
			}
		}
		walk(t, 0)
		return found
	}
	// no package-level variable of any library package can hold the attribute block
	bad := 0
	for _, p := range c.P.Roots {
		rel := strings.TrimPrefix(strings.TrimPrefix(p.PkgPath, core.ModPath), "/")
		if !an.LibraryPkg(rel) {
			continue
		}
		for _, n := range p.Types.Scope().Names() {
			v, ok := p.Types.Scope().Lookup(n).(*types.Var)
			if !ok {
				continue
			}
			if mentions(v.Type()) {
				bad++
				c.R.Bad(rule, "package variable "+rel+"."+n+" holds connection attributes", c.P.Pos(v.Pos()), "a package-level variable can hold an S3DBConn: deadline/write_time of one connection would apply to others")
			}
		}
	}
	if bad == 0 {
		c.R.OK(rule, "no package-level variable can hold an S3DBConn", "-", "checked every package-level variable type of the library packages")
	}
	// allocated only in the per-connection registration callback
	n := 0
	for _, fn := range c.P.RepoFuncs(an.LibraryPkg) {
		for _, b := range fn.Blocks {
			for _, in := range b.Instrs {
				al, ok := in.(*ssa.Alloc)
				if !ok {
					continue
				}
				nt := an.NamedOf(al.Type().Underlying().(*types.Pointer).Elem())
				if nt == nil || nt.Obj() != tn {
					continue
				}
				n++
				perConn := false
				for _, p := range fn.Params {
					if pn := an.NamedOf(p.Type()); pn != nil && pn.Obj().Name() == "ExtensionApi" {
						perConn = true
					}
				}
				c.R.Cond(perConn, rule, core.FuncName(fn)+": allocates the attribute block", c.P.Pos(al.Pos()),
					"allocated inside the callback SQLite runs once per connection", "an S3DBConn is allocated outside the per-connection registration callback (shared between connections?)")
			}
		}
	}
	if n == 0 {
		c.R.Unk(rule, "allocation of the attribute block", "-", "no allocation of S3DBConn found")
	}
}

// ---- C15.unassigned-kept: an UPDATE of one connection attribute leaves the other alone -----------------

func init() {
	register(&Rule{Name: "C15.unassigned-kept", Min: 3, Run: c15UnassignedKept,
		Doc: "s3db_conn: xColumn leaves columns an UPDATE does not assign unset (NoChange), and xUpdate reads a column's value, and releases the transaction's pinned time, only when that column is assigned"})
	byProp["C15"] = append(byProp["C15"], "C15.unassigned-kept")
	byProp["C05"] = append(byProp["C05"], "C15.unassigned-kept")
	explain["C15"] += " unassigned-kept: 'write_time and deadline apply to exactly the statements issued while they are set' — SQLite hands xUpdate every column; unless xColumn answers 'not assigned' for the others, UPDATE s3db_conn SET deadline=… re-reads the displayed write_time (inside a transaction: the pinned time, cut to seconds) as a user setting that outlives COMMIT. (a) every result ConnCursor.Column sets lies behind the 'assigned' side of ctx.NoChange(); (b) in ConnModule.Update a column's Text()/IsNil() is consulted only behind the 'assigned' side of its NoChange(), and on every successful return the pin flag txFixedWriteTime is cleared exactly when write_time was assigned (cleared when not: the pinned time stays for good; not cleared when assigned: COMMIT wipes the user's write_time)."
	explain["C05"] += " unassigned-kept (shared with C15): 'all writes of one transaction carry one write time unless the connection sets it explicitly' — setting only the deadline is not setting the time."
}

type connUpdState struct {
	asg     [2]int // per column: 0 not asked, 1 assigned, 2 not assigned
	cleared bool
	bad     string
}

func (s connUpdState) Key() string { return fmt.Sprintf("%v/%v/%s", s.asg, s.cleared, s.bad) }

type colAnsState struct {
	s   int // 0 not asked, 1 not assigned, 2 assigned
	bad bool
}

func (s colAnsState) Key() string { return fmt.Sprintf("%d/%v", s.s, s.bad) }

func c15UnassignedKept(c *Ctx) {
	const rule = "C15.unassigned-kept"
	col := mustFunc(c, "sqlite", "*ConnCursor", "Column")
	upd := mustFunc(c, "sqlite", "*ConnModule", "Update")
	pinF := mustField(c, "sqlite", "S3DBConn", "txFixedWriteTime")
	if col == nil || upd == nil || pinF == nil {
		return
	}
	// (a) xColumn
	{
		name := core.FuncName(col)
		c.R.SawFunc(name)
		h := an.THooks{}
		h.Branch = func(iff *ssa.If, side bool, st0 an.TState) an.TState {
			st := st0.(colAnsState)
			cond, neg := an.StripNot(iff.Cond)
			if cl, ok := cond.(*ssa.Call); ok && calleeLabel(cl) == "NoChange" {
				noChange := side != neg
				want := 2
				if noChange {
					want = 1
				}
				if st.s != 0 && st.s != want {
					return nil // the same question answered differently: infeasible
				}
				st.s = want
			}
			return st
		}
		h.Instr = func(in ssa.Instruction, st0 an.TState) an.TState {
			st := st0.(colAnsState)
			if cl, ok := in.(ssa.CallInstruction); ok && strings.HasPrefix(calleeLabel(cl), "Result") && calleeLabel(cl) != "ResultError" {
				if st.s != 2 {
					st.bad = true
				}
			}
			return st
		}
		exits := an.WalkTypestate(col, colAnsState{}, h, c.Scope(col))
		good := len(exits) > 0
		for _, ex := range exits {
			if ex.St.(colAnsState).bad {
				good = false
			}
		}
		c.R.Cond(good, rule, name+": unassigned columns stay unset", c.P.Pos(col.Pos()), "every result is set behind the 'assigned' side of ctx.NoChange()",
			"xColumn answers with the current value also for columns the UPDATE does not assign: xUpdate then cannot tell 'SET deadline=…' from 'SET deadline=…, write_time=<what is displayed>' — inside a transaction the pinned time (cut to seconds) becomes a write_time that outlives COMMIT")
	}
	// (b) xUpdate
	name := core.FuncName(upd)
	c.R.SawFunc(name)
	var valuesParam ssa.Value
	for _, p := range upd.Params {
		if _, ok := p.Type().Underlying().(*types.Slice); ok {
			valuesParam = p
		}
	}
	if valuesParam == nil {
		c.R.Unk(rule, name+": shape", c.P.Pos(upd.Pos()), "no variadic values parameter")
		return
	}
	colOf := func(v ssa.Value) int {
		k := -1
		an.DependsOn(v, func(w ssa.Value) bool {
			if ia, ok := w.(*ssa.IndexAddr); ok && an.Unwrap(ia.X) == valuesParam {
				if ck, ok := ia.Index.(*ssa.Const); ok {
					k = int(ck.Int64())
				}
			}
			return false
		})
		return k
	}
	recvOf := func(cl ssa.CallInstruction) ssa.Value {
		cm := cl.Common()
		if cm.IsInvoke() {
			return cm.Value
		}
		if len(cm.Args) > 0 {
			return cm.Args[0]
		}
		return nil
	}
	h := an.THooks{}
	h.Branch = func(iff *ssa.If, side bool, st0 an.TState) an.TState {
		st := st0.(connUpdState)
		cond, neg := an.StripNot(iff.Cond)
		cl, ok := cond.(*ssa.Call)
		if !ok || calleeLabel(cl) != "NoChange" {
			return st
		}
		k := colOf(recvOf(cl))
		if k < 0 || k > 1 {
			return st
		}
		want := 1
		if side != neg { // NoChange() is true
			want = 2
		}
		if st.asg[k] != 0 && st.asg[k] != want {
			return nil // the value's flag does not change between two questions
		}
		st.asg[k] = want
		return st
	}
	h.Instr = func(in ssa.Instruction, st0 an.TState) an.TState {
		st := st0.(connUpdState)
		switch x := in.(type) {
		case ssa.CallInstruction:
			l := calleeLabel(x)
			if l == "Text" || l == "IsNil" || l == "Int64" || l == "Blob" {
				if k := colOf(recvOf(x)); k >= 0 && k <= 1 && st.asg[k] != 1 {
					st.bad = fmt.Sprintf("column %d is read with %s() at %s without knowing that it was assigned", k, l, c.P.Pos(x.Pos()))
				}
			}
		case *ssa.Store:
			if fa, ok := x.Addr.(*ssa.FieldAddr); ok && an.FieldVar(fa.X.Type(), fa.Field) == pinF {
				if cb, isC := constBool(x.Val); isC && !cb {
					st.cleared = true
				}
			}
		}
		return st
	}
	exits := an.WalkTypestate(upd, connUpdState{}, h, c.Scope(upd))
	n := 0
	readOK, pinOK := true, true
	readWhy, pinWhy := "", ""
	for _, ex := range exits {
		if ex.ErrNil == 0 {
			continue // an error return: the connection is left as it was (C15.conn)
		}
		n++
		st := ex.St.(connUpdState)
		if st.bad != "" {
			readOK = false
			readWhy = st.bad + ": an unassigned column arrives as NULL/empty and would clear the attribute, or (if xColumn answers) re-install the displayed value as the user's"
		}
		switch {
		case st.asg[1] == 2 && st.cleared:
			pinOK = false
			pinWhy = "on a path where write_time is not assigned the transaction's pin is released (return at " + c.P.Pos(ex.Ret.Pos()) + "): the pinned time stays on the connection after COMMIT and stamps every later statement"
		case st.asg[1] == 1 && !st.cleared:
			pinOK = false
			pinWhy = "on a path where write_time is assigned the transaction's pin is not released (return at " + c.P.Pos(ex.Ret.Pos()) + "): COMMIT / ROLLBACK take the user's write_time for the pinned one and wipe it — later statements are stamped 'now' and an old replayed request overrides newer changes"
		case st.asg[1] == 0:
			pinOK = false
			pinWhy = "Update can succeed without asking whether write_time was assigned (return at " + c.P.Pos(ex.Ret.Pos()) + ")"
		}
	}
	if n == 0 {
		c.R.Unk(rule, name+": shape", c.P.Pos(upd.Pos()), "no successful return found")
		return
	}
	c.R.Cond(readOK, rule, name+": a column is read only when assigned", c.P.Pos(upd.Pos()), "Text()/IsNil() of a column only behind the 'assigned' side of its NoChange()", readWhy)
	c.R.Cond(pinOK, rule, name+": the pin is released exactly when write_time is assigned", c.P.Pos(upd.Pos()), fmt.Sprintf("%d successful paths", n), pinWhy)
}

// ---- C15.reinsert-strictly-later: an INSERT over a deleted row is accepted only after the delete ---------

func init() {
	register(&Rule{Name: "C15.reinsert-strictly-later", Min: 3, Run: c15ReinsertLater,
		Doc: "decision table of Insert's guard for a key whose row is deleted, over the three orderings of delete time and statement time: accepted iff the delete is strictly earlier"})
	byProp["C15"] = append(byProp["C15"], "C15.reinsert-strictly-later")
	explain["C15"] += " reinsert-strictly-later: the times in Insert's guard are touched through comparisons only, so the guard is evaluated for the three orderings of (delete time, statement time) on the paths where the key's row exists and is deleted: delete earlier -> the statement is stored; equal or later -> refused with the key constraint. Equal must refuse: the row merge and the entry-level last-writer-wins both let the incoming row win a tie, so a replayed INSERT carrying the write_time of the DELETE that followed it would bring the row back ('re-executing a statement with the same write_time … leaves the table unchanged'); later must refuse ('an older statement cannot undo a newer change'). The comparison may be written any way that has this table."
}

type reinsState struct {
	deleted int // 0 not asked, 1 deleted, 2 live
	refused bool
	stored  bool
}

func (s reinsState) Key() string { return fmt.Sprintf("%d/%v/%v", s.deleted, s.refused, s.stored) }

func c15ReinsertLater(c *Ctx) {
	const rule = "C15.reinsert-strictly-later"
	fn := mustFunc(c, "", "*VirtualTable", "Insert")
	ut := mustFunc(c, "", "", "updateTime")
	if fn == nil || ut == nil {
		return
	}
	name := core.FuncName(fn)
	c.R.SawFunc(name)
	sc := c.Scope(fn)
	classify := func(v ssa.Value) string {
		d, t := false, false
		an.DependsOn(sc.ArgOfParam(v), func(w ssa.Value) bool {
			if fv := an.FieldOfLoad(w); fv != nil && fv.Name() == "DeleteUpdateOffset" {
				d = true
			}
			if cl, ok := w.(*ssa.Call); ok && cl.Call.StaticCallee() == ut {
				t = true
			}
			return false
		})
		switch {
		case d:
			return "D"
		case t:
			return "T"
		}
		return ""
	}
	// truth of a time comparison in a world; sign = sign(D - T)
	cmpTruth := func(cl *ssa.Call, sign int) (bool, bool) {
		f := cl.Call.StaticCallee()
		if f == nil || an.PkgPathOf(f) != "time" || len(cl.Call.Args) != 2 {
			return false, false
		}
		a, b := classify(cl.Call.Args[0]), classify(cl.Call.Args[1])
		var s int // sign(recv - arg)
		switch {
		case a == "D" && b == "T":
			s = sign
		case a == "T" && b == "D":
			s = -sign
		default:
			return false, false
		}
		switch f.Name() {
		case "Before":
			return s < 0, true
		case "After":
			return s > 0, true
		case "Equal":
			return s == 0, true
		}
		return false, false
	}
	worlds := []struct {
		label  string
		sign   int
		accept bool
	}{{"delete earlier than the statement", -1, true}, {"delete at the statement's time", 0, false}, {"delete later than the statement", 1, false}}
	nCmp := 0
	for _, w := range worlds {
		h := an.THooks{}
		h.Branch = func(iff *ssa.If, side bool, st0 an.TState) an.TState {
			st := st0.(reinsState)
			cond, neg := an.StripNot(iff.Cond)
			if cl, ok := cond.(*ssa.Call); ok {
				if tv, known := cmpTruth(cl, w.sign); known {
					nCmp++
					if (side != neg) != tv {
						return nil
					}
					return st
				}
			}
			if fv := an.FieldOfLoad(cond); fv != nil && fv.Name() == "Deleted" {
				want := 2
				if side != neg {
					want = 1
				}
				if st.deleted != 0 && st.deleted != want {
					return nil
				}
				st.deleted = want
			}
			return st
		}
		h.Value = func(v ssa.Value, _ an.TState) (bool, bool) {
			if cl, ok := v.(*ssa.Call); ok {
				if tv, known := cmpTruth(cl, w.sign); known {
					nCmp++
					return tv, true
				}
			}
			return false, false
		}
		h.Instr = func(in ssa.Instruction, st0 an.TState) an.TState {
			st := st0.(reinsState)
			if cl, ok := in.(ssa.CallInstruction); ok && an.CalleeIs(cl, kvPkg, "DB", "Set") {
				st.stored = true
			}
			return st
		}
		exits := an.WalkTypestate(fn, reinsState{}, h, sc)
		stored, refused, n := false, false, 0
		for _, ex := range exits {
			st := ex.St.(reinsState)
			if st.deleted != 1 {
				continue
			}
			n++
			if st.stored {
				stored = true
			}
			if !st.stored && ex.ErrNil <= 0 {
				// an error exit before the store: is it the key constraint?
				for _, r := range ex.Ret.Results {
					an.DependsOn(r, func(v ssa.Value) bool {
						if g, ok := v.(*ssa.Global); ok && g.Name() == "ErrS3DBConstraintPrimaryKey" {
							refused = true
						}
						return false
					})
				}
			}
		}
		if n == 0 {
			c.R.Unk(rule, name+": "+w.label, c.P.Pos(fn.Pos()), "no path on which the existing row is known to be deleted")
			continue
		}
		good := stored == w.accept && refused == !w.accept
		got := fmt.Sprintf("stored=%v refused-with-key-constraint=%v", stored, refused)
		why := ""
		switch {
		case w.accept:
			why = "an INSERT later than the row's deletion is not (only) stored: " + got
		case w.sign == 0:
			why = "an INSERT carrying exactly the write_time of the row's deletion is accepted (" + got + "): nothing downstream stops it — the row merge and the entry-level last-writer-wins both give a tie to the incoming row — so replaying a request 'INSERT; DELETE' issued at one write_time brings the row back, immediately, later, or on any writer that merged the deletion"
		default:
			why = "an INSERT older than the row's deletion is accepted (" + got + ")"
		}
		c.R.Cond(good, rule, name+": "+w.label, c.P.Pos(fn.Pos()), got, why)
	}
	if nCmp == 0 {
		c.R.Errorf("C15.reinsert-strictly-later: no comparison between the delete time and the statement time found in Insert")
	}
}

// ---- C15.filter-restarts: xFilter starts the scan over -------------------------------------------------

func init() {
	register(&Rule{Name: "C15.filter-restarts", Min: 3, Run: c15FilterRestarts,
		Doc: "sibling check over every cursor type: the field its Eof() reports is assigned on every successful path of its Filter (directly or in a method Filter calls on the same receiver)"})
	byProp["C15"] = append(byProp["C15"], "C15.filter-restarts")
	byProp["C12"] = append(byProp["C12"], "C15.filter-restarts")
	byProp["C06"] = append(byProp["C06"], "C15.filter-restarts")
	explain["C15"] += " filter-restarts: 'write_time and deadline … are readable back from s3db_conn' — also when s3db_conn is the inner table of a join: SQLite calls xFilter once per outer row on the same cursor, and a cursor whose end-of-scan flag is set only by Next and never by Filter answers the first scan only. For every type with Filter and an Eof() that returns a field of the receiver, every possibly-successful return of Filter lies behind an assignment of that field — in Filter itself or in a method it calls on its receiver."
	explain["C12"] += " filter-restarts (shared with C15): the same for the s3db_changes cursor, whose diff cannot be rewound: a second xFilter replaces the whole cursor by a freshly opened one (a whole-struct assignment counts; so does the still-false side of a first-scan marker that only Filter sets)."
	explain["C06"] += " filter-restarts (shared with C15): the table's own cursor assigns its end-of-scan flag on every path of Filter."
}

func c15FilterRestarts(c *Ctx) {
	const rule = "C15.filter-restarts"
	n := 0
	for _, pk := range c.P.Roots {
		rel := strings.TrimPrefix(strings.TrimPrefix(pk.PkgPath, core.ModPath), "/")
		if !an.LibraryPkg(rel) {
			continue
		}
		for _, tnName := range pk.Types.Scope().Names() {
			tn, ok := pk.Types.Scope().Lookup(tnName).(*types.TypeName)
			if !ok {
				continue
			}
			ptr := types.NewPointer(tn.Type())
			ms := c.P.SSA.MethodSets.MethodSet(ptr)
			var filter, eof *ssa.Function
			for i := 0; i < ms.Len(); i++ {
				switch ms.At(i).Obj().Name() {
				case "Filter":
					filter = c.P.SSA.MethodValue(ms.At(i))
				case "Eof":
					eof = c.P.SSA.MethodValue(ms.At(i))
				}
			}
			if filter == nil || eof == nil || len(filter.Blocks) == 0 || len(eof.Blocks) == 0 || filter.Synthetic != "" {
				continue
			}
			// the field Eof() reports
			var flag *types.Var
			for _, b := range eof.Blocks {
				if ret, ok := b.Instrs[len(b.Instrs)-1].(*ssa.Return); ok && len(ret.Results) == 1 {
					if fv := an.FieldOfLoad(ret.Results[0]); fv != nil {
						flag = fv
					}
				}
			}
			if flag == nil {
				continue // delegates (the sqlite adapter of the table's cursor): judged where the field lives
			}
			n++
			name := core.FuncName(filter)
			c.R.SawFunc(name)
			storesFlag := func(fn *ssa.Function) bool {
				for _, b := range fn.Blocks {
					for _, in := range b.Instrs {
						if st, ok := in.(*ssa.Store); ok {
							if fa, ok := st.Addr.(*ssa.FieldAddr); ok && an.FieldVar(fa.X.Type(), fa.Field) == flag {
								return true
							}
						}
					}
				}
				return false
			}
			// methods on the same receiver that assign the flag on every path they return from
			assignsAlways := func(fn *ssa.Function) bool {
				if !storesFlag(fn) {
					return false
				}
				h := an.THooks{Instr: func(in ssa.Instruction, st an.TState) an.TState {
					if s, ok := in.(*ssa.Store); ok {
						if fa, ok := s.Addr.(*ssa.FieldAddr); ok && an.FieldVar(fa.X.Type(), fa.Field) == flag {
							return ansState(true)
						}
					}
					return st
				}}
				for _, ex := range an.WalkTypestate(fn, ansState(false), h, nil) {
					if ex.ErrNil != 0 && !bool(ex.St.(ansState)) {
						return false
					}
				}
				return true
			}
			// "first scan" marker: a boolean field of the cursor that only Filter sets, and sets to true.
			// On the side where it is still false the cursor is as it was constructed.
			firstMarker := func(fv *types.Var) bool {
				if fv == nil || fv == flag {
					return false
				}
				if b, ok := fv.Type().Underlying().(*types.Basic); !ok || b.Kind() != types.Bool {
					return false
				}
				setInFilter := false
				for _, f := range c.P.RepoFuncs(an.LibraryPkg) {
					for _, b := range f.Blocks {
						for _, in := range b.Instrs {
							st, ok := in.(*ssa.Store)
							if !ok {
								continue
							}
							fa, ok := st.Addr.(*ssa.FieldAddr)
							if !ok || an.FieldVar(fa.X.Type(), fa.Field) != fv {
								continue
							}
							cb, isC := constBool(st.Val)
							if f != filter || !isC || !cb {
								return false
							}
							setInFilter = true
						}
					}
				}
				return setInFilter
			}
			recv := filter.Params[0]
			fsc := c.Scope(filter)
			h := an.THooks{Instr: func(in ssa.Instruction, st an.TState) an.TState {
				switch x := in.(type) {
				case *ssa.Store:
					if fa, ok := x.Addr.(*ssa.FieldAddr); ok && an.FieldVar(fa.X.Type(), fa.Field) == flag {
						return ansState(true)
					}
					if x.Addr == ssa.Value(recv) || fsc.ArgOfParam(x.Addr) == ssa.Value(recv) {
						return ansState(true) // *c = <another cursor>: every field is assigned
					}
				case ssa.CallInstruction:
					if cal := x.Common().StaticCallee(); cal != nil && cal != filter && len(cal.Blocks) > 0 && len(x.Common().Args) > 0 && x.Common().Args[0] == ssa.Value(recv) && assignsAlways(cal) {
						return ansState(true)
					}
				}
				return st
			}, Branch: func(iff *ssa.If, side bool, st an.TState) an.TState {
				cond, neg := an.StripNot(iff.Cond)
				if side == neg && firstMarker(an.FieldOfLoad(cond)) {
					return ansState(true) // the first scan of a cursor: the flag is as constructed
				}
				return st
			}}
			good := true
			why := ""
			for _, ex := range an.WalkTypestate(filter, ansState(false), h, fsc) {
				if ex.ErrNil != 0 && !bool(ex.St.(ansState)) {
					good = false
					why = fmt.Sprintf("Filter can return successfully at %s without assigning %s, which Eof() reports: after the first scan the flag stays set, and a second xFilter on the cursor (the table as the inner loop of a join, a correlated sub-query) yields no rows", c.P.Pos(ex.Ret.Pos()), flag.Name())
				}
			}
			c.R.Cond(good, rule, name+": the end-of-scan flag is assigned", c.P.Pos(filter.Pos()), "every successful path of Filter assigns "+flag.Name(), why)
		}
	}
	if n < 3 {
		c.R.Errorf("C15.filter-restarts: only %d cursor types with an Eof() field found (conn, vacuum, changes, table cursor expected)", n)
	}
}
