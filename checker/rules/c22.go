package rules

import (
	"fmt"
	"go/token"
	"go/types"
	"sort"
	"strings"

	"golang.org/x/tools/go/ssa"

	"s3dbcheck/an"
	"s3dbcheck/core"
)

// Rules written for round-5 seeded changes that no existing rule reported.

func init() {
	register(&Rule{Name: "C10.row-pass-complete", Min: 1, Run: c10RowPassComplete,
		Doc: "vacuum's pass over the rows leaves its loop only at the end of the cursor or with an error"})
	register(&Rule{Name: "C12.no-refusal", Min: 4, Run: c12NoRefusal,
		Doc: "on the path of a changes query every error that is returned comes from a callee: no function refuses a pair of versions on grounds of its own"})
	register(&Rule{Name: "C17.time-resolution", Min: 1, Run: c17TimeResolution,
		Doc: "the times stored in an entry are when.UnixNano() as it is: no coarser unit, no arithmetic"})
	register(&Rule{Name: "C18.always-seals", Min: 1, Run: c18AlwaysSeals,
		Doc: "the encryptor's constructor returns the sealing encryptor on every path, whatever the passphrase"})
	register(&Rule{Name: "C07.bytes-by-content", Min: 1, Run: c07BytesByContent,
		Doc: "no comparison of two lengths takes part in Key.Order: BLOB and TEXT order is bytewise, a shorter value is not smaller"})
	byProp["C10"] = append(byProp["C10"], "C10.row-pass-complete")
	byProp["C12"] = append(byProp["C12"], "C12.no-refusal")
	byProp["C17"] = append(byProp["C17"], "C17.time-resolution")
	byProp["C02"] = append(byProp["C02"], "C17.time-resolution")
	byProp["C18"] = append(byProp["C18"], "C18.always-seals", "C14.errors")
	byProp["C16"] = append(byProp["C16"], "C14.errors")
	explain["C18"] += " errors (shared with C14): the verdict of Decrypt on a damaged node reaches the caller of a point lookup only if no layer above the encryptor drops it; E3 now also reports a return that reports success on a path from the call that passes no test of the error."
	explain["C16"] += " errors (shared with C14): a fault while vacuum works out what must stay is not the 'fewer deletions' direction."
	byProp["C07"] = append(byProp["C07"], "C07.bytes-by-content")
	byProp["C06"] = append(byProp["C06"], "C07.bytes-by-content")
	explain["C10"] += " row-pass-complete: 'reclaims every row deleted before the cutoff' — the loop over the cursor in Vacuum is left only where Get() reports the end or an error is returned; a 'nothing beyond here can qualify' shortcut (e.g. by the time embedded in generated row ids, which wraps for times before 2014) leaves markers behind while vacuum reports success."
	explain["C12"] += " no-refusal: 'for any two versions A and B … never makes the query fail' unless a version cannot be read: in ChangesTable.open, loadForDiffing, (*kv.DB).StartDiff, DiffCursor.NextEntry and ChangesCursor.Next/Filter every non-nil error that is returned is derived from the error of a call (propagated or wrapped); a freshly made error — 'cannot diff trees with varying branch factors' — is a refusal of a readable pair (the empty version '[]' is built with the reader's own entries_per_node)."
	explain["C17"] += " time-resolution: 'the value with the latest time wins' on the times as given — the values stored into ModEpochNanos / TombstoneSinceEpochNanos in kv/internal/crdt are the direct result of time.Time.UnixNano() (or a same-package helper that returns exactly that), another entry's field, or a constant: microsecond resolution makes two distinct times tie, and ties go to fold order."
	explain["C02"] += " time-resolution (shared with C17)."
	explain["C18"] += " always-seals: 'no plaintext key or value bytes appear in stored node objects' for every passphrase, the empty one included (the existing wrong-key test writes under V1NodeEncryptor(nil)): every return of the constructor is the *jencryptor."
	explain["C07"] += " bytes-by-content: 'then blobs bytewise': inside Key.Order no comparison has the lengths of two byte strings as its operands (a length-first order is a consistent total order, so nothing else notices)."
	explain["C06"] += " bytes-by-content (shared with C07)."
}

func c10RowPassComplete(c *Ctx) {
	const rule = "C10.row-pass-complete"
	fn := mustFunc(c, "", "", "Vacuum")
	if fn == nil {
		return
	}
	name := core.FuncName(fn)
	n := 0
	for _, f := range c.Scope(fn).Funcs {
		for _, call := range an.Calls(f) {
			if !an.CalleeIs(call, kvPkg, "Cursor", "Forward") && calleeLabel(call) != "Forward" {
				continue
			}
			H := loopHeaderOf(call.Block())
			if H == nil {
				continue
			}
			n++
			inLoop := func(b *ssa.BasicBlock) bool {
				return b == H || (H.Dominates(b) && an.ReachableFromBlock(b, H, nil))
			}
			// the end-of-cursor test: the ok component of Get()
			isEnd := func(cond ssa.Value) bool {
				cond, _ = an.StripNot(cond)
				ex, ok := cond.(*ssa.Extract)
				if !ok {
					return false
				}
				cl, ok := ex.Tuple.(*ssa.Call)
				return ok && calleeLabel(cl) == "Get"
			}
			var bad []string
			for _, b := range f.Blocks {
				if !inLoop(b) {
					continue
				}
				for i, s := range b.Succs {
					if inLoop(s) {
						continue
					}
					iff, isIf := b.Instrs[len(b.Instrs)-1].(*ssa.If)
					if isIf && isEnd(iff.Cond) {
						continue
					}
					if returnsNonNilError(s) {
						continue
					}
					_ = i
					bad = append(bad, c.P.Pos(b.Instrs[len(b.Instrs)-1].Pos()))
				}
			}
			sort.Strings(bad)
			c.R.Cond(len(bad) == 0, rule, fmt.Sprintf("%s: the row pass ends only at the end of the cursor #%d", name, n), c.P.Pos(call.Pos()),
				"the loop is left where Get() reports the end, or with an error", "the loop over the rows is also left at "+strings.Join(bad, ", ")+": rows behind that point are not examined, their delete markers are never reclaimed, and vacuum reports success")
		}
	}
	if n == 0 {
		c.R.Unk(rule, name+": row pass", c.P.Pos(fn.Pos()), "no loop that steps a cursor forward found in Vacuum")
	}
}

// freshErrorReturns lists the returns of fn whose error is not derived from any callee's error.
func freshErrorReturns(c *Ctx, fn *ssa.Function) []string {
	var out []string
	for _, b := range fn.Blocks {
		ret, ok := b.Instrs[len(b.Instrs)-1].(*ssa.Return)
		if !ok {
			continue
		}
		e := an.RetErr(ret)
		if e == nil || an.IsNilConst(e) {
			continue
		}
		derived := false
		an.DependsOn(e, func(v ssa.Value) bool {
			if !an.IsErrorType(v.Type()) {
				return false
			}
			switch x := v.(type) {
			case *ssa.Extract:
				derived = true
			case *ssa.Call:
				if f := x.Call.StaticCallee(); f != nil {
					p := an.PkgPathOf(f)
					if (p == "fmt" && f.Name() == "Errorf") || (p == "errors" && f.Name() == "New") {
						return false
					}
				}
				derived = true
			case *ssa.Parameter, *ssa.UnOp:
				derived = true // an error handed in / a sentinel or stored error
			}
			return false
		})
		if !derived {
			out = append(out, c.P.Pos(ret.Pos()))
		}
	}
	return out
}

func c12NoRefusal(c *Ctx) {
	const rule = "C12.no-refusal"
	type anchor struct{ pkg, recv, name string }
	for _, a := range []anchor{{"sqlite", "*ChangesTable", "open"}, {"sqlite", "", "loadForDiffing"}, {"kv", "*DB", "StartDiff"}, {"kv", "*DiffCursor", "NextEntry"}, {"sqlite", "*ChangesCursor", "Next"}, {"sqlite", "*ChangesCursor", "Filter"}} {
		fn := c.P.LookupFunc(a.pkg, a.recv, a.name)
		if fn == nil && a.name == "open" {
			fn = c.P.LookupFunc(a.pkg, a.recv, "Open")
		}
		if fn == nil {
			c.R.Errorf("C12.no-refusal: anchor %s.%s.%s not found", a.pkg, a.recv, a.name)
			continue
		}
		name := core.FuncName(fn)
		c.R.SawFunc(name)
		var bad []string
		for _, f := range c.Scope(fn).Funcs {
			bad = append(bad, freshErrorReturns(c, f)...)
		}
		sort.Strings(bad)
		c.R.Cond(len(bad) == 0, rule, name+": every returned error comes from a callee", c.P.Pos(fn.Pos()), "no error of its own making",
			"returns an error it made itself at "+strings.Join(bad, ", ")+": a pair of versions that can be read is refused (the query fails instead of reporting the changes)")
	}
}

func c17TimeResolution(c *Ctx) {
	const rule = "C17.time-resolution"
	isNanoCall := func(v ssa.Value) bool {
		cl, ok := v.(*ssa.Call)
		if !ok {
			return false
		}
		f := cl.Call.StaticCallee()
		return f != nil && an.PkgPathOf(f) == "time" && f.Name() == "UnixNano"
	}
	exactHelper := func(f *ssa.Function) bool {
		if f == nil || len(f.Blocks) == 0 {
			return false
		}
		n := 0
		for _, b := range f.Blocks {
			if ret, ok := b.Instrs[len(b.Instrs)-1].(*ssa.Return); ok {
				n++
				if len(ret.Results) != 1 || !isNanoCall(ret.Results[0]) {
					return false
				}
			}
		}
		return n > 0
	}
	var okVal func(v ssa.Value, d int) bool
	okVal = func(v ssa.Value, d int) bool {
		if d > 5 {
			return false
		}
		if isNanoCall(v) {
			return true
		}
		if _, isK := v.(*ssa.Const); isK {
			return true
		}
		switch x := v.(type) {
		case *ssa.Call:
			return exactHelper(x.Call.StaticCallee())
		case *ssa.Phi:
			for _, e := range x.Edges {
				if !okVal(e, d+1) {
					return false
				}
			}
			return true
		case *ssa.UnOp:
			if x.Op == token.MUL {
				if fv := an.FieldOfLoad(x); fv != nil && strings.HasSuffix(fv.Name(), "EpochNanos") {
					return true
				}
				if al, ok := x.X.(*ssa.Alloc); ok {
					for _, r := range *al.Referrers() {
						if st, ok := r.(*ssa.Store); ok && st.Addr == ssa.Value(al) && !okVal(st.Val, d+1) {
							return false
						}
					}
					return true
				}
			}
		case *ssa.Field:
			fv := an.FieldVar(x.X.Type(), x.Field)
			return fv != nil && strings.HasSuffix(fv.Name(), "EpochNanos")
		case *ssa.Parameter:
			return true // handed in by a caller that is judged itself
		}
		return false
	}
	n := 0
	var bad []string
	for _, fn := range c.P.RepoFuncs(func(rel string) bool { return rel == "kv/internal/crdt" || rel == "kv/crdt" }) {
		for _, b := range fn.Blocks {
			for _, in := range b.Instrs {
				st, ok := in.(*ssa.Store)
				if !ok {
					continue
				}
				fa, ok := st.Addr.(*ssa.FieldAddr)
				if !ok {
					continue
				}
				fv := an.FieldVar(fa.X.Type(), fa.Field)
				if fv == nil || (fv.Name() != "ModEpochNanos" && fv.Name() != "TombstoneSinceEpochNanos") {
					continue
				}
				n++
				if !okVal(st.Val, 0) {
					bad = append(bad, fmt.Sprintf("%s at %s (%s)", core.FuncName(fn), c.P.Pos(st.Pos()), fv.Name()))
				}
			}
		}
	}
	sort.Strings(bad)
	if n < 2 {
		c.R.Errorf("C17.time-resolution: only %d stores of entry times found", n)
	}
	c.R.Cond(len(bad) == 0, rule, "entry times are UnixNano() as it is", "-", fmt.Sprintf("%d stores of ModEpochNanos / TombstoneSinceEpochNanos", n),
		"an entry time is stored as something else than when.UnixNano() in "+strings.Join(bad, "; ")+": at a coarser resolution two distinct times compare equal, a back-dated write overwrites the later one, the winner of a merge depends on fold order, and a tombstone is purged by a cutoff that lies before it")
}

func c18AlwaysSeals(c *Ctx) {
	const rule = "C18.always-seals"
	ctor := mustFunc(c, "kv", "", "V1NodeEncryptor")
	if ctor == nil {
		return
	}
	name := core.FuncName(ctor)
	n := 0
	var bad []string
	for _, b := range ctor.Blocks {
		ret, ok := b.Instrs[len(b.Instrs)-1].(*ssa.Return)
		if !ok || len(ret.Results) != 1 {
			continue
		}
		n++
		var check func(v ssa.Value, d int) bool
		check = func(v ssa.Value, d int) bool {
			if d > 4 {
				return false
			}
			switch x := v.(type) {
			case *ssa.MakeInterface:
				if p, ok := x.X.Type().(*types.Pointer); ok {
					if nt := an.NamedOf(p.Elem()); nt != nil && nt.Obj().Name() == "jencryptor" {
						return true
					}
				}
				return false
			case *ssa.Phi:
				for _, e := range x.Edges {
					if !check(e, d+1) {
						return false
					}
				}
				return true
			}
			return false
		}
		if !check(ret.Results[0], 0) {
			bad = append(bad, c.P.Pos(ret.Pos()))
		}
	}
	c.R.Cond(n > 0 && len(bad) == 0, rule, name+": every passphrase gets the sealing encryptor", c.P.Pos(ctor.Pos()), fmt.Sprintf("%d return(s), each a *jencryptor", n),
		"the constructor returns something else than the *jencryptor at "+strings.Join(bad, ", ")+": for that passphrase (e.g. the empty one) node objects are stored in plaintext, and data sealed earlier under it no longer opens")
}

func c07BytesByContent(c *Ctx) {
	const rule = "C07.bytes-by-content"
	order := mustFunc(c, "", "*Key", "Order")
	if order == nil {
		return
	}
	isLenOfBytes := func(v ssa.Value) bool {
		cl, ok := v.(*ssa.Call)
		if !ok {
			return false
		}
		bi, ok := cl.Call.Value.(*ssa.Builtin)
		if !ok || bi.Name() != "len" {
			return false
		}
		switch t := cl.Call.Args[0].Type().Underlying().(type) {
		case *types.Slice:
			b, ok := t.Elem().Underlying().(*types.Basic)
			return ok && b.Kind() == types.Byte
		case *types.Basic:
			return t.Kind() == types.String
		}
		return false
	}
	var bad []string
	nf := 0
	seen := map[*ssa.Function]bool{}
	work := append([]*ssa.Function{}, c.Scope(order).Funcs...)
	for len(work) > 0 {
		f := work[len(work)-1]
		work = work[:len(work)-1]
		if seen[f] || len(seen) > 12 {
			continue
		}
		seen[f] = true
		nf++
		for _, b := range f.Blocks {
			for _, in := range b.Instrs {
				if bo, ok := in.(*ssa.BinOp); ok && isLenOfBytes(bo.X) && isLenOfBytes(bo.Y) {
					bad = append(bad, core.FuncName(f)+" at "+c.P.Pos(bo.Pos()))
				}
				if call, ok := in.(ssa.CallInstruction); ok {
					if cal := call.Common().StaticCallee(); cal != nil && an.PkgPathOf(cal) == core.ModPath && len(cal.Blocks) > 0 && strings.HasPrefix(cal.Name(), "compare") {
						work = append(work, cal)
					}
				}
			}
		}
	}
	sort.Strings(bad)
	c.R.Cond(len(bad) == 0, rule, core.FuncName(order)+": no comparison of two lengths", c.P.Pos(order.Pos()), fmt.Sprintf("%d function(s) of the comparison, none compares len() with len()", nf),
		"the lengths of two byte strings are compared with each other in "+strings.Join(bad, "; ")+": BLOBs (or TEXT) of different lengths are ordered by length, not bytewise — x'02' sorts before x'0100', range queries and ORDER BY disagree with SQLite")
}

// ---- C20.notnull-by-number / C20.unquote-whole ----------------------------------------------------------

func init() {
	register(&Rule{Name: "C20.notnull-by-number", Min: 1, Run: c20NotNullByNumber,
		Doc: "the NOT NULL flag consulted for SQLite column number i is that of schema column i minus the hidden rowid column"})
	register(&Rule{Name: "C20.unquote-whole", Min: 1, Run: c20UnquoteWhole,
		Doc: "UnquoteAll returns an unquoted value only when the literals it parsed are the whole argument"})
	byProp["C20"] = append(byProp["C20"], "C20.notnull-by-number", "C20.unquote-whole")
	explain["C20"] += " notnull-by-number: SQLite numbers the columns of the declared table, which for a table without PRIMARY KEY starts with the hidden _rowid_; the table's name maps are indexed by schema position (off by one for such tables, consistently for storing and reading). 'NOT NULL behaviour matches the specification' therefore needs the flag to be looked up by number with the rowid offset taken off: the index into schema.Columns whose NotNull is read depends on a subtraction of the constant 1 (the usesRowID adjustment), not on a lookup through the name maps. unquote-whole: 'malformed arguments … are rejected' — text behind the closing quote of a value (columns='a primary key'x, … unique, … default 0) must make the argument fall through unchanged to the parsers that reject it; every return of UnquoteAll that is not the argument itself lies behind the 'nothing remains' test of the parser."
}

func c20NotNullByNumber(c *Ctx) {
	const rule = "C20.notnull-by-number"
	n := 0
	good := true
	why := ""
	for _, fn := range c.P.RepoFuncs(func(rel string) bool { return rel == "" }) {
		for _, b := range fn.Blocks {
			for _, in := range b.Instrs {
				fa, ok := in.(*ssa.FieldAddr)
				if !ok {
					continue
				}
				fv := an.FieldVar(fa.X.Type(), fa.Field)
				if fv == nil || fv.Name() != "NotNull" {
					continue
				}
				ia, ok := fa.X.(*ssa.IndexAddr)
				if !ok {
					continue
				}
				// only reads that decide a constraint error (not the declaration loop, which ranges over the schema)
				if ex, isEx := an.Unwrap(ia.Index).(*ssa.Extract); isEx {
					if _, isNext := ex.Tuple.(*ssa.Next); isNext {
						continue
					}
				}
				if ph, isPhi := ia.Index.(*ssa.Phi); isPhi && ph.Comment == "rangeindex" {
					continue
				}
				n++
				adjusted := an.DependsOn(ia.Index, func(v ssa.Value) bool {
					bo, ok := v.(*ssa.BinOp)
					if !ok || bo.Op != token.SUB {
						return false
					}
					k, isK := constInt(bo.Y)
					return isK && k == 1
				})
				if !adjusted {
					good = false
					why = "the NotNull flag read at " + c.P.Pos(fa.Pos()) + " in " + core.FuncName(fn) + " is indexed by a value that never has the hidden rowid column taken off (e.g. looked up by name through the table's maps, which are shifted by one for tables without PRIMARY KEY): NOT NULL of column n is enforced on column n-1"
				}
			}
		}
	}
	if n == 0 {
		c.R.Unk(rule, "NOT NULL is looked up by SQLite's column number", "-", "no read of a schema column's NotNull outside the declaration loop found")
		return
	}
	c.R.Cond(good, rule, "NOT NULL is looked up by SQLite's column number", "-", fmt.Sprintf("%d read(s) of NotNull, each indexed by the column number minus the rowid offset", n), why)
}

func c20UnquoteWhole(c *Ctx) {
	const rule = "C20.unquote-whole"
	fn := mustFunc(c, "internal", "", "UnquoteAll")
	if fn == nil {
		return
	}
	name := core.FuncName(fn)
	if len(fn.Params) != 1 {
		c.R.Unk(rule, name+": shape", c.P.Pos(fn.Pos()), "expected UnquoteAll(s string)")
		return
	}
	arg := fn.Params[0]
	h := an.THooks{Branch: func(iff *ssa.If, side bool, st an.TState) an.TState {
		cond, neg := an.StripNot(iff.Cond)
		bo, ok := cond.(*ssa.BinOp)
		if !ok || (bo.Op != token.EQL && bo.Op != token.NEQ) {
			return st
		}
		k, isK := constInt(bo.Y)
		cl, isCall := bo.X.(*ssa.Call)
		if !isK || k != 0 || !isCall {
			return st
		}
		bi, isB := cl.Call.Value.(*ssa.Builtin)
		if !isB || bi.Name() != "len" {
			return st
		}
		if fv := an.FieldOfLoad(cl.Call.Args[0]); fv == nil || fv.Name() != "Remaining" {
			return st
		}
		empty := (bo.Op == token.EQL) == (side != neg)
		if empty {
			return ansState(true)
		}
		return st
	}}
	good, n := true, 0
	why := ""
	for _, ex := range an.WalkTypestate(fn, ansState(false), h, c.Scope(fn)) {
		if len(ex.Ret.Results) != 1 {
			continue
		}
		r := an.Unwrap(ex.Ret.Results[0])
		if r == ssa.Value(arg) {
			continue // the argument as it came
		}
		if k, isK := r.(*ssa.Const); isK && k.Value != nil {
			continue // the empty string for the empty argument
		}
		n++
		if !bool(ex.St.(ansState)) {
			good = false
			why = "UnquoteAll can return an unquoted value at " + c.P.Pos(ex.Ret.Pos()) + " without having seen that nothing remains behind the literals it parsed: columns='id primary key, name' unique (or …'x) is accepted with the tail silently dropped"
		}
	}
	if n == 0 {
		c.R.Unk(rule, name+": the whole argument is a literal", c.P.Pos(fn.Pos()), "no return of an unquoted value found")
		return
	}
	c.R.Cond(good, rule, name+": the whole argument is a literal", c.P.Pos(fn.Pos()), fmt.Sprintf("%d returning path(s) of an unquoted value, each behind len(Remaining) == 0", n), why)
}

// ---- C05.rollback-always / C10.filter-vacuums / C19.config-per-open / C19.time-per-connection ------------

func init() {
	register(&Rule{Name: "C05.rollback-always", Min: 1, Run: c05RollbackAlways,
		Doc: "the sqlite layer's xRollback reaches the common layer's Rollback on every path, whatever the connection's write-time flag says"})
	register(&Rule{Name: "C10.filter-vacuums", Min: 1, Run: c10FilterVacuums,
		Doc: "every successful scan of s3db_vacuum has run the vacuum: no answer from memory"})
	register(&Rule{Name: "C19.config-per-open", Min: 1, Run: c19ConfigPerOpen,
		Doc: "the storage description handed to kv.Open is allocated by the call that opens: no package-level template is written through"})
	register(&Rule{Name: "C19.time-per-connection", Min: 1, Run: c19TimePerConnection,
		Doc: "the write time a connection fixes for a transaction is the clock's: it does not depend on package-level state that other connections write"})
	byProp["C05"] = append(byProp["C05"], "C05.rollback-always")
	byProp["C10"] = append(byProp["C10"], "C10.filter-vacuums")
	byProp["C19"] = append(byProp["C19"], "C19.config-per-open", "C19.time-per-connection")
	byProp["C15"] = append(byProp["C15"], "C19.time-per-connection")
	explain["C05"] += " rollback-always: txFixedWriteTime means 'xBegin chose the write time', not 'a transaction is open' — it is false when the connection set write_time itself and after the first of several tables of a transaction released it; every return of (*sqlite.VirtualTable).Rollback follows the call of the common layer's Rollback."
	explain["C10"] += " filter-vacuums: a later vacuum with the same cutoff is not a repetition (a back-dated delete, another writer's delete brought in by refresh, a version superseded since): every possibly successful return of VacuumCursor.Filter follows the call of s3db.Vacuum."
	explain["C19"] += " config-per-open: the kv.S3BucketInfo whose address goes into the Config of kv.Open is allocated inside OpenKV; a package-level Config template copied by value shares its Storage pointer, so two connections opening at once write each other's prefix (cross-talk and a data race). time-per-connection: the value stored as the transaction's fixed write time derives from time.Now() alone — not from a package-level 'latest time' that any connection raises (one connection's future write_time would stamp every other connection's later transactions)."
	explain["C15"] += " time-per-connection (shared with C19): 'write_time … affect only its own statements'."
}

func c05RollbackAlways(c *Ctx) {
	const rule = "C05.rollback-always"
	fn := mustFunc(c, "sqlite", "*VirtualTable", "Rollback")
	common := mustFunc(c, "", "*VirtualTable", "Rollback")
	if fn == nil || common == nil {
		return
	}
	pred := func(in ssa.Instruction) bool {
		cl, ok := in.(ssa.CallInstruction)
		return ok && cl.Common().StaticCallee() == common
	}
	h := an.THooks{Instr: func(in ssa.Instruction, st an.TState) an.TState {
		if pred(in) || callsOneThatAlwaysDoes(c, in, pred, 0) {
			return ansState(true)
		}
		return st
	}}
	good := true
	why := ""
	for _, ex := range an.WalkTypestate(fn, ansState(false), h, c.Scope(fn)) {
		if !bool(ex.St.(ansState)) {
			good = false
			why = "xRollback can return at " + c.P.Pos(ex.Ret.Pos()) + " without having called the common layer's Rollback (e.g. behind 'the write time was not fixed by xBegin'): with an explicit write_time, or for the second table of a transaction, the rolled-back rows stay visible and the table refuses the next write"
		}
	}
	c.R.Cond(good, rule, core.FuncName(fn)+": the snapshot is restored on every path", c.P.Pos(fn.Pos()), "every return follows the common layer's Rollback", why)
}

func c10FilterVacuums(c *Ctx) {
	const rule = "C10.filter-vacuums"
	fn := mustFunc(c, "sqlite", "*VacuumCursor", "Filter")
	vac := mustFunc(c, "", "", "Vacuum")
	if fn == nil || vac == nil {
		return
	}
	h := an.THooks{Instr: func(in ssa.Instruction, st an.TState) an.TState {
		if cl, ok := in.(ssa.CallInstruction); ok && cl.Common().StaticCallee() == vac {
			return ansState(true)
		}
		return st
	}}
	good := true
	why := ""
	for _, ex := range an.WalkTypestate(fn, ansState(false), h, c.Scope(fn)) {
		if ex.ErrNil != 0 && !bool(ex.St.(ansState)) {
			good = false
			why = "Filter can succeed at " + c.P.Pos(ex.Ret.Pos()) + " without having called s3db.Vacuum (a remembered earlier run with the same table and cutoff?): deletes that arrived since, and versions superseded since, are not reclaimed while vacuum_error is NULL"
		}
	}
	c.R.Cond(good, rule, core.FuncName(fn)+": a successful scan has vacuumed", c.P.Pos(fn.Pos()), "every successful return follows s3db.Vacuum", why)
}

func c19ConfigPerOpen(c *Ctx) {
	const rule = "C19.config-per-open"
	fn := mustFunc(c, "", "", "OpenKV")
	storageF := mustField(c, "kv", "Config", "Storage")
	if fn == nil || storageF == nil {
		return
	}
	name := core.FuncName(fn)
	n := 0
	good := true
	why := ""
	var fresh func(v ssa.Value, d int) (bool, string)
	fresh = func(v ssa.Value, d int) (bool, string) {
		if d > 5 {
			return false, "derivation too deep"
		}
		switch x := v.(type) {
		case *ssa.Alloc:
			return true, ""
		case *ssa.Phi:
			for _, e := range x.Edges {
				if ok, w := fresh(e, d+1); !ok {
					return false, w
				}
			}
			return true, ""
		case *ssa.UnOp:
			if x.Op == token.MUL {
				if g := globalBehind(x.X); g != nil {
					return false, "loaded from package variable " + g.Name()
				}
				if al, ok := x.X.(*ssa.Alloc); ok {
					for _, r := range *al.Referrers() {
						if st, ok := r.(*ssa.Store); ok && st.Addr == ssa.Value(al) {
							if ok, w := fresh(st.Val, d+1); !ok {
								return false, w
							}
						}
					}
					return true, ""
				}
				if fa, ok := x.X.(*ssa.FieldAddr); ok {
					// a field of a local struct: what was stored into the struct
					if al, ok := fa.X.(*ssa.Alloc); ok {
						okAll := true
						w := ""
						for _, r := range *al.Referrers() {
							switch y := r.(type) {
							case *ssa.Store:
								if y.Addr == ssa.Value(al) { // whole-struct store
									if ld, isLd := y.Val.(*ssa.UnOp); isLd && globalBehind(ld.X) != nil {
										okAll, w = false, "copied from package variable "+globalBehind(ld.X).Name()+" (the pointer inside is shared)"
									}
								}
							case *ssa.FieldAddr:
								if y.Field == fa.Field {
									for _, rr := range *y.Referrers() {
										if st, ok := rr.(*ssa.Store); ok && st.Addr == ssa.Value(y) {
											if ok2, w2 := fresh(st.Val, d+1); !ok2 {
												okAll, w = false, w2
											}
										}
									}
								}
							}
						}
						return okAll, w
					}
				}
			}
		}
		return false, "of unrecognised origin: " + v.String()
	}
	// every write through Config.Storage in OpenKV's scope, and the value stored as Storage
	for _, f := range c.Scope(fn).Funcs {
		for _, b := range f.Blocks {
			for _, in := range b.Instrs {
				switch x := in.(type) {
				case *ssa.Store:
					fa, ok := x.Addr.(*ssa.FieldAddr)
					if !ok {
						continue
					}
					if an.FieldVar(fa.X.Type(), fa.Field) == storageF {
						n++
						if ok, w := fresh(x.Val, 0); !ok {
							good, why = false, "the Storage pointer put into the Config at "+c.P.Pos(x.Pos())+" is "+w
						}
						continue
					}
					// a store into a field of *Storage
					if ld, isLd := fa.X.(*ssa.UnOp); isLd && an.FieldOfLoad(ld) == storageF {
						n++
						if ok, w := fresh(ld, 0); !ok {
							good, why = false, "the S3BucketInfo written at "+c.P.Pos(x.Pos())+" is "+w+": every open, refresh and changes query of the process writes its prefix, endpoint and bucket into the same object — between writing and kv.Open reading lies a lock wait or a session creation, so a table is opened on another connection's prefix"
						}
					}
				}
			}
		}
	}
	if n == 0 {
		c.R.Unk(rule, name+": storage description", c.P.Pos(fn.Pos()), "no assignment of Config.Storage found in OpenKV")
		return
	}
	c.R.Cond(good, rule, name+": the storage description belongs to this open", c.P.Pos(fn.Pos()), fmt.Sprintf("%d assignment(s), each to/of an object allocated by this call", n), why)
}

func globalBehind(v ssa.Value) *ssa.Global {
	for i := 0; i < 4; i++ {
		switch x := v.(type) {
		case *ssa.Global:
			return x
		case *ssa.FieldAddr:
			v = x.X
		case *ssa.IndexAddr:
			v = x.X
		default:
			return nil
		}
	}
	return nil
}

func c19TimePerConnection(c *Ctx) {
	const rule = "C19.time-per-connection"
	begin := mustFunc(c, "sqlite", "*VirtualTable", "Begin")
	wtF := mustField(c, "sqlite", "S3DBConn", "writeTime")
	if begin == nil || wtF == nil {
		return
	}
	n := 0
	good := true
	why := ""
	for _, f := range c.Scope(begin).Funcs {
		for _, st := range an.StoresToField(f, wtF) {
			if an.IsZeroValue(st.Val) {
				continue // released
			}
			n++
			an.DependsOn(st.Val, func(v ssa.Value) bool {
				if ld, ok := v.(*ssa.UnOp); ok && ld.Op == token.MUL {
					if g := globalBehind(ld.X); g != nil && g.Pkg != nil && strings.HasPrefix(g.Pkg.Pkg.Path(), core.ModPath) {
						good = false
						why = "the write time fixed at " + c.P.Pos(st.Pos()) + " depends on the package variable " + g.Name() + ", which every connection of the process writes: after one connection wrote under a future write_time, the clock-stamped transactions of all other connections carry that future time and beat every real-time update until then"
					}
				}
				return false
			})
		}
	}
	if n == 0 {
		c.R.Unk(rule, core.FuncName(begin)+": fixed write time", c.P.Pos(begin.Pos()), "xBegin stores no write time")
		return
	}
	c.R.Cond(good, rule, core.FuncName(begin)+": the fixed write time is the clock's", c.P.Pos(begin.Pos()), fmt.Sprintf("%d store(s), none depending on package-level state of the library", n), why)
}

// ---- C06.key-change-seen: an UPDATE that assigns another key is not taken for one that keeps it ----------

func init() {
	register(&Rule{Name: "C06.key-change-seen", Min: 1, Run: c06KeyChangeSeen,
		Doc: "the sqlite layer's Update reaches the common layer's Update only after it compared the old key with the assigned one itself"})
	byProp["C06"] = append(byProp["C06"], "C06.key-change-seen")
	byProp["C08"] = append(byProp["C08"], "C06.key-change-seen")
	explain["C06"] += " key-change-seen: the pinned binding decides 'same key -> Update, else Replace' with v0.Int() == v1.Int() (32 bits, and across storage classes): 1 and 4294967297, 1 and 1.5, 1 and '1' count as the same key, and the common Update ignores the key among the values — the statement kept the old key, changed the other columns and reported success. Every path to the common layer's Update passes the 'same' side of s3db.SameKey(old, new) or the 'key not assigned' side of the lookup of the key column among the given values."
	explain["C08"] += " key-change-seen (shared with C06): a key written by UPDATE is stored or the statement fails."
}

func c06KeyChangeSeen(c *Ctx) {
	const rule = "C06.key-change-seen"
	fn := mustFunc(c, "sqlite", "*VirtualTable", "Update")
	common := mustFunc(c, "", "*VirtualTable", "Update")
	same := c.P.LookupFunc("", "", "SameKey")
	if fn == nil || common == nil {
		return
	}
	name := core.FuncName(fn)
	if same == nil {
		c.R.Bad(rule, name+": the keys are compared before the new one is ignored", c.P.Pos(fn.Pos()), "there is no s3db.SameKey: nothing compares the old key with the assigned one; the binding's 32-bit, cross-class comparison alone decides that an UPDATE keeps its key")
		return
	}
	bad := ""
	h := an.THooks{}
	h.Branch = func(iff *ssa.If, side bool, st an.TState) an.TState {
		cond, neg := an.StripNot(iff.Cond)
		if cl, ok := cond.(*ssa.Call); ok && cl.Call.StaticCallee() == same && side != neg {
			return ansState(true)
		}
		// "assigned" of a map lookup of the values: on its false side there is no new key
		if ex, ok := cond.(*ssa.Extract); ok && ex.Index == 1 {
			if lk, isLk := ex.Tuple.(*ssa.Lookup); isLk && lk.CommaOk && side == neg {
				return ansState(true)
			}
		}
		return st
	}
	h.Instr = func(in ssa.Instruction, st an.TState) an.TState {
		if cl, ok := in.(ssa.CallInstruction); ok && cl.Common().StaticCallee() == common && !bool(st.(ansState)) {
			bad = c.P.Pos(cl.Pos())
		}
		return st
	}
	an.WalkTypestate(fn, ansState(false), h, c.Scope(fn))
	c.R.Cond(bad == "", rule, name+": the keys are compared before the new one is ignored", c.P.Pos(fn.Pos()), "the common Update is reached only with the same key, or without an assigned key",
		"the common layer's Update at "+bad+" can be reached without the old and the assigned key having been compared: 'update t set a=4294967297 where a=1' (or a=1.5, a='1') keeps the key 1, changes the other columns and reports success")
}

// ---- C15.reads-back-exactly: what s3db_conn shows is what was set ---------------------------------------

func init() {
	register(&Rule{Name: "C15.reads-back-exactly", Min: 1, Run: c15ReadsBackExactly,
		Doc: "the layout ConnCursor.Column formats the attributes with keeps the fraction of a second"})
	byProp["C15"] = append(byProp["C15"], "C15.reads-back-exactly")
	explain["C15"] += " reads-back-exactly: 'write_time and deadline … are readable back from s3db_conn' — ConnModule.Update stores the parsed time as given (time-as-given), fraction included, so the layout of every Format call in ConnCursor.Column has a fractional-seconds part behind the seconds."
}

func c15ReadsBackExactly(c *Ctx) {
	const rule = "C15.reads-back-exactly"
	fn := mustFunc(c, "sqlite", "*ConnCursor", "Column")
	if fn == nil {
		return
	}
	n := 0
	var bad []string
	// Column, the helpers split out of it, and same-package functions it calls (one level)
	fns := append([]*ssa.Function{}, c.Scope(fn).Funcs...)
	for _, call := range an.Calls(fn) {
		if g := call.Common().StaticCallee(); g != nil && g.Pkg == fn.Pkg && len(g.Blocks) > 0 {
			fns = append(fns, g)
		}
	}
	seenFn := map[*ssa.Function]bool{}
	for _, f := range fns {
		if seenFn[f] {
			continue
		}
		seenFn[f] = true
		for _, call := range an.Calls(f) {
			g := call.Common().StaticCallee()
			if g == nil || an.PkgPathOf(g) != "time" || g.Name() != "Format" || len(call.Common().Args) != 2 {
				continue
			}
			n++
			k, ok := call.Common().Args[1].(*ssa.Const)
			if !ok || k.Value == nil {
				bad = append(bad, c.P.Pos(call.Pos())+" (layout is not a constant)")
				continue
			}
			lay := k.Value.ExactString()
			if !strings.Contains(lay, "05.9") && !strings.Contains(lay, "05.0") && !strings.Contains(lay, "05,9") && !strings.Contains(lay, "05,0") {
				bad = append(bad, c.P.Pos(call.Pos())+" (layout "+lay+")")
			}
		}
	}
	sort.Strings(bad)
	if n == 0 {
		c.R.Unk(rule, core.FuncName(fn)+": attributes are shown with their fraction", c.P.Pos(fn.Pos()), "no Format call found")
		return
	}
	c.R.Cond(len(bad) == 0, rule, core.FuncName(fn)+": attributes are shown with their fraction", c.P.Pos(fn.Pos()), fmt.Sprintf("%d Format call(s), each with fractional seconds in its layout", n),
		"an attribute is formatted without the fraction of a second at "+strings.Join(bad, "; ")+": write_time='… 00:00:00.25' is applied exactly and reads back as '… 00:00:00'")
}
