package rules

import (
	"fmt"
	"go/token"
	"go/types"
	"sort"
	"strings"

	"golang.org/x/tools/go/ssa"

	"s3dbcheck/an"
	"s3dbcheck/core"
)

// Rules written for round-5 seeded changes that no existing rule reported.

func init() {
	register(&Rule{Name: "C10.row-pass-complete", Min: 1, Run: c10RowPassComplete,
		Doc: "vacuum's pass over the rows leaves its loop only at the end of the cursor or with an error"})
	register(&Rule{Name: "C12.no-refusal", Min: 4, Run: c12NoRefusal,
		Doc: "on the path of a changes query every error that is returned comes from a callee: no function refuses a pair of versions on grounds of its own"})
	register(&Rule{Name: "C17.time-resolution", Min: 1, Run: c17TimeResolution,
		Doc: "the times stored in an entry are when.UnixNano() as it is: no coarser unit, no arithmetic"})
	register(&Rule{Name: "C18.always-seals", Min: 1, Run: c18AlwaysSeals,
		Doc: "the encryptor's constructor returns the sealing encryptor on every path, whatever the passphrase"})
	register(&Rule{Name: "C07.bytes-by-content", Min: 1, Run: c07BytesByContent,
		Doc: "no comparison of two lengths takes part in Key.Order: BLOB and TEXT order is bytewise, a shorter value is not smaller"})
	byProp["C10"] = append(byProp["C10"], "C10.row-pass-complete")
	byProp["C12"] = append(byProp["C12"], "C12.no-refusal")
	byProp["C17"] = append(byProp["C17"], "C17.time-resolution")
	byProp["C02"] = append(byProp["C02"], "C17.time-resolution")
	byProp["C18"] = append(byProp["C18"], "C18.always-seals", "C14.errors")
	byProp["C16"] = append(byProp["C16"], "C14.errors")
	explain["C18"] += " errors (shared with C14): the verdict of Decrypt on a damaged node reaches the caller of a point lookup only if no layer above the encryptor drops it; E3 now also reports a return that reports success on a path from the call that passes no test of the error."
	explain["C16"] += " errors (shared with C14): a fault while vacuum works out what must stay is not the 'fewer deletions' direction."
	byProp["C07"] = append(byProp["C07"], "C07.bytes-by-content")
	byProp["C06"] = append(byProp["C06"], "C07.bytes-by-content")
	explain["C10"] += " row-pass-complete: 'reclaims every row deleted before the cutoff' — the loop over the cursor in Vacuum is left only where Get() reports the end or an error is returned; a 'nothing beyond here can qualify' shortcut (e.g. by the time embedded in generated row ids, which wraps for times before 2014) leaves markers behind while vacuum reports success."
	explain["C12"] += " no-refusal: 'for any two versions A and B … never makes the query fail' unless a version cannot be read: in ChangesTable.open, loadForDiffing, (*kv.DB).StartDiff, DiffCursor.NextEntry and ChangesCursor.Next/Filter every non-nil error that is returned is derived from the error of a call (propagated or wrapped); a freshly made error — 'cannot diff trees with varying branch factors' — is a refusal of a readable pair (the empty version '[]' is built with the reader's own entries_per_node)."
	explain["C17"] += " time-resolution: 'the value with the latest time wins' on the times as given — the values stored into ModEpochNanos / TombstoneSinceEpochNanos in kv/internal/crdt are the direct result of time.Time.UnixNano() (or a same-package helper that returns exactly that), another entry's field, or a constant: microsecond resolution makes two distinct times tie, and ties go to fold order."
	explain["C02"] += " time-resolution (shared with C17)."
	explain["C18"] += " always-seals: 'no plaintext key or value bytes appear in stored node objects' for every passphrase, the empty one included (the existing wrong-key test writes under V1NodeEncryptor(nil)): every return of the constructor is the *jencryptor."
	explain["C07"] += " bytes-by-content: 'then blobs bytewise': inside Key.Order no comparison has the lengths of two byte strings as its operands (a length-first order is a consistent total order, so nothing else notices)."
	explain["C06"] += " bytes-by-content (shared with C07)."
}

func c10RowPassComplete(c *Ctx) {
	const rule = "C10.row-pass-complete"
	fn := mustFunc(c, "", "", "Vacuum")
	if fn == nil {
		return
	}
	name := core.FuncName(fn)
	n := 0
	for _, f := range c.Scope(fn).Funcs {
		for _, call := range an.Calls(f) {
			if !an.CalleeIs(call, kvPkg, "Cursor", "Forward") && calleeLabel(call) != "Forward" {
				continue
			}
			H := loopHeaderOf(call.Block())
			if H == nil {
				continue
			}
			n++
			inLoop := func(b *ssa.BasicBlock) bool {
				return b == H || (H.Dominates(b) && an.ReachableFromBlock(b, H, nil))
			}
			// the end-of-cursor test: the ok component of Get()
			isEnd := func(cond ssa.Value) bool {
				cond, _ = an.StripNot(cond)
				ex, ok := cond.(*ssa.Extract)
				if !ok {
					return false
				}
				cl, ok := ex.Tuple.(*ssa.Call)
				return ok && calleeLabel(cl) == "Get"
			}
			var bad []string
			for _, b := range f.Blocks {
				if !inLoop(b) {
					continue
				}
				for i, s := range b.Succs {
					if inLoop(s) {
						continue
					}
					iff, isIf := b.Instrs[len(b.Instrs)-1].(*ssa.If)
					if isIf && isEnd(iff.Cond) {
						continue
					}
					if returnsNonNilError(s) {
						continue
					}
					_ = i
					bad = append(bad, c.P.Pos(b.Instrs[len(b.Instrs)-1].Pos()))
				}
			}
			sort.Strings(bad)
			c.R.Cond(len(bad) == 0, rule, fmt.Sprintf("%s: the row pass ends only at the end of the cursor #%d", name, n), c.P.Pos(call.Pos()),
				"the loop is left where Get() reports the end, or with an error", "the loop over the rows is also left at "+strings.Join(bad, ", ")+": rows behind that point are not examined, their delete markers are never reclaimed, and vacuum reports success")
		}
	}
	if n == 0 {
		c.R.Unk(rule, name+": row pass", c.P.Pos(fn.Pos()), "no loop that steps a cursor forward found in Vacuum")
	}
}

// freshErrorReturns lists the returns of fn whose error is not derived from any callee's error.
func freshErrorReturns(c *Ctx, fn *ssa.Function) []string {
	var out []string
	for _, b := range fn.Blocks {
		ret, ok := b.Instrs[len(b.Instrs)-1].(*ssa.Return)
		if !ok {
			continue
		}
		e := an.RetErr(ret)
		if e == nil || an.IsNilConst(e) {
			continue
		}
		derived := false
		an.DependsOn(e, func(v ssa.Value) bool {
			if !an.IsErrorType(v.Type()) {
				return false
			}
			switch x := v.(type) {
			case *ssa.Extract:
				derived = true
			case *ssa.Call:
				if f := x.Call.StaticCallee(); f != nil {
					p := an.PkgPathOf(f)
					if (p == "fmt" && f.Name() == "Errorf") || (p == "errors" && f.Name() == "New") {
						return false
					}
				}
				derived = true
			case *ssa.Parameter, *ssa.UnOp:
				derived = true // an error handed in / a sentinel or stored error
			}
			return false
		})
		if !derived {
			out = append(out, c.P.Pos(ret.Pos()))
		}
	}
	return out
}

func c12NoRefusal(c *Ctx) {
	const rule = "C12.no-refusal"
	type anchor struct{ pkg, recv, name string }
	for _, a := range []anchor{{"sqlite", "*ChangesTable", "open"}, {"sqlite", "", "loadForDiffing"}, {"kv", "*DB", "StartDiff"}, {"kv", "*DiffCursor", "NextEntry"}, {"sqlite", "*ChangesCursor", "Next"}, {"sqlite", "*ChangesCursor", "Filter"}} {
		fn := c.P.LookupFunc(a.pkg, a.recv, a.name)
		if fn == nil && a.name == "open" {
			fn = c.P.LookupFunc(a.pkg, a.recv, "Open")
		}
		if fn == nil {
			c.R.Errorf("C12.no-refusal: anchor %s.%s.%s not found", a.pkg, a.recv, a.name)
			continue
		}
		name := core.FuncName(fn)
		c.R.SawFunc(name)
		var bad []string
		for _, f := range c.Scope(fn).Funcs {
			bad = append(bad, freshErrorReturns(c, f)...)
		}
		sort.Strings(bad)
		c.R.Cond(len(bad) == 0, rule, name+": every returned error comes from a callee", c.P.Pos(fn.Pos()), "no error of its own making",
			"returns an error it made itself at "+strings.Join(bad, ", ")+": a pair of versions that can be read is refused (the query fails instead of reporting the changes)")
	}
}

func c17TimeResolution(c *Ctx) {
	const rule = "C17.time-resolution"
	isNanoCall := func(v ssa.Value) bool {
		cl, ok := v.(*ssa.Call)
		if !ok {
			return false
		}
		f := cl.Call.StaticCallee()
		return f != nil && an.PkgPathOf(f) == "time" && f.Name() == "UnixNano"
	}
	exactHelper := func(f *ssa.Function) bool {
		if f == nil || len(f.Blocks) == 0 {
			return false
		}
		n := 0
		for _, b := range f.Blocks {
			if ret, ok := b.Instrs[len(b.Instrs)-1].(*ssa.Return); ok {
				n++
				if len(ret.Results) != 1 || !isNanoCall(ret.Results[0]) {
					return false
				}
			}
		}
		return n > 0
	}
	var okVal func(v ssa.Value, d int) bool
	okVal = func(v ssa.Value, d int) bool {
		if d > 5 {
			return false
		}
		if isNanoCall(v) {
			return true
		}
		if _, isK := v.(*ssa.Const); isK {
			return true
		}
		switch x := v.(type) {
		case *ssa.Call:
			return exactHelper(x.Call.StaticCallee())
		case *ssa.Phi:
			for _, e := range x.Edges {
				if !okVal(e, d+1) {
					return false
				}
			}
			return true
		case *ssa.UnOp:
			if x.Op == token.MUL {
				if fv := an.FieldOfLoad(x); fv != nil && strings.HasSuffix(fv.Name(), "EpochNanos") {
					return true
				}
				if al, ok := x.X.(*ssa.Alloc); ok {
					for _, r := range *al.Referrers() {
						if st, ok := r.(*ssa.Store); ok && st.Addr == ssa.Value(al) && !okVal(st.Val, d+1) {
							return false
						}
					}
					return true
				}
			}
		case *ssa.Field:
			fv := an.FieldVar(x.X.Type(), x.Field)
			return fv != nil && strings.HasSuffix(fv.Name(), "EpochNanos")
		case *ssa.Parameter:
			return true // handed in by a caller that is judged itself
		}
		return false
	}
	n := 0
	var bad []string
	for _, fn := range c.P.RepoFuncs(func(rel string) bool { return rel == "kv/internal/crdt" || rel == "kv/crdt" }) {
		for _, b := range fn.Blocks {
			for _, in := range b.Instrs {
				st, ok := in.(*ssa.Store)
				if !ok {
					continue
				}
				fa, ok := st.Addr.(*ssa.FieldAddr)
				if !ok {
					continue
				}
				fv := an.FieldVar(fa.X.Type(), fa.Field)
				if fv == nil || (fv.Name() != "ModEpochNanos" && fv.Name() != "TombstoneSinceEpochNanos") {
					continue
				}
				n++
				if !okVal(st.Val, 0) {
					bad = append(bad, fmt.Sprintf("%s at %s (%s)", core.FuncName(fn), c.P.Pos(st.Pos()), fv.Name()))
				}
			}
		}
	}
	sort.Strings(bad)
	if n < 2 {
		c.R.Errorf("C17.time-resolution: only %d stores of entry times found", n)
	}
	c.R.Cond(len(bad) == 0, rule, "entry times are UnixNano() as it is", "-", fmt.Sprintf("%d stores of ModEpochNanos / TombstoneSinceEpochNanos", n),
		"an entry time is stored as something else than when.UnixNano() in "+strings.Join(bad, "; ")+": at a coarser resolution two distinct times compare equal, a back-dated write overwrites the later one, the winner of a merge depends on fold order, and a tombstone is purged by a cutoff that lies before it")
}

func c18AlwaysSeals(c *Ctx) {
	const rule = "C18.always-seals"
	ctor := mustFunc(c, "kv", "", "V1NodeEncryptor")
	if ctor == nil {
		return
	}
	name := core.FuncName(ctor)
	n := 0
	var bad []string
	for _, b := range ctor.Blocks {
		ret, ok := b.Instrs[len(b.Instrs)-1].(*ssa.Return)
		if !ok || len(ret.Results) != 1 {
			continue
		}
		n++
		var check func(v ssa.Value, d int) bool
		check = func(v ssa.Value, d int) bool {
			if d > 4 {
				return false
			}
			switch x := v.(type) {
			case *ssa.MakeInterface:
				if p, ok := x.X.Type().(*types.Pointer); ok {
					// the sealing encryptor, by role: the kv type that holds the derived [32]byte key
					// (jencryptor today)
					if nt := an.NamedOf(p.Elem()); nt != nil && nt.Obj().Pkg() != nil && nt.Obj().Pkg().Path() == kvPkg {
						if st, ok := nt.Underlying().(*types.Struct); ok {
							for i := 0; i < st.NumFields(); i++ {
								if st.Field(i).Type().String() == "[32]byte" {
									return true
								}
							}
						}
					}
				}
				return false
			case *ssa.Phi:
				for _, e := range x.Edges {
					if !check(e, d+1) {
						return false
					}
				}
				return true
			}
			return false
		}
		if !check(ret.Results[0], 0) {
			bad = append(bad, c.P.Pos(ret.Pos()))
		}
	}
	c.R.Cond(n > 0 && len(bad) == 0, rule, name+": every passphrase gets the sealing encryptor", c.P.Pos(ctor.Pos()), fmt.Sprintf("%d return(s), each a *jencryptor", n),
		"the constructor returns something else than the *jencryptor at "+strings.Join(bad, ", ")+": for that passphrase (e.g. the empty one) node objects are stored in plaintext, and data sealed earlier under it no longer opens")
}

func c07BytesByContent(c *Ctx) {
	const rule = "C07.bytes-by-content"
	order := mustFunc(c, "", "*Key", "Order")
	if order == nil {
		return
	}
	isLenOfBytes := func(v ssa.Value) bool {
		cl, ok := v.(*ssa.Call)
		if !ok {
			return false
		}
		bi, ok := cl.Call.Value.(*ssa.Builtin)
		if !ok || bi.Name() != "len" {
			return false
		}
		switch t := cl.Call.Args[0].Type().Underlying().(type) {
		case *types.Slice:
			b, ok := t.Elem().Underlying().(*types.Basic)
			return ok && b.Kind() == types.Byte
		case *types.Basic:
			return t.Kind() == types.String
		}
		return false
	}
	var bad []string
	nf := 0
	seen := map[*ssa.Function]bool{}
	work := append([]*ssa.Function{}, c.Scope(order).Funcs...)
	for len(work) > 0 {
		f := work[len(work)-1]
		work = work[:len(work)-1]
		if seen[f] || len(seen) > 12 {
			continue
		}
		seen[f] = true
		nf++
		for _, b := range f.Blocks {
			for _, in := range b.Instrs {
				if bo, ok := in.(*ssa.BinOp); ok && isLenOfBytes(bo.X) && isLenOfBytes(bo.Y) {
					bad = append(bad, core.FuncName(f)+" at "+c.P.Pos(bo.Pos()))
				}
				if call, ok := in.(ssa.CallInstruction); ok {
					if cal := call.Common().StaticCallee(); cal != nil && an.PkgPathOf(cal) == core.ModPath && len(cal.Blocks) > 0 && strings.HasPrefix(cal.Name(), "compare") {
						work = append(work, cal)
					}
				}
			}
		}
	}
	sort.Strings(bad)
	c.R.Cond(len(bad) == 0, rule, core.FuncName(order)+": no comparison of two lengths", c.P.Pos(order.Pos()), fmt.Sprintf("%d function(s) of the comparison, none compares len() with len()", nf),
		"the lengths of two byte strings are compared with each other in "+strings.Join(bad, "; ")+": BLOBs (or TEXT) of different lengths are ordered by length, not bytewise — x'02' sorts before x'0100', range queries and ORDER BY disagree with SQLite")
}

// ---- C20.notnull-by-number / C20.unquote-whole ----------------------------------------------------------

func init() {
	register(&Rule{Name: "C20.notnull-by-number", Min: 1, Run: c20NotNullByNumber,
		Doc: "the NOT NULL flag consulted for SQLite column number i is that of schema column i minus the hidden rowid column"})
	register(&Rule{Name: "C20.unquote-whole", Min: 1, Run: c20UnquoteWhole,
		Doc: "UnquoteAll returns an unquoted value only when the literals it parsed are the whole argument"})
	byProp["C20"] = append(byProp["C20"], "C20.notnull-by-number", "C20.unquote-whole")
	explain["C20"] += " notnull-by-number: SQLite numbers the columns of the declared table, which for a table without PRIMARY KEY starts with the hidden _rowid_; the table's name maps are indexed by schema position (off by one for such tables, consistently for storing and reading). 'NOT NULL behaviour matches the specification' therefore needs the flag to be looked up by number with the rowid offset taken off: the index into schema.Columns whose NotNull is read depends on a subtraction of the constant 1 (the usesRowID adjustment), not on a lookup through the name maps. unquote-whole: 'malformed arguments … are rejected' — text behind the closing quote of a value (columns='a primary key'x, … unique, … default 0) must make the argument fall through unchanged to the parsers that reject it; every return of UnquoteAll that is not the argument itself lies behind the 'nothing remains' test of the parser."
}

func c20NotNullByNumber(c *Ctx) {
	const rule = "C20.notnull-by-number"
	n := 0
	good := true
	why := ""
	for _, fn := range c.P.RepoFuncs(func(rel string) bool { return rel == "" }) {
		for _, b := range fn.Blocks {
			for _, in := range b.Instrs {
				fa, ok := in.(*ssa.FieldAddr)
				if !ok {
					continue
				}
				fv := an.FieldVar(fa.X.Type(), fa.Field)
				if fv == nil || fv.Name() != "NotNull" {
					continue
				}
				ia, ok := fa.X.(*ssa.IndexAddr)
				if !ok {
					continue
				}
				// only reads that decide a constraint error (not the declaration loop, which ranges over the schema)
				if ex, isEx := an.Unwrap(ia.Index).(*ssa.Extract); isEx {
					if _, isNext := ex.Tuple.(*ssa.Next); isNext {
						continue
					}
				}
				if ph, isPhi := ia.Index.(*ssa.Phi); isPhi && ph.Comment == "rangeindex" {
					continue
				}
				n++
				adjusted := an.DependsOn(ia.Index, func(v ssa.Value) bool {
					bo, ok := v.(*ssa.BinOp)
					if !ok || bo.Op != token.SUB {
						return false
					}
					k, isK := constInt(bo.Y)
					return isK && k == 1
				})
				if !adjusted {
					good = false
					why = "the NotNull flag read at " + c.P.Pos(fa.Pos()) + " in " + core.FuncName(fn) + " is indexed by a value that never has the hidden rowid column taken off (e.g. looked up by name through the table's maps, which are shifted by one for tables without PRIMARY KEY): NOT NULL of column n is enforced on column n-1"
				}
			}
		}
	}
	if n == 0 {
		c.R.Unk(rule, "NOT NULL is looked up by SQLite's column number", "-", "no read of a schema column's NotNull outside the declaration loop found")
		return
	}
	c.R.Cond(good, rule, "NOT NULL is looked up by SQLite's column number", "-", fmt.Sprintf("%d read(s) of NotNull, each indexed by the column number minus the rowid offset", n), why)
}

func c20UnquoteWhole(c *Ctx) {
	const rule = "C20.unquote-whole"
	fn := mustFunc(c, "internal", "", "UnquoteAll")
	if fn == nil {
		return
	}
	name := core.FuncName(fn)
	if len(fn.Params) != 1 {
		c.R.Unk(rule, name+": shape", c.P.Pos(fn.Pos()), "expected UnquoteAll(s string)")
		return
	}
	arg := fn.Params[0]
	h := an.THooks{Branch: func(iff *ssa.If, side bool, st an.TState) an.TState {
		cond, neg := an.StripNot(iff.Cond)
		bo, ok := cond.(*ssa.BinOp)
		if !ok || (bo.Op != token.EQL && bo.Op != token.NEQ) {
			return st
		}
		k, isK := constInt(bo.Y)
		cl, isCall := bo.X.(*ssa.Call)
		if !isK || k != 0 || !isCall {
			return st
		}
		bi, isB := cl.Call.Value.(*ssa.Builtin)
		if !isB || bi.Name() != "len" {
			return st
		}
		if fv := an.FieldOfLoad(cl.Call.Args[0]); fv == nil || fv.Name() != "Remaining" {
			return st
		}
		empty := (bo.Op == token.EQL) == (side != neg)
		if empty {
			return ansState(true)
		}
		return st
	}}
	good, n := true, 0
	why := ""
	for _, ex := range an.WalkTypestate(fn, ansState(false), h, c.Scope(fn)) {
		if len(ex.Ret.Results) != 1 {
			continue
		}
		r := an.Unwrap(ex.Ret.Results[0])
		if r == ssa.Value(arg) {
			continue // the argument as it came
		}
		if k, isK := r.(*ssa.Const); isK && k.Value != nil {
			continue // the empty string for the empty argument
		}
		n++
		if !bool(ex.St.(ansState)) {
			good = false
			why = "UnquoteAll can return an unquoted value at " + c.P.Pos(ex.Ret.Pos()) + " without having seen that nothing remains behind the literals it parsed: columns='id primary key, name' unique (or …'x) is accepted with the tail silently dropped"
		}
	}
	if n == 0 {
		c.R.Unk(rule, name+": the whole argument is a literal", c.P.Pos(fn.Pos()), "no return of an unquoted value found")
		return
	}
	c.R.Cond(good, rule, name+": the whole argument is a literal", c.P.Pos(fn.Pos()), fmt.Sprintf("%d returning path(s) of an unquoted value, each behind len(Remaining) == 0", n), why)
}

// ---- C05.rollback-always / C10.filter-vacuums / C19.config-per-open / C19.time-per-connection ------------

func init() {
	register(&Rule{Name: "C05.rollback-always", Min: 1, Run: c05RollbackAlways,
		Doc: "the sqlite layer's xRollback reaches the common layer's Rollback on every path, whatever the connection's write-time flag says"})
	register(&Rule{Name: "C10.filter-vacuums", Min: 1, Run: c10FilterVacuums,
		Doc: "every successful scan of s3db_vacuum has run the vacuum: no answer from memory"})
	register(&Rule{Name: "C19.config-per-open", Min: 1, Run: c19ConfigPerOpen,
		Doc: "the storage description handed to kv.Open is allocated by the call that opens: no package-level template is written through"})
	register(&Rule{Name: "C19.time-per-connection", Min: 1, Run: c19TimePerConnection,
		Doc: "the write time a connection fixes for a transaction is the clock's: it does not depend on package-level state that other connections write"})
	byProp["C05"] = append(byProp["C05"], "C05.rollback-always")
	byProp["C10"] = append(byProp["C10"], "C10.filter-vacuums")
	byProp["C19"] = append(byProp["C19"], "C19.config-per-open", "C19.time-per-connection")
	byProp["C15"] = append(byProp["C15"], "C19.time-per-connection")
	explain["C05"] += " rollback-always: txFixedWriteTime means 'xBegin chose the write time', not 'a transaction is open' — it is false when the connection set write_time itself and after the first of several tables of a transaction released it; every return of (*sqlite.VirtualTable).Rollback follows the call of the common layer's Rollback."
	explain["C10"] += " filter-vacuums: a later vacuum with the same cutoff is not a repetition (a back-dated delete, another writer's delete brought in by refresh, a version superseded since): every possibly successful return of VacuumCursor.Filter follows the call of s3db.Vacuum."
	explain["C19"] += " config-per-open: the kv.S3BucketInfo whose address goes into the Config of kv.Open is allocated inside OpenKV; a package-level Config template copied by value shares its Storage pointer, so two connections opening at once write each other's prefix (cross-talk and a data race). time-per-connection: the value stored as the transaction's fixed write time derives from time.Now() alone — not from a package-level 'latest time' that any connection raises (one connection's future write_time would stamp every other connection's later transactions)."
	explain["C15"] += " time-per-connection (shared with C19): 'write_time … affect only its own statements'."
}

func c05RollbackAlways(c *Ctx) {
	const rule = "C05.rollback-always"
	fn := mustFunc(c, "sqlite", "*VirtualTable", "Rollback")
	common := mustFunc(c, "", "*VirtualTable", "Rollback")
	if fn == nil || common == nil {
		return
	}
	pred := func(in ssa.Instruction) bool {
		cl, ok := in.(ssa.CallInstruction)
		return ok && cl.Common().StaticCallee() == common
	}
	h := an.THooks{Instr: func(in ssa.Instruction, st an.TState) an.TState {
		if pred(in) || callsOneThatAlwaysDoes(c, in, pred, 0) {
			return ansState(true)
		}
		return st
	}}
	good := true
	why := ""
	for _, ex := range an.WalkTypestate(fn, ansState(false), h, c.Scope(fn)) {
		if !bool(ex.St.(ansState)) {
			good = false
			why = "xRollback can return at " + c.P.Pos(ex.Ret.Pos()) + " without having called the common layer's Rollback (e.g. behind 'the write time was not fixed by xBegin'): with an explicit write_time, or for the second table of a transaction, the rolled-back rows stay visible and the table refuses the next write"
		}
	}
	c.R.Cond(good, rule, core.FuncName(fn)+": the snapshot is restored on every path", c.P.Pos(fn.Pos()), "every return follows the common layer's Rollback", why)
}

func c10FilterVacuums(c *Ctx) {
	const rule = "C10.filter-vacuums"
	fn := mustFunc(c, "sqlite", "*VacuumCursor", "Filter")
	vac := mustFunc(c, "", "", "Vacuum")
	if fn == nil || vac == nil {
		return
	}
	h := an.THooks{Instr: func(in ssa.Instruction, st an.TState) an.TState {
		if cl, ok := in.(ssa.CallInstruction); ok && cl.Common().StaticCallee() == vac {
			return ansState(true)
		}
		return st
	}}
	good := true
	why := ""
	for _, ex := range an.WalkTypestate(fn, ansState(false), h, c.Scope(fn)) {
		if ex.ErrNil != 0 && !bool(ex.St.(ansState)) {
			good = false
			why = "Filter can succeed at " + c.P.Pos(ex.Ret.Pos()) + " without having called s3db.Vacuum (a remembered earlier run with the same table and cutoff?): deletes that arrived since, and versions superseded since, are not reclaimed while vacuum_error is NULL"
		}
	}
	c.R.Cond(good, rule, core.FuncName(fn)+": a successful scan has vacuumed", c.P.Pos(fn.Pos()), "every successful return follows s3db.Vacuum", why)
}

func c19ConfigPerOpen(c *Ctx) {
	const rule = "C19.config-per-open"
	fn := mustFunc(c, "", "", "OpenKV")
	storageF := mustField(c, "kv", "Config", "Storage")
	if fn == nil || storageF == nil {
		return
	}
	name := core.FuncName(fn)
	n := 0
	good := true
	why := ""
	var fresh func(v ssa.Value, d int) (bool, string)
	fresh = func(v ssa.Value, d int) (bool, string) {
		if d > 5 {
			return false, "derivation too deep"
		}
		switch x := v.(type) {
		case *ssa.Alloc:
			return true, ""
		case *ssa.Phi:
			for _, e := range x.Edges {
				if ok, w := fresh(e, d+1); !ok {
					return false, w
				}
			}
			return true, ""
		case *ssa.UnOp:
			if x.Op == token.MUL {
				if g := globalBehind(x.X); g != nil {
					return false, "loaded from package variable " + g.Name()
				}
				if al, ok := x.X.(*ssa.Alloc); ok {
					for _, r := range *al.Referrers() {
						if st, ok := r.(*ssa.Store); ok && st.Addr == ssa.Value(al) {
							if ok, w := fresh(st.Val, d+1); !ok {
								return false, w
							}
						}
					}
					return true, ""
				}
				if fa, ok := x.X.(*ssa.FieldAddr); ok {
					// a field of a local struct: what was stored into the struct
					if al, ok := fa.X.(*ssa.Alloc); ok {
						okAll := true
						w := ""
						for _, r := range *al.Referrers() {
							switch y := r.(type) {
							case *ssa.Store:
								if y.Addr == ssa.Value(al) { // whole-struct store
									if ld, isLd := y.Val.(*ssa.UnOp); isLd && globalBehind(ld.X) != nil {
										okAll, w = false, "copied from package variable "+globalBehind(ld.X).Name()+" (the pointer inside is shared)"
									}
								}
							case *ssa.FieldAddr:
								if y.Field == fa.Field {
									for _, rr := range *y.Referrers() {
										if st, ok := rr.(*ssa.Store); ok && st.Addr == ssa.Value(y) {
											if ok2, w2 := fresh(st.Val, d+1); !ok2 {
												okAll, w = false, w2
											}
										}
									}
								}
							}
						}
						return okAll, w
					}
				}
			}
		}
		return false, "of unrecognised origin: " + v.String()
	}
	// every write through Config.Storage in OpenKV's scope, and the value stored as Storage
	for _, f := range c.Scope(fn).Funcs {
		for _, b := range f.Blocks {
			for _, in := range b.Instrs {
				switch x := in.(type) {
				case *ssa.Store:
					fa, ok := x.Addr.(*ssa.FieldAddr)
					if !ok {
						continue
					}
					if an.FieldVar(fa.X.Type(), fa.Field) == storageF {
						n++
						if ok, w := fresh(x.Val, 0); !ok {
							good, why = false, "the Storage pointer put into the Config at "+c.P.Pos(x.Pos())+" is "+w
						}
						continue
					}
					// a store into a field of *Storage
					if ld, isLd := fa.X.(*ssa.UnOp); isLd && an.FieldOfLoad(ld) == storageF {
						n++
						if ok, w := fresh(ld, 0); !ok {
							good, why = false, "the S3BucketInfo written at "+c.P.Pos(x.Pos())+" is "+w+": every open, refresh and changes query of the process writes its prefix, endpoint and bucket into the same object — between writing and kv.Open reading lies a lock wait or a session creation, so a table is opened on another connection's prefix"
						}
					}
				}
			}
		}
	}
	if n == 0 {
		c.R.Unk(rule, name+": storage description", c.P.Pos(fn.Pos()), "no assignment of Config.Storage found in OpenKV")
		return
	}
	c.R.Cond(good, rule, name+": the storage description belongs to this open", c.P.Pos(fn.Pos()), fmt.Sprintf("%d assignment(s), each to/of an object allocated by this call", n), why)
}

func globalBehind(v ssa.Value) *ssa.Global {
	for i := 0; i < 4; i++ {
		switch x := v.(type) {
		case *ssa.Global:
			return x
		case *ssa.FieldAddr:
			v = x.X
		case *ssa.IndexAddr:
			v = x.X
		default:
			return nil
		}
	}
	return nil
}

func c19TimePerConnection(c *Ctx) {
	const rule = "C19.time-per-connection"
	begin := mustFunc(c, "sqlite", "*VirtualTable", "Begin")
	wtF := mustField(c, "sqlite", "S3DBConn", "writeTime")
	if begin == nil || wtF == nil {
		return
	}
	n := 0
	good := true
	why := ""
	for _, f := range c.Scope(begin).Funcs {
		for _, st := range an.StoresToField(f, wtF) {
			if an.IsZeroValue(st.Val) {
				continue // released
			}
			n++
			an.DependsOn(st.Val, func(v ssa.Value) bool {
				if ld, ok := v.(*ssa.UnOp); ok && ld.Op == token.MUL {
					if g := globalBehind(ld.X); g != nil && g.Pkg != nil && strings.HasPrefix(g.Pkg.Pkg.Path(), core.ModPath) {
						good = false
						why = "the write time fixed at " + c.P.Pos(st.Pos()) + " depends on the package variable " + g.Name() + ", which every connection of the process writes: after one connection wrote under a future write_time, the clock-stamped transactions of all other connections carry that future time and beat every real-time update until then"
					}
				}
				return false
			})
		}
	}
	if n == 0 {
		c.R.Unk(rule, core.FuncName(begin)+": fixed write time", c.P.Pos(begin.Pos()), "xBegin stores no write time")
		return
	}
	c.R.Cond(good, rule, core.FuncName(begin)+": the fixed write time is the clock's", c.P.Pos(begin.Pos()), fmt.Sprintf("%d store(s), none depending on package-level state of the library", n), why)
}

// ---- C06.key-change-seen: an UPDATE that assigns another key is not taken for one that keeps it ----------

func init() {
	register(&Rule{Name: "C06.key-change-seen", Min: 1, Run: c06KeyChangeSeen,
		Doc: "the sqlite layer's Update reaches the common layer's Update only after it compared the old key with the assigned one itself"})
	byProp["C06"] = append(byProp["C06"], "C06.key-change-seen")
	byProp["C08"] = append(byProp["C08"], "C06.key-change-seen")
	explain["C06"] += " key-change-seen: the pinned binding decides 'same key -> Update, else Replace' with v0.Int() == v1.Int() (32 bits, and across storage classes): 1 and 4294967297, 1 and 1.5, 1 and '1' count as the same key, and the common Update ignores the key among the values — the statement kept the old key, changed the other columns and reported success. Every path to the common layer's Update passes the 'same' side of s3db.SameKey(old, new) or the 'key not assigned' side of the lookup of the key column among the given values."
	explain["C08"] += " key-change-seen (shared with C06): a key written by UPDATE is stored or the statement fails."
}

func c06KeyChangeSeen(c *Ctx) {
	const rule = "C06.key-change-seen"
	fn := mustFunc(c, "sqlite", "*VirtualTable", "Update")
	common := mustFunc(c, "", "*VirtualTable", "Update")
	same := c.P.LookupFunc("", "", "SameKey")
	if fn == nil || common == nil {
		return
	}
	name := core.FuncName(fn)
	if same == nil {
		c.R.Bad(rule, name+": the keys are compared before the new one is ignored", c.P.Pos(fn.Pos()), "there is no s3db.SameKey: nothing compares the old key with the assigned one; the binding's 32-bit, cross-class comparison alone decides that an UPDATE keeps its key")
		return
	}
	bad := ""
	h := an.THooks{}
	h.Branch = func(iff *ssa.If, side bool, st an.TState) an.TState {
		cond, neg := an.StripNot(iff.Cond)
		if cl, ok := cond.(*ssa.Call); ok && cl.Call.StaticCallee() == same && side != neg {
			return ansState(true)
		}
		// "assigned" of a map lookup of the values: on its false side there is no new key
		if ex, ok := cond.(*ssa.Extract); ok && ex.Index == 1 {
			if lk, isLk := ex.Tuple.(*ssa.Lookup); isLk && lk.CommaOk && side == neg {
				return ansState(true)
			}
		}
		return st
	}
	h.Instr = func(in ssa.Instruction, st an.TState) an.TState {
		if cl, ok := in.(ssa.CallInstruction); ok && cl.Common().StaticCallee() == common && !bool(st.(ansState)) {
			bad = c.P.Pos(cl.Pos())
		}
		return st
	}
	an.WalkTypestate(fn, ansState(false), h, c.Scope(fn))
	c.R.Cond(bad == "", rule, name+": the keys are compared before the new one is ignored", c.P.Pos(fn.Pos()), "the common Update is reached only with the same key, or without an assigned key",
		"the common layer's Update at "+bad+" can be reached without the old and the assigned key having been compared: 'update t set a=4294967297 where a=1' (or a=1.5, a='1') keeps the key 1, changes the other columns and reports success")
}

// ---- C15.reads-back-exactly: what s3db_conn shows is what was set ---------------------------------------

func init() {
	register(&Rule{Name: "C15.reads-back-exactly", Min: 1, Run: c15ReadsBackExactly,
		Doc: "the layout ConnCursor.Column formats the attributes with keeps the fraction of a second"})
	byProp["C15"] = append(byProp["C15"], "C15.reads-back-exactly")
	explain["C15"] += " reads-back-exactly: 'write_time and deadline … are readable back from s3db_conn' — ConnModule.Update stores the parsed time as given (time-as-given), fraction included, so the layout of every Format call in ConnCursor.Column has a fractional-seconds part behind the seconds."
}

func c15ReadsBackExactly(c *Ctx) {
	const rule = "C15.reads-back-exactly"
	fn := mustFunc(c, "sqlite", "*ConnCursor", "Column")
	if fn == nil {
		return
	}
	n := 0
	var bad []string
	// Column, the helpers split out of it, and same-package functions it calls (one level)
	fns := append([]*ssa.Function{}, c.Scope(fn).Funcs...)
	for _, call := range an.Calls(fn) {
		if g := call.Common().StaticCallee(); g != nil && g.Pkg == fn.Pkg && len(g.Blocks) > 0 {
			fns = append(fns, g)
		}
	}
	seenFn := map[*ssa.Function]bool{}
	for _, f := range fns {
		if seenFn[f] {
			continue
		}
		seenFn[f] = true
		for _, call := range an.Calls(f) {
			g := call.Common().StaticCallee()
			if g == nil || an.PkgPathOf(g) != "time" || g.Name() != "Format" || len(call.Common().Args) != 2 {
				continue
			}
			n++
			k, ok := call.Common().Args[1].(*ssa.Const)
			if !ok || k.Value == nil {
				bad = append(bad, c.P.Pos(call.Pos())+" (layout is not a constant)")
				continue
			}
			lay := k.Value.ExactString()
			if !strings.Contains(lay, "05.9") && !strings.Contains(lay, "05.0") && !strings.Contains(lay, "05,9") && !strings.Contains(lay, "05,0") {
				bad = append(bad, c.P.Pos(call.Pos())+" (layout "+lay+")")
			}
		}
	}
	sort.Strings(bad)
	if n == 0 {
		c.R.Unk(rule, core.FuncName(fn)+": attributes are shown with their fraction", c.P.Pos(fn.Pos()), "no Format call found")
		return
	}
	c.R.Cond(len(bad) == 0, rule, core.FuncName(fn)+": attributes are shown with their fraction", c.P.Pos(fn.Pos()), fmt.Sprintf("%d Format call(s), each with fractional seconds in its layout", n),
		"an attribute is formatted without the fraction of a second at "+strings.Join(bad, "; ")+": write_time='… 00:00:00.25' is applied exactly and reads back as '… 00:00:00'")
}

// ---- C03.prefix-clean: keys and listing use one form of the prefix ------------------------------------

func init() {
	register(&Rule{Name: "C03.prefix-clean", Min: 1, Run: c03PrefixClean,
		Doc: "the prefix OpenKV hands to kv.Open went through path.Clean: the SDK cleans the URL path of object requests but not the prefix parameter of a listing"})
	byProp["C03"] = append(byProp["C03"], "C03.prefix-clean")
	byProp["C16"] = append(byProp["C16"], "C03.prefix-clean")
	byProp["C20"] = append(byProp["C20"], "C03.prefix-clean")
	explain["C03"] += " prefix-clean: 'every acknowledged commit is contained in the view of all later opens' — aws-sdk-go cleans the URL path of GET/PUT/DELETE (a//b, ./a, a/../b become a/b, a, b) while the prefix of ListObjectsV2 is a query parameter and goes out as written: under s3_prefix='data//t1' every commit was stored as data/t1/… and no open ever listed it. The value stored as S3BucketInfo.Prefix in OpenKV depends on a call of path.Clean. persist-lists also demands, since repair 2db17cb, that every lookup list that contains current/ looks at merged/ after it (a named version that is being retired exists at every moment)."
	explain["C16"] += " prefix-clean (shared with C03)."
	explain["C20"] += " prefix-clean (shared with C03): every spelling of a valid s3_prefix names the place it stores under."
}

func c03PrefixClean(c *Ctx) {
	const rule = "C03.prefix-clean"
	fn := mustFunc(c, "", "", "OpenKV")
	prefixF := mustField(c, "kv", "S3BucketInfo", "Prefix")
	if fn == nil || prefixF == nil {
		return
	}
	n := 0
	good := true
	where := ""
	for _, f := range c.Scope(fn).Funcs {
		for _, st := range an.StoresToField(f, prefixF) {
			n++
			cleaned := an.DependsOn(st.Val, func(v ssa.Value) bool {
				cl, ok := v.(*ssa.Call)
				if !ok {
					return false
				}
				g := cl.Call.StaticCallee()
				return g != nil && (an.PkgPathOf(g) == "path" || an.PkgPathOf(g) == "path/filepath") && g.Name() == "Clean"
			})
			if !cleaned {
				good = false
				where = c.P.Pos(st.Pos())
			}
		}
	}
	if n == 0 {
		c.R.Unk(rule, core.FuncName(fn)+": storage prefix", c.P.Pos(fn.Pos()), "no assignment of S3BucketInfo.Prefix found in OpenKV")
		return
	}
	c.R.Cond(good, rule, core.FuncName(fn)+": the prefix is in the form the SDK sends object keys in", c.P.Pos(fn.Pos()), fmt.Sprintf("%d assignment(s) of the prefix, each cleaned", n),
		"the prefix assigned at "+where+" did not go through path.Clean: with an empty or dot segment in s3_prefix objects are stored under the cleaned path and listed under the raw one — commits are acknowledged and never seen again")
}

// ---- rules for the repairs that the defect-hunting agents led to (DESIGN.md section 6) ------------------

func init() {
	register(&Rule{Name: "C05.failed-tx-refuses", Min: 2, Run: c05FailedTxRefuses,
		Doc: "a write callback that fails in the storage call records the failure, and the common Commit reaches the storage commit only with no failure recorded"})
	register(&Rule{Name: "C05.create-begins", Min: 1, Run: c05CreateBegins,
		Doc: "xCreate begins the created table's transaction itself: SQLite enters it into the current transaction without calling xBegin"})
	register(&Rule{Name: "C09.gc-keeps-staying", Min: 1, Run: c09GcKeepsStaying,
		Doc: "vacuum takes the links of every version that stays — everything listed under current/ and every version of the graph it does not remove — off the deletion list, not only those of its own tree"})
	byProp["C05"] = append(byProp["C05"], "C05.failed-tx-refuses", "C05.create-begins")
	byProp["C14"] = append(byProp["C14"], "C05.failed-tx-refuses")
	byProp["C16"] = append(byProp["C16"], "C05.failed-tx-refuses", "C09.gc-keeps-staying")
	byProp["C09"] = append(byProp["C09"], "C09.gc-keeps-staying")
	byProp["C10"] = append(byProp["C10"], "C09.gc-keeps-staying")
	byProp["C03"] = append(byProp["C03"], "C09.gc-keeps-staying")
	explain["C05"] += " failed-tx-refuses: the tree does not undo an insert that fails half-way (the key is in the node when the child below it cannot be loaded for splitting); in an explicit transaction the statement fails, the transaction stays open, and COMMIT used to publish the half-inserted row and a subtree linked twice. (a) In Insert/Update/Delete the non-nil side of the error test of kv Set stores the failure into txFailed; (b) every path of the common Commit to the kv Commit passes the nil side of a test of txFailed. create-begins: every successful return of Module.Create follows a call of the table's Begin (one fixed write time and a rollback snapshot also for the transaction that created the table)."
	explain["C14"] += " failed-tx-refuses (shared with C05): a storage fault inside a transaction does not end in a damaged published version."
	explain["C16"] += " failed-tx-refuses (shared with C05); gc-keeps-staying (shared with C09)."
	explain["C09"] += " gc-keeps-staying: 'no retained version ever refers to a deleted object' — besides the handle's own tree, the function that collects the deletion list lists current/ (error honoured) and, for versions that stay, walks a tree other than its own against the empty tree with a callback that deletes from the candidate set. Before repair d2fe75a the current version of another writer who started from the same parent lost nodes (every later open failed for good), and so did retained history that shares content with removed history."
	explain["C10"] += " gc-keeps-staying (shared with C09)."
	explain["C03"] += " gc-keeps-staying (shared with C09): a vacuum by one writer never makes another writer's committed, still un-merged version unreadable."
}

func c05FailedTxRefuses(c *Ctx) {
	const rule = "C05.failed-tx-refuses"
	failedF := an.LookupField(c.P, "", "VirtualTable", "txFailed")
	commit := mustFunc(c, "", "*VirtualTable", "Commit")
	if commit == nil {
		return
	}
	if failedF == nil {
		c.R.Bad(rule, "(*s3db.VirtualTable): a failed write is remembered", "-", "there is no field that records a write of the transaction that failed in storage: the tree does not undo a half-done insert, and COMMIT publishes it")
		return
	}
	// (a) the write callbacks
	n := 0
	for _, m := range []string{"Insert", "Update", "Delete"} {
		fn := mustFunc(c, "", "*VirtualTable", m)
		if fn == nil {
			continue
		}
		for _, f := range c.Scope(fn).Funcs {
			for _, call := range an.Calls(f) {
				if !an.CalleeIs(call, kvPkg, "DB", "Set") {
					continue
				}
				n++
				ev, _ := an.ErrResult(call)
				good := false
				if ev != nil {
					for _, b := range f.Blocks {
						iff, ok := b.Instrs[len(b.Instrs)-1].(*ssa.If)
						if !ok {
							continue
						}
						v, nilIdx, isNil := an.NilTestOf(iff)
						if !isNil || v != ev {
							continue
						}
						nn := b.Succs[1-nilIdx]
						for _, in := range nn.Instrs {
							if st, ok := in.(*ssa.Store); ok {
								if fa, ok := st.Addr.(*ssa.FieldAddr); ok && an.FieldVar(fa.X.Type(), fa.Field) == failedF && !an.IsNilConst(st.Val) {
									good = true
								}
							}
						}
					}
				}
				c.R.Cond(good, rule, fmt.Sprintf("%s: a failed Set is remembered #%d", core.FuncName(fn), n), c.P.Pos(call.Pos()), "the failing side of the error test stores the failure",
					"the storage call can fail without the failure being recorded: inside an explicit transaction the statement reports its error, the transaction stays open, and COMMIT publishes whatever the half-done write left in the tree")
			}
		}
	}
	if n < 3 {
		c.R.Errorf("C05.failed-tx-refuses: only %d kv Set calls found in Insert/Update/Delete", n)
	}
	// (b) Commit
	bad := ""
	h := an.THooks{}
	h.Branch = func(iff *ssa.If, side bool, st an.TState) an.TState {
		v, nilIdx, ok := an.NilTestOf(iff)
		if ok && an.FieldOfLoad(v) == failedF {
			idx := 1
			if side {
				idx = 0
			}
			if idx == nilIdx {
				return ansState(true)
			}
		}
		return st
	}
	h.Instr = func(in ssa.Instruction, st an.TState) an.TState {
		if cl, ok := in.(ssa.CallInstruction); ok && an.CalleeIs(cl, kvPkg, "DB", "Commit") && !bool(st.(ansState)) {
			bad = c.P.Pos(cl.Pos())
		}
		return st
	}
	an.WalkTypestate(commit, ansState(false), h, c.Scope(commit))
	c.R.Cond(bad == "", rule, core.FuncName(commit)+": nothing is published after a failed write", c.P.Pos(commit.Pos()), "the storage commit is reached only with no failure recorded",
		"the storage commit at "+bad+" can be reached without the record of a failed write having been found empty")
}

func c05CreateBegins(c *Ctx) {
	const rule = "C05.create-begins"
	fn := mustFunc(c, "sqlite", "*Module", "Create")
	begin := mustFunc(c, "sqlite", "*VirtualTable", "Begin")
	if fn == nil || begin == nil {
		return
	}
	h := an.THooks{Instr: func(in ssa.Instruction, st an.TState) an.TState {
		if cl, ok := in.(ssa.CallInstruction); ok && cl.Common().StaticCallee() == begin {
			return ansState(true)
		}
		return st
	}}
	good := true
	why := ""
	for _, ex := range an.WalkTypestate(fn, ansState(false), h, c.Scope(fn)) {
		if ex.ErrNil != 0 && !bool(ex.St.(ansState)) {
			good = false
			why = "Create can succeed at " + c.P.Pos(ex.Ret.Pos()) + " without having begun the table's transaction: SQLite enters a created table into the current transaction without xBegin, so its writes in that transaction each carry their own write time and a rollback has no snapshot to restore"
		}
	}
	c.R.Cond(good, rule, core.FuncName(fn)+": the created table's transaction is begun", c.P.Pos(fn.Pos()), "every successful return follows Begin", why)
}

func c09GcKeepsStaying(c *Ctx) {
	const rule = "C09.gc-keeps-staying"
	gc := gcFunc(c)
	listRoots := c.P.LookupFunc("kv", "*DB", "listRoots")
	if listRoots == nil {
		listRoots = c.P.LookupFunc("kv", "DB", "listRoots")
	}
	crdtF := an.LookupField(c.P, "kv", "DB", "crdt")
	if gc == nil || crdtF == nil {
		c.R.Errorf("C09.gc-keeps-staying: anchors not found")
		return
	}
	name := core.FuncName(gc)
	var fns []*ssa.Function
	for _, f := range c.Scope(gc).Funcs {
		fns = append(fns, f)
	}
	lists := false
	protects := false
	for _, f := range fns {
		for _, call := range an.Calls(f) {
			cal := call.Common().StaticCallee()
			if cal != nil && (cal == listRoots || cal.Name() == "listRoots") {
				if flow := an.AnalyzeErr(f, errOf(call)); flow != nil && flow.Verdict == an.ErrPropagated {
					lists = true
				}
			}
			if calleeLabel(call) != "DiffLinks" {
				continue
			}
			rv := an.RecvValue(call)
			if rv == nil || an.HasField(rv, crdtF) {
				continue // the handle's own tree
			}
			// the callback deletes from a map
			for _, a := range call.Common().Args {
				mc, ok := a.(*ssa.MakeClosure)
				if !ok {
					continue
				}
				if cf, ok := mc.Fn.(*ssa.Function); ok {
					for _, cc := range an.Calls(cf) {
						if bi, ok := cc.Common().Value.(*ssa.Builtin); ok && bi.Name() == "delete" {
							protects = true
						}
					}
				}
			}
		}
	}
	why := ""
	switch {
	case !lists:
		why = "the function that collects vacuum's deletion list does not list current/ (or drops the listing's error): versions other writers committed and this handle has not merged are unknown to it, and the nodes they share with their parent are deleted — every later open fails for good with NoSuchKey"
	case !protects:
		why = "no tree other than the handle's own is walked with a callback that takes links off the deletion list: versions that stay (other writers' current versions, retained history that shares content with removed history) lose node objects"
	}
	c.R.Cond(lists && protects, rule, name+": versions that stay keep their nodes", c.P.Pos(gc.Pos()), "current/ is listed and the links of the versions that stay are taken off the deletion list", why)
}

func errOf(call ssa.CallInstruction) ssa.Value {
	v, _ := an.ErrResult(call)
	return v
}

func init() {
	register(&Rule{Name: "C12.live-from-has-entries", Min: 1, Run: c12LiveFromHasEntries,
		Doc: "the table as the connection holds it stands in for an absent from= only when it has entries: a tree that a vacuum emptied has no root node a diff could start from"})
	byProp["C12"] = append(byProp["C12"], "C12.live-from-has-entries")
	explain["C12"] += " live-from-has-entries: in the function that starts the diff, the live table's tree is taken as the diff base on the true side of a 'Size() > 0' test (otherwise the empty version is loaded): after every row was deleted and vacuumed away the in-memory tree has a nil root and mast's diff fails comparing nil with a key."
}

func c12LiveFromHasEntries(c *Ctx) {
	const rule = "C12.live-from-has-entries"
	vtTree := mustField(c, "", "VirtualTable", "Tree")
	var fn *ssa.Function
	for _, f := range c.P.RepoFuncs(func(rel string) bool { return rel == "sqlite" }) {
		for _, call := range an.Calls(f) {
			if an.CalleeIs(call, kvPkg, "DB", "StartDiff") {
				fn = f
			}
		}
	}
	if fn == nil || vtTree == nil {
		c.R.Errorf("C12.live-from-has-entries: the function that starts the diff was not found")
		return
	}
	name := core.FuncName(fn)
	// blocks on the true side of a "Size() > 0" (or != 0) test
	var tests []*ssa.BasicBlock
	for _, b := range fn.Blocks {
		iff, ok := b.Instrs[len(b.Instrs)-1].(*ssa.If)
		if !ok {
			continue
		}
		bo, ok := iff.Cond.(*ssa.BinOp)
		if !ok || (bo.Op != token.GTR && bo.Op != token.NEQ) {
			continue
		}
		cl, isCall := bo.X.(*ssa.Call)
		k, isK := constInt(bo.Y)
		if isCall && isK && k == 0 && calleeLabel(cl) == "Size" {
			tests = append(tests, b)
		}
	}
	n, good := 0, true
	where := ""
	for _, b := range fn.Blocks {
		for _, in := range b.Instrs {
			ld, ok := in.(*ssa.UnOp)
			if !ok || ld.Op != token.MUL || an.FieldOfLoad(ld) != vtTree {
				continue
			}
			// only loads whose value becomes the diff base (flows into a phi or straight into StartDiff),
			// not the load the Size() test itself reads
			usedAsBase := false
			for _, r := range *ld.Referrers() {
				switch r.(type) {
				case *ssa.Phi, *ssa.Store:
					usedAsBase = true
				}
			}
			if !usedAsBase {
				continue
			}
			n++
			ok2 := false
			for _, t := range tests {
				if an.OnlyVia(t, 0, b) || t.Succs[0] == b {
					ok2 = true
				}
			}
			if !ok2 {
				good = false
				where = c.P.Pos(ld.Pos())
			}
		}
	}
	if n == 0 {
		c.R.OK(rule, name+": an empty live table is the empty version", c.P.Pos(fn.Pos()), "the live table is never the diff base")
		return
	}
	c.R.Cond(good, rule, name+": an empty live table is the empty version", c.P.Pos(fn.Pos()), fmt.Sprintf("%d use(s) of the live tree as diff base, each behind Size() > 0", n),
		"the live table's tree becomes the diff base at "+where+" without a test that it has entries: after a vacuum emptied the table the query fails with 'keyCompare: don't know how to compare <nil> …'")
}
