package rules

import (
	"fmt"
	"go/types"
	"sort"
	"strings"

	"golang.org/x/tools/go/ssa"

	"s3dbcheck/an"
	"s3dbcheck/core"
)

func init() {
	register(&Rule{Name: "C14.errors", Min: 100, Run: func(c *Ctx) { errorsRule(c, "C14.errors", nil) },
		Doc: "every error returned by a call that can reach the S3 client is propagated"})
	register(&Rule{Name: "C14.ctx", Min: 60, Run: c14Ctx,
		Doc: "every storage-reaching call carries the caller's / connection's context"})
}

// errException is one by-design deviation, confirmed by reading the source.
type errException struct {
	Fn, Callee string
	Verdicts   []an.ErrVerdict
	Reason     string
	// Guards that must dominate the place where the error is swallowed:
	// "nosuchkey" = errors.As(..) && Code()=="NoSuchKey"; "param:<name>" = bool parameter is true.
	Guards []string
}

// storageErrExceptions: frozen table (DESIGN.md 5/C14). One construct each.
var storageErrExceptions = []errException{
	{"(*kv.DB).moveMergedRoots", "Store", []an.ErrVerdict{an.ErrSwallowed}, "retiring merged parents is best-effort by design: a parent left in current/ is merely merged again", nil},
	{"(*kv.DB).moveMergedRoots", "DeleteObjectWithContext", []an.ErrVerdict{an.ErrSwallowed}, "retiring merged parents is best-effort by design", nil},
	{"kv.mergeRoots", "Load", []an.ErrVerdict{an.ErrSwallowed}, "merge-on-open skips a version whose objects answer a well-formed NoSuchKey (vacuumed), only when listing", []string{"nosuchkey", "param:skipUnreadable"}},
	{"kv.mergeRoots", "Clone", []an.ErrVerdict{an.ErrSwallowed}, "merge-on-open skips a version it cannot fold, only when listing (never for an explicit version set)", []string{"param:skipUnreadable"}},
	{"kv.loadRootFromAny", "loadRoot", []an.ErrVerdict{an.ErrSwallowed}, "a well-formed NoSuchKey in one prefix means: try the next prefix", []string{"nosuchkey"}},
	{"(*kv.DB).getHistoricRootsAndNodes", "Load", []an.ErrVerdict{an.ErrSwallowed}, "vacuum candidate discovery skips what it cannot read: fewer deletions, the safe direction", nil},
	{"(*kv.DB).getHistoricRootsAndNodes", "DiffLinks", []an.ErrVerdict{an.ErrSwallowed, an.ErrDropped}, "vacuum candidate discovery skips what it cannot diff: fewer deletions, the safe direction", nil},
	{"kv.DeleteHistoricVersions", "loadRoot", []an.ErrVerdict{an.ErrSwallowed, an.ErrDropped}, "optional clean-up of an empty current version; on error it is simply kept", nil},
	{"(*sqlite.VacuumCursor).Filter", "Vacuum", []an.ErrVerdict{an.ErrStored}, "reported to the user as the vacuum_error column by design", nil},
}

type errSite struct {
	Fn     *ssa.Function
	Call   ssa.CallInstruction
	Callee string
	Err    ssa.Value
}

// storageErrSites enumerates every call in library code with an error result whose callee can
// reach the S3 client.
func storageErrSites(c *Ctx) []errSite {
	e := c.Eff()
	fs := e.ReachSet(nil)
	var out []errSite
	for _, fn := range c.P.RepoFuncs(an.LibraryPkg) {
		for _, b := range fn.Blocks {
			for _, in := range b.Instrs {
				call, ok := in.(ssa.CallInstruction)
				if !ok {
					continue
				}
				reaches := false
				for _, cal := range e.Callees(call) {
					if _, isSink := an.SinkOf(cal); isSink || fs[cal] {
						reaches = true
						break
					}
				}
				if !reaches {
					continue
				}
				ev, hasErr := an.ErrResult(call)
				if !hasErr {
					continue
				}
				out = append(out, errSite{fn, call, calleeLabel(call), ev})
			}
		}
	}
	sort.SliceStable(out, func(i, j int) bool { return out[i].Call.Pos() < out[j].Call.Pos() })
	return out
}

func calleeLabel(call ssa.CallInstruction) string {
	cc := call.Common()
	if cc.IsInvoke() {
		return cc.Method.Name()
	}
	if f := cc.StaticCallee(); f != nil {
		return f.Name()
	}
	// dynamic call of a func value: name it by what is called
	return strings.TrimPrefix(cc.Value.Name(), "t") + "(func value)"
}

func funcValueLabel(call ssa.CallInstruction) string {
	cc := call.Common()
	if fv := an.FieldOfLoad(cc.Value); fv != nil {
		return "field " + fv.Name()
	}
	if p, ok := cc.Value.(*ssa.Parameter); ok {
		return "param " + p.Name()
	}
	return "func value"
}

// errorsRule runs the error-discipline rule; keep filters by file (nil = all library code).
func errorsRule(c *Ctx, rule string, keep func(pos string) bool) {
	sites := storageErrSites(c)
	nProp, nExc := 0, 0
	usedExc := map[int]bool{}
	for _, s := range sites {
		pos := c.P.Pos(s.Call.Pos())
		if keep != nil && !keep(pos) {
			continue
		}
		fname := core.FuncName(s.Fn)
		c.R.SawFunc(fname)
		callee := s.Callee
		if strings.HasSuffix(callee, "(func value)") {
			callee = funcValueLabel(s.Call)
		}
		construct := fname + " -> " + callee
		var flow *an.ErrFlow
		if s.Err == nil {
			flow = &an.ErrFlow{Verdict: an.ErrDropped, Why: "error result is discarded at the call"}
		} else {
			flow = an.AnalyzeErr(s.Fn, s.Err)
		}
		if flow.Verdict == an.ErrPropagated {
			nProp++
			c.R.OK(rule, construct, pos, flow.Why)
			continue
		}
		matched := false
		for i, ex := range storageErrExceptions {
			if ex.Fn != fname || ex.Callee != callee {
				continue
			}
			for _, v := range ex.Verdicts {
				if v == flow.Verdict {
					matched = true
				}
			}
			if matched {
				if why := guardsHold(s.Fn, flow, ex.Guards); why != "" {
					matched = false
					flow.Why += "; the by-design skip is only allowed " + why
					break
				}
				usedExc[i] = true
				nExc++
				g := ""
				if len(ex.Guards) > 0 {
					g = " [guards verified: " + strings.Join(ex.Guards, ", ") + "]"
				}
				c.R.OK(rule, construct, pos, "by-design exception ("+flow.Verdict.String()+"): "+ex.Reason+g)
				break
			}
		}
		if matched {
			continue
		}
		at := pos
		if flow.At.IsValid() {
			at = c.P.Pos(flow.At)
		}
		c.R.Bad(rule, construct, pos, fmt.Sprintf("storage error %s: %s (at %s)", flow.Verdict, flow.Why, at))
	}
	c.R.Stats[rule+".sites"] = c.R.Counts[rule]
	c.R.Stats[rule+".propagated"] = nProp
	c.R.Stats[rule+".exceptions"] = nExc
	if keep == nil {
		for i, ex := range storageErrExceptions {
			if !usedExc[i] {
				c.R.Notes = append(c.R.Notes, fmt.Sprintf("exception %s -> %s no longer needed (site propagates or is gone)", ex.Fn, ex.Callee))
			}
		}
	}
}

// ---- C14.ctx ---------------------------------------------------------------------------------

func connCtxFields(c *Ctx) map[*types.Var]bool {
	out := map[*types.Var]bool{}
	for _, f := range [][3]string{{"sqlite", "S3DBConn", "ctx"}, {"sqlite", "Cursor", "ctx"}} {
		v := an.LookupField(c.P, f[0], f[1], f[2])
		if v == nil {
			c.R.Errorf("anchor field %s.%s.%s not found", f[0], f[1], f[2])
			continue
		}
		out[v] = true
	}
	return out
}

func c14Ctx(c *Ctx) {
	const rule = "C14.ctx"
	allowed := connCtxFields(c)
	for _, s := range storageErrSites(c) {
		args := s.Call.Common().Args
		var ctxArg ssa.Value
		for _, a := range args {
			if an.IsContextType(a.Type()) {
				ctxArg = a
				break
			}
		}
		if ctxArg == nil {
			continue
		}
		fname := core.FuncName(s.Fn)
		callee := s.Callee
		if strings.HasSuffix(callee, "(func value)") {
			callee = funcValueLabel(s.Call)
		}
		why, ok := an.CtxOrigin(ctxArg, allowed, 0)
		c.R.Cond(ok, rule, fname+" -> "+callee, c.P.Pos(s.Call.Pos()), "context is "+why, "storage request would not be bounded by the connection's deadline: "+why)
	}
}

func init() {
	claim("C14", "C14 clauses decided: (errors) every call in library code whose callee can reach the S3 client and returns an error has that error returned, wrapped into the returned error, or nil-tested with an error exit on every path of the non-nil side; deviations are a frozen, commented exception table; (ctx) the context passed to such a call derives from the function's own context parameter or the per-connection context. Not decided: absence of panics in general, wall-clock bounds, recovery after the fault clears.",
		"C14.errors", "C14.ctx")
}

// guardsHold returns "" when every guard dominates the swallow point, else what is missing.
func guardsHold(fn *ssa.Function, flow *an.ErrFlow, guards []string) string {
	if len(guards) == 0 {
		return ""
	}
	if len(flow.Swallows) == 0 {
		return "under guards " + strings.Join(guards, ", ") + " but the swallow point could not be located"
	}
	for _, sw := range flow.Swallows {
		b := an.Edge{From: sw.From, To: sw.To}
		for _, g := range guards {
			switch {
			case g == "nosuchkey":
				if !an.GuardedByCall(b, "errors", "As") || !an.GuardedByStringEq(b, "Code", "NoSuchKey") {
					return "when errors.As(err,&awsErr) && awsErr.Code()==NoSuchKey holds"
				}
			case strings.HasPrefix(g, "param:"):
				p := an.ParamNamed(fn, strings.TrimPrefix(g, "param:"))
				if p == nil {
					return "under parameter " + g + " (parameter not found)"
				}
				if !an.GuardedByValue(b, func(v ssa.Value) bool { return v == p }, true) {
					return "when " + strings.TrimPrefix(g, "param:") + " is true"
				}
			}
		}
	}
	return ""
}
