package rules

import (
	"fmt"
	"go/token"
	"go/types"
	"sort"
	"strings"

	"golang.org/x/tools/go/ssa"

	"s3dbcheck/an"
	"s3dbcheck/core"
)

func init() {
	register(&Rule{Name: "C14.errors", Min: 100, Run: func(c *Ctx) { errorsRule(c, "C14.errors", nil) },
		Doc: "every error returned by a call that can reach the S3 client is propagated"})
	register(&Rule{Name: "C14.ctx", Min: 60, Run: c14Ctx,
		Doc: "every storage-reaching call carries the caller's / connection's context"})
}

// errException is one by-design deviation, confirmed by reading the source.
type errException struct {
	Fn, Callee string
	Verdicts   []an.ErrVerdict
	Reason     string
	// Guards that must dominate the place where the error is swallowed:
	// "nosuchkey" = errors.As(..) && Code()=="NoSuchKey"; "param:<name>" = bool parameter is true.
	Guards []string
}

// storageErrExceptions: frozen table (DESIGN.md 5/C14). One construct each.
var storageErrExceptions = []errException{
	{"<retire>", "*", []an.ErrVerdict{an.ErrSwallowed, an.ErrDropped}, "retiring merged parents is best-effort by design: a parent left in current/ is merely merged again (applies to the function that copies to merged/ and deletes from current/, and to the loop that calls it)", nil},
	{"kv.mergeRoots", "Load", []an.ErrVerdict{an.ErrSwallowed}, "merge-on-open skips a version whose objects answer a well-formed NoSuchKey (vacuumed), only when listing", []string{"nosuchkey", "param:skipUnreadable"}},
	{"kv.mergeRoots", "Clone", []an.ErrVerdict{an.ErrSwallowed}, "merge-on-open skips a version it cannot fold because an object answers a well-formed NoSuchKey (vacuumed), only when listing (never for an explicit version set). Until repair c76a515 this entry demanded only the skipUnreadable guard: a transport error then left a committed version out of an open that reported success", []string{"nosuchkey", "param:skipUnreadable"}},
	{"kv.loadRootFromAny", "loadRoot", []an.ErrVerdict{an.ErrSwallowed}, "a well-formed NoSuchKey in one prefix means: try the next prefix", []string{"nosuchkey"}},
	{"(*kv.DB).getHistoricRootsAndNodes", "Load", []an.ErrVerdict{an.ErrSwallowed}, "vacuum's candidate discovery passes over a version whose objects an interrupted earlier vacuum has already deleted (well-formed NoSuchKey). Until repair a2b321f any error was passed over here, on the argument 'fewer deletions is the safe direction' — but the version object was deleted all the same and its nodes leaked", []string{"nosuchkey"}},
	{"(*kv.DB).getHistoricRootsAndNodes", "DiffLinks", []an.ErrVerdict{an.ErrSwallowed, an.ErrDropped}, "vacuum candidate discovery skips what it cannot diff: fewer deletions, the safe direction. Only the pairwise diffs between a retired version and its successors: the walk over the handle's own (retained) tree takes nodes OFF the deletion list, so an error there means MORE deletions and is not covered (until round 5 this entry matched every DiffLinks call of the function); since repair a2b321f only a well-formed NoSuchKey", []string{"recv-not-live", "nosuchkey"}},
	{"kv.DeleteHistoricVersions", "loadRoot", []an.ErrVerdict{an.ErrSwallowed, an.ErrDropped}, "optional clean-up of an empty current version; on error it is simply kept", nil},
	{"(*sqlite.VacuumCursor).Filter", "Vacuum", []an.ErrVerdict{an.ErrStored}, "reported to the user as the vacuum_error column by design", nil},
}

type errSite struct {
	Fn     *ssa.Function
	Call   ssa.CallInstruction
	Callee string
	Err    ssa.Value
}

// storageErrSites enumerates every call in library code with an error result whose callee can
// reach the S3 client.
func storageErrSites(c *Ctx) []errSite {
	e := c.Eff()
	fs := e.ReachSet(nil)
	var out []errSite
	for _, fn := range c.P.RepoFuncs(an.LibraryPkg) {
		for _, b := range fn.Blocks {
			for _, in := range b.Instrs {
				call, ok := in.(ssa.CallInstruction)
				if !ok {
					continue
				}
				reaches := false
				for _, cal := range e.Callees(call) {
					if _, isSink := an.SinkOf(cal); isSink || fs[cal] {
						reaches = true
						break
					}
				}
				if !reaches {
					continue
				}
				ev, hasErr := an.ErrResult(call)
				if !hasErr {
					continue
				}
				out = append(out, errSite{fn, call, calleeLabel(call), ev})
			}
		}
	}
	sort.SliceStable(out, func(i, j int) bool { return out[i].Call.Pos() < out[j].Call.Pos() })
	return out
}

func calleeLabel(call ssa.CallInstruction) string {
	cc := call.Common()
	if cc.IsInvoke() {
		return cc.Method.Name()
	}
	if f := cc.StaticCallee(); f != nil {
		return f.Name()
	}
	// dynamic call of a func value: name it by what is called
	return strings.TrimPrefix(cc.Value.Name(), "t") + "(func value)"
}

func funcValueLabel(call ssa.CallInstruction) string {
	cc := call.Common()
	if fv := an.FieldOfLoad(cc.Value); fv != nil {
		return "field " + fv.Name()
	}
	if p, ok := cc.Value.(*ssa.Parameter); ok {
		return "param " + p.Name()
	}
	return "func value"
}

// errorsRule runs the error-discipline rule; keep filters by file (nil = all library code).
func errorsRule(c *Ctx, rule string, keep func(pos string) bool) {
	sites := storageErrSites(c)
	nProp, nExc := 0, 0
	usedExc := map[int]bool{}
	for _, s := range sites {
		pos := c.P.Pos(s.Call.Pos())
		if keep != nil && !keep(pos) {
			continue
		}
		fname := core.FuncName(s.Fn)
		c.R.SawFunc(fname)
		callee := s.Callee
		if strings.HasSuffix(callee, "(func value)") {
			callee = funcValueLabel(s.Call)
		}
		construct := fname + " -> " + callee
		var flow *an.ErrFlow
		if s.Err == nil {
			flow = &an.ErrFlow{Verdict: an.ErrDropped, Why: "error result is discarded at the call"}
		} else {
			flow = an.AnalyzeErr(s.Fn, s.Err)
		}
		if flow.Verdict == an.ErrPropagated {
			nProp++
			c.R.OK(rule, construct, pos, flow.Why)
			continue
		}
		matched := false
		for i, ex := range storageErrExceptions {
			if ex.Fn == "<retire>" {
				r := retireFunc(c)
				in := r != nil && (s.Fn == r || s.Call.Common().StaticCallee() == r)
				if !in {
					continue
				}
			} else if ex.Callee != callee {
				continue
			} else if ex.Fn != fname {
				// the site may have moved into a helper split out of the named function
				anchorFn := funcByDisplayName(c, ex.Fn)
				if anchorFn == nil || anchorFn == s.Fn || !c.Scope(anchorFn).Contains(s.Fn) {
					continue
				}
			}
			if hasGuard(ex.Guards, "recv-not-live") {
				rv := an.RecvValue(s.Call)
				crdtF := an.LookupField(c.P, "kv", "DB", "crdt")
				if rv != nil && crdtF != nil && an.HasField(rv, crdtF) {
					continue
				}
			}
			for _, v := range ex.Verdicts {
				if v == flow.Verdict {
					matched = true
				}
			}
			if matched {
				if why := guardsHold(s.Fn, flow, ex.Guards); why != "" {
					matched = false
					flow.Why += "; the by-design skip is only allowed " + why
					break
				}
				usedExc[i] = true
				nExc++
				g := ""
				if len(ex.Guards) > 0 {
					g = " [guards verified: " + strings.Join(ex.Guards, ", ") + "]"
				}
				c.R.OK(rule, construct, pos, "by-design exception ("+flow.Verdict.String()+"): "+ex.Reason+g)
				break
			}
		}
		if matched {
			continue
		}
		at := pos
		if flow.At.IsValid() {
			at = c.P.Pos(flow.At)
		}
		c.R.Bad(rule, construct, pos, fmt.Sprintf("storage error %s: %s (at %s)", flow.Verdict, flow.Why, at))
	}
	c.R.Stats[rule+".sites"] = c.R.Counts[rule]
	c.R.Stats[rule+".propagated"] = nProp
	c.R.Stats[rule+".exceptions"] = nExc
	if keep == nil {
		for i, ex := range storageErrExceptions {
			if !usedExc[i] {
				c.R.Notes = append(c.R.Notes, fmt.Sprintf("exception %s -> %s no longer needed (site propagates or is gone)", ex.Fn, ex.Callee))
			}
		}
	}
}

// ---- C14.ctx ---------------------------------------------------------------------------------

func connCtxFields(c *Ctx) map[*types.Var]bool {
	out := map[*types.Var]bool{}
	for _, f := range [][3]string{{"sqlite", "S3DBConn", "ctx"}, {"sqlite", "Cursor", "ctx"}} {
		v := an.LookupField(c.P, f[0], f[1], f[2])
		if v == nil {
			c.R.Errorf("anchor field %s.%s.%s not found", f[0], f[1], f[2])
			continue
		}
		out[v] = true
	}
	return out
}

func c14Ctx(c *Ctx) {
	const rule = "C14.ctx"
	allowed := connCtxFields(c)
	for _, s := range storageErrSites(c) {
		args := s.Call.Common().Args
		var ctxArg ssa.Value
		for _, a := range args {
			if an.IsContextType(a.Type()) {
				ctxArg = a
				break
			}
		}
		if ctxArg == nil {
			continue
		}
		fname := core.FuncName(s.Fn)
		callee := s.Callee
		if strings.HasSuffix(callee, "(func value)") {
			callee = funcValueLabel(s.Call)
		}
		why, ok := an.CtxOrigin(ctxArg, allowed, 0)
		c.R.Cond(ok, rule, fname+" -> "+callee, c.P.Pos(s.Call.Pos()), "context is "+why, "storage request would not be bounded by the connection's deadline: "+why)
	}
	// the trusted fields themselves: what is stored into a cursor's context is the connection's
	// context (or derived from it without detaching); the connection's own context is C15.conn's subject
	connCtx := an.LookupField(c.P, "sqlite", "S3DBConn", "ctx")
	curCtx := an.LookupField(c.P, "sqlite", "Cursor", "ctx")
	if connCtx == nil || curCtx == nil {
		return
	}
	n := 0
	for _, fn := range c.P.RepoFuncs(an.LibraryPkg) {
		for _, b := range fn.Blocks {
			for _, in := range b.Instrs {
				st, ok := in.(*ssa.Store)
				if !ok {
					continue
				}
				fa, ok := st.Addr.(*ssa.FieldAddr)
				if !ok || an.FieldVar(fa.X.Type(), fa.Field) != curCtx {
					continue
				}
				n++
				why, good := an.CtxOrigin(st.Val, map[*types.Var]bool{connCtx: true}, 0)
				c.R.Cond(good, rule, fmt.Sprintf("%s: cursor context #%d", core.FuncName(fn), n), c.P.Pos(st.Pos()), "a cursor's context is "+why,
					"the context a cursor reads with is not the connection's: "+why+" — every GET of a scan (SELECT, and the scanning half of UPDATE/DELETE) then runs without the connection's deadline and blocks for as long as the store stays silent")
			}
		}
	}
	if n == 0 {
		c.R.Unk(rule, "cursor context", "-", "no store into Cursor.ctx found")
	}
}

func init() {
	claim("C14", "C14 clauses decided: (errors) every call in library code whose callee can reach the S3 client and returns an error has that error returned, wrapped into the returned error, or nil-tested with an error exit on every path of the non-nil side; deviations are a frozen, commented exception table; (ctx) the context passed to such a call derives from the function's own context parameter or the per-connection context. Not decided: absence of panics in general, wall-clock bounds, recovery after the fault clears.",
		"C14.errors", "C14.ctx")
}

// guardsHold returns "" when every guard dominates the swallow point, else what is missing.
func guardsHold(fn *ssa.Function, flow *an.ErrFlow, guards []string) string {
	if len(guards) == 0 {
		return ""
	}
	if len(flow.Swallows) == 0 {
		return "under guards " + strings.Join(guards, ", ") + " but the swallow point could not be located"
	}
	for _, sw := range flow.Swallows {
		b := an.Edge{From: sw.From, To: sw.To}
		for _, g := range guards {
			switch {
			case g == "nosuchkey":
				if !an.GuardedByNoSuchKey(b) {
					return "when errors.As(err,&awsErr) && awsErr.Code()==NoSuchKey holds"
				}
			case strings.HasPrefix(g, "param:"):
				p := an.BoolParamUnderError(fn, strings.TrimPrefix(g, "param:"))
				if p == nil {
					return "under parameter " + g + " (parameter not found)"
				}
				if !an.GuardedByValue(b, func(v ssa.Value) bool { return v == p }, true) {
					return "when " + strings.TrimPrefix(g, "param:") + " is true"
				}
			}
		}
	}
	return ""
}

// ---- C14.handle: a writable kv handle must be Cancel()ed before it is dropped --------------------

func init() {
	register(&Rule{Name: "C14.handle", Min: 4, Run: c14Handle,
		Doc: "every store that replaces a live kv handle (KV.Root, VirtualTable.Tree) is preceded on all paths by Cancel() of the handle being dropped"})
	register(&Rule{Name: "C14.split-index", Min: 3, Run: c14SplitIndex,
		Doc: "an index >= 1 into the result of strings.Split/SplitN is only reached through a sufficient len test"})
	byProp["C14"] = append(byProp["C14"], "C14.handle", "C14.split-index", "C07.null-operand", "C03.commit-order")
	explain["C14"] += " Further clauses: handle (kv's own contract: a dirty handle that is dropped without Cancel() makes its finalizer panic the host at the next GC), split-index (module arguments without '=' must not index past the split: the panic would cross cgo), null-operand (shared with C07), commit-order (shared with C03: success is acknowledged only after the version PUT)."
}

func c14Handle(c *Ctx) {
	const rule = "C14.handle"
	kvRoot := mustField(c, "", "KV", "Root")
	vtTree := mustField(c, "", "VirtualTable", "Tree")
	if kvRoot == nil || vtTree == nil {
		return
	}
	for _, fn := range c.P.RepoFuncs(an.LibraryPkg) {
		for _, b := range fn.Blocks {
			for _, in := range b.Instrs {
				st, ok := in.(*ssa.Store)
				if !ok {
					continue
				}
				fa, ok := st.Addr.(*ssa.FieldAddr)
				if !ok {
					continue
				}
				fv := an.FieldVar(fa.X.Type(), fa.Field)
				if fv != kvRoot && fv != vtTree {
					continue
				}
				// initialisation of a struct created in this function is not a replacement
				if _, fresh := an.ExprRoot(fa.X).(*ssa.Alloc); fresh {
					continue
				}
				fname := core.FuncName(fn)
				c.R.SawFunc(fname)
				// the handle being dropped, as an expression
				var want string
				if fv == kvRoot {
					want = "*(" + an.ExprKey(fa) + ")"
				} else {
					want = "*(&(*(" + an.ExprKey(fa) + "))." + kvRoot.Name() + ")"
				}
				ok2 := false
				for _, call := range an.Calls(fn) {
					if !an.CalleeIs(call, kvPkg, "DB", "Cancel") {
						continue
					}
					if an.ExprKey(call.Common().Args[0]) != want {
						continue
					}
					if an.InstrBefore(call, st) {
						ok2 = true
					}
				}
				what := "KV.Root"
				if fv == vtTree {
					what = "VirtualTable.Tree"
				}
				c.R.Cond(ok2, rule, fname+": replaces "+what, c.P.Pos(st.Pos()), "the handle being dropped is Cancel()ed first on every path",
					"a live kv handle is overwritten without Cancel(): if it holds uncommitted writes its finalizer panics the host process at the next GC")
				// the replacement exists: a value produced by a fallible call is installed only
				// after that call succeeded (otherwise a failed re-open leaves the table with a nil tree)
				if !an.IsNilConst(st.Val) {
					if ex, ok := an.Unwrap(st.Val).(*ssa.Extract); ok {
						if cl, ok := ex.Tuple.(*ssa.Call); ok {
							if _, hasErr := an.ErrResult(cl); hasErr {
								okS, why := an.SuccessDominates(cl, st)
								c.R.Cond(okS, rule, fname+": installs "+what+" only after it was opened successfully", c.P.Pos(st.Pos()),
									"the new handle is installed on the success path of "+calleeLabel(cl), "the result of "+calleeLabel(cl)+" is stored into the live table before its error is checked: when it fails (storage fault, expired deadline) the table is left with a nil tree and the next statement dereferences it inside a cgo callback ("+why+")")
							}
						}
					}
				}
			}
		}
	}
}

// ---- C14.split-index ---------------------------------------------------------------------------------

func c14SplitIndex(c *Ctx) {
	const rule = "C14.split-index"
	for _, fn := range c.P.RepoFuncs(an.LibraryPkg) {
		for _, b := range fn.Blocks {
			for _, in := range b.Instrs {
				var base, idx ssa.Value
				switch x := in.(type) {
				case *ssa.IndexAddr:
					base, idx = x.X, x.Index
				case *ssa.Index:
					base, idx = x.X, x.Index
				default:
					continue
				}
				cl, ok := base.(*ssa.Call)
				if !ok {
					continue
				}
				f := cl.Call.StaticCallee()
				if f == nil || an.PkgPathOf(f) != "strings" || !(f.Name() == "Split" || f.Name() == "SplitN" || f.Name() == "SplitAfter" || f.Name() == "SplitAfterN" || f.Name() == "Fields") {
					continue
				}
				k, ok := idx.(*ssa.Const)
				if !ok || k.Value == nil {
					continue // variable index: a loop over the parts
				}
				iv, _ := constantInt(k)
				if iv < 1 {
					continue // element 0 always exists for Split/SplitN
				}
				fname := core.FuncName(fn)
				c.R.SawFunc(fname)
				guarded := false
				for _, blk := range fn.Blocks {
					iff, ok := blk.Instrs[len(blk.Instrs)-1].(*ssa.If)
					if !ok {
						continue
					}
					cond, neg := an.StripNot(iff.Cond)
					bo, ok := cond.(*ssa.BinOp)
					if !ok {
						continue
					}
					isLen := func(v ssa.Value) bool {
						lc, ok := v.(*ssa.Call)
						if !ok {
							return false
						}
						bi, ok := lc.Call.Value.(*ssa.Builtin)
						return ok && bi.Name() == "len" && lc.Call.Args[0] == base
					}
					var K int64
					op := bo.Op
					switch {
					case isLen(bo.X):
						kc, ok := bo.Y.(*ssa.Const)
						if !ok {
							continue
						}
						K, _ = constantInt(kc)
					case isLen(bo.Y):
						kc, ok := bo.X.(*ssa.Const)
						if !ok {
							continue
						}
						K, _ = constantInt(kc)
						op = flipOp(op)
					default:
						continue
					}
					// minimum length implied on each side: [true side, false side], -1 = nothing
					var minT, minF int64 = -1, -1
					switch op {
					case token.EQL:
						minT = K
					case token.NEQ:
						minF = K
					case token.LSS:
						minF = K
					case token.LEQ:
						minF = K + 1
					case token.GTR:
						minT = K + 1
					case token.GEQ:
						minT = K
					}
					if neg {
						minT, minF = minF, minT
					}
					if minT > iv && an.OnlyVia(blk, 0, b) {
						guarded = true
					}
					if minF > iv && an.OnlyVia(blk, 1, b) {
						guarded = true
					}
				}
				c.R.Cond(guarded, rule, fmt.Sprintf("%s: %s(..)[%d]", fname, f.Name(), iv), c.P.Pos(in.Pos()),
					"reached only when len(parts) > index", "the split result is indexed without a length test: an argument without the separator panics (index out of range) through cgo")
			}
		}
	}
}

func constantInt(k *ssa.Const) (int64, bool) {
	if k.Value == nil {
		return 0, false
	}
	return k.Int64(), true
}

func flipOp(op token.Token) token.Token {
	switch op {
	case token.LSS:
		return token.GTR
	case token.LEQ:
		return token.GEQ
	case token.GTR:
		return token.LSS
	case token.GEQ:
		return token.LEQ
	}
	return op
}

// funcByDisplayName finds the library function with that stable display name.
func funcByDisplayName(c *Ctx, name string) *ssa.Function {
	for _, f := range c.P.RepoFuncs(an.LibraryPkg) {
		if f.Parent() == nil && core.FuncName(f) == name {
			return f
		}
	}
	return nil
}


func hasGuard(gs []string, g string) bool {
	for _, x := range gs {
		if x == g {
			return true
		}
	}
	return false
}
