package rules

import (
	"fmt"
	"go/token"
	"go/types"
	"sort"
	"strings"

	"golang.org/x/tools/go/ssa"

	"s3dbcheck/an"
	"s3dbcheck/core"
)

func init() {
	register(&Rule{Name: "C02.time", Min: 7, Run: c02Time,
		Doc: "one statement time: the time given to kv Set is the t2/outTime of the row merge and comes from updateTime(ctx); outTime == t2 at every MergeRows call"})
	register(&Rule{Name: "C02.clock", Min: 3, Run: c02Clock,
		Doc: "time.Now is read only where the design says (updateTime fallback, version creation, xBegin)"})
	register(&Rule{Name: "C02.nochange", Min: 2, Run: c02NoChange,
		Doc: "an UPDATE assigns exactly the columns SQLite marks as changed"})
	register(&Rule{Name: "C02.delta", Min: 5, Run: c02Delta,
		Doc: "every local write stores MergeRows(stored row, delta) and records every column value given, NULL included"})
	register(&Rule{Name: "C02.merge-pairing", Min: 1, Run: c02MergePairing,
		Doc: "the cross-writer merge callback pairs each row with its own time and merges onto the later one"})
	claim("C02", "C02: necessary plumbing of the documented conflict rule, decided on all paths: time (a single statement time, taken from the connection's context, stamps the entry, the delta and the merge output; the merge output time is always the later input's time, which is the entry's modification time that stored offsets are relative to), clock, nochange, delta (a write never stores a delta without merging it with the stored row, and records every assigned column including NULLs so that the assignment can win later merges), merge-pairing. Not decided: the merge rule itself (which timestamp wins, ties, reset on re-insert, the entry-level gate) — runtime values.",
		"C02.time", "C02.clock", "C02.nochange", "C02.delta", "C02.merge-pairing")
}

func mergeRowsCalls(c *Ctx, fn *ssa.Function) []*ssa.Call {
	mr := c.P.LookupFunc("", "", "MergeRows")
	var out []*ssa.Call
	for _, call := range an.Calls(fn) {
		if cl, ok := call.(*ssa.Call); ok && cl.Call.StaticCallee() == mr && mr != nil {
			out = append(out, cl)
		}
	}
	return out
}

func sameExpr(a, b ssa.Value) bool {
	return an.SameValue(a, b) || an.ExprKey(a) == an.ExprKey(b)
}

func c02Time(c *Ctx) {
	const rule = "C02.time"
	updateTime := mustFunc(c, "", "", "updateTime")
	if updateTime == nil {
		return
	}
	// outTime == t2 at every MergeRows call of the repository
	n := 0
	for _, fn := range c.P.RepoFuncs(an.LibraryPkg) {
		for _, mc := range mergeRowsCalls(c, fn) {
			n++
			a := mc.Call.Args // _, t1, r1, t2, r2, outTime
			c.R.SawFunc(core.FuncName(fn))
			c.R.Cond(sameExpr(a[3], a[5]), rule, fmt.Sprintf("%s: MergeRows outTime is t2", core.FuncName(fn)), c.P.Pos(mc.Pos()),
				"the merged row is expressed relative to the later input's time, which becomes the entry's modification time",
				"the merged row's offsets are computed against a time other than the later input's (the entry keeps the later modification time): every column and delete time of the row drifts by the difference")
		}
	}
	if n < 4 {
		c.R.Errorf("only %d MergeRows call sites found (Insert, Update, Delete and the merge callback expected)", n)
	}
	// the three local writes
	for _, m := range []string{"Insert", "Update", "Delete"} {
		fn := mustFunc(c, "", "*VirtualTable", m)
		if fn == nil {
			continue
		}
		name := core.FuncName(fn)
		ctxP := fn.Params[1]
		for _, call := range an.Calls(fn) {
			if !an.CalleeIs(call, kvPkg, "DB", "Set") {
				continue
			}
			a := call.Common().Args // recv, ctx, when, key, value
			when := a[2]
			pos := c.P.Pos(call.Pos())
			// when = updateTime(ctx)
			fromCtx := false
			if cl, ok := an.Unwrap(when).(*ssa.Call); ok && cl.Call.StaticCallee() == updateTime && cl.Call.Args[0] == ssa.Value(ctxP) {
				fromCtx = true
			}
			c.R.Cond(fromCtx, rule, name+": Set time is updateTime(ctx)", pos, "the entry is stamped with the statement time of the connection's context",
				"the entry is stamped with a time that is not updateTime(ctx) of this statement (write_time / transaction time would be ignored)")
			mrc, _ := an.Unwrap(a[4]).(*ssa.Call)
			ok := false
			if mrc != nil && mrc.Call.StaticCallee() != nil && mrc.Call.StaticCallee().Name() == "MergeRows" {
				ma := mrc.Call.Args
				ok = an.SameValue(ma[3], when) && an.SameValue(ma[5], when)
			}
			c.R.Cond(ok, rule, name+": delta and merge output carry the Set time", pos, "MergeRows(.., t, delta, t) with the same t that is passed to Set",
				"the delta row or the merge output is stamped with a different time than the entry: column offsets are skewed against the entry's modification time")
			c.R.Cond(call.Common().Args[1] == ssa.Value(ctxP), rule, name+": Set uses the statement context", pos, "ctx", "Set is called with another context")
		}
	}
}

func c02Clock(c *Ctx) {
	const rule = "C02.clock"
	allowed := map[string]string{
		"s3db.updateTime":              "fallback when the context carries no write time (guard checked)",
		"s3db.OpenKV":                  "creation time of the version a writable open may commit",
		"(*sqlite.VirtualTable).Begin": "the transaction's write time, fixed once (C05.txtime)",
	}
	for _, fn := range c.P.RepoFuncs(func(rel string) bool { return rel == "" || rel == "sqlite" || rel == "writetime" }) {
		for _, call := range an.Calls(fn) {
			f := call.Common().StaticCallee()
			if f == nil || an.PkgPathOf(f) != "time" || f.Name() != "Now" {
				continue
			}
			name := core.FuncName(fn)
			c.R.SawFunc(name)
			why, ok := allowed[name]
			if !ok {
				// a helper that only the designated functions call (e.g. pinWriteTime extracted from xBegin)
				roots := map[*ssa.Function]bool{}
				for an0 := range allowed {
					for _, f2 := range c.P.RepoFuncs(func(rel string) bool { return rel == "" || rel == "sqlite" }) {
						if core.FuncName(f2) == an0 && an0 != "s3db.updateTime" {
							roots[f2] = true
						}
					}
				}
				if onlyCalledFrom(c, fn, roots, 0) {
					c.R.OK(rule, name+": reads the clock", c.P.Pos(call.Pos()), "helper only called from a designated place")
					continue
				}
			}
			if !ok {
				c.R.Bad(rule, name+": reads the clock", c.P.Pos(call.Pos()), "time.Now() is read outside the three designated places: a second clock next to the statement time silently skews every later comparison")
				continue
			}
			if name == "s3db.updateTime" {
				// only when FromContext said !ok
				g := false
				for _, b := range fn.Blocks {
					iff, isIf := b.Instrs[len(b.Instrs)-1].(*ssa.If)
					if !isIf {
						continue
					}
					cond, neg := an.StripNot(iff.Cond)
					ex, isEx := cond.(*ssa.Extract)
					if !isEx {
						continue
					}
					cl, isCl := ex.Tuple.(*ssa.Call)
					if !isCl || cl.Call.StaticCallee() == nil || cl.Call.StaticCallee().Name() != "FromContext" {
						continue
					}
					si := 1
					if neg {
						si = 0
					}
					if an.OnlyVia(b, si, call.Block()) {
						g = true
					}
				}
				c.R.Cond(g, rule, name+": reads the clock", c.P.Pos(call.Pos()), why, "updateTime reads the clock although the context carries a write time")
				continue
			}
			c.R.OK(rule, name+": reads the clock", c.P.Pos(call.Pos()), why)
		}
	}
	// the reading is used at full resolution
	for _, fn := range c.P.RepoFuncs(func(rel string) bool { return rel == "" || rel == "sqlite" || rel == "writetime" }) {
		for _, call := range an.Calls(fn) {
			f := call.Common().StaticCallee()
			if f == nil || an.PkgPathOf(f) != "time" || f.Name() != "Now" {
				continue
			}
			cv, ok := call.(ssa.Value)
			if !ok {
				continue
			}
			coarse := ""
			seen := map[ssa.Value]bool{}
			var walk func(v ssa.Value, d int)
			walk = func(v ssa.Value, d int) {
				if v == nil || seen[v] || d > 6 || v.Referrers() == nil {
					return
				}
				seen[v] = true
				for _, r := range *v.Referrers() {
					cl, ok := r.(*ssa.Call)
					if !ok {
						if st, ok := r.(*ssa.Store); ok && st.Val == v {
							if al, ok := st.Addr.(*ssa.Alloc); ok { // spilled receiver
								for _, ar := range *al.Referrers() {
									if ld, ok := ar.(*ssa.UnOp); ok {
										walk(ld, d+1)
									}
								}
							}
						}
						continue
					}
					g := cl.Call.StaticCallee()
					if g == nil || an.PkgPathOf(g) != "time" || len(cl.Call.Args) == 0 || cl.Call.Args[0] != v {
						continue
					}
					switch g.Name() {
					case "Truncate", "Round", "Unix", "Format", "Date", "Clock":
						coarse = "time.Time." + g.Name()
					case "UTC", "In", "Local":
						walk(cl, d+1)
					}
				}
			}
			walk(cv, 0)
			name := core.FuncName(fn)
			c.R.Cond(coarse == "", rule, name+": clock at full resolution", c.P.Pos(call.Pos()),
				"the clock reading is used as it is", "the clock reading is coarsened by "+coarse+" before it becomes a write time: statements of one connection within the same unit tie, and a tie keeps the stored value — an UPDATE right after a write of the same row is dropped, a re-INSERT after a DELETE fails")
		}
	}
}

func c02NoChange(c *Ctx) {
	const rule = "C02.nochange"
	vtg := mustFunc(c, "sqlite", "", "valuesToGo")
	upd := mustFunc(c, "sqlite", "*VirtualTable", "Update")
	if vtg == nil || upd == nil {
		return
	}
	n := 0
	for _, b := range vtg.Blocks {
		for _, in := range b.Instrs {
			mu, ok := in.(*ssa.MapUpdate)
			if !ok {
				continue
			}
			n++
			// guarded by NoChange() == false on the same element
			g := false
			for _, blk := range vtg.Blocks {
				iff, isIf := blk.Instrs[len(blk.Instrs)-1].(*ssa.If)
				if !isIf {
					continue
				}
				cond, neg := an.StripNot(iff.Cond)
				cl, isCl := cond.(*ssa.Call)
				if !isCl || !(cl.Call.IsInvoke() && cl.Call.Method.Name() == "NoChange" || cl.Call.StaticCallee() != nil && cl.Call.StaticCallee().Name() == "NoChange") {
					continue
				}
				recv := an.RecvValue(cl)
				// the stored value must be computed from the same element
				same := an.DependsOn(mu.Value, func(v ssa.Value) bool { return recv != nil && an.ExprKey(v) == an.ExprKey(recv) })
				si := 1
				if neg {
					si = 0
				}
				if same && an.OnlyVia(blk, si, b) {
					g = true
				}
			}
			c.R.Cond(g, rule, core.FuncName(vtg)+": column recorded only if changed", c.P.Pos(mu.Pos()), "res[i] is set only on the NoChange()==false side, for the same element",
				"a column SQLite marks as unchanged is recorded as assigned: an UPDATE of one column re-stamps all others and overrides concurrent writers")
		}
	}
	if n == 0 {
		c.R.Unk(rule, core.FuncName(vtg)+": column recorded only if changed", c.P.Pos(vtg.Pos()), "no map store found in valuesToGo")
	}
	// xUpdate passes valuesToGo(values)
	for _, call := range an.Calls(upd) {
		if !an.CalleeIs(call, core.ModPath, "VirtualTable", "Update") {
			continue
		}
		a := call.Common().Args
		good := false
		if cl, ok := an.Unwrap(a[len(a)-1]).(*ssa.Call); ok && cl.Call.StaticCallee() == vtg {
			good = true
		}
		c.R.Cond(good, rule, core.FuncName(upd)+": passes the changed columns only", c.P.Pos(call.Pos()), "valuesToGo(values)", "xUpdate hands all columns to Update")
	}
}

type ackState struct{ set, noRow bool }

func (a ackState) Key() string { return fmt.Sprintf("%v/%v", a.set, a.noRow) }

func c02Delta(c *Ctx) {
	const rule = "C02.delta"
	getRow := mustFunc(c, "", "", "getRow")
	colValues := mustField(c, "proto/v1", "Row", "ColumnValues")
	keyCol := mustField(c, "", "VirtualTable", "KeyCol")
	if getRow == nil || colValues == nil || keyCol == nil {
		return
	}
	for _, m := range []string{"Insert", "Update", "Delete"} {
		fn := mustFunc(c, "", "*VirtualTable", m)
		if fn == nil {
			continue
		}
		name := core.FuncName(fn)
		var oldAlloc ssa.Value
		for _, call := range an.Calls(fn) {
			if call.Common().StaticCallee() == getRow {
				for _, a := range call.Common().Args { // the **Row out-parameter
					if pt, ok := a.Type().(*types.Pointer); ok {
						if pt2, ok := pt.Elem().(*types.Pointer); ok {
							if nt := an.NamedOf(pt2); nt != nil && nt.Obj().Name() == "Row" {
								oldAlloc = a
							}
						}
					}
				}
			}
		}
		// a statement is acknowledged only after its delta was stored; the one exception is
		// "there is no such (live) row", decided by getRow's ok / the stored row's Deleted flag
		{
			rowDeleted := mustField(c, "proto/v1", "Row", "Deleted")
			sc := c.Scope(fn)
			h := an.THooks{}
			h.Instr = func(in ssa.Instruction, st an.TState) an.TState {
				s := st.(ackState)
				if cl, ok := in.(ssa.CallInstruction); ok && an.CalleeIs(cl, kvPkg, "DB", "Set") {
					s.set = true
				}
				return s
			}
			h.Branch = func(iff *ssa.If, side bool, st an.TState) an.TState {
				s := st.(ackState)
				cond, neg := an.StripNot(iff.Cond)
				val := side != neg
				if ex, ok := cond.(*ssa.Extract); ok && ex.Index == 0 {
					if cl, ok := ex.Tuple.(*ssa.Call); ok && cl.Call.StaticCallee() == getRow && !val {
						s.noRow = true
					}
				}
				if rowDeleted != nil && an.FieldOfLoad(cond) == rowDeleted && val {
					s.noRow = true
				}
				return s
			}
			exits := an.WalkTypestate(fn, ackState{}, h, sc)
			good := len(exits) > 0
			why := ""
			for _, ex := range exits {
				s := ex.St.(ackState)
				if ex.ErrNil == 0 || s.set {
					continue
				}
				if m == "Update" && s.noRow {
					continue // UPDATE of a row that does not exist (any more): nothing to do
				}
				good = false
				why = "the statement can be acknowledged at " + c.P.Pos(ex.Ret.Pos()) + " without its delta having been stored (and not because the row does not exist): e.g. an UPDATE that 'changes nothing' is skipped, so its write time is never recorded and an older conflicting statement later wins"
			}
			c.R.Cond(good, rule, name+": acknowledged only after the delta is stored", c.P.Pos(fn.Pos()), "every successful return follows the Set (Update: or the row does not exist)", why)
		}
		for _, call := range an.Calls(fn) {
			if !an.CalleeIs(call, kvPkg, "DB", "Set") {
				continue
			}
			val := call.Common().Args[4]
			mrc, _ := an.Unwrap(val).(*ssa.Call)
			good := false
			if mrc != nil && mrc.Call.StaticCallee() != nil && mrc.Call.StaticCallee().Name() == "MergeRows" && oldAlloc != nil {
				r1 := mrc.Call.Args[2]
				if ld, ok := r1.(*ssa.UnOp); ok && ld.Op == token.MUL && ld.X == oldAlloc {
					good = true
				}
			}
			c.R.Cond(good, rule, name+": stores MergeRows(stored, delta)", c.P.Pos(call.Pos()), "the value written is the merge of the row fetched by getRow with the statement's delta",
				"a delta is written without being merged with the stored row (columns the statement did not assign would be lost)")
		}
		if m == "Delete" {
			continue
		}
		// every value given is recorded: the loop over `values` reaches the ColumnValues store on
		// every iteration except i == KeyCol
		var mu *ssa.MapUpdate
		for _, b := range fn.Blocks {
			for _, in := range b.Instrs {
				if x, ok := in.(*ssa.MapUpdate); ok && an.FieldOfLoad(x.Map) == colValues {
					mu = x
				}
			}
		}
		if mu == nil {
			c.R.Bad(rule, name+": records every assigned column", c.P.Pos(fn.Pos()), "no store into the delta row's ColumnValues")
			continue
		}
		H := loopHeaderOf(mu.Block())
		if H == nil {
			c.R.Unk(rule, name+": records every assigned column", c.P.Pos(mu.Pos()), "the ColumnValues store is not in a loop over the values")
			continue
		}
		// forbidden edges: the i == KeyCol side
		forbid := map[[2]*ssa.BasicBlock]bool{}
		for _, b := range fn.Blocks {
			iff, ok := b.Instrs[len(b.Instrs)-1].(*ssa.If)
			if !ok || !H.Dominates(b) {
				continue
			}
			cond, neg := an.StripNot(iff.Cond)
			bo, ok := cond.(*ssa.BinOp)
			if !ok || (bo.Op != token.EQL && bo.Op != token.NEQ) {
				continue
			}
			if an.FieldOfLoad(bo.X) != keyCol && an.FieldOfLoad(bo.Y) != keyCol {
				continue
			}
			eq := bo.Op == token.EQL
			if neg {
				eq = !eq
			}
			si := 0
			if !eq {
				si = 1
			}
			forbid[[2]*ssa.BasicBlock{b, b.Succs[si]}] = true
		}
		// body start: the in-loop successor of the header
		skipped := false
		for _, s := range H.Succs {
			if !H.Dominates(s) || !an.ReachableFromBlock(s, H, nil) {
				continue
			}
			if s == mu.Block() {
				continue
			}
			// search a path s -> H avoiding mu.Block and forbidden edges
			seen := map[*ssa.BasicBlock]bool{s: true}
			work := []*ssa.BasicBlock{s}
			for len(work) > 0 && !skipped {
				b := work[len(work)-1]
				work = work[:len(work)-1]
				for _, nx := range b.Succs {
					if forbid[[2]*ssa.BasicBlock{b, nx}] || nx == mu.Block() {
						continue
					}
					if nx == H {
						skipped = true
						break
					}
					if !seen[nx] && H.Dominates(nx) {
						seen[nx] = true
						work = append(work, nx)
					}
				}
			}
		}
		c.R.Cond(!skipped, rule, name+": records every assigned column", c.P.Pos(mu.Pos()),
			"every iteration over the given values stores into the delta row, except the key column",
			"some given value is not recorded in the delta row (a path other than 'i == KeyCol' skips the store): e.g. a NULL or 'equal' value leaves no trace of the assignment, so an older value of another writer survives the merge")
	}
	_ = strings.Join
}

func c02MergePairing(c *Ctx) {
	const rule = "C02.merge-pairing"
	fn := mustFunc(c, "", "", "mergeValues")
	modF := mustField(c, "kv/crdt", "Value", "ModEpochNanos")
	valF := mustField(c, "kv/crdt", "Value", "Value")
	if fn == nil || modF == nil || valF == nil {
		return
	}
	name := core.FuncName(fn)
	// base (the crdt.Value variable) of an expression that reads field f
	baseOf := func(v ssa.Value, f string) string {
		var found string
		an.DependsOn(v, func(w ssa.Value) bool {
			if fv := an.FieldOfLoad(w); fv != nil && fv.Name() == f {
				switch x := w.(type) {
				case *ssa.UnOp:
					found = an.ExprKey(x.X.(*ssa.FieldAddr).X)
				case *ssa.Field:
					found = an.ExprKey(x.X)
				}
				return true
			}
			return false
		})
		return found
	}
	calls := mergeRowsCalls(c, fn)
	if len(calls) == 0 {
		c.R.Bad(rule, name+": merges rows", c.P.Pos(fn.Pos()), "the cross-writer merge callback does not call MergeRows")
		return
	}
	for i, mc := range calls {
		a := mc.Call.Args
		t1b, r1b := baseOf(a[1], "ModEpochNanos"), baseOf(a[2], "Value")
		t2b, r2b := baseOf(a[3], "ModEpochNanos"), baseOf(a[4], "Value")
		good := t1b != "" && t1b == r1b && t2b != "" && t2b == r2b && t1b != t2b
		c.R.Cond(good, rule, fmt.Sprintf("%s: MergeRows #%d pairs each row with its own time", name, i+1), c.P.Pos(mc.Pos()),
			"(t1,r1) come from one entry and (t2,r2) from the other", "a row is merged with the other entry's modification time: all its column offsets are misread")
		// when the call sits directly under a comparison of the two modification times, t2 must be the later one
		for _, b := range fn.Blocks {
			iff, ok := b.Instrs[len(b.Instrs)-1].(*ssa.If)
			if !ok {
				continue
			}
			cond, neg := an.StripNot(iff.Cond)
			bo, ok := cond.(*ssa.BinOp)
			if !ok || (bo.Op != token.LSS && bo.Op != token.GTR && bo.Op != token.LEQ && bo.Op != token.GEQ) {
				continue
			}
			if an.FieldOfLoad(bo.X) != modF || an.FieldOfLoad(bo.Y) != modF {
				continue
			}
			xb, yb := baseOf(bo.X, "ModEpochNanos"), baseOf(bo.Y, "ModEpochNanos")
			for si := 0; si < 2; si++ {
				if !an.OnlyVia(b, si, mc.Block()) {
					continue
				}
				op := bo.Op
				holds := si == 0
				if neg {
					holds = !holds
				}
				if !holds {
					op = negateCmp(op)
				}
				// op holds between x and y: which one is later (or equal)?
				later := yb
				if op == token.GTR || op == token.GEQ {
					later = xb
				}
				c.R.Cond(later == t2b, rule, fmt.Sprintf("%s: MergeRows #%d merges onto the later entry", name, i+1), c.P.Pos(mc.Pos()),
					"under this branch the second (winning) input is the entry with the later modification time", "under this branch the earlier entry is passed as the later one")
			}
		}
	}
}

// ---- C02.decide-by-time: the row merge decides by times and presence, never by values ------------

func init() {
	register(&Rule{Name: "C02.decide-by-time", Min: 4, Run: c02DecideByTime,
		Doc: "every branch of MergeRows depends only on delete flags, column presence and write times — never on the column values themselves"})
	byProp["C02"] = append(byProp["C02"], "C02.decide-by-time", "C03.merge-inserts", "C05.txtime")
	explain["C02"] += " txtime (shared with C05): the write time a statement is stamped with is the connection's explicit write_time whenever one is set — a transaction end clears only a time that BEGIN itself fixed."
	byProp["C01"] = append(byProp["C01"], "C02.decide-by-time")
	explain["C02"] += " decide-by-time: last-write-wins means the winner of a column is chosen by write time alone; a branch that looks at the values (\"equal values are no conflict, keep the entry that is there\") keeps the older write time and lets a third, in-between write win later. merge-inserts (shared with C03): the merge callback is applied, and its result inserted, for every key whose entries differ."
}

func c02DecideByTime(c *Ctx) {
	const rule = "C02.decide-by-time"
	fn := mustFunc(c, "", "", "MergeRows")
	if fn == nil {
		return
	}
	name := core.FuncName(fn)
	// a helper of the module that never looks at a column's value (UpdateTime, DeleteUpdateTime,
	// hideDeletedValue today — found by what they do, not by their names): it loads no field called
	// Value, calls no GetValue, and everything it calls is allowed in a decision itself
	var allowedCallee func(call *ssa.Call) bool
	timeOnlyMemo := map[*ssa.Function]bool{}
	var timeOnly func(f *ssa.Function, depth int) bool
	timeOnly = func(f *ssa.Function, depth int) bool {
		if r, ok := timeOnlyMemo[f]; ok {
			return r
		}
		if f == nil || len(f.Blocks) == 0 || depth > 2 {
			return false
		}
		timeOnlyMemo[f] = false
		for _, b := range f.Blocks {
			for _, in := range b.Instrs {
				switch x := in.(type) {
				case *ssa.FieldAddr:
					if fv := an.FieldVar(x.X.Type(), x.Field); fv != nil && fv.Name() == "Value" {
						return false
					}
				case *ssa.Field:
					if fv := an.FieldVar(x.X.Type(), x.Field); fv != nil && fv.Name() == "Value" {
						return false
					}
				case *ssa.Call:
					if cal := x.Call.StaticCallee(); cal != nil && strings.HasPrefix(cal.Name(), "GetValue") {
						return false
					}
					if cal := x.Call.StaticCallee(); cal != nil && an.PkgPathOf(cal) == core.ModPath {
						if !timeOnly(cal, depth+1) {
							return false
						}
						continue
					}
					if !allowedCallee(x) {
						return false
					}
				case *ssa.Go, *ssa.Defer, *ssa.Store, *ssa.MapUpdate, *ssa.Send:
					return false
				}
			}
		}
		timeOnlyMemo[f] = true
		return true
	}
	allowedCallee = func(call *ssa.Call) bool {
		f := call.Call.StaticCallee()
		if bi, ok := call.Call.Value.(*ssa.Builtin); ok {
			return bi.Name() == "len"
		}
		if f == nil {
			return false
		}
		p := an.PkgPathOf(f)
		switch {
		case p == "time":
			return true
		case p == core.ModPath && timeOnly(f, 0):
			return true
		case strings.HasSuffix(p, "durationpb"):
			return true
		case strings.HasPrefix(p, core.ModPath+"/proto/") && strings.HasPrefix(f.Name(), "Get"):
			return true
		}
		return false
	}
	n := 0
	msc := c.Scope(fn)
	inScope := func(call *ssa.Call) bool {
		cal := call.Call.StaticCallee()
		return cal != nil && msc.Contains(cal) // a helper split out of MergeRows: its own decisions are checked below
	}
	var blocks []*ssa.BasicBlock
	for _, f := range msc.Funcs {
		blocks = append(blocks, f.Blocks...)
	}
	for _, b := range blocks {
		iff, ok := b.Instrs[len(b.Instrs)-1].(*ssa.If)
		if !ok {
			continue
		}
		// loop control of the range statements is not a merge decision
		if _, isNext := an.Unwrap(iff.Cond).(*ssa.Extract); isNext {
			if ex := iff.Cond.(*ssa.Extract); ex != nil {
				if _, ok := ex.Tuple.(*ssa.Next); ok {
					continue
				}
			}
		}
		n++
		var offending string
		an.DependsOn(iff.Cond, func(v ssa.Value) bool {
			switch x := v.(type) {
			case *ssa.Call:
				if !allowedCallee(x) && !inScope(x) {
					offending = "call of " + calleeLabel(x)
					return true
				}
			case *ssa.BinOp:
				// comparing two loaded column values directly
				if (x.Op == token.EQL || x.Op == token.NEQ) && !an.IsNilConst(x.X) && !an.IsNilConst(x.Y) {
					if fx, fy := an.FieldOfLoad(x.X), an.FieldOfLoad(x.Y); fx != nil && fy != nil && fx.Name() == "Value" {
						offending = "comparison of two column values"
						return true
					}
				}
			}
			return false
		})
		c.R.Cond(offending == "", rule, fmt.Sprintf("%s: decision #%d depends on flags, presence and times only", name, n), c.P.Pos(iff.Pos()),
			"no value-dependent input", "a merge decision depends on "+offending+": the winner of a column is no longer chosen by write time alone (e.g. equal values keep the older assignment time, so a write in between wins later)")
	}
}

// ---- C02.update-keeps-status: only INSERT and DELETE date the row's existence --------------------------

func init() {
	register(&Rule{Name: "C02.update-keeps-status", Min: 3, Run: c02UpdateKeepsStatus,
		Doc: "the delta row of an UPDATE carries the stored row's own insert/delete time, so it never wins the delete-status comparison; the deltas of INSERT and DELETE carry the statement's time"})
	byProp["C02"] = append(byProp["C02"], "C02.update-keeps-status")
	explain["C02"] += " update-keeps-status: MergeRows decides the row's status by the later of the two sides' status times (entry time + DeleteUpdateOffset). A delta row whose offset is left zero claims 'the row exists as of the statement's time' — right for INSERT, and with Deleted set for DELETE, but an UPDATE that does so refreshes the row's existence and wins against a DELETE it has not seen ('a DELETE keeps the row absent, even against UPDATEs carrying a later write time'). In Update the delta's DeleteUpdateOffset is assigned from the stored row's offset, the stored entry's time and the statement time; in Insert and Delete it is not assigned."
}

func c02UpdateKeepsStatus(c *Ctx) {
	const rule = "C02.update-keeps-status"
	duo := mustField(c, "proto/v1", "Row", "DeleteUpdateOffset")
	getRow := mustFunc(c, "", "", "getRow")
	if duo == nil || getRow == nil {
		return
	}
	for _, m := range []string{"Insert", "Update", "Delete"} {
		fn := mustFunc(c, "", "*VirtualTable", m)
		if fn == nil {
			continue
		}
		name := core.FuncName(fn)
		sc := c.Scope(fn)
		// the delta row: the allocation whose address is MergeRows' r2
		var delta ssa.Value
		var oldAlloc, otAlloc ssa.Value
		for _, call := range sc.Calls() {
			f := call.Common().StaticCallee()
			if f == nil {
				continue
			}
			switch {
			case f.Name() == "MergeRows":
				a := call.Common().Args
				if len(a) >= 5 {
					delta = a[4]
				}
			case f == getRow:
				for _, a := range call.Common().Args {
					pt, ok := a.Type().(*types.Pointer)
					if !ok {
						continue
					}
					if p2, ok := pt.Elem().(*types.Pointer); ok {
						if nt := an.NamedOf(p2); nt != nil && nt.Obj().Name() == "Row" {
							oldAlloc = a
						}
					} else if nt := an.NamedOf(pt.Elem()); nt != nil && nt.Obj().Name() == "Time" {
						otAlloc = a
					}
				}
			}
		}
		if delta == nil {
			c.R.Unk(rule, name+": delta row", c.P.Pos(fn.Pos()), "no MergeRows call found")
			continue
		}
		var stores []*ssa.Store
		for _, f := range sc.Funcs {
			for _, st := range an.StoresToField(f, duo) {
				if fa, ok := st.Addr.(*ssa.FieldAddr); ok && an.Unwrap(fa.X) == an.Unwrap(delta) {
					stores = append(stores, st)
				}
			}
		}
		if m != "Update" {
			c.R.Cond(len(stores) == 0, rule, name+": the statement dates the row's status", c.P.Pos(fn.Pos()),
				"the delta's DeleteUpdateOffset is left zero: status time = statement time", "the delta's delete-status time is not the statement's own time")
			continue
		}
		good := false
		why := "the delta row of UPDATE leaves DeleteUpdateOffset zero, i.e. claims 'the row exists as of this statement': merged with a DELETE the updating writer has not seen, the UPDATE wins the status comparison and the deleted row comes back (A: insert@1; B opens; A: delete@5; B: update@9 -> a reader that merges both sees the row with B's values)"
		for _, st := range stores {
			fromOld, fromOt := false, false
			an.DependsOn(st.Val, func(v ssa.Value) bool {
				if an.FieldOfLoad(v) == duo {
					// loaded from the stored row (through the **Row out-parameter)
					if r := an.ExprRoot(v); oldAlloc != nil && r == an.Unwrap(oldAlloc) {
						fromOld = true
					} else if ld, ok := r.(*ssa.UnOp); ok && oldAlloc != nil && ld.X == oldAlloc {
						fromOld = true
					}
				}
				if ld, ok := v.(*ssa.UnOp); ok && otAlloc != nil && ld.X == otAlloc {
					fromOt = true
				}
				return false
			})
			if fromOld && fromOt {
				good = true
			} else {
				why = fmt.Sprintf("the delta's DeleteUpdateOffset is assigned, but not from the stored row's own status time (stored offset: %v, stored entry time: %v)", fromOld, fromOt)
			}
		}
		pos := c.P.Pos(fn.Pos())
		if len(stores) > 0 {
			pos = c.P.Pos(stores[0].Pos())
		}
		c.R.Cond(good, rule, name+": keeps the stored row's insert/delete time", pos, "DeleteUpdateOffset of the delta = stored status time - statement time", why)
	}
}

// ---- C02.utc: write times are instants, read the same way on every machine ----------------------------

func init() {
	register(&Rule{Name: "C02.utc", Min: 1, Run: c02UTC,
		Doc: "library code never reads the machine's local time zone: SQLite date/time text is UTC, and write times are compared across machines"})
	byProp["C02"] = append(byProp["C02"], "C02.utc", "C15.conn")
	byProp["C15"] = append(byProp["C15"], "C02.utc")
	explain["C02"] += " utc: an explicit write_time is SQLite date/time text, i.e. UTC; parsing it in time.Local shifts every application-supplied time by the zone offset relative to clock-stamped statements and to writers in other zones (west of Greenwich an explicit time lands in the future and beats newer statements). No function of the library packages loads time.Local. conn (shared with C15): both attributes are installed into one stacked context."
}

func c02UTC(c *Ctx) {
	const rule = "C02.utc"
	n, sites := 0, 0
	var bad []string
	// an instant is made from wall-clock fields by time.Parse (UTC unless the text names a zone),
	// time.ParseInLocation and time.Date; only these can make a write time depend on the zone.
	// time.Local that is only used to display a time (In, Format) leaves instants alone.
	for _, fn := range c.P.RepoFuncs(an.LibraryPkg) {
		n++
		for _, call := range an.Calls(fn) {
			f := call.Common().StaticCallee()
			if f == nil || f.Pkg == nil || f.Pkg.Pkg.Path() != "time" {
				continue
			}
			if f.Name() != "ParseInLocation" && f.Name() != "Date" && f.Name() != "Parse" {
				continue
			}
			sites++
			for _, a := range call.Common().Args {
				if !strings.HasSuffix(a.Type().String(), "time.Location") {
					continue
				}
				an.DependsOn(a, func(w ssa.Value) bool {
					if g, ok := w.(*ssa.Global); ok && g.Pkg != nil && g.Pkg.Pkg.Path() == "time" && g.Name() == "Local" {
						bad = append(bad, core.FuncName(fn)+" at "+c.P.Pos(call.Pos()))
					}
					return false
				})
			}
		}
	}
	sort.Strings(bad)
	c.R.Stats["C02.utc.functions"] = n
	c.R.Stats["C02.utc.sites"] = sites
	if sites < 3 {
		c.R.Errorf("only %d places where library code makes a time from text or fields (3 confirmed by hand: connection deadline, connection write_time, vacuum cutoff)", sites)
	}
	c.R.Cond(len(bad) == 0, rule, "library code: times are made from text in UTC", "-", fmt.Sprintf("%d functions, %d places where a time is made from text or wall-clock fields, none in the local zone", n, sites),
		"time.Local is the zone of "+strings.Join(bad, "; ")+": a write time that depends on the machine's zone orders statements differently on different machines")
}
