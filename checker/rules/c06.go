package rules

import (
	"fmt"
	"go/token"
	"go/types"
	"sort"
	"strings"

	"golang.org/x/tools/go/ssa"

	"s3dbcheck/an"
	"s3dbcheck/core"
)

func init() {
	register(&Rule{Name: "C06.argvindex-dense", Min: 2, Run: c06Argv,
		Doc: "xFilter arguments are numbered by a counter that advances exactly when a constraint is used, and an operator is recorded in IdxStr exactly then"})
	claim("C06", "C06: two contract clauses only. argvindex-dense: in every xBestIndex implementation a conditionally stored ConstraintUsage.ArgvIndex comes from a counter that advances exactly on the iterations that store it (never from the position among all constraints: SQLite rejects gaps with 'xBestIndex malfunction'), and s3db.BestIndex appends an operator to IdxStr exactly when it marks a constraint used, so operators and arguments pair positionally. insert-guards (shared with C07): uniqueness and NOT NULL of the key are decided before the write. Not decided: everything else in the property — which rows a scan returns, ordering, LIMIT, aggregates, re-open equivalence.",
		"C06.argvindex-dense", "C07.insert-guards")
}

// loopHeaderOf returns the innermost loop header dominating b (a block with a back edge), or nil.
func loopHeaderOf(b *ssa.BasicBlock) *ssa.BasicBlock {
	for h := b; h != nil; h = h.Idom() {
		for _, p := range h.Preds {
			if h.Dominates(p) && (an.ReachableFromBlock(b, p, nil)) {
				return h
			}
		}
	}
	return nil
}

func c06Argv(c *Ctx) {
	const rule = "C06.argvindex-dense"
	// every store to ConstraintUsage.ArgvIndex in xBestIndex implementations
	for _, en := range an.SqliteEntries(c.P) {
		if en.Method != "BestIndex" || !an.LibraryPkg(en.PkgRel) {
			continue
		}
		fn := en.Fn
		for _, b := range fn.Blocks {
			for _, in := range b.Instrs {
				st, ok := in.(*ssa.Store)
				if !ok {
					continue
				}
				fa, ok := st.Addr.(*ssa.FieldAddr)
				if !ok {
					continue
				}
				fv := an.FieldVar(fa.X.Type(), fa.Field)
				if fv == nil || fv.Name() != "ArgvIndex" {
					continue
				}
				name := en.Name()
				c.R.SawFunc(name)
				pos := c.P.Pos(st.Pos())
				H := loopHeaderOf(b)
				if H == nil {
					c.R.OK(rule, name+": ArgvIndex outside a loop", pos, "single assignment")
					continue
				}
				// which header phis does the stored value depend on?
				var phis []*ssa.Phi
				for _, hin := range H.Instrs {
					ph, ok := hin.(*ssa.Phi)
					if !ok {
						break
					}
					if arithDependsOn(st.Val, ph, 0) {
						phis = append(phis, ph)
					}
				}
				if len(phis) == 0 {
					// constant or derived from the constraint itself (s3db_vacuum: the column number)
					c.R.OK(rule, name+": ArgvIndex from the constraint", pos, "not a running position (by design for a table whose arguments are its hidden columns)")
					continue
				}
				// is the store conditional within the loop? (some back edge does not pass through it)
				conditional := false
				for _, p := range H.Preds {
					if H.Dominates(p) && !(b == p || b.Dominates(p)) {
						conditional = true
					}
				}
				good := true
				why := ""
				for _, ph := range phis {
					for i, p := range H.Preds {
						if !H.Dominates(p) {
							continue
						}
						through := b == p || b.Dominates(p)
						unchanged := ph.Edges[i] == ph
						switch {
						case through && unchanged:
							good, why = false, "the counter is not advanced on an iteration that numbers an argument"
						case !through && !unchanged && conditional:
							good, why = false, "the value advances on iterations that use no argument (it is the position among all constraints): used constraints get non-consecutive argument numbers"
						}
					}
				}
				c.R.Cond(good, rule, name+": ArgvIndex from a dense counter", pos, "the numbering advances exactly on the iterations that assign an argument", why)
			}
		}
	}
	// s3db.BestIndex: IdxStr gets an operator exactly when Used[i] = true
	fn := mustFunc(c, "", "*VirtualTable", "BestIndex")
	idxStr := mustField(c, "", "IndexOutput", "IdxStr")
	used := mustField(c, "", "IndexOutput", "Used")
	if fn == nil || idxStr == nil || used == nil {
		return
	}
	name := core.FuncName(fn)
	var usedStores []*ssa.Store
	for _, b := range fn.Blocks {
		for _, in := range b.Instrs {
			st, ok := in.(*ssa.Store)
			if !ok {
				continue
			}
			ia, ok := st.Addr.(*ssa.IndexAddr)
			if !ok || an.FieldOfLoad(ia.X) != used {
				continue
			}
			if cb, isC := constBool(st.Val); isC && cb {
				usedStores = append(usedStores, st)
			}
		}
	}
	if len(usedStores) != 1 {
		c.R.Unk(rule, name+": Used[i] = true", c.P.Pos(fn.Pos()), fmt.Sprintf("expected one 'out.Used[i] = true', found %d", len(usedStores)))
		return
	}
	ub := usedStores[0].Block()
	H := loopHeaderOf(ub)
	if H == nil {
		c.R.Unk(rule, name+": Used[i] = true", c.P.Pos(usedStores[0].Pos()), "not inside a loop over the constraints")
		return
	}
	idxBlocks := map[*ssa.BasicBlock]bool{}
	okDom := true
	for _, st := range an.StoresToField(fn, idxStr) {
		sb := st.Block()
		if !H.Dominates(sb) || !an.ReachableFromBlock(sb, H, nil) {
			continue // after the loop (the asc/desc prefix)
		}
		idxBlocks[sb] = true
		if !(ub == sb || ub.Dominates(sb)) {
			okDom = false
		}
	}
	// from ub every path back to the header passes an IdxStr store
	covered := len(idxBlocks) > 0 && !reachesAvoiding(ub, H, idxBlocks)
	c.R.Cond(okDom && covered, rule, name+": operator recorded iff constraint used", c.P.Pos(usedStores[0].Pos()),
		"IdxStr is extended on exactly the iterations that mark a constraint used: operators pair with xFilter arguments by position",
		"operators in IdxStr and used constraints can get out of step: xFilter would pair an operator with the wrong argument")
	_ = token.ADD
}

// arithDependsOn: v is computed from ph by arithmetic/conversions only (no memory loads: an
// element loaded through the index is "from the constraint", not a position).
func arithDependsOn(v ssa.Value, ph *ssa.Phi, depth int) bool {
	if v == ssa.Value(ph) {
		return true
	}
	if depth > 8 {
		return false
	}
	switch x := v.(type) {
	case *ssa.BinOp:
		return arithDependsOn(x.X, ph, depth+1) || arithDependsOn(x.Y, ph, depth+1)
	case *ssa.Convert:
		return arithDependsOn(x.X, ph, depth+1)
	case *ssa.ChangeType:
		return arithDependsOn(x.X, ph, depth+1)
	case *ssa.Phi:
		for _, e := range x.Edges {
			if e != v && arithDependsOn(e, ph, depth+1) {
				return true
			}
		}
	}
	return false
}

// reachesAvoiding: target reachable from `from` without entering avoid blocks (from itself may be in avoid: then false).
func reachesAvoiding(from, target *ssa.BasicBlock, avoid map[*ssa.BasicBlock]bool) bool {
	if avoid[from] {
		return false
	}
	return an.Reachable(from, target, avoid)
}

// ---- C06.fresh-cursor: every scan starts from a tree cursor created for this xFilter call ---------

func init() {
	register(&Rule{Name: "C06.fresh-cursor", Min: 3, Run: c06FreshCursor,
		Doc: "every seek (Ceil/Min/Max) of Cursor.Filter is on a cursor created by this call"})
	byProp["C06"] = append(byProp["C06"], "C06.fresh-cursor", "C07.compare-only", "C07.convert-range")
	explain["C06"] += " Also: fresh-cursor (mast's Ceil searches from the cursor's current node downward, so a seek is only correct on a cursor that starts at the root: each seek of Filter must be dominated by the creation of the cursor in the same call) and the comparator clauses compare-only / convert-range shared with C07 (key comparisons are part of every pushed-down predicate)."
	byProp["C14"] = append(byProp["C14"], "C05.snapshot")
	explain["C14"] += " snapshot (shared with C05): after a failed storage commit the rollback SQLite performs restores the pre-transaction tree on every path, so the connection does not keep, and later publish, a tree whose flush failed."
}

func c06FreshCursor(c *Ctx) {
	const rule = "C06.fresh-cursor"
	fn := mustFunc(c, "", "*Cursor", "Filter")
	curF := mustField(c, "", "Cursor", "cursor")
	if fn == nil || curF == nil {
		return
	}
	name := core.FuncName(fn)
	// creation: c.cursor = <result of (*kv.DB).Cursor(ctx)>
	var creates []ssa.CallInstruction
	var createStores []*ssa.Store
	sc := c.Scope(fn)
	for _, f := range sc.Funcs {
		for _, st := range an.StoresToField(f, curF) {
			if ex, ok := an.Unwrap(st.Val).(*ssa.Extract); ok && ex.Index == 0 {
				if cl, ok := ex.Tuple.(*ssa.Call); ok && an.CalleeIs(cl, kvPkg, "DB", "Cursor") {
					creates = append(creates, cl)
					createStores = append(createStores, st)
				}
			}
		}
	}
	if len(creates) == 0 {
		c.R.Bad(rule, name+": creates a cursor", c.P.Pos(fn.Pos()), "Filter never assigns a new tree cursor")
		return
	}
	n := 0
	for _, call := range sc.Calls() {
		m := calleeLabel(call)
		if m != "Ceil" && m != "Min" && m != "Max" {
			continue
		}
		rv := an.RecvValue(call)
		if rv == nil || !an.HasField(rv, curF) {
			continue
		}
		n++
		good := false
		for i, cr := range creates {
			if ok, _ := sc.SuccessDominates(cr, call); ok && sc.Before(createStores[i], call) {
				good = true
			}
		}
		c.R.Cond(good, rule, fmt.Sprintf("%s: %s on a fresh cursor", name, m), c.P.Pos(call.Pos()),
			"the seek is dominated by the creation of the cursor in this call", "a seek can run on a cursor kept from an earlier xFilter call: mast searches downward from the cursor's current node, so a probe for a key that sorts before it lands past the bound and rows are silently missing (multi-level trees)")
	}
	if n == 0 {
		c.R.Unk(rule, name+": seeks", c.P.Pos(fn.Pos()), "no Ceil/Min/Max on c.cursor found")
	}
}

// ---- C06.no-omit: pushed key constraints are still re-checked by SQLite -----------------------------

func init() {
	register(&Rule{Name: "C06.no-omit", Min: 1, Run: c06NoOmit,
		Doc: "the s3db table never tells SQLite to omit its own check of a pushed-down key constraint"})
	byProp["C06"] = append(byProp["C06"], "C06.no-omit", "C02.delta")
	explain["C06"] += " no-omit: the scan window computed by Filter is an over-approximation (a descending seek lands on the first key at or above the bound; of two coinciding bounds the first wins), which is only correct because SQLite re-checks every pushed constraint — so the implementations of xBestIndex that number arguments with the dense counter must not set ConstraintUsage.Omit. delta (shared with C02): an UPDATE records every value it is given."
}

func c06NoOmit(c *Ctx) {
	const rule = "C06.no-omit"
	n := 0
	for _, en := range an.SqliteEntries(c.P) {
		if en.Method != "BestIndex" || !an.LibraryPkg(en.PkgRel) {
			continue
		}
		fn := en.Fn
		// only tables that push comparison constraints down to a range scan: those whose
		// BestIndex delegates to s3db.(*VirtualTable).BestIndex
		delegates := false
		for _, call := range an.Calls(fn) {
			if an.CalleeIs(call, core.ModPath, "VirtualTable", "BestIndex") {
				delegates = true
			}
		}
		if !delegates {
			continue
		}
		n++
		bad := false
		for _, b := range fn.Blocks {
			for _, in := range b.Instrs {
				st, ok := in.(*ssa.Store)
				if !ok {
					continue
				}
				fa, ok := st.Addr.(*ssa.FieldAddr)
				if !ok {
					continue
				}
				fv := an.FieldVar(fa.X.Type(), fa.Field)
				if fv == nil || fv.Name() != "Omit" {
					continue
				}
				if cb, isC := constBool(st.Val); isC && !cb {
					continue
				}
				bad = true
				c.R.Bad(rule, en.Name()+": constraints stay re-checked", c.P.Pos(st.Pos()),
					"ConstraintUsage.Omit is set: SQLite stops re-checking the pushed key constraints, but the cursor's window is only an over-approximation (rows just outside a bound are returned for descending scans, max(), coinciding bounds)")
			}
		}
		if !bad {
			c.R.OK(rule, en.Name()+": constraints stay re-checked", c.P.Pos(fn.Pos()), "Omit is never set for pushed key constraints")
		}
	}
	if n == 0 {
		c.R.Errorf("no xBestIndex implementation delegating to s3db.(*VirtualTable).BestIndex found")
	}
}

// ---- C06.scan-start: typestate of the tree cursor between its creation and the first step ---------
//
// mast's cursor API, as used here (github.com/jrhy/mast pub.go, trusted dependency):
//   DB.Cursor()  -> at the root                                   (fresh)
//   Min / Max    -> smallest / largest key *below the current position*; no-op on an empty path
//   Ceil(k)      -> searches *downward from the current position*: on the first key >= k, or, when
//                   there is none, on an empty path (exhausted); needs a non-empty path
//   Get()        -> !ok exactly when there is no entry at the cursor (exhausted / empty tree)
// An ascending scan may start from an exhausted cursor (no key >= lower bound: no rows). A
// descending scan may not: "no key >= upper bound" means every key is below it, so the scan must
// start from the largest key instead.

const (
	csStale     = 1 << iota // not created by this call, or moved by an earlier seek
	csFresh                 // at the root
	csAtMin                 // on the smallest key
	csAtMax                 // on the largest key
	csAtOrAbove             // on the first key >= the bound
	csExhausted             // empty path: no key >= the bound
)

func csString(s int) string {
	names := []string{"stale", "fresh", "at-min", "at-max", "at-or-above-bound", "exhausted"}
	out := ""
	for i, n := range names {
		if s&(1<<i) != 0 {
			if out != "" {
				out += "|"
			}
			out += n
		}
	}
	if out == "" {
		return "none"
	}
	return out
}

type scanState struct {
	cs       int
	desc     int       // -1 unknown, 0 ascending, 1 descending
	lastGet  ssa.Value // Get() call whose ok still describes the cursor
	nonEmpty bool      // a test of the tree's Size() against 0 showed it has entries
}

func (s scanState) Key() string {
	return fmt.Sprintf("%d/%d/%p/%v", s.cs, s.desc, s.lastGet, s.nonEmpty)
}

// sizeTest recognises a comparison of the tree's entry count with zero; returns whether the
// condition being true means "has entries".
func sizeTest(cond ssa.Value) (trueMeansNonEmpty bool, ok bool) {
	b, isB := cond.(*ssa.BinOp)
	if !isB {
		return false, false
	}
	isSize := func(v ssa.Value) bool {
		cl, ok := an.Unwrap(v).(*ssa.Call)
		return ok && calleeLabel(cl) == "Size"
	}
	isZero := func(v ssa.Value) bool {
		k, ok := v.(*ssa.Const)
		return ok && k.Value != nil && k.Value.String() == "0"
	}
	switch {
	case isSize(b.X) && isZero(b.Y):
		switch b.Op {
		case token.EQL, token.LEQ:
			return false, true
		case token.NEQ, token.GTR:
			return true, true
		}
	case isZero(b.X) && isSize(b.Y):
		switch b.Op {
		case token.EQL, token.GEQ:
			return false, true
		case token.NEQ, token.LSS:
			return true, true
		}
	}
	return false, false
}

func init() {
	register(&Rule{Name: "C06.scan-start", Min: 1, Run: c06ScanStart,
		Doc: "typestate of the tree cursor in Cursor.Filter: every seek runs on a cursor fresh from the root, and a descending scan never starts from a cursor that Ceil left exhausted"})
	byProp["C06"] = append(byProp["C06"], "C06.scan-start")
	explain["C06"] += " scan-start: a typestate analysis of the tree cursor over all feasible paths of Cursor.Filter (states stale / fresh / at-min / at-max / at-or-above-bound / exhausted; transitions from mast's documented cursor API): when the first step of the scan (Next) is reached, an ascending scan is at the smallest key or on Ceil's result, a descending scan is at the largest key or on a key at or above the upper bound — never on a cursor that Ceil left exhausted, which means 'every key is below the bound' and must restart from the largest key."
}

func c06ScanStart(c *Ctx) {
	const rule = "C06.scan-start"
	fn := mustFunc(c, "", "*Cursor", "Filter")
	curF := mustField(c, "", "Cursor", "cursor")
	descF := mustField(c, "", "Cursor", "desc")
	next := mustFunc(c, "", "*Cursor", "Next")
	if fn == nil || curF == nil || descF == nil || next == nil {
		return
	}
	name := core.FuncName(fn)
	sc := c.Scope(fn)
	type finding struct {
		pos, msg string
	}
	bad := map[string]finding{}
	starts := map[string]string{} // Next call pos -> states seen (for the evidence)
	seeks := 0
	onCursor := func(call ssa.CallInstruction) bool {
		rv := an.RecvValue(call)
		return rv != nil && an.HasField(rv, curF)
	}
	h := an.THooks{}
	h.Instr = func(in ssa.Instruction, st0 an.TState) an.TState {
		st := st0.(scanState)
		switch x := in.(type) {
		case *ssa.Store:
			fa, ok := x.Addr.(*ssa.FieldAddr)
			if !ok || an.FieldVar(fa.X.Type(), fa.Field) != curF {
				return st
			}
			st.lastGet = nil
			st.cs = csStale
			if ex, ok := an.Unwrap(x.Val).(*ssa.Extract); ok && ex.Index == 0 {
				if cl, ok := ex.Tuple.(*ssa.Call); ok && an.CalleeIs(cl, kvPkg, "DB", "Cursor") {
					st.cs = csFresh
				}
			}
			return st
		}
		call, ok := in.(ssa.CallInstruction)
		if !ok {
			return st
		}
		if cal := call.Common().StaticCallee(); cal == next {
			key := c.P.Pos(call.Pos())
			starts[key] = csString(st.cs)
			allowed := csAtOrAbove
			dir := "a scan of unknown direction"
			switch st.desc {
			case 0:
				allowed = csAtMin | csAtOrAbove | csExhausted
				dir = "an ascending scan"
			case 1:
				allowed = csAtMax | csAtOrAbove
				dir = "a descending scan"
			}
			if off := st.cs &^ allowed; off != 0 {
				msg := fmt.Sprintf("%s can start from a cursor in state %s", dir, csString(off))
				switch {
				case off&csExhausted != 0:
					msg += ": Ceil found no key at or above the upper bound, so every key qualifies, but the exhausted cursor yields no rows (e.g. 'where k <= 5 order by k desc', 'select max(k) … where k < 10' on keys 1..3 return nothing)"
				case off&csStale != 0:
					msg += ": the seek ran on a cursor that was not at the root"
				case off&csFresh != 0:
					msg += ": no seek between the creation of the cursor and the first step"
				}
				bad[key+"|"+csString(off)] = finding{key, msg}
			}
			return st
		}
		m := calleeLabel(call)
		if !onCursor(call) {
			return st
		}
		switch m {
		case "Ceil", "Min", "Max":
			seeks++
			if m == "Max" && st.cs&csFresh != 0 && !st.nonEmpty {
				key := c.P.Pos(call.Pos())
				bad[key+"|empty"] = finding{key, "Max can run on a tree without entries: mast's Max then leaves the cursor at index -1 and the Get of the first step panics with 'index out of range [-1]' through cgo (e.g. 'select k from t order by k desc' on a newly created table); no test of the tree's Size() against zero guards this seek"}
			}
			n := 0
			for b := 1; b <= csExhausted; b <<= 1 {
				if st.cs&b == 0 {
					continue
				}
				switch {
				case b == csFresh && m == "Ceil":
					n |= csAtOrAbove | csExhausted
				case b == csFresh && m == "Min":
					n |= csAtMin
				case b == csFresh && m == "Max":
					n |= csAtMax
				case b == csExhausted && m != "Ceil":
					n |= csExhausted // no-op on an empty path
				default:
					n |= csStale
				}
			}
			st.cs = n
			st.lastGet = nil
		case "Get":
			if v, ok := in.(ssa.Value); ok {
				st.lastGet = v
			}
		case "Forward", "Backward":
			st.cs = csStale
			st.lastGet = nil
		}
		return st
	}
	h.Branch = func(iff *ssa.If, side bool, st0 an.TState) an.TState {
		st := st0.(scanState)
		cond, neg := an.StripNot(iff.Cond)
		val := side != neg // truth of cond on this side
		if an.FieldOfLoad(cond) == descF {
			want := 0
			if val {
				want = 1
			}
			if st.desc >= 0 && st.desc != want {
				return nil
			}
			st.desc = want
			return st
		}
		if tne, ok := sizeTest(cond); ok {
			st.nonEmpty = tne == val
			return st
		}
		if ex, ok := cond.(*ssa.Extract); ok && st.lastGet != nil && ex.Tuple == st.lastGet && ex.Index == 2 {
			if val { // there is an entry at the cursor
				st.cs &^= csExhausted
			} else if st.cs&(csAtOrAbove|csExhausted) != 0 {
				st.cs = st.cs&^csAtOrAbove | csExhausted
			}
			if st.cs == 0 {
				return nil
			}
		}
		return st
	}
	an.WalkTypestate(fn, scanState{cs: csStale, desc: -1}, h, sc)
	if len(starts) == 0 || seeks == 0 {
		c.R.Unk(rule, name+": scan start", c.P.Pos(fn.Pos()), fmt.Sprintf("no first step (Next) reached with a seek before it (Next calls reached: %d, seeks: %d)", len(starts), seeks))
		return
	}
	var sk []string
	for k, v := range starts {
		sk = append(sk, k+" in "+v)
	}
	sort.Strings(sk)
	aspects := []struct{ what, marker, okMsg string }{
		{"descending scan starts on a key", "exhausted", "on every feasible path the first step runs from a state allowed for its direction (" + strings.Join(sk, "; ") + ")"},
		{"Max only on a tree with entries", "without entries", "every Max seek is guarded by a test of the tree's Size() against zero"},
		{"seeks run on a fresh cursor", "", "every seek runs on the cursor created by this call, at the root"},
	}
	classify := func(msg string) int {
		switch {
		case strings.Contains(msg, "without entries"):
			return 1
		case strings.Contains(msg, "exhausted"):
			return 0
		}
		return 2
	}
	var ks []string
	for k := range bad {
		ks = append(ks, k)
	}
	sort.Strings(ks)
	hit := map[int]bool{}
	for _, k := range ks {
		f := bad[k]
		a := classify(f.msg)
		hit[a] = true
		c.R.Bad(rule, name+": "+aspects[a].what, f.pos, f.msg)
	}
	for i, a := range aspects {
		if !hit[i] {
			c.R.OK(rule, name+": "+a.what, c.P.Pos(fn.Pos()), a.okMsg)
		}
	}
}

// ---- C06.step-guard: the tree cursor's step functions test the link they follow -------------------
//
// Sibling cross-check (Engler et al.: "check one element, use another" is a contradiction): the five
// movement functions of mast's Cursor (the pinned dependency the scans run on) each decide whether
// to descend into a child by a nil test of an element of node.Link and then load an element of
// node.Link. Tested and followed element must be the same expression.


func depMethod(c *Ctx, pkgPath, recv, name string) *ssa.Function {
	pk := c.P.ByPath[pkgPath]
	if pk == nil {
		return nil
	}
	tn, _ := pk.Types.Scope().Lookup(recv).(*types.TypeName)
	if tn == nil {
		return nil
	}
	sel := c.P.SSA.MethodSets.MethodSet(types.NewPointer(tn.Type())).Lookup(pk.Types, name)
	if sel == nil {
		return nil
	}
	return c.P.SSA.MethodValue(sel)
}

func init() {
	register(&Rule{Name: "C06.step-guard", Min: 4, Run: c06StepGuard,
		Doc: "in each movement function of the tree cursor (Min, Max, Forward, Backward, Ceil of the pinned mast), the child link that is followed is the link whose presence was tested"})
	byProp["C06"] = append(byProp["C06"], "C06.step-guard")
	explain["C06"] += " step-guard: a sibling cross-check inside the pinned dependency the scans run on — each of mast's cursor movement functions tests an element of node.Link for nil and then follows an element of node.Link; the two must be the same expression (same node, same index), otherwise a step skips a sub-tree (rows silently missing from a scan) or follows an absent link."
}

func c06StepGuard(c *Ctx) {
	const rule = "C06.step-guard"
	linkElem := func(v ssa.Value) (*ssa.IndexAddr, bool) {
		u, ok := v.(*ssa.UnOp)
		if !ok || u.Op != token.MUL {
			return nil, false
		}
		ia, ok := u.X.(*ssa.IndexAddr)
		if !ok {
			return nil, false
		}
		if f := an.FieldOfLoad(ia.X); f == nil || f.Name() != "Link" {
			return nil, false
		}
		return ia, true
	}
	n := 0
	for _, m := range []string{"Min", "Max", "Forward", "Backward", "Ceil"} {
		fn := depMethod(c, mastPkg, "Cursor", m)
		if fn == nil || len(fn.Blocks) == 0 {
			c.R.Unk(rule, "mast.(*Cursor)."+m, "-", "method not found in the pinned dependency")
			continue
		}
		name := "mast.(*Cursor)." + m
		c.R.SawFunc(name)
		// nil tests of Link elements
		type test struct {
			iff    *ssa.If
			ia     *ssa.IndexAddr
			nonNil int // successor index of the non-nil side
		}
		var tests []test
		for _, b := range fn.Blocks {
			iff, ok := b.Instrs[len(b.Instrs)-1].(*ssa.If)
			if !ok {
				continue
			}
			cond, neg := an.StripNot(iff.Cond)
			bo, ok := cond.(*ssa.BinOp)
			if !ok || bo.Op != token.EQL && bo.Op != token.NEQ {
				continue
			}
			var tested ssa.Value
			if k, ok := bo.Y.(*ssa.Const); ok && k.Value == nil {
				tested = bo.X
			} else if k, ok := bo.X.(*ssa.Const); ok && k.Value == nil {
				tested = bo.Y
			}
			if tested == nil {
				continue
			}
			ia, ok := linkElem(tested)
			if !ok {
				continue
			}
			nn := 0
			if (bo.Op == token.EQL) != neg {
				nn = 1
			}
			tests = append(tests, test{iff, ia, nn})
		}
		// follows: load(ctx, Link[i]) and node.follow(ctx, i, …)
		for _, call := range an.Calls(fn) {
			var nodeKey, idxKey, what string
			switch calleeLabel(call) {
			case "load":
				args := call.Common().Args
				ia, ok := linkElem(args[len(args)-1])
				if !ok {
					continue
				}
				nodeKey, idxKey = an.ExprKey(ia.X), an.ExprKey(ia.Index)
				what = "load of Link[" + idxKey + "]"
			case "follow":
				args := call.Common().Args
				if len(args) < 3 {
					continue
				}
				// receiver node; the link slice is node.Link
				nodeKey, idxKey = "", an.ExprKey(args[2])
				what = "follow(" + idxKey + ")"
			default:
				continue
			}
			// guarding tests: the non-nil side is the only way to the call
			var guards []test
			for _, t := range tests {
				if an.OnlyVia(t.iff.Block(), t.nonNil, call.Block()) {
					guards = append(guards, t)
				}
			}
			if len(guards) == 0 {
				continue
			}
			n++
			good := false
			var seen []string
			for _, g := range guards {
				gk := an.ExprKey(g.ia.Index)
				seen = append(seen, "Link["+gk+"]")
				if gk == idxKey && (nodeKey == "" || an.ExprKey(g.ia.X) == nodeKey) {
					good = true
				}
			}
			c.R.Cond(good, rule, name+": follows the link it tested", c.P.Pos(call.Pos()),
				what+" is guarded by the nil test of the same element",
				what+" is guarded by a nil test of a different element ("+strings.Join(seen, ", ")+"): when the two differ in presence a step skips the sub-tree between two keys, so a descending scan silently drops rows (entries_per_node=3, keys inserted 49,47,54,12: 'select a from t order by a desc' returns 54,12), or follows an absent link")
		}
	}
	if n == 0 {
		c.R.Unk(rule, "mast.(*Cursor): guarded follows", "-", "no guarded link follow found")
	}
}

// ---- C06.plan-total / C06.order-consumed: xBestIndex answers every query shape ----------------------

func init() {
	register(&Rule{Name: "C06.plan-total", Min: 1, Run: c06PlanTotal,
		Doc: "s3db.BestIndex never fails: every combination of constraints and ORDER BY terms SQLite can offer gets a plan (at worst a full scan that SQLite filters and sorts)"})
	register(&Rule{Name: "C06.order-consumed", Min: 1, Run: c06OrderConsumed,
		Doc: "the ORDER BY is reported as already satisfied only when its first term is the key column, and the scan direction is that term's"})
	byProp["C06"] = append(byProp["C06"], "C06.plan-total", "C06.order-consumed", "C02.clock")
	explain["C06"] += " clock (shared with C02): successive statements of one writer get distinct, increasing write times only if the clock reading is used at full resolution — coarsened to seconds, an UPDATE right after a write of the same row ties and is dropped."
	explain["C06"] += " plan-total: an error from xBestIndex aborts a statement a native table would run, so s3db.BestIndex returns a nil error on every path. order-consumed: rows are produced in key order only, so OrderByConsumed may be claimed only on paths where the (first) ORDER BY term was compared with the key column and found equal; every path on which that comparison fails ends with AlreadyOrdered == false, and the direction flag comes from an OrderInput.Desc."
}

func c06PlanTotal(c *Ctx) {
	const rule = "C06.plan-total"
	fn := mustFunc(c, "", "*VirtualTable", "BestIndex")
	if fn == nil {
		return
	}
	name := core.FuncName(fn)
	bad := false
	for _, b := range fn.Blocks {
		ret, ok := b.Instrs[len(b.Instrs)-1].(*ssa.Return)
		if !ok || len(ret.Results) == 0 {
			continue
		}
		ev := an.RetErr(ret)
		if an.IsNilConst(ev) {
			continue
		}
		bad = true
		c.R.Bad(rule, name+": always answers", c.P.Pos(ret.Pos()), "xBestIndex can return an error: SQLite aborts the statement, where a native table runs it (e.g. any ORDER BY of two or more terms failed with 'order specified multiple times')")
	}
	if !bad {
		c.R.OK(rule, name+": always answers", c.P.Pos(fn.Pos()), "every return carries a nil error")
	}
}

type orderState int // last value stored to AlreadyOrdered on this path: 0 none, 1 true, 2 false, 3 unknown

func (o orderState) Key() string { return fmt.Sprint(int(o)) }

func c06OrderConsumed(c *Ctx) {
	const rule = "C06.order-consumed"
	fn := mustFunc(c, "", "*VirtualTable", "BestIndex")
	ao := mustField(c, "", "IndexOutput", "AlreadyOrdered")
	col := mustField(c, "", "OrderInput", "Column")
	descF := mustField(c, "", "OrderInput", "Desc")
	keyCol := mustField(c, "", "VirtualTable", "KeyCol")
	if fn == nil || ao == nil || col == nil || keyCol == nil || descF == nil {
		return
	}
	name := core.FuncName(fn)
	// the comparison "order[..].Column <op> c.KeyCol"
	type cmp struct {
		iff   *ssa.If
		neqIx int
	}
	var cmps []cmp
	for _, b := range fn.Blocks {
		iff, ok := b.Instrs[len(b.Instrs)-1].(*ssa.If)
		if !ok {
			continue
		}
		cond, neg := an.StripNot(iff.Cond)
		bo, ok := cond.(*ssa.BinOp)
		if !ok || bo.Op != token.EQL && bo.Op != token.NEQ {
			continue
		}
		fx, fy := an.FieldOfLoad(bo.X), an.FieldOfLoad(bo.Y)
		if !(fx == col && fy == keyCol || fx == keyCol && fy == col) {
			continue
		}
		neqIx := 1
		if (bo.Op == token.NEQ) != neg {
			neqIx = 0
		}
		cmps = append(cmps, cmp{iff, neqIx})
	}
	if len(cmps) == 0 {
		c.R.Bad(rule, name+": consumed only for the key", c.P.Pos(fn.Pos()), "no comparison of an ORDER BY term's column with the key column: OrderByConsumed would be claimed for orderings the scan does not produce")
		return
	}
	h := an.THooks{Instr: func(in ssa.Instruction, st an.TState) an.TState {
		if s, ok := in.(*ssa.Store); ok {
			if fa, ok := s.Addr.(*ssa.FieldAddr); ok && an.FieldVar(fa.X.Type(), fa.Field) == ao {
				if v, isC := constBool(s.Val); isC {
					if v {
						return orderState(1)
					}
					return orderState(2)
				}
				return orderState(3)
			}
		}
		return st
	}}
	for _, cm := range cmps {
		b := cm.iff.Block()
		exits, _ := an.WalkTypestateFrom(b.Succs[cm.neqIx], 0, orderState(0), nil, h, nil)
		good := len(exits) > 0
		why := ""
		for _, ex := range exits {
			if ex.St.(orderState) != 2 {
				good = false
				why = "a path on which an ORDER BY term is not the key column reaches " + c.P.Pos(ex.Ret.Pos()) + " without AlreadyOrdered == false: SQLite would skip its sort although rows come back in key order"
			}
		}
		c.R.Cond(good, rule, name+": consumed only for the key", c.P.Pos(cm.iff.Cond.Pos()), "every path from the 'not the key column' side ends with AlreadyOrdered == false", why)
	}
	// the direction: every value that decides "desc" comes from an OrderInput.Desc (or is the constant false)
	idx := mustField(c, "", "IndexOutput", "IdxStr")
	if idx == nil {
		return
	}
	n := 0
	for _, st := range an.StoresToField(fn, idx) {
		// stores of the "desc "/"asc  " prefix are guarded by the direction value
		k := ""
		if bo, ok := st.Val.(*ssa.BinOp); ok && bo.Op == token.ADD {
			for _, v := range []ssa.Value{bo.X, bo.Y} {
				if cst, ok := v.(*ssa.Const); ok && cst.Value != nil && strings.Contains(cst.Value.ExactString(), "desc") {
					k = "desc"
				}
			}
		} else if cst, ok := st.Val.(*ssa.Const); ok && cst.Value != nil && strings.Contains(cst.Value.ExactString(), "desc") {
			k = "desc"
		}
		if k != "desc" {
			continue
		}
		n++
		// the governing condition
		good := false
		why := "the descending prefix is not chosen by an ORDER BY term's Desc flag"
		for _, b := range fn.Blocks {
			iff, ok := b.Instrs[len(b.Instrs)-1].(*ssa.If)
			if !ok || !an.OnlyVia(b, 0, st.Block()) && !an.OnlyVia(b, 1, st.Block()) {
				continue
			}
			cond, _ := an.StripNot(iff.Cond)
			if an.DependsOn(cond, func(v ssa.Value) bool { return an.FieldOfLoad(v) == descF }) {
				good = true
			}
		}
		c.R.Cond(good, rule, name+": direction from the ORDER BY term", c.P.Pos(st.Pos()), "the scan direction is decided by an OrderInput.Desc", why)
	}
	if n == 0 {
		c.R.Unk(rule, name+": direction from the ORDER BY term", c.P.Pos(fn.Pos()), "no store of a 'desc' prefix to IdxStr found")
	}
}
