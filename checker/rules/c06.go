package rules

import (
	"fmt"
	"go/token"

	"golang.org/x/tools/go/ssa"

	"s3dbcheck/an"
	"s3dbcheck/core"
)

func init() {
	register(&Rule{Name: "C06.argvindex-dense", Min: 2, Run: c06Argv,
		Doc: "xFilter arguments are numbered by a counter that advances exactly when a constraint is used, and an operator is recorded in IdxStr exactly then"})
	claim("C06", "C06: two contract clauses only. argvindex-dense: in every xBestIndex implementation a conditionally stored ConstraintUsage.ArgvIndex comes from a counter that advances exactly on the iterations that store it (never from the position among all constraints: SQLite rejects gaps with 'xBestIndex malfunction'), and s3db.BestIndex appends an operator to IdxStr exactly when it marks a constraint used, so operators and arguments pair positionally. insert-guards (shared with C07): uniqueness and NOT NULL of the key are decided before the write. Not decided: everything else in the property — which rows a scan returns, ordering, LIMIT, aggregates, re-open equivalence.",
		"C06.argvindex-dense", "C07.insert-guards")
}

// loopHeaderOf returns the innermost loop header dominating b (a block with a back edge), or nil.
func loopHeaderOf(b *ssa.BasicBlock) *ssa.BasicBlock {
	for h := b; h != nil; h = h.Idom() {
		for _, p := range h.Preds {
			if h.Dominates(p) && (an.ReachableFromBlock(b, p, nil)) {
				return h
			}
		}
	}
	return nil
}

func c06Argv(c *Ctx) {
	const rule = "C06.argvindex-dense"
	// every store to ConstraintUsage.ArgvIndex in xBestIndex implementations
	for _, en := range an.SqliteEntries(c.P) {
		if en.Method != "BestIndex" || !an.LibraryPkg(en.PkgRel) {
			continue
		}
		fn := en.Fn
		for _, b := range fn.Blocks {
			for _, in := range b.Instrs {
				st, ok := in.(*ssa.Store)
				if !ok {
					continue
				}
				fa, ok := st.Addr.(*ssa.FieldAddr)
				if !ok {
					continue
				}
				fv := an.FieldVar(fa.X.Type(), fa.Field)
				if fv == nil || fv.Name() != "ArgvIndex" {
					continue
				}
				name := en.Name()
				c.R.SawFunc(name)
				pos := c.P.Pos(st.Pos())
				H := loopHeaderOf(b)
				if H == nil {
					c.R.OK(rule, name+": ArgvIndex outside a loop", pos, "single assignment")
					continue
				}
				// which header phis does the stored value depend on?
				var phis []*ssa.Phi
				for _, hin := range H.Instrs {
					ph, ok := hin.(*ssa.Phi)
					if !ok {
						break
					}
					if arithDependsOn(st.Val, ph, 0) {
						phis = append(phis, ph)
					}
				}
				if len(phis) == 0 {
					// constant or derived from the constraint itself (s3db_vacuum: the column number)
					c.R.OK(rule, name+": ArgvIndex from the constraint", pos, "not a running position (by design for a table whose arguments are its hidden columns)")
					continue
				}
				// is the store conditional within the loop? (some back edge does not pass through it)
				conditional := false
				for _, p := range H.Preds {
					if H.Dominates(p) && !(b == p || b.Dominates(p)) {
						conditional = true
					}
				}
				good := true
				why := ""
				for _, ph := range phis {
					for i, p := range H.Preds {
						if !H.Dominates(p) {
							continue
						}
						through := b == p || b.Dominates(p)
						unchanged := ph.Edges[i] == ph
						switch {
						case through && unchanged:
							good, why = false, "the counter is not advanced on an iteration that numbers an argument"
						case !through && !unchanged && conditional:
							good, why = false, "the value advances on iterations that use no argument (it is the position among all constraints): used constraints get non-consecutive argument numbers"
						}
					}
				}
				c.R.Cond(good, rule, name+": ArgvIndex from a dense counter", pos, "the numbering advances exactly on the iterations that assign an argument", why)
			}
		}
	}
	// s3db.BestIndex: IdxStr gets an operator exactly when Used[i] = true
	fn := mustFunc(c, "", "*VirtualTable", "BestIndex")
	idxStr := mustField(c, "", "IndexOutput", "IdxStr")
	used := mustField(c, "", "IndexOutput", "Used")
	if fn == nil || idxStr == nil || used == nil {
		return
	}
	name := core.FuncName(fn)
	var usedStores []*ssa.Store
	for _, b := range fn.Blocks {
		for _, in := range b.Instrs {
			st, ok := in.(*ssa.Store)
			if !ok {
				continue
			}
			ia, ok := st.Addr.(*ssa.IndexAddr)
			if !ok || an.FieldOfLoad(ia.X) != used {
				continue
			}
			if cb, isC := constBool(st.Val); isC && cb {
				usedStores = append(usedStores, st)
			}
		}
	}
	if len(usedStores) != 1 {
		c.R.Unk(rule, name+": Used[i] = true", c.P.Pos(fn.Pos()), fmt.Sprintf("expected one 'out.Used[i] = true', found %d", len(usedStores)))
		return
	}
	ub := usedStores[0].Block()
	H := loopHeaderOf(ub)
	if H == nil {
		c.R.Unk(rule, name+": Used[i] = true", c.P.Pos(usedStores[0].Pos()), "not inside a loop over the constraints")
		return
	}
	idxBlocks := map[*ssa.BasicBlock]bool{}
	okDom := true
	for _, st := range an.StoresToField(fn, idxStr) {
		sb := st.Block()
		if !H.Dominates(sb) || !an.ReachableFromBlock(sb, H, nil) {
			continue // after the loop (the asc/desc prefix)
		}
		idxBlocks[sb] = true
		if !(ub == sb || ub.Dominates(sb)) {
			okDom = false
		}
	}
	// from ub every path back to the header passes an IdxStr store
	covered := len(idxBlocks) > 0 && !reachesAvoiding(ub, H, idxBlocks)
	c.R.Cond(okDom && covered, rule, name+": operator recorded iff constraint used", c.P.Pos(usedStores[0].Pos()),
		"IdxStr is extended on exactly the iterations that mark a constraint used: operators pair with xFilter arguments by position",
		"operators in IdxStr and used constraints can get out of step: xFilter would pair an operator with the wrong argument")
	_ = token.ADD
}

// arithDependsOn: v is computed from ph by arithmetic/conversions only (no memory loads: an
// element loaded through the index is "from the constraint", not a position).
func arithDependsOn(v ssa.Value, ph *ssa.Phi, depth int) bool {
	if v == ssa.Value(ph) {
		return true
	}
	if depth > 8 {
		return false
	}
	switch x := v.(type) {
	case *ssa.BinOp:
		return arithDependsOn(x.X, ph, depth+1) || arithDependsOn(x.Y, ph, depth+1)
	case *ssa.Convert:
		return arithDependsOn(x.X, ph, depth+1)
	case *ssa.ChangeType:
		return arithDependsOn(x.X, ph, depth+1)
	case *ssa.Phi:
		for _, e := range x.Edges {
			if e != v && arithDependsOn(e, ph, depth+1) {
				return true
			}
		}
	}
	return false
}

// reachesAvoiding: target reachable from `from` without entering avoid blocks (from itself may be in avoid: then false).
func reachesAvoiding(from, target *ssa.BasicBlock, avoid map[*ssa.BasicBlock]bool) bool {
	if avoid[from] {
		return false
	}
	return an.Reachable(from, target, avoid)
}

// ---- C06.fresh-cursor: every scan starts from a tree cursor created for this xFilter call ---------

func init() {
	register(&Rule{Name: "C06.fresh-cursor", Min: 3, Run: c06FreshCursor,
		Doc: "every seek (Ceil/Min/Max) of Cursor.Filter is on a cursor created by this call"})
	byProp["C06"] = append(byProp["C06"], "C06.fresh-cursor", "C07.compare-only", "C07.convert-range")
	explain["C06"] += " Also: fresh-cursor (mast's Ceil searches from the cursor's current node downward, so a seek is only correct on a cursor that starts at the root: each seek of Filter must be dominated by the creation of the cursor in the same call) and the comparator clauses compare-only / convert-range shared with C07 (key comparisons are part of every pushed-down predicate)."
	byProp["C14"] = append(byProp["C14"], "C05.snapshot")
	explain["C14"] += " snapshot (shared with C05): after a failed storage commit the rollback SQLite performs restores the pre-transaction tree on every path, so the connection does not keep, and later publish, a tree whose flush failed."
}

func c06FreshCursor(c *Ctx) {
	const rule = "C06.fresh-cursor"
	fn := mustFunc(c, "", "*Cursor", "Filter")
	curF := mustField(c, "", "Cursor", "cursor")
	if fn == nil || curF == nil {
		return
	}
	name := core.FuncName(fn)
	// creation: c.cursor = <result of (*kv.DB).Cursor(ctx)>
	var creates []ssa.CallInstruction
	var createStores []*ssa.Store
	for _, st := range an.StoresToField(fn, curF) {
		if ex, ok := an.Unwrap(st.Val).(*ssa.Extract); ok && ex.Index == 0 {
			if cl, ok := ex.Tuple.(*ssa.Call); ok && an.CalleeIs(cl, kvPkg, "DB", "Cursor") {
				creates = append(creates, cl)
				createStores = append(createStores, st)
			}
		}
	}
	if len(creates) == 0 {
		c.R.Bad(rule, name+": creates a cursor", c.P.Pos(fn.Pos()), "Filter never assigns a new tree cursor")
		return
	}
	n := 0
	for _, call := range an.Calls(fn) {
		m := calleeLabel(call)
		if m != "Ceil" && m != "Min" && m != "Max" {
			continue
		}
		rv := an.RecvValue(call)
		if rv == nil || !an.HasField(rv, curF) {
			continue
		}
		n++
		good := false
		for i, cr := range creates {
			if ok, _ := an.SuccessDominates(cr, call); ok && an.InstrBefore(createStores[i], call) {
				good = true
			}
		}
		c.R.Cond(good, rule, fmt.Sprintf("%s: %s on a fresh cursor", name, m), c.P.Pos(call.Pos()),
			"the seek is dominated by the creation of the cursor in this call", "a seek can run on a cursor kept from an earlier xFilter call: mast searches downward from the cursor's current node, so a probe for a key that sorts before it lands past the bound and rows are silently missing (multi-level trees)")
	}
	if n == 0 {
		c.R.Unk(rule, name+": seeks", c.P.Pos(fn.Pos()), "no Ceil/Min/Max on c.cursor found")
	}
}

// ---- C06.no-omit: pushed key constraints are still re-checked by SQLite -----------------------------

func init() {
	register(&Rule{Name: "C06.no-omit", Min: 1, Run: c06NoOmit,
		Doc: "the s3db table never tells SQLite to omit its own check of a pushed-down key constraint"})
	byProp["C06"] = append(byProp["C06"], "C06.no-omit", "C02.delta")
	explain["C06"] += " no-omit: the scan window computed by Filter is an over-approximation (a descending seek lands on the first key at or above the bound; of two coinciding bounds the first wins), which is only correct because SQLite re-checks every pushed constraint — so the implementations of xBestIndex that number arguments with the dense counter must not set ConstraintUsage.Omit. delta (shared with C02): an UPDATE records every value it is given."
}

func c06NoOmit(c *Ctx) {
	const rule = "C06.no-omit"
	n := 0
	for _, en := range an.SqliteEntries(c.P) {
		if en.Method != "BestIndex" || !an.LibraryPkg(en.PkgRel) {
			continue
		}
		fn := en.Fn
		// only tables that push comparison constraints down to a range scan: those whose
		// BestIndex delegates to s3db.(*VirtualTable).BestIndex
		delegates := false
		for _, call := range an.Calls(fn) {
			if an.CalleeIs(call, core.ModPath, "VirtualTable", "BestIndex") {
				delegates = true
			}
		}
		if !delegates {
			continue
		}
		n++
		bad := false
		for _, b := range fn.Blocks {
			for _, in := range b.Instrs {
				st, ok := in.(*ssa.Store)
				if !ok {
					continue
				}
				fa, ok := st.Addr.(*ssa.FieldAddr)
				if !ok {
					continue
				}
				fv := an.FieldVar(fa.X.Type(), fa.Field)
				if fv == nil || fv.Name() != "Omit" {
					continue
				}
				if cb, isC := constBool(st.Val); isC && !cb {
					continue
				}
				bad = true
				c.R.Bad(rule, en.Name()+": constraints stay re-checked", c.P.Pos(st.Pos()),
					"ConstraintUsage.Omit is set: SQLite stops re-checking the pushed key constraints, but the cursor's window is only an over-approximation (rows just outside a bound are returned for descending scans, max(), coinciding bounds)")
			}
		}
		if !bad {
			c.R.OK(rule, en.Name()+": constraints stay re-checked", c.P.Pos(fn.Pos()), "Omit is never set for pushed key constraints")
		}
	}
	if n == 0 {
		c.R.Errorf("no xBestIndex implementation delegating to s3db.(*VirtualTable).BestIndex found")
	}
}
