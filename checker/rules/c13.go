package rules

import (
	"fmt"
	"go/constant"
	"go/token"
	"go/types"
	"strings"

	"golang.org/x/tools/go/ssa"

	"s3dbcheck/an"
	"s3dbcheck/core"
)

func init() {
	register(&Rule{Name: "C13.gated", Min: 40, Run: c13Gated,
		Doc: "with read-only-gated call edges removed no mutating S3 request is reachable from any SQLite callback or exported API function"})
	register(&Rule{Name: "C13.flag", Min: 6, Run: c13Flag,
		Doc: "read-only flags are only ever set from each other or to true; OpenKV outside New gets the table's own options"})
	register(&Rule{Name: "C13.mutators", Min: 2, Run: c13Mutators,
		Doc: "kv Set/Tombstone reject before touching the tree when read-only"})
	register(&Rule{Name: "C13.reads", Min: 20, Run: c13Reads,
		Doc: "cursor/bestindex/version callbacks reach no mutating request even through gates"})
	claim("C13", "C13 is decided for all programs and bucket states as a call-graph property: (gated) no PUT/DELETE/other mutating request method of the S3 client is reachable from any SQLite callback or exported s3db/kv API function once call edges guarded by a read-only flag (kv.DB.readonly, kv.OpenOptions.ReadOnly, s3db.S3Options.ReadOnly) are removed; (flag) those flags are only assigned from each other or the constant true and every re-open (refresh, changes) passes the table's own options; (mutators) kv Set/Tombstone return ErrReadOnly before the tree is touched; (reads) query-side callbacks reach no mutating request at all. Not decided: nothing of the first sentence is left to runtime under the call-graph trusted base; 'rows unchanged after a rejected write' is decided only as 'the tree mutators are not reached'.",
		"C13.gated", "C13.flag", "C13.mutators", "C13.reads")
}

func allEntries(c *Ctx) []an.Entry {
	var out []an.Entry
	seen := map[*ssa.Function]bool{}
	add := func(es []an.Entry) {
		for _, e := range es {
			if !an.LibraryPkg(e.PkgRel) || seen[e.Fn] {
				continue
			}
			seen[e.Fn] = true
			out = append(out, e)
		}
	}
	add(an.SqliteEntries(c.P))
	add(an.ExportedAPI(c.P, ""))
	add(an.ExportedAPI(c.P, "kv"))
	return out
}

func c13Gated(c *Ctx) {
	const rule = "C13.gated"
	e := c.Eff()
	entries := allEntries(c)
	nSqlite := 0
	mutCut := e.ReachSetCut(func(k an.SinkKind) bool { return k == an.SinkMut })
	c.R.Stats["C13.gated.functions_reaching_mutation_ungated"] = len(mutCut)
	for _, en := range entries {
		if en.Iface != "" {
			nSqlite++
		}
		c.R.SawFunc(en.Name())
		if !mutCut[en.Fn] {
			c.R.OK(rule, en.Name(), c.P.Pos(en.Fn.Pos()), "not in the reverse closure of mutating S3 requests over ungated call edges")
			continue
		}
		res := e.Reach([]*ssa.Function{en.Fn}, true)
		c.R.Stats["C13.gated.functions_visited"] += res.Visited
		var bad []an.SinkHit
		for _, h := range res.Hits {
			if h.Kind == an.SinkMut {
				bad = append(bad, h)
			}
		}
		if len(bad) == 0 {
			c.R.OK(rule, en.Name(), c.P.Pos(en.Fn.Pos()), fmt.Sprintf("no ungated path to a mutating S3 request (%d functions visited, %d gated edges cut)", res.Visited, res.CutEdges))
			continue
		}
		for _, h := range bad {
			c.R.Bad(rule, en.Name()+" -> "+h.Sink.Name(), c.P.Pos(en.Fn.Pos()),
				"mutating S3 request reachable without passing a read-only gate", e.PathStrings(h.Path)...)
		}
	}
	c.R.Stats["C13.entries"] = len(entries)
	c.R.Stats["C13.sqlite_callbacks"] = nSqlite
	if nSqlite < 30 {
		c.R.Errorf("only %d SQLite callback entry points discovered (expected >= 30)", nSqlite)
	}
	// armed-ness: gates really cut edges that lead to mutating requests
	mut := e.ReachSet(func(k an.SinkKind) bool { return k == an.SinkMut })
	cut := 0
	gates := 0
	var cutNames []string
	for _, fn := range c.P.RepoFuncs(an.LibraryPkg) {
		gs := e.Gates(fn)
		gates += len(gs)
		for _, b := range fn.Blocks {
			for _, in := range b.Instrs {
				call, ok := in.(ssa.CallInstruction)
				if !ok || e.Gated(in) == nil {
					continue
				}
				for _, cal := range e.Callees(call) {
					_, isSink := an.SinkOf(cal)
					if (isSink && isMut(cal)) || mut[cal] {
						cut++
						cutNames = append(cutNames, core.FuncName(fn)+"->"+cal.Name())
						break
					}
				}
			}
		}
	}
	c.R.Stats["C13.gates"] = gates
	c.R.Stats["C13.gated_edges_to_mutation"] = cut
	c.R.Notes = append(c.R.Notes, "gated edges to mutating code: "+strings.Join(cutNames, ", "))
	if cut < 7 {
		c.R.Errorf("only %d call edges to mutating code are cut by read-only gates (>= 7 confirmed by hand): the gate recogniser is not armed", cut)
	}
	// without gates the expected writers must reach mutation (the graph is not vacuously empty)
	for _, w := range [][3]string{{"sqlite", "*VirtualTable", "Sync"}, {"", "", "Vacuum"}, {"", "", "OpenKV"}, {"kv", "*DB", "Commit"}} {
		fn := c.P.LookupFunc(w[0], w[1], w[2])
		if fn == nil {
			c.R.Errorf("anchor %s.%s.%s not found", w[0], w[1], w[2])
			continue
		}
		res := e.Reach([]*ssa.Function{fn}, false)
		has := false
		for _, h := range res.Hits {
			if h.Kind == an.SinkMut {
				has = true
			}
		}
		if !has {
			c.R.Errorf("call graph does not reach any mutating request from %s even without gates: graph unsound or anchor changed", core.FuncName(fn))
		}
	}
}

func isMut(fn *ssa.Function) bool {
	k, ok := an.SinkOf(fn)
	return ok && k == an.SinkMut
}

// ---- C13.flag ------------------------------------------------------------------------------

func constBool(v ssa.Value) (bool, bool) {
	if k, ok := v.(*ssa.Const); ok && k.Value != nil && k.Value.Kind() == constant.Bool {
		return constant.BoolVal(k.Value), true
	}
	return false, false
}

func c13Flag(c *Ctx) {
	const rule = "C13.flag"
	e := c.Eff()
	dbRO := an.LookupField(c.P, "kv", "DB", "readonly")
	ooRO := an.LookupField(c.P, "kv", "OpenOptions", "ReadOnly")
	soRO := an.LookupField(c.P, "", "S3Options", "ReadOnly")
	soOV := an.LookupField(c.P, "", "S3Options", "OnlyVersions")
	vtSO := an.LookupField(c.P, "", "VirtualTable", "S3Options")
	if dbRO == nil || ooRO == nil || soRO == nil || vtSO == nil || soOV == nil {
		c.R.Errorf("C13.flag: flag anchors not found")
		return
	}
	_ = e
	newFn := c.P.LookupFunc("", "", "New")
	newScope := c.Scope(newFn) // New and the helpers split out of it (they run before the table exists)
	for _, fn := range c.P.RepoFuncs(an.LibraryPkg) {
		c.R.SawFunc(core.FuncName(fn))
		for _, b := range fn.Blocks {
			for _, in := range b.Instrs {
				st, ok := in.(*ssa.Store)
				if !ok {
					continue
				}
				fa, ok := st.Addr.(*ssa.FieldAddr)
				if !ok {
					continue
				}
				fv := an.FieldVar(fa.X.Type(), fa.Field)
				if fv == nil {
					continue
				}
				site := fmt.Sprintf("%s: store %s.%s", core.FuncName(fn), typeNameOfField(fa), fv.Name())
				pos := c.P.Pos(st.Pos())
				switch fv {
				case dbRO:
					src := an.FieldOfLoad(st.Val)
					c.R.Cond(src == ooRO, rule, site, pos,
						"kv.DB.readonly is set from OpenOptions.ReadOnly",
						"kv.DB.readonly assigned from something other than OpenOptions.ReadOnly: "+st.Val.String())
				case ooRO:
					src := an.FieldOfLoad(st.Val)
					cb, isC := constBool(st.Val)
					c.R.Cond(src == soRO || (isC && cb), rule, site, pos,
						"OpenOptions.ReadOnly is S3Options.ReadOnly or true",
						"OpenOptions.ReadOnly assigned "+st.Val.String()+" (neither S3Options.ReadOnly nor the constant true)")
				case soRO:
					src := an.FieldOfLoad(st.Val)
					cb, isC := constBool(st.Val)
					c.R.Cond(src == soRO || (isC && cb), rule, site, pos,
						"S3Options.ReadOnly only ever set to true / copied",
						"S3Options.ReadOnly assigned "+st.Val.String()+": a read-only table could become writable")
				case vtSO:
					// whole-struct overwrite of a table's options
					c.R.Cond(newScope.Contains(fn), rule, site, pos, "options assigned while the table is built",
						"VirtualTable.S3Options overwritten outside New: a refreshed table may lose readonly/prefix")
				default:
					// field store into VirtualTable.S3Options.<x> outside New
					if inner, ok := fa.X.(*ssa.FieldAddr); ok && an.FieldVar(inner.X.Type(), inner.Field) == vtSO && !newScope.Contains(fn) {
						c.R.Bad(rule, site, pos, "a field of VirtualTable.S3Options is modified after the table was created")
					}
				}
			}
		}
	}
	// every construction of a flag-carrying struct from the zero value must set the flag:
	// an omitted field is "false", i.e. writable
	for _, fn := range c.P.RepoFuncs(an.LibraryPkg) {
		for _, b := range fn.Blocks {
			for _, in := range b.Instrs {
				al, ok := in.(*ssa.Alloc)
				if !ok {
					continue
				}
				st, ok := al.Type().Underlying().(*types.Pointer).Elem().Underlying().(*types.Struct)
				if !ok {
					continue
				}
				var flag *types.Var
				for i := 0; i < st.NumFields(); i++ {
					if f := st.Field(i); f == dbRO || f == ooRO {
						flag = f
					}
				}
				if flag == nil {
					continue
				}
				whole, setsFlag, fieldStores := false, false, 0
				for _, ref := range *al.Referrers() {
					switch r := ref.(type) {
					case *ssa.Store:
						if r.Addr == al {
							whole = true
						}
					case *ssa.FieldAddr:
						for _, rr := range *r.Referrers() {
							if s2, ok := rr.(*ssa.Store); ok && s2.Addr == r {
								fieldStores++
								if an.FieldVar(r.X.Type(), r.Field) == flag {
									setsFlag = true
								}
							}
						}
					}
				}
				if whole {
					continue // copied from another value: the flag travels with it
				}
				if fieldStores == 0 {
					continue // a plain variable that is filled elsewhere (not a literal)
				}
				tn := an.NamedOf(al.Type().Underlying().(*types.Pointer).Elem())
				tname := "struct"
				if tn != nil {
					tname = tn.Obj().Name()
				}
				c.R.Cond(setsFlag, rule, fmt.Sprintf("%s: %s literal sets %s", core.FuncName(fn), tname, flag.Name()), c.P.Pos(al.Pos()),
					"the read-only flag is set explicitly when the struct is built", "a "+tname+" is built field by field without its read-only flag: the result is writable whatever the source was")
			}
		}
	}
	// whole-struct stores "*p = DB{...}" cannot set readonly differently: look for stores of kv.DB values
	// whose address is not a fresh local (Clone copies *s, which preserves the flag).
	openKV := c.P.LookupFunc("", "", "OpenKV")
	if openKV == nil {
		c.R.Errorf("anchor s3db.OpenKV not found")
		return
	}
	// every OpenKV call outside New passes provenance-checked options
	nCalls := 0
	for _, fn := range c.P.RepoFuncs(an.LibraryPkg) {
		for _, b := range fn.Blocks {
			for _, in := range b.Instrs {
				call, ok := in.(ssa.CallInstruction)
				if !ok || call.Common().StaticCallee() != openKV {
					continue
				}
				nCalls++
				site := core.FuncName(fn) + ": OpenKV(options)"
				pos := c.P.Pos(call.Pos())
				why, ok := optsProvenance(c, call.Common().Args[1], fn, vtSO, soRO, soOV, 0)
				c.R.Cond(ok, rule, site, pos, "options are "+why, "options passed to OpenKV are not the table's own stored options: "+why)
			}
		}
	}
	c.R.Stats["C13.flag.openkv_calls"] = nCalls
	if nCalls < 3 {
		c.R.Errorf("only %d OpenKV call sites found (New, refresh, changes expected)", nCalls)
	}
}

func typeNameOfField(fa *ssa.FieldAddr) string {
	t := fa.X.Type()
	if pt, ok := t.Underlying().(*types.Pointer); ok {
		t = pt.Elem()
	}
	if nt, ok := t.(*types.Named); ok {
		return nt.Obj().Name()
	}
	return t.String()
}

// optsProvenance decides whether an S3Options value is a table's stored options, possibly
// copied into a local whose only modifications are ReadOnly=true / OnlyVersions=...
func optsProvenance(c *Ctx, v ssa.Value, fn *ssa.Function, vtSO, soRO, soOV *types.Var, depth int) (string, bool) {
	if depth > 3 {
		return "provenance deeper than 3 calls", false
	}
	switch x := v.(type) {
	case *ssa.UnOp:
		if x.Op != token.MUL {
			break
		}
		if fa, ok := x.X.(*ssa.FieldAddr); ok && an.FieldVar(fa.X.Type(), fa.Field) == vtSO {
			return "the table's stored S3Options", true
		}
		if al, ok := x.X.(*ssa.Alloc); ok {
			// local copy: all whole stores must be fine, field stores only to ReadOnly(true)/OnlyVersions
			whole := 0
			for _, ref := range *al.Referrers() {
				switch r := ref.(type) {
				case *ssa.Store:
					if r.Addr == al {
						whole++
						if why, ok := optsProvenance(c, r.Val, fn, vtSO, soRO, soOV, depth+1); !ok {
							return why, false
						}
					}
				case *ssa.FieldAddr:
					fv := an.FieldVar(r.X.Type(), r.Field)
					for _, rr := range *r.Referrers() {
						st, isSt := rr.(*ssa.Store)
						if !isSt || st.Addr != r {
							continue
						}
						if fv == soRO {
							if cb, isC := constBool(st.Val); !isC || !cb {
								return "copy with ReadOnly set to " + st.Val.String(), false
							}
						} else if fv != soOV {
							return "copy with field " + fv.Name() + " modified", false
						}
					}
				case *ssa.UnOp:
				case *ssa.DebugRef:
				default:
					return "options local escapes: " + ref.String(), false
				}
			}
			if whole == 0 {
				return "local options never initialised from a table", false
			}
			return "a copy of the table's options with only ReadOnly=true/OnlyVersions changed", true
		}
	case *ssa.Parameter:
		// one-level (bounded) summary: every static caller must pass good options
		idx := -1
		for i, p := range fn.Params {
			if p == x {
				idx = i
			}
		}
		node := c.P.VTA().Nodes[fn]
		if idx < 0 || node == nil || len(node.In) == 0 {
			return "parameter of a function without known callers", false
		}
		for _, in := range node.In {
			args := in.Site.Common().Args
			if in.Site.Common().StaticCallee() != fn || idx >= len(args) {
				return "parameter reached through a dynamic call", false
			}
			if why, ok := optsProvenance(c, args[idx], in.Caller.Func, vtSO, soRO, soOV, depth+1); !ok {
				return "caller " + core.FuncName(in.Caller.Func) + ": " + why, false
			}
		}
		return "a parameter that every caller fills with the table's options", true
	}
	return "value " + v.String() + " of unrecognised origin", false
}

// ---- C13.mutators ---------------------------------------------------------------------------

func c13Mutators(c *Ctx) {
	const rule = "C13.mutators"
	e := c.Eff()
	crdtSet := c.P.LookupFunc("kv/internal/crdt", "*Tree", "Set")
	crdtTomb := c.P.LookupFunc("kv/internal/crdt", "*Tree", "Tombstone")
	if crdtSet == nil || crdtTomb == nil {
		c.R.Errorf("anchors crdt.(*Tree).Set/Tombstone not found")
		return
	}
	kvpk := c.P.Pkg("kv")
	for _, fn := range c.P.RepoFuncs(func(rel string) bool { return rel == "kv" }) {
		_ = kvpk
		for _, b := range fn.Blocks {
			for _, in := range b.Instrs {
				call, ok := in.(ssa.CallInstruction)
				if !ok {
					continue
				}
				sc := call.Common().StaticCallee()
				if sc != crdtSet && sc != crdtTomb {
					continue
				}
				c.R.SawFunc(core.FuncName(fn))
				site := core.FuncName(fn) + " -> " + core.FuncName(sc)
				g := e.Gated(in)
				if g == nil || g.Flag != "DB.readonly" {
					c.R.Bad(rule, site, c.P.Pos(call.Pos()), "tree mutator called without a dominating kv.DB.readonly check")
					continue
				}
				// the flag-true side must return a non-nil error
				ok2 := g.TrueSucc != nil && returnsNonNilError(g.TrueSucc)
				c.R.Cond(ok2, rule, site, c.P.Pos(call.Pos()), "rejected with an error before the tree is touched when read-only",
					"read-only branch does not return an error")
			}
		}
	}
}

// returnsNonNilError: block ends in a Return whose last operand is not the nil constant.
func returnsNonNilError(b *ssa.BasicBlock) bool {
	if len(b.Instrs) == 0 {
		return false
	}
	ret, ok := b.Instrs[len(b.Instrs)-1].(*ssa.Return)
	if !ok || len(ret.Results) == 0 {
		return false
	}
	last := an.RetErr(ret)
	if k, ok := last.(*ssa.Const); ok && k.IsNil() {
		return false
	}
	return true
}

// ---- C13.reads ------------------------------------------------------------------------------

func c13Reads(c *Ctx) {
	const rule = "C13.reads"
	e := c.Eff()
	n := 0
	mutAll := e.ReachSet(func(k an.SinkKind) bool { return k == an.SinkMut })
	for _, en := range an.SqliteEntries(c.P) {
		if !an.LibraryPkg(en.PkgRel) {
			continue
		}
		isRead := false
		switch en.Iface {
		case "VirtualCursor":
			isRead = true
		case "VirtualTable":
			isRead = en.Method == "BestIndex"
		}
		if en.Recv == "VersionFunc" {
			isRead = true
		}
		// by design: selecting from s3db_vacuum performs the vacuum in xFilter
		if en.Recv == "VacuumCursor" && en.Method == "Filter" {
			continue
		}
		if !isRead {
			continue
		}
		n++
		c.R.SawFunc(en.Name())
		if !mutAll[en.Fn] {
			c.R.OK(rule, en.Name(), c.P.Pos(en.Fn.Pos()), "not in the reverse closure of mutating S3 requests (gates ignored)")
			continue
		}
		res := e.Reach([]*ssa.Function{en.Fn}, false)
		bad := false
		// a callback may open a table of its own (s3db_changes re-opens the two versions when it is
		// scanned again): accepted when the open is forced read-only where it is made — the options
		// handed to OpenKV are a local copy with ReadOnly stored true — and, with the read-only gates
		// honoured, no mutating request is reachable
		var gated *an.ReachResult
		forced := func(path []an.Step) bool {
			for _, st := range path {
				if forcesReadOnlyOpen(c, st.Caller) {
					if gated == nil {
						gated = e.Reach([]*ssa.Function{en.Fn}, true)
					}
					for _, h := range gated.Hits {
						if h.Kind == an.SinkMut {
							return false
						}
					}
					return true
				}
			}
			return false
		}
		for _, h := range res.Hits {
			if h.Kind == an.SinkMut {
				if forced(h.Path) {
					continue
				}
				bad = true
				c.R.Bad(rule, en.Name()+" -> "+h.Sink.Name(), c.P.Pos(en.Fn.Pos()), "query-side callback can reach a mutating S3 request", e.PathStrings(h.Path)...)
			}
		}
		if !bad {
			c.R.OK(rule, en.Name(), c.P.Pos(en.Fn.Pos()), fmt.Sprintf("reaches no mutating request, gates ignored (%d functions visited, %d read sinks)", res.Visited, len(res.Hits)))
		}
	}
}


// forcesReadOnlyOpen: fn calls OpenKV with options that are a local copy in which ReadOnly is
// stored as the constant true before the call.
func forcesReadOnlyOpen(c *Ctx, fn *ssa.Function) bool {
	openKV := c.P.LookupFunc("", "", "OpenKV")
	soRO := an.LookupField(c.P, "", "S3Options", "ReadOnly")
	if fn == nil || openKV == nil || soRO == nil {
		return false
	}
	for _, call := range an.Calls(fn) {
		if call.Common().StaticCallee() != openKV || len(call.Common().Args) < 2 {
			continue
		}
		ld, ok := call.Common().Args[1].(*ssa.UnOp)
		if !ok || ld.Op != token.MUL {
			continue
		}
		al, ok := ld.X.(*ssa.Alloc)
		if !ok {
			continue
		}
		for _, r := range *al.Referrers() {
			fa, ok := r.(*ssa.FieldAddr)
			if !ok || an.FieldVar(fa.X.Type(), fa.Field) != soRO {
				continue
			}
			for _, rr := range *fa.Referrers() {
				if st, ok := rr.(*ssa.Store); ok && st.Addr == ssa.Value(fa) {
					if cb, isC := constBool(st.Val); isC && cb && an.InstrBefore(st, call.(ssa.Instruction)) {
						return true
					}
				}
			}
		}
	}
	return false
}
