package rules

import (
	"fmt"
	"go/token"
	"strings"

	"golang.org/x/tools/go/ssa"

	"s3dbcheck/an"
	"s3dbcheck/core"
)

// ---- C19.own-http-client: opening a table does not write the process-wide HTTP client -----------------

func init() {
	register(&Rule{Name: "C19.own-http-client", Min: 1, Run: c19OwnHTTPClient,
		Doc: "every aws session the library creates gets an HTTP client of its own: the SDK installs a transport into the session's client when a CA bundle or client certificate is configured, and its default client is the process-wide http.DefaultClient"})
	byProp["C19"] = append(byProp["C19"], "C19.own-http-client")
	explain["C19"] += " own-http-client: 'without data races … under the race detector' — aws-sdk-go v1's session writes client.Transport of Config.HTTPClient when AWS_CA_BUNDLE (or a client TLS certificate) is configured (session.loadCustomCABundle / loadClientTLSCert), and defaults.Config() makes that client http.DefaultClient, a package-level variable of net/http that every other connection's requests read (http.(*Client).transport). Both premises are read off the pinned SDK's code on every run (if either no longer holds the rule says 'moot'); then at every call of session.NewSession / NewSessionWithOptions in library code the aws.Config handed over has its HTTPClient field assigned, before the call on every path, a value that is neither nil nor http.DefaultClient."
}

func c19OwnHTTPClient(c *Ctx) {
	const rule = "C19.own-http-client"
	const sessPkg = "github.com/aws/aws-sdk-go/aws/session"
	const defPkg = "github.com/aws/aws-sdk-go/aws/defaults"
	isDefaultClient := func(v ssa.Value) bool {
		ld, ok := v.(*ssa.UnOp)
		if !ok || ld.Op != token.MUL {
			return false
		}
		g, ok := ld.X.(*ssa.Global)
		return ok && g.Pkg != nil && g.Pkg.Pkg.Path() == "net/http" && g.Name() == "DefaultClient"
	}
	fieldNamed := func(fa *ssa.FieldAddr, name string) bool {
		fv := an.FieldVar(fa.X.Type(), fa.Field)
		return fv != nil && fv.Name() == name
	}
	// premise 1: the SDK's default config uses http.DefaultClient
	// premise 2: the session stores into the Transport of the config's client
	p1, p2 := false, false
	var p2where []string
	for fn := range c.P.AllFuncs {
		if fn.Pkg == nil {
			continue
		}
		switch fn.Pkg.Pkg.Path() {
		case defPkg:
			for _, b := range fn.Blocks {
				for _, in := range b.Instrs {
					if call, ok := in.(ssa.CallInstruction); ok {
						for _, a := range call.Common().Args {
							if isDefaultClient(a) {
								p1 = true
							}
						}
					}
					if st, ok := in.(*ssa.Store); ok && isDefaultClient(st.Val) {
						p1 = true
					}
				}
			}
		case sessPkg:
			for _, b := range fn.Blocks {
				for _, in := range b.Instrs {
					st, ok := in.(*ssa.Store)
					if !ok {
						continue
					}
					if fa, ok := st.Addr.(*ssa.FieldAddr); ok && fieldNamed(fa, "Transport") {
						if nt := an.NamedOf(fa.X.Type()); nt != nil || true {
							if strings.Contains(fa.X.Type().String(), "net/http.Client") {
								p2 = true
								p2where = append(p2where, fn.Name())
							}
						}
					}
				}
			}
		}
	}
	if !p1 || !p2 {
		c.R.OK(rule, "aws sessions: the process-wide HTTP client is not written", "-", fmt.Sprintf("moot: the pinned SDK %s (default client is http.DefaultClient: %v; session writes client.Transport: %v)", "no longer has both premises", p1, p2))
		return
	}
	n := 0
	for _, fn := range c.P.RepoFuncs(an.LibraryPkg) {
		for _, call := range an.Calls(fn) {
			f := call.Common().StaticCallee()
			if f == nil || an.PkgPathOf(f) != sessPkg || !(f.Name() == "NewSession" || f.Name() == "NewSessionWithOptions") {
				continue
			}
			n++
			// the aws.Config allocations that reach the call
			var cfgs []*ssa.Alloc
			for _, a := range call.Common().Args {
				an.DependsOn(a, func(v ssa.Value) bool {
					if al, ok := v.(*ssa.Alloc); ok && strings.HasSuffix(al.Type().String(), "aws-sdk-go/aws.Config") {
						cfgs = append(cfgs, al)
					}
					return false
				})
			}
			good := len(cfgs) > 0
			why := "no aws.Config built in this function reaches the call (the SDK's default config is used)"
			// a composite literal is built in a temporary and copied over as a whole
			for _, al := range append([]*ssa.Alloc{}, cfgs...) {
				for _, r := range *al.Referrers() {
					if st, ok := r.(*ssa.Store); ok && st.Addr == ssa.Value(al) {
						if ld, ok := st.Val.(*ssa.UnOp); ok && ld.Op == token.MUL {
							if src, ok := ld.X.(*ssa.Alloc); ok {
								cfgs = append(cfgs, src)
							}
						}
					}
				}
			}
			anySet := false
			for _, al := range cfgs {
				set := false
				for _, r := range *al.Referrers() {
					fa, ok := r.(*ssa.FieldAddr)
					if !ok || !fieldNamed(fa, "HTTPClient") {
						continue
					}
					for _, rr := range *fa.Referrers() {
						st, ok := rr.(*ssa.Store)
						if !ok || st.Addr != ssa.Value(fa) {
							continue
						}
						switch {
						case an.IsNilConst(st.Val):
						case isDefaultClient(st.Val):
							why = "the config's HTTPClient is http.DefaultClient itself"
						default:
							if an.InstrBefore(st, call.(ssa.Instruction)) {
								set = true
							} else {
								why = "the config's HTTPClient is assigned, but not before the call on every path"
							}
						}
					}
				}
				if set {
					anySet = true
				}
			}
			if !anySet {
				good = false
				if !strings.Contains(why, "HTTPClient") {
					why = "the aws.Config handed to the session leaves HTTPClient unset"
				}
			}
			c.R.Cond(good, rule, fmt.Sprintf("%s -> %s #%d: the session gets its own HTTP client", core.FuncName(fn), f.Name(), n), c.P.Pos(call.Pos()),
				"Config.HTTPClient is assigned a client of this session's own before the call",
				why+": with AWS_CA_BUNDLE or a client certificate configured the session stores a new transport into http.DefaultClient ("+strings.Join(p2where, ", ")+") while other connections' requests read it — the race detector reports it for two connections that open a table and commit at the same time")
		}
	}
	if n == 0 {
		c.R.Unk(rule, "aws sessions", "-", "no session.NewSession call found in library code")
	}
}
