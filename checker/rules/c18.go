package rules

import (
	"sort"
	"fmt"
	"go/token"
	"go/types"
	"strings"

	"golang.org/x/tools/go/ssa"

	"s3dbcheck/an"
	"s3dbcheck/core"
)

func init() {
	register(&Rule{Name: "C18.auth", Min: 3, Run: c18Auth,
		Doc: "plaintext is returned only after secretbox.Open / poly1305.Verify (or an authenticating helper) succeeded"})
	register(&Rule{Name: "C18.wrap", Min: 4, Run: c18Wrap,
		Doc: "the node store handed to the tree is the encrypting wrapper; it stores only Encrypt(value) and returns only Decrypt(loaded)"})
	register(&Rule{Name: "C18.deterministic", Min: 2, Run: c18Deterministic,
		Doc: "nothing random or time-dependent is reachable from encrypt; the nonce is derived from message and key"})
	claim("C18", "C18 clauses decided: auth (on every path a nil-error return of the opening functions is dominated by a successful authentication), wrap (every byte string handed to the inner node store is the result of Encrypt of the argument, on first try and on every retry; Load returns only Decrypt of what was loaded; the tree gets the wrapper), deterministic (equal plaintext and key give equal ciphertext: no randomness/time reachable from encrypt, nonce derived from both). Not decided: bounds safety of the legacy slicing for all lengths, cryptographic strength, legacy-format compatibility.",
		"C18.auth", "C18.wrap", "C18.deterministic")
}

const (
	secretboxPkg = "golang.org/x/crypto/nacl/secretbox"
	poly1305Pkg  = "golang.org/x/crypto/poly1305"
)

func isAuthPrimitive(call ssa.CallInstruction) bool {
	f := call.Common().StaticCallee()
	if f == nil {
		return false
	}
	p := an.PkgPathOf(f)
	return (p == secretboxPkg && f.Name() == "Open") || (strings.HasSuffix(p, "poly1305") && f.Name() == "Verify")
}

func c18Auth(c *Ctx) {
	const rule = "C18.auth"
	kvFuncs := c.P.RepoFuncs(func(rel string) bool { return rel == "kv" })
	// authenticating functions: call a primitive directly, or (fixpoint) another authenticating function
	auth := map[*ssa.Function]bool{}
	for changed := true; changed; {
		changed = false
		for _, fn := range kvFuncs {
			if auth[fn] || fn.Signature.Results().Len() == 0 {
				continue
			}
			r := fn.Signature.Results()
			if !an.IsErrorType(r.At(r.Len() - 1).Type()) {
				continue
			}
			for _, call := range an.Calls(fn) {
				if isAuthPrimitive(call) || (call.Common().StaticCallee() != nil && auth[call.Common().StaticCallee()]) {
					auth[fn] = true
					changed = true
					break
				}
			}
		}
	}
	// restrict to the decrypting side: functions in crypto.go that are not Encrypt wrappers
	n := 0
	for _, fn := range kvFuncs {
		if !auth[fn] {
			continue
		}
		pos := c.P.Pos(fn.Pos())
		if !strings.HasPrefix(pos, "kv/crypto.go:") {
			continue
		}
		name := core.FuncName(fn)
		c.R.SawFunc(name)
		// typestate over feasible paths: "an authentication primitive answered true on this path".
		// The primitive's boolean may be copied into a variable that is later narrowed (ok = false):
		// the set of SSA values that carry the primitive's answer on the current path follows the phis.
		h := an.THooks{}
		h.Instr = func(in ssa.Instruction, st0 an.TState) an.TState {
			st := st0.(authState)
			switch x := in.(type) {
			case *ssa.Call:
				if isAuthPrimitive(x) && x.Call.Signature().Results().Len() == 1 {
					st = st.with(x)
				}
				if cal := x.Call.StaticCallee(); cal != nil && auth[cal] {
					st = st.delegate(x)
				}
			case *ssa.Extract:
				if cl, ok := x.Tuple.(*ssa.Call); ok && isAuthPrimitive(cl) && x.Index == cl.Call.Signature().Results().Len()-1 {
					st = st.with(x)
				}
			}
			return st
		}
		h.Phi = func(ph *ssa.Phi, incoming ssa.Value, st0 an.TState) an.TState {
			st := st0.(authState)
			if st.carries(incoming) {
				return st.with(ph)
			}
			return st.without(ph)
		}
		h.Branch = func(iff *ssa.If, side bool, st0 an.TState) an.TState {
			st := st0.(authState)
			cond, neg := an.StripNot(iff.Cond)
			if st.carries(cond) && side != neg {
				st.auth = true
			}
			return st
		}
		k := 0
		seenRet := map[*ssa.Return]bool{}
		badRet := map[*ssa.Return]bool{}
		var order []*ssa.Return
		for _, ex := range an.WalkTypestate(fn, authState{}, h, c.Scope(fn)) {
			if ex.ErrNil == 0 {
				continue // an error is returned
			}
			st := ex.St.(authState)
			if !seenRet[ex.Ret] {
				seenRet[ex.Ret] = true
				order = append(order, ex.Ret)
			}
			if st.auth {
				continue
			}
			// the results of an authenticating function returned as they are: its own obligation
			delegated := false
			if e, ok := an.RetErr(ex.Ret).(*ssa.Extract); ok {
				if cl, ok := e.Tuple.(*ssa.Call); ok && st.delegated(cl) {
					delegated = true
				}
			}
			// ... or handed up through a helper that was walked in line (decrypt -> decryptLegacy ->
			// open_easy): the outcome of the error is unknown on this path, and whatever it can be
			// is an error made right there or the error of an authenticating function
			if !delegated && ex.ErrNil == -1 {
				sc := c.Scope(fn)
				var fromAuth func(v ssa.Value, d int) bool
				fromAuth = func(v ssa.Value, d int) bool {
					e, ok := v.(*ssa.Extract)
					if !ok || d > 3 {
						return false
					}
					cl, ok := e.Tuple.(*ssa.Call)
					if !ok {
						return false
					}
					cal := cl.Call.StaticCallee()
					if cal == nil {
						return false
					}
					if !sc.Contains(cal) || cal == fn {
						return auth[cal]
					}
					n := 0
					for _, b := range cal.Blocks {
						ret, isRet := b.Instrs[len(b.Instrs)-1].(*ssa.Return)
						if !isRet {
							continue
						}
						re := an.RetErr(ret)
						if re == nil || an.IsNilConst(re) || an.KnownNonNil(re) {
							continue // known outcomes: decided by the walk itself
						}
						n++
						if !fromAuth(re, d+1) {
							return false
						}
					}
					return n > 0
				}
				delegated = fromAuth(an.RetErr(ex.Ret), 0)
			}
			if !delegated {
				badRet[ex.Ret] = true
			}
		}
		sort.Slice(order, func(i, j int) bool { return order[i].Pos() < order[j].Pos() })
		for _, ret := range order {
			k++
			n++
			c.R.Cond(!badRet[ret], rule, fmt.Sprintf("%s: nil-error return #%d", name, k), c.P.Pos(ret.Pos()),
				"reached only on paths where the authentication (secretbox.Open / poly1305.Verify / authenticating helper) answered true",
				"data can be returned as valid although no authentication succeeded on this path: a truncated or modified object, or a wrong passphrase, yields data instead of an error")
		}
	}
	if n < 3 {
		c.R.Errorf("only %d nil-error returns found in the opening functions of kv/crypto.go (decrypt, open_easy, open_detached expected)", n)
	}
}

func c18Wrap(c *Ctx) {
	const rule = "C18.wrap"
	store := mustFunc(c, "kv", "*persistEncryptor", "Store")
	load := mustFunc(c, "kv", "*persistEncryptor", "Load")
	open := mustFunc(c, "kv", "", "Open")
	tpe := mustFunc(c, "kv", "S3BucketInfo", "toPersistEncrypt")
	if store == nil || load == nil || open == nil || tpe == nil {
		return
	}
	// Store: every inner Store gets Encrypt(value)
	valueP := an.ParamOfType(store, "value", "[]byte")
	nInner := 0
	for _, call := range an.Calls(store) {
		if !an.CalleeIs(call, mastPersistS3, "Persist", "Store") {
			continue
		}
		nInner++
		body := call.Common().Args[3]
		good := false
		var enc ssa.CallInstruction
		if ex, ok := an.Unwrap(body).(*ssa.Extract); ok && ex.Index == 0 {
			if cl, ok := ex.Tuple.(*ssa.Call); ok && cl.Call.IsInvoke() && cl.Call.Method.Name() == "Encrypt" {
				for _, a := range cl.Call.Args {
					if a == ssa.Value(valueP) {
						good = true
						enc = cl
					}
				}
			}
		}
		if good {
			ok, _ := an.SuccessDominates(enc, call)
			good = ok
		}
		c.R.Cond(good, rule, fmt.Sprintf("%s: inner Store #%d stores Encrypt(value)", core.FuncName(store), nInner), c.P.Pos(call.Pos()),
			"the bytes written are the successful result of Encrypt applied to the argument", "bytes other than Encrypt(value) (e.g. the plaintext on a retry path) can be written to the node store")
	}
	if nInner == 0 {
		c.R.Bad(rule, core.FuncName(store)+": inner Store", c.P.Pos(store.Pos()), "persistEncryptor.Store never stores")
	}
	// Load: nil-error returns give Decrypt(inner Load)
	k := 0
	for _, b := range load.Blocks {
		ret, ok := b.Instrs[len(b.Instrs)-1].(*ssa.Return)
		if !ok {
			continue
		}
		data := an.RetVal(ret, 0)
		if an.IsNilConst(data) {
			continue
		}
		k++
		good := false
		if ex, ok := an.Unwrap(data).(*ssa.Extract); ok && ex.Index == 0 {
			if cl, ok := ex.Tuple.(*ssa.Call); ok && cl.Call.IsInvoke() && cl.Call.Method.Name() == "Decrypt" {
				// its argument comes from the inner Load
				for _, a := range cl.Call.Args {
					if an.DependsOn(a, func(v ssa.Value) bool {
						ic, ok := v.(*ssa.Call)
						return ok && an.CalleeIs(ic, mastPersistS3, "Persist", "Load")
					}) {
						good = true
					}
				}
			}
		}
		c.R.Cond(good, rule, fmt.Sprintf("%s: returns Decrypt(loaded) #%d", core.FuncName(load), k), c.P.Pos(ret.Pos()),
			"data leaves the wrapper only through Decrypt", "persistEncryptor.Load can return bytes that did not pass Decrypt")
	}
	// Open hands the wrapper to the tree
	sip := mustField(c, "kv/internal/crdt", "Config", "StoreImmutablePartsWith")
	if sip != nil {
		found := false
		for _, st := range an.StoresToField(open, sip) {
			found = true
			good := an.DependsOn(st.Val, func(v ssa.Value) bool {
				cl, ok := v.(*ssa.Call)
				return ok && cl.Call.StaticCallee() == tpe
			})
			c.R.Cond(good, rule, "kv.Open: tree stores nodes through the encrypting wrapper", c.P.Pos(st.Pos()),
				"crdt.Config.StoreImmutablePartsWith is the persistEncryptor", "the tree is given a node store that is not the encrypting wrapper: nodes are stored in plaintext")
		}
		if !found {
			c.R.Unk(rule, "kv.Open: tree stores nodes through the encrypting wrapper", c.P.Pos(open.Pos()), "no assignment of StoreImmutablePartsWith in Open")
		}
		// the encryptor passed to toPersistEncrypt is cfg.NodeEncryptor
		ne := mustField(c, "kv", "Config", "NodeEncryptor")
		for _, call := range an.Calls(open) {
			if call.Common().StaticCallee() != tpe {
				continue
			}
			a := call.Common().Args
			good := ne != nil && an.FieldOfLoad(a[len(a)-1]) == ne
			c.R.Cond(good, rule, "kv.Open: wrapper uses the configured encryptor", c.P.Pos(call.Pos()), "cfg.NodeEncryptor", "the node store is not built with cfg.NodeEncryptor")
		}
	}
	// toPersistEncrypt: the encryptor field of the wrapper is the parameter (noEncryption only when nil)
	encF := mustField(c, "kv", "persistEncryptor", "encryptor")
	encP := an.ParamNamed(tpe, "encryptor")
	if encP == nil {
		for _, p := range tpe.Params {
			if nt := an.NamedOf(p.Type()); nt != nil && nt.Obj().Name() == "Encryptor" {
				encP = p
			}
		}
	}
	if encF != nil && encP != nil {
		for _, st := range an.StoresToField(tpe, encF) {
			good := false
			switch x := an.Unwrap(st.Val).(type) {
			case *ssa.Parameter:
				good = x == encP
			case *ssa.Phi:
				good = true
				for i, e := range x.Edges {
					if an.Unwrap(e) == ssa.Value(encP) {
						continue
					}
					// the substitute is allowed only when the parameter is nil
					if !an.GuardedByNilTest(an.Edge{From: x.Block().Preds[i], To: x.Block()}, func(v ssa.Value) bool { return v == ssa.Value(encP) }, true) {
						good = false
					}
				}
			}
			c.R.Cond(good, rule, core.FuncName(tpe)+": wrapper keeps the given encryptor", c.P.Pos(st.Pos()),
				"the no-op encryptor is substituted only for a nil encryptor", "a configured encryptor can be replaced by another one")
		}
	}
	_ = token.MUL
}

func c18Deterministic(c *Ctx) {
	const rule = "C18.deterministic"
	enc := mustFunc(c, "kv", "", "encrypt")
	nonceFn := mustFunc(c, "kv", "", "nonce")
	if enc == nil || nonceFn == nil {
		return
	}
	// forward closure over the call graph from encrypt
	cg := c.P.VTA()
	seen := map[*ssa.Function]bool{enc: true}
	work := []*ssa.Function{enc}
	var bad []string
	for len(work) > 0 {
		f := work[len(work)-1]
		work = work[:len(work)-1]
		n := cg.Nodes[f]
		if n == nil {
			continue
		}
		for _, ed := range n.Out {
			cal := ed.Callee.Func
			if cal == nil || seen[cal] {
				continue
			}
			p := an.PkgPathOf(cal)
			switch {
			case p == "crypto/rand" || p == "math/rand" || p == "math/rand/v2":
				bad = append(bad, core.FuncName(f)+" -> "+p+"."+cal.Name())
				continue
			case p == "time" && (cal.Name() == "Now" || cal.Name() == "Since"):
				bad = append(bad, core.FuncName(f)+" -> time."+cal.Name())
				continue
			}
			// follow repo code and the crypto libraries; stop at the runtime/fmt etc.
			if strings.HasPrefix(p, core.ModPath) || strings.HasPrefix(p, "golang.org/x/crypto") {
				seen[cal] = true
				work = append(work, cal)
			}
		}
	}
	c.R.Stats["C18.deterministic.functions_reached"] = len(seen)
	c.R.Cond(len(bad) == 0, rule, core.FuncName(enc)+": no randomness or clock reachable", c.P.Pos(enc.Pos()),
		fmt.Sprintf("%d functions reachable from encrypt, none random or time-dependent", len(seen)),
		"encrypt can reach a source of randomness/time: equal plaintext no longer gives equal ciphertext, unchanged nodes are stored again ("+strings.Join(bad, "; ")+")")
	// the nonce given to Seal is copied from nonce(f(message,key)); the sealing code may have been
	// split out of encrypt, so look at every kv function encrypt can (statically) reach
	kvFns := []*ssa.Function{enc}
	seenF := map[*ssa.Function]bool{enc: true}
	for i := 0; i < len(kvFns); i++ {
		for _, call := range an.Calls(kvFns[i]) {
			if cal := call.Common().StaticCallee(); cal != nil && an.PkgPathOf(cal) == kvPkg && !seenF[cal] && len(cal.Blocks) > 0 {
				seenF[cal] = true
				kvFns = append(kvFns, cal)
			}
		}
	}
	nSeal := 0
	for _, sf := range kvFns {
		var msgP, keyP ssa.Value
		for _, p := range sf.Params {
			switch p.Type().String() {
			case "[]byte":
				if msgP == nil || p.Name() == "message" {
					msgP = p
				}
			case "*[32]byte":
				keyP = p
			}
		}
		if pm := an.ParamNamed(sf, "message"); pm != nil {
			msgP = pm
		}
		for _, call := range an.Calls(sf) {
			f := call.Common().StaticCallee()
			if f == nil || an.PkgPathOf(f) != secretboxPkg || f.Name() != "Seal" {
				continue
			}
			nSeal++
			// the plaintext sealed is the message parameter
			sealed := call.Common().Args[1]
			nonceArg := call.Common().Args[2]
			al, _ := nonceArg.(*ssa.Alloc)
			good := false
			if al != nil && msgP != nil && keyP != nil && an.SameValue(sealed, msgP) {
				good = nonceAllocFrom(al, msgP, keyP, nonceFn, 0)
			}
			c.R.Cond(good, rule, core.FuncName(sf)+": nonce derived from message and key", c.P.Pos(call.Pos()),
				"the nonce passed to secretbox.Seal is copied from nonce(message || key), computed in the sealing function from its own message and key", "the nonce passed to secretbox.Seal is not computed, in the sealing function, from the message that is sealed and the key (e.g. it is hashed from a buffer handed in from outside): equal plaintext can get different nonces and different plaintexts the same nonce")
		}
	}
	if nSeal == 0 {
		c.R.Bad(rule, core.FuncName(enc)+": seals", c.P.Pos(enc.Pos()), "no secretbox.Seal reachable from encrypt")
	}
}

// nonceAllocFrom: the array al is filled by copy(al[:], nonce(f(msg, key))…), or is the result of a
// same-package helper called with msg and key whose returned array is filled that way.
// nonceCallFrom: nc is nonce(f(message, key)), or a call of a kv helper that is given message and
// key and returns, on every path, the result of such a call (messageNonce(key, message)).
func nonceCallFrom(nc *ssa.Call, msgP, keyP ssa.Value, nonceFn *ssa.Function, depth int) bool {
	if depth > 2 {
		return false
	}
	h := nc.Call.StaticCallee()
	if h == nil {
		return false
	}
	if h == nonceFn {
		a := nc.Call.Args[0]
		dm := an.DependsOn(a, func(w ssa.Value) bool { return w == msgP })
		dk := an.DependsOn(a, func(w ssa.Value) bool { return w == keyP })
		return dm && dk
	}
	if an.PkgPathOf(h) != kvPkg || len(h.Blocks) == 0 {
		return false
	}
	var hm, hk ssa.Value
	for i, a := range nc.Call.Args {
		if i >= len(h.Params) {
			break
		}
		if an.SameValue(a, msgP) {
			hm = h.Params[i]
		}
		if an.SameValue(a, keyP) {
			hk = h.Params[i]
		}
	}
	if hm == nil || hk == nil {
		return false
	}
	n := 0
	for _, b := range h.Blocks {
		ret, isRet := b.Instrs[len(b.Instrs)-1].(*ssa.Return)
		if !isRet || len(ret.Results) == 0 {
			continue
		}
		n++
		rv := an.RetVal(ret, 0)
		if an.IsNilConst(rv) {
			continue // the failing return
		}
		if !an.DependsOn(rv, func(v ssa.Value) bool {
			c2, ok := v.(*ssa.Call)
			return ok && nonceCallFrom(c2, hm, hk, nonceFn, depth+1)
		}) {
			return false
		}
	}
	return n > 0
}

func nonceAllocFrom(al *ssa.Alloc, msgP, keyP ssa.Value, nonceFn *ssa.Function, depth int) bool {
	if depth > 2 || al.Referrers() == nil {
		return false
	}
	for _, r := range *al.Referrers() {
		switch x := r.(type) {
		case *ssa.Slice:
			for _, rr := range *x.Referrers() {
				cp, ok := rr.(*ssa.Call)
				if !ok {
					continue
				}
				bi, ok := cp.Call.Value.(*ssa.Builtin)
				if !ok || bi.Name() != "copy" || cp.Call.Args[0] != ssa.Value(x) {
					continue
				}
				src := cp.Call.Args[1]
				if an.DependsOn(src, func(v ssa.Value) bool {
					nc, ok := v.(*ssa.Call)
					return ok && nonceCallFrom(nc, msgP, keyP, nonceFn, 0)
				}) {
					return true
				}
			}
		case *ssa.Store:
			if x.Addr != ssa.Value(al) {
				continue
			}
			var cl *ssa.Call
			switch v := x.Val.(type) {
			case *ssa.Call:
				cl = v
			case *ssa.Extract:
				cl, _ = v.Tuple.(*ssa.Call)
			}
			if cl == nil {
				continue
			}
			h := cl.Call.StaticCallee()
			if h == nil || an.PkgPathOf(h) != kvPkg || len(h.Blocks) == 0 {
				continue
			}
			var hm, hk ssa.Value
			for i, a := range cl.Call.Args {
				if i >= len(h.Params) {
					break
				}
				if an.SameValue(a, msgP) {
					hm = h.Params[i]
				}
				if an.SameValue(a, keyP) {
					hk = h.Params[i]
				}
			}
			if hm == nil || hk == nil {
				continue
			}
			ok := false
			for _, b := range h.Blocks {
				ret, isRet := b.Instrs[len(b.Instrs)-1].(*ssa.Return)
				if !isRet || !an.IsNilConst(an.RetErr(ret)) {
					continue
				}
				rv := an.RetVal(ret, 0)
				if ld, isLd := rv.(*ssa.UnOp); isLd && ld.Op == token.MUL {
					if al2, isAl := ld.X.(*ssa.Alloc); isAl && nonceAllocFrom(al2, hm, hk, nonceFn, depth+1) {
						ok = true
						continue
					}
				}
				return false
			}
			if ok {
				return true
			}
		}
	}
	return false
}

// ---- C18.stateless: encryptors are called concurrently (mast stores up to 40 nodes in parallel) ----

func init() {
	register(&Rule{Name: "C18.stateless", Min: 4, Run: c18Stateless,
		Doc: "Encrypt/Decrypt/Store/Load of the encryptor types write no state reachable from their receiver or from package variables"})
	byProp["C18"] = append(byProp["C18"], "C18.stateless")
	explain["C18"] += " stateless: the tree flushes dirty nodes in parallel, so Encrypt/Decrypt (and the wrapper's Store/Load) run concurrently on one encryptor; they must not write into memory reachable from the receiver (a reused scratch buffer makes two nodes share a nonce, or one node seal differently from commit to commit)."
}

func c18Stateless(c *Ctx) {
	const rule = "C18.stateless"
	pk := c.P.Pkg("kv")
	if pk == nil {
		return
	}
	encT, _ := pk.Types.Scope().Lookup("Encryptor").(*types.TypeName)
	if encT == nil {
		c.R.Errorf("anchor interface kv.Encryptor not found")
		return
	}
	iface := encT.Type().Underlying().(*types.Interface)
	var methods []*ssa.Function
	for _, n := range pk.Types.Scope().Names() {
		tn, ok := pk.Types.Scope().Lookup(n).(*types.TypeName)
		if !ok || tn == encT {
			continue
		}
		if _, isI := tn.Type().Underlying().(*types.Interface); isI {
			continue
		}
		for _, T := range []types.Type{tn.Type(), types.NewPointer(tn.Type())} {
			isEnc := types.Implements(T, iface)
			ms := c.P.SSA.MethodSets.MethodSet(T)
			for i := 0; i < ms.Len(); i++ {
				m := ms.At(i).Obj().Name()
				if (isEnc && (m == "Encrypt" || m == "Decrypt")) || (n == "persistEncryptor" && (m == "Store" || m == "Load")) {
					if fn := c.P.SSA.MethodValue(ms.At(i)); fn != nil && len(fn.Blocks) > 0 && fn.Synthetic == "" {
						methods = append(methods, fn)
					}
				}
			}
		}
	}
	seen := map[*ssa.Function]bool{}
	for _, fn := range methods {
		if seen[fn] {
			continue
		}
		seen[fn] = true
		name := core.FuncName(fn)
		c.R.SawFunc(name)
		recv := fn.Params[0]
		fromRecv := func(v ssa.Value) bool {
			return an.DependsOn(v, func(w ssa.Value) bool { return w == ssa.Value(recv) })
		}
		var bad string
		for _, b := range fn.Blocks {
			for _, in := range b.Instrs {
				switch x := in.(type) {
				case *ssa.Store:
					if _, local := an.ExprRoot(x.Addr).(*ssa.Alloc); local {
						continue
					}
					if fromRecv(x.Addr) {
						bad = "a store into memory reachable from the receiver"
					}
					if _, isG := x.Addr.(*ssa.Global); isG {
						bad = "a store to a package variable"
					}
				case *ssa.Call:
					if bi, ok := x.Call.Value.(*ssa.Builtin); ok && (bi.Name() == "copy" || bi.Name() == "append") {
						if _, local := an.ExprRoot(x.Call.Args[0]).(*ssa.Alloc); !local && fromRecv(x.Call.Args[0]) {
							bad = bi.Name() + " into a buffer held by the receiver"
						}
					}
				}
			}
		}
		c.R.Cond(bad == "", rule, name+": writes no shared state", c.P.Pos(fn.Pos()), "no write through the receiver, no package variable",
			"the method performs "+bad+": it is called concurrently during a flush, so nonces/ciphertexts of different nodes can get mixed")
	}
	if len(methods) < 4 {
		c.R.Errorf("only %d encryptor methods found", len(methods))
	}
}

// ---- C18.key-from-passphrase: the key is a function of exactly the passphrase bytes, fixed at construction

func init() {
	register(&Rule{Name: "C18.key-from-passphrase", Min: 2, Run: c18KeyFromPassphrase,
		Doc: "the encryptor's key is derived in the constructor from the passphrase bytes as given: the caller's slice is not retained, and nothing edits the bytes on their way into the KDF"})
	byProp["C18"] = append(byProp["C18"], "C18.key-from-passphrase", "C03.open-errors")
	explain["C18"] += " (3) the key field is written nowhere outside the constructor (stores, copy/clear, and through pointers handed to repository functions): the encryptor is shared by all handles of a Config. open-errors (shared with C03): the Decrypt verdict on a version's top node surfaces in crdt.Load inside mergeRoots; it fails the open instead of skipping the version."
	explain["C18"] += " key-from-passphrase: 'a different passphrase is reported as an error' needs the key to be an injective-looking function of the passphrase bytes, fixed when the encryptor is built. (1) In V1NodeEncryptor the passphrase parameter is only read — passed to functions / copy — never stored into the encryptor or captured by a closure: a key derived lazily from the caller's buffer depends on what the buffer holds later (a wiped buffer gives the all-zero passphrase's key). (2) In deriveKey the KDF input depends on the parameter through append / slicing / the fixed base64 encoding only, never through a bytes/strings/unicode transformation (trimming line ends makes different passphrases share a key and strands data written under the untrimmed one)."
}

func c18KeyFromPassphrase(c *Ctx) {
	const rule = "C18.key-from-passphrase"
	ctor := mustFunc(c, "kv", "", "V1NodeEncryptor")
	dk := mustFunc(c, "kv", "", "deriveKey")
	if ctor == nil || dk == nil {
		return
	}
	// (1) no retention
	{
		name := core.FuncName(ctor)
		p := ctor.Params[0]
		bad := ""
		seen := map[ssa.Value]bool{}
		var walk func(v ssa.Value, d int)
		walk = func(v ssa.Value, d int) {
			if seen[v] || d > 6 || v.Referrers() == nil {
				return
			}
			seen[v] = true
			for _, r := range *v.Referrers() {
				switch x := r.(type) {
				case *ssa.Store:
					if x.Val == v {
						bad = "stored at " + c.P.Pos(x.Pos())
					}
				case *ssa.MakeClosure:
					bad = "captured by a closure at " + c.P.Pos(x.Pos())
				case *ssa.Slice:
					walk(x, d+1)
				case *ssa.ChangeType:
					walk(x, d+1)
				case *ssa.MakeInterface:
					bad = "boxed into an interface at " + c.P.Pos(x.Pos())
				case *ssa.Phi:
					walk(x, d+1)
				case *ssa.Go, *ssa.Defer:
					bad = "handed to a goroutine / deferred call"
				}
			}
		}
		walk(p, 0)
		derives := false
		for _, call := range an.Calls(ctor) {
			if call.Common().StaticCallee() == dk {
				for _, a := range call.Common().Args {
					if an.Unwrap(a) == ssa.Value(p) {
						derives = true
					}
				}
			}
		}
		c.R.Cond(bad == "" && derives, rule, name+": key derived at construction, passphrase not retained", c.P.Pos(ctor.Pos()),
			"the passphrase is only passed to deriveKey",
			fmt.Sprintf("the caller's passphrase slice is retained (%s; derived here: %v): the key then depends on what that buffer holds when the first node is sealed — a caller that wipes or reuses the buffer seals the data under another passphrase's key", bad, derives))
	}
	// (2) the KDF input is the passphrase as given
	{
		name := core.FuncName(dk)
		master := dk.Params[0]
		n := 0
		for _, call := range an.Calls(dk) {
			f := call.Common().StaticCallee()
			if f == nil || !strings.HasPrefix(an.PkgPathOf(f), "golang.org/x/crypto/") {
				continue
			}
			n++
			edit := ""
			reaches := false
			for _, a := range call.Common().Args {
				an.DependsOn(a, func(v ssa.Value) bool {
					if v == ssa.Value(master) {
						reaches = true
					}
					if cl, ok := v.(*ssa.Call); ok {
						if g := cl.Call.StaticCallee(); g != nil {
							switch an.PkgPathOf(g) {
							case "bytes", "strings", "unicode", "unicode/utf8", "golang.org/x/text/unicode/norm":
								edit = an.PkgPathOf(g) + "." + g.Name()
							}
						}
					}
					return false
				})
			}
			c.R.Cond(reaches && edit == "", rule, fmt.Sprintf("%s: %s gets the passphrase as given", name, f.Name()), c.P.Pos(call.Pos()),
				"the KDF input depends on the passphrase parameter through append / slicing / base64 only",
				fmt.Sprintf("the KDF input passes through %s (reaches the parameter: %v): passphrases that differ only in what it edits away derive the same key, and data written under the unedited passphrase no longer opens", edit, reaches))
		}
		if n == 0 {
			c.R.Unk(rule, name+": KDF", c.P.Pos(dk.Pos()), "no call into golang.org/x/crypto found in deriveKey")
		}
	}
	// (3) fixed at construction: nothing writes the key of an existing encryptor
	c18KeyFixed(c, rule, ctor)
}

// c18KeyFixed: the key field of the encryptor is written nowhere outside the constructor — the
// encryptor is shared (Config is copied by value, the interface holds a pointer) by every handle,
// clone and history re-open made from one Config.
func c18KeyFixed(c *Ctx, rule string, ctor *ssa.Function) {
	keyF := mustField(c, "kv", "jencryptor", "key")
	if keyF == nil {
		return
	}
	var bad []string
	nUses := 0
	var follow func(v ssa.Value, fn *ssa.Function, d int)
	seen := map[ssa.Value]bool{}
	follow = func(v ssa.Value, fn *ssa.Function, d int) {
		if seen[v] || d > 6 || v.Referrers() == nil {
			return
		}
		seen[v] = true
		for _, r := range *v.Referrers() {
			switch x := r.(type) {
			case *ssa.Store:
				if x.Addr == v {
					bad = append(bad, core.FuncName(fn)+" at "+c.P.Pos(x.Pos()))
				}
			case *ssa.IndexAddr:
				follow(x, fn, d+1)
			case *ssa.Slice:
				follow(x, fn, d+1)
			case *ssa.Phi:
				follow(x, fn, d+1)
			case *ssa.ChangeType:
				follow(x, fn, d+1)
			case ssa.CallInstruction:
				cm := x.Common()
				if bi, ok := cm.Value.(*ssa.Builtin); ok {
					if (bi.Name() == "copy" || bi.Name() == "clear") && len(cm.Args) > 0 && cm.Args[0] == v {
						bad = append(bad, core.FuncName(fn)+" at "+c.P.Pos(x.Pos())+" ("+bi.Name()+")")
					}
					continue
				}
				cal := cm.StaticCallee()
				if cal == nil || !strings.HasPrefix(an.PkgPathOf(cal), core.ModPath) || len(cal.Blocks) == 0 {
					continue // x/crypto and the standard library only read a key they are given
				}
				for i, a := range cm.Args {
					if a == v && i < len(cal.Params) {
						follow(cal.Params[i], cal, d+1)
					}
				}
			}
		}
	}
	for _, fn := range c.P.RepoFuncs(an.LibraryPkg) {
		if fn == ctor || (fn.Parent() != nil && fn.Parent() == ctor) {
			continue
		}
		for _, b := range fn.Blocks {
			for _, in := range b.Instrs {
				if fa, ok := in.(*ssa.FieldAddr); ok && an.FieldVar(fa.X.Type(), fa.Field) == keyF {
					nUses++
					follow(fa, fn, 0)
				}
			}
		}
	}
	sort.Strings(bad)
	if nUses < 2 {
		c.R.Errorf("only %d uses of the encryptor's key outside the constructor (2 confirmed by hand: Encrypt, Decrypt)", nUses)
	}
	c.R.Cond(len(bad) == 0, rule, "kv.jencryptor: the key is fixed at construction", c.P.Pos(ctor.Pos()),
		fmt.Sprintf("%d uses of the key outside the constructor, all of them reads", nUses),
		"the key of an existing encryptor is written in "+strings.Join(bad, "; ")+": one *jencryptor is shared by every handle, clone and history re-open made from a Config, so the other handles go on sealing under the overwritten key (all-zero after a wipe) — anyone opens those objects, the real passphrase does not")
}


// authState: which SSA values carry an authentication primitive's answer on the current path, the
// calls of authenticating helpers made, and whether a branch on a carrier was taken on its true side.
type authState struct {
	auth     bool
	carriers string // sorted, comma-separated value names (path-specific set)
	helpers  string
}

func (a authState) Key() string { return fmt.Sprintf("%v|%s|%s", a.auth, a.carriers, a.helpers) }

func valueID(v ssa.Value) string { return fmt.Sprintf("%p", v) }

func setAdd(set, id string) string {
	parts := strings.Split(set, ",")
	for _, p := range parts {
		if p == id {
			return set
		}
	}
	if set == "" {
		return id
	}
	parts = append(parts, id)
	sort.Strings(parts)
	return strings.Join(parts, ",")
}

func setDel(set, id string) string {
	var out []string
	for _, p := range strings.Split(set, ",") {
		if p != id && p != "" {
			out = append(out, p)
		}
	}
	return strings.Join(out, ",")
}

func setHas(set, id string) bool {
	for _, p := range strings.Split(set, ",") {
		if p == id {
			return true
		}
	}
	return false
}

func (a authState) with(v ssa.Value) authState    { a.carriers = setAdd(a.carriers, valueID(v)); return a }
func (a authState) without(v ssa.Value) authState { a.carriers = setDel(a.carriers, valueID(v)); return a }
func (a authState) carries(v ssa.Value) bool      { return v != nil && setHas(a.carriers, valueID(v)) }
func (a authState) delegate(v ssa.Value) authState {
	a.helpers = setAdd(a.helpers, valueID(v))
	return a
}
func (a authState) delegated(v ssa.Value) bool { return setHas(a.helpers, valueID(v)) }

// ---- C18.legacy-selected: the MAC cannot choose between the two box formats ----------------------------

func init() {
	register(&Rule{Name: "C18.legacy-selected", Min: 1, Run: c18LegacySelected,
		Doc: "decrypt returns what secretbox.Open produced only on paths where the message is short enough for both box formats to agree, or where the nonce derived from that message was computed for comparison with the object's nonce"})
	byProp["C18"] = append(byProp["C18"], "C18.legacy-selected")
	explain["C18"] += " legacy-selected: 'data written by the earlier hand-rolled box format remains readable' — the old format (crypto_secretbox_detached, still in the source) computes the same Poly1305 tag as secretbox over a ciphertext whose key stream restarts behind the first 32 bytes; authentication therefore succeeds for both formats and cannot select one: an old object longer than 32 bytes opens under secretbox.Open with a garbled tail and no error, and the fallback is never reached. The only discriminator is the nonce, which encrypt derives from message and key. On every path on which decrypt returns secretbox.Open's plaintext, either a length test bounds it to the 32 bytes on which the formats agree, or nonce() was applied to a value derived from that plaintext. Decided: that the discriminator is consulted; not its polarity, nor byte-level compatibility."
}

// derivesNonceFrom: cl applies nonce() to a value accepted by from — itself, or inside a kv helper
// that is handed such a value and applies nonce() to something derived from that parameter
// (messageNonce(key, message), shared by encrypt and the comparison).
func derivesNonceFrom(cl *ssa.Call, from func(ssa.Value) bool, nonceFn *ssa.Function, depth int) bool {
	h := cl.Call.StaticCallee()
	if h == nil || depth > 2 {
		return false
	}
	if h == nonceFn {
		for _, a := range cl.Call.Args {
			if from(a) {
				return true
			}
		}
		return false
	}
	if an.PkgPathOf(h) != kvPkg || len(h.Blocks) == 0 {
		return false
	}
	for i, a := range cl.Call.Args {
		if i >= len(h.Params) || !from(a) {
			continue
		}
		hp := h.Params[i]
		inner := func(v ssa.Value) bool {
			return an.DependsOn(v, func(w ssa.Value) bool { return w == ssa.Value(hp) })
		}
		for _, c2 := range an.Calls(h) {
			if cc, ok := c2.(*ssa.Call); ok && derivesNonceFrom(cc, inner, nonceFn, depth+1) {
				return true
			}
		}
	}
	return false
}

type legacyState struct{ confirmed, short bool }

func (l legacyState) Key() string { return fmt.Sprintf("%v/%v", l.confirmed, l.short) }

func c18LegacySelected(c *Ctx) {
	const rule = "C18.legacy-selected"
	fn := mustFunc(c, "kv", "", "decrypt")
	nonceFn := mustFunc(c, "kv", "", "nonce")
	if fn == nil || nonceFn == nil {
		return
	}
	name := core.FuncName(fn)
	c.R.SawFunc(name)
	sc := c.Scope(fn)
	// the plaintext of the standard open
	var plain ssa.Value
	for _, call := range an.Calls(fn) {
		f := call.Common().StaticCallee()
		if f != nil && an.PkgPathOf(f) == secretboxPkg && f.Name() == "Open" {
			for _, r := range *call.Value().Referrers() {
				if ex, ok := r.(*ssa.Extract); ok && ex.Index == 0 {
					plain = ex
				}
			}
		}
	}
	if plain == nil {
		c.R.OK(rule, name+": the formats are told apart", c.P.Pos(fn.Pos()), "decrypt does not use secretbox.Open")
		return
	}
	var fromPlain func(v ssa.Value, d int) bool
	fromPlain = func(v ssa.Value, d int) bool {
		hit := false
		an.DependsOn(v, func(w ssa.Value) bool {
			if w == plain {
				hit = true
			}
			if p, ok := w.(*ssa.Parameter); ok && d < 4 {
				if up := sc.ArgOfParam(p); up != ssa.Value(p) && fromPlain(up, d+1) {
					hit = true
				}
			}
			return false
		})
		return hit
	}
	h := an.THooks{}
	h.Instr = func(in ssa.Instruction, st0 an.TState) an.TState {
		st := st0.(legacyState)
		if cl, ok := in.(*ssa.Call); ok && derivesNonceFrom(cl, func(a ssa.Value) bool { return fromPlain(a, 0) }, nonceFn, 0) {
			st.confirmed = true
		}
		return st
	}
	h.Branch = func(iff *ssa.If, side bool, st0 an.TState) an.TState {
		st := st0.(legacyState)
		cond, neg := an.StripNot(iff.Cond)
		bo, ok := cond.(*ssa.BinOp)
		if !ok {
			return st
		}
		lenOf := func(v ssa.Value) bool {
			cl, ok := v.(*ssa.Call)
			if !ok {
				return false
			}
			bi, ok := cl.Call.Value.(*ssa.Builtin)
			return ok && bi.Name() == "len" && an.Unwrap(cl.Call.Args[0]) == plain
		}
		k, isK := constInt(bo.Y)
		if !lenOf(bo.X) || !isK {
			return st
		}
		taken := side != neg // truth of the comparison on this side
		bound := int64(1 << 40)
		switch bo.Op {
		case token.GTR: // len > k
			if !taken {
				bound = k
			}
		case token.GEQ:
			if !taken {
				bound = k - 1
			}
		case token.LEQ:
			if taken {
				bound = k
			}
		case token.LSS:
			if taken {
				bound = k - 1
			}
		}
		if bound <= 32 {
			st.short = true
		}
		return st
	}
	good, n := true, 0
	why := ""
	for _, ex := range an.WalkTypestate(fn, legacyState{}, h, sc) {
		if ex.ErrNil == 0 || len(ex.Ret.Results) < 1 || an.Unwrap(ex.Ret.Results[0]) != plain {
			continue
		}
		n++
		st := ex.St.(legacyState)
		if !st.confirmed && !st.short {
			good = false
			why = "decrypt returns secretbox.Open's plaintext at " + c.P.Pos(ex.Ret.Pos()) + " on a path with neither a bound of 32 bytes on its length nor a nonce derived from it: an object of the earlier format longer than 32 bytes authenticates here too (same tag) and is returned with a tail decrypted under the wrong key stream — garbled data, no error, and the fallback to the old implementation is unreachable for it"
		}
	}
	if n == 0 {
		c.R.Unk(rule, name+": the formats are told apart", c.P.Pos(fn.Pos()), "no path returns secretbox.Open's plaintext")
		return
	}
	c.R.Cond(good, rule, name+": the formats are told apart", c.P.Pos(fn.Pos()), fmt.Sprintf("%d returning paths, each bounded to 32 bytes or confirmed by the derived nonce", n), why)
}
