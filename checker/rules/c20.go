package rules

import (
	"fmt"
	"go/ast"
	"go/constant"
	"go/token"
	"go/types"
	"os"
	"path/filepath"
	"regexp"
	"sort"
	"strconv"
	"strings"

	"golang.org/x/tools/go/ssa"

	"s3dbcheck/an"
	"s3dbcheck/core"
)

func init() {
	register(&Rule{Name: "C20.options", Min: 3, Run: c20Options,
		Doc: "the option switch of New, its usage text and the README list the same options; unknown options and duplicates are errors"})
	register(&Rule{Name: "C20.intparse", Min: 1, Run: c20IntParse,
		Doc: "all integer options are parsed with the same (base, bitSize)"})
	register(&Rule{Name: "C20.unregister", Min: 2, Run: c20Unregister,
		Doc: "a table that was registered is deregistered on every error exit of table creation"})
	register(&Rule{Name: "C20.schema", Min: 5, Run: c20Schema,
		Doc: "composite keys, duplicate columns, unknown key columns, UNIQUE and DEFAULT are rejected before the schema is accepted; maps of the table are built before they are consulted"})
	claim("C20", "C20 clauses decided: options (three-way table agreement code/usage/README, error default, duplicate test before the switch), split-index (shared with C14: valueless arguments are rejected, not a crash), intparse, unregister (in Module.Connect and in New itself, including deferred clean-ups keyed on a variable that error returns do not assign), schema (each documented rejection exists and precedes acceptance; no map of the table under construction is read before it is built). Not decided: the grammar itself (which column specifications parse), quoting of names in the declared schema, 'no object written' on rejection.",
		"C20.options", "C14.split-index", "C20.intparse", "C20.unregister", "C20.schema")
}

func c20Options(c *Ctx) {
	const rule = "C20.options"
	fnObj := c.P.LookupFunc("", "", "New")
	if fnObj == nil || fnObj.Object() == nil {
		c.R.Errorf("anchor s3db.New not found")
		return
	}
	newSyn := c.P.Syntax(fnObj.Object().(*types.Func))
	if newSyn == nil {
		c.R.Errorf("no syntax for s3db.New")
		return
	}
	c.R.SawFunc(core.FuncName(fnObj))
	// the option loop may have been split out of New into a helper
	loopFn := optionLoopFunc(c, fnObj)
	syn := newSyn
	if loopFn != fnObj && loopFn.Object() != nil {
		if s2 := c.P.Syntax(loopFn.Object().(*types.Func)); s2 != nil {
			syn = s2
		}
	}
	// the option switch: the switch with the most string-literal cases
	var sw *ast.SwitchStmt
	best := 0
	ast.Inspect(syn.Decl, func(n ast.Node) bool {
		s, ok := n.(*ast.SwitchStmt)
		if !ok {
			return true
		}
		k := 0
		for _, cc := range s.Body.List {
			for _, e := range cc.(*ast.CaseClause).List {
				if tv, ok := syn.Pkg.TypesInfo.Types[e]; ok && tv.Value != nil && tv.Value.Kind() == constant.String {
					k++
				}
			}
		}
		if k > best {
			best, sw = k, s
		}
		return true
	})
	if sw == nil || best < 3 {
		c.R.Unk(rule, "s3db.New: option switch", c.P.Pos(syn.Decl.Pos()), "cannot find the switch over option names (rewritten into another form?)")
		return
	}
	code := map[string]bool{}
	hasDefault, defaultErr := false, false
	for _, cc := range sw.Body.List {
		cl := cc.(*ast.CaseClause)
		if cl.List == nil {
			hasDefault = true
			for _, st := range cl.Body {
				if r, ok := st.(*ast.ReturnStmt); ok && len(r.Results) >= 1 {
					if id, ok := r.Results[len(r.Results)-1].(*ast.Ident); !ok || id.Name != "nil" {
						defaultErr = true
					}
				}
			}
		}
		for _, e := range cl.List {
			if tv, ok := syn.Pkg.TypesInfo.Types[e]; ok && tv.Value != nil && tv.Value.Kind() == constant.String {
				code[constant.StringVal(tv.Value)] = true
			}
		}
	}
	c.R.Cond(hasDefault && defaultErr, rule, "s3db.New: unknown options are an error", c.P.Pos(sw.Pos()), "the option switch has an error-returning default", "an unknown option is silently accepted (no error-returning default in the option switch)")
	// usage text: the longest string literal in New mentioning "usage"
	usage := ""
	for _, d := range []ast.Node{syn.Decl, newSyn.Decl} {
		ast.Inspect(d, func(n ast.Node) bool {
			if bl, ok := n.(*ast.BasicLit); ok && bl.Kind == token.STRING {
				if s, err := strconv.Unquote(bl.Value); err == nil && strings.Contains(s, "usage") && len(s) > len(usage) {
					usage = s
				}
			}
			return true
		})
	}
	re := regexp.MustCompile(`(?m)^\s*\[?\s*([a-z][a-z0-9_]*)\s*[=,\]]`)
	usageOpts := map[string]bool{}
	for _, m := range re.FindAllStringSubmatch(usage, -1) {
		usageOpts[m[1]] = true
	}
	readmeOpts := map[string]bool{}
	if b, err := os.ReadFile(filepath.Join(c.P.RepoDir, "README.md")); err == nil {
		re2 := regexp.MustCompile("^\\*\\s+(?:\\(optional\\)\\s+)?`([a-z][a-z0-9_]*)\\s*[=,`]")
		// the contiguous bullet block that documents the s3db module (the one containing columns=)
		var block []string
		var cur []string
		flush := func() {
			for _, l := range cur {
				if strings.Contains(l, "`columns=") {
					block = cur
				}
			}
			cur = nil
		}
		for _, l := range strings.Split(string(b), "\n") {
			if strings.HasPrefix(l, "* ") {
				cur = append(cur, l)
			} else {
				flush()
			}
		}
		flush()
		for _, l := range block {
			if m := re2.FindStringSubmatch(l); m != nil {
				readmeOpts[m[1]] = true
			}
		}
	}
	diff := func(a, b map[string]bool) []string {
		var out []string
		for k := range a {
			if !b[k] {
				out = append(out, k)
			}
		}
		sort.Strings(out)
		return out
	}
	if len(usageOpts) < 3 {
		c.R.Unk(rule, "s3db.New: usage text", c.P.Pos(syn.Decl.Pos()), "cannot extract the option list from the usage text")
	} else {
		a, b := diff(code, usageOpts), diff(usageOpts, code)
		c.R.Cond(len(a) == 0 && len(b) == 0, rule, "s3db.New: accepted options = usage text", c.P.Pos(sw.Pos()), fmt.Sprintf("%d options in both", len(code)),
			fmt.Sprintf("accepted but not in the usage text: %v; in the usage text but not accepted: %v", a, b))
	}
	if len(readmeOpts) < 3 {
		c.R.Unk(rule, "README: option list", "README.md", "cannot extract the option list from README.md (Virtual Table Reference)")
	} else {
		a, b := diff(code, readmeOpts), diff(readmeOpts, code)
		c.R.Cond(len(a) == 0 && len(b) == 0, rule, "s3db.New: accepted options = README", c.P.Pos(sw.Pos()), fmt.Sprintf("%d options in both", len(code)),
			fmt.Sprintf("accepted but undocumented: %v; documented but not accepted: %v", a, b))
	}
	// duplicates: a map lookup of the option name with an error return precedes the switch
	dup := false
	for _, b := range loopFn.Blocks {
		iff, ok := b.Instrs[len(b.Instrs)-1].(*ssa.If)
		if !ok {
			continue
		}
		cond, neg := an.StripNot(iff.Cond)
		ex, ok := cond.(*ssa.Extract)
		if !ok || ex.Index != 1 {
			continue
		}
		if lk, ok := ex.Tuple.(*ssa.Lookup); !ok || !lk.CommaOk {
			continue
		}
		si := 0
		if neg {
			si = 1
		}
		// found-side returns an error
		if returnsNonNilError(b.Succs[si]) {
			dup = true
		}
	}
	c.R.Cond(dup, rule, "s3db.New: duplicated options are an error", c.P.Pos(syn.Decl.Pos()), "a seen-set lookup with an error return guards every option", "a repeated option is not rejected")
}


// optionLoopFunc returns the function of New's scope that holds the option loop (the seen-set
// lookup): New itself, or a helper split out of it.
func optionLoopFunc(c *Ctx, newFn *ssa.Function) *ssa.Function {
	for _, f := range c.Scope(newFn).Funcs {
		for _, b := range f.Blocks {
			for _, in := range b.Instrs {
				if l, ok := in.(*ssa.Lookup); ok && l.CommaOk {
					if m, ok := l.X.Type().Underlying().(*types.Map); ok {
						if _, isStruct := m.Elem().Underlying().(*types.Struct); isStruct {
							return f
						}
					}
				}
			}
		}
	}
	return newFn
}

func c20IntParse(c *Ctx) {
	const rule = "C20.intparse"
	fn := mustFunc(c, "", "", "New")
	if fn == nil {
		return
	}
	type site struct {
		call       ssa.CallInstruction
		base, bits int64
		ok         bool
	}
	var sites []site
	// New itself and the same-package helpers it calls (one level)
	fns := []*ssa.Function{fn}
	for _, call := range an.Calls(fn) {
		if cal := call.Common().StaticCallee(); cal != nil && an.PkgPathOf(cal) == core.ModPath && len(cal.Blocks) > 0 {
			fns = append(fns, cal)
		}
	}
	seenFn := map[*ssa.Function]bool{}
	for _, f0 := range fns {
		if seenFn[f0] {
			continue
		}
		seenFn[f0] = true
		for _, call := range an.Calls(f0) {
			f := call.Common().StaticCallee()
			if f == nil || an.PkgPathOf(f) != "strconv" || !(f.Name() == "ParseInt" || f.Name() == "ParseUint") {
				continue
			}
			a := call.Common().Args
			b, ok1 := a[1].(*ssa.Const)
			z, ok2 := a[2].(*ssa.Const)
			s := site{call: call, ok: ok1 && ok2}
			if s.ok {
				s.base, s.bits = b.Int64(), z.Int64()
			}
			sites = append(sites, s)
		}
	}
	if len(sites) < 1 {
		c.R.Unk(rule, "s3db.New: integer options", c.P.Pos(fn.Pos()), "no strconv.ParseInt site found in New or its helpers")
		return
	}
	// majority / first as reference: all must agree
	ref := sites[0]
	for i, s := range sites {
		good := s.ok && ref.ok && s.base == ref.base && s.bits == ref.bits
		// a bit size must be a machine size; a base of 32 or 64 together with size 0 is the classic swap
		sane := s.ok && (s.bits == 0 || s.bits == 8 || s.bits == 16 || s.bits == 32 || s.bits == 64) && !(s.bits == 0 && (s.base == 32 || s.base == 64 || s.base == 16 || s.base == 8))
		c.R.Cond(good && sane, rule, fmt.Sprintf("s3db.New: ParseInt #%d uses (base, bitSize) of its siblings", i+1), c.P.Pos(s.call.Pos()),
			fmt.Sprintf("(%d, %d)", s.base, s.bits), fmt.Sprintf("integer options are parsed inconsistently: (%d, %d) here vs (%d, %d) at the first site (base and bit size swapped?)", s.base, s.bits, ref.base, ref.bits))
	}
}

func c20Unregister(c *Ctx) {
	const rule = "C20.unregister"
	// (a) sqlite Module.Connect
	connect := mustFunc(c, "sqlite", "*Module", "Connect")
	newFn := mustFunc(c, "", "", "New")
	if connect == nil || newFn == nil {
		return
	}
	var nc ssa.CallInstruction
	for _, call := range an.Calls(connect) {
		if call.Common().StaticCallee() == newFn {
			nc = call
		}
	}
	if nc == nil {
		c.R.Unk(rule, core.FuncName(connect)+": creates the table", c.P.Pos(connect.Pos()), "no call of s3db.New")
	} else {
		cleanup := map[*ssa.BasicBlock]bool{}
		for _, call := range an.Calls(connect) {
			if an.CalleeIs(call, core.ModPath, "VirtualTable", "Disconnect") {
				cleanup[call.Block()] = true
			}
		}
		k := 0
		for _, b := range connect.Blocks {
			ret, ok := b.Instrs[len(b.Instrs)-1].(*ssa.Return)
			if !ok || an.IsNilConst(an.RetErr(ret)) {
				continue
			}
			if after, _ := an.SuccessDominates(nc, ret); !after {
				continue // New itself failed: nothing registered
			}
			k++
			// every path from the success of New to this return passes a cleanup block
			okc := cleanup[b]
			if !okc {
				okc = !reachAvoiding(nc.Block(), b, cleanup)
			}
			c.R.Cond(okc, rule, fmt.Sprintf("%s: error exit #%d after New deregisters", core.FuncName(connect), k), c.P.Pos(ret.Pos()),
				"Disconnect() runs before the error is returned", "an error is returned after s3db.New registered the table and nothing deregisters it: the name stays unusable in this process")
		}
		if k == 0 {
			c.R.OK(rule, core.FuncName(connect)+": no error exit after New", c.P.Pos(connect.Pos()), "nothing can fail once the table is registered")
		}
	}
	// (b) inside New: after tables[name] = table, no error exit without delete(tables, name)
	var regs []*ssa.MapUpdate
	var tablesG *ssa.Global
	if pk := c.P.Pkg(""); pk != nil {
		if sp := c.P.SSA.Package(pk.Types); sp != nil {
			tablesG, _ = sp.Members["tables"].(*ssa.Global)
		}
	}
	if tablesG == nil {
		c.R.Errorf("anchor s3db.tables not found")
		return
	}
	isTablesLoad := func(v ssa.Value) bool {
		ld, ok := v.(*ssa.UnOp)
		return ok && ld.Op == token.MUL && ld.X == ssa.Value(tablesG)
	}
	nsc := c.Scope(newFn)
	for _, f := range nsc.Funcs {
		for _, b := range f.Blocks {
			for _, in := range b.Instrs {
				if mu, ok := in.(*ssa.MapUpdate); ok && isTablesLoad(mu.Map) {
					regs = append(regs, mu)
				}
			}
		}
	}
	if len(regs) == 0 {
		c.R.Unk(rule, "s3db.New: registers the table", c.P.Pos(newFn.Pos()), "no 'tables[name] = table' in New")
		return
	}
	// errorExitAfter(f, from): position of an error return of f reachable after instruction-block
	// `from` without deregistration; viaFailureOnly: only counts returns not explained by the
	// failure of the helper call at `site` (those mean: the helper did not register)
	errorExitAfter := func(f *ssa.Function, from *ssa.BasicBlock, site ssa.CallInstruction) token.Pos {
		delBlocks := map[*ssa.BasicBlock]bool{}
		for _, call := range an.Calls(f) {
			if bi, ok := call.Common().Value.(*ssa.Builtin); ok && bi.Name() == "delete" && isTablesLoad(call.Common().Args[0]) {
				if _, isDefer := call.(*ssa.Defer); !isDefer {
					delBlocks[call.Block()] = true
				}
			}
		}
		deferredOK := deferredCleanupOnResultError(f, isTablesLoad)
		// blocks only reached when the helper at `site` failed
		var failSide *ssa.BasicBlock
		if site != nil {
			if ev, hasErr := an.ErrResult(site); hasErr && ev != nil {
				fl := an.AnalyzeErr(f, ev)
				for _, t := range fl.NilTests {
					failSide = t.NonNil
				}
			}
		}
		for _, b := range f.Blocks {
			ret, ok := b.Instrs[len(b.Instrs)-1].(*ssa.Return)
			if !ok || len(ret.Results) == 0 || an.IsNilConst(an.RetErr(ret)) {
				continue
			}
			if !an.IsErrorType(ret.Results[len(ret.Results)-1].Type()) {
				continue
			}
			if !(b == from || an.ReachableFromBlock(from, b, nil)) {
				continue
			}
			if failSide != nil && len(failSide.Preds) == 1 && (failSide == b || failSide.Dominates(b)) {
				continue // the helper reported failure: by (i) below it had not registered
			}
			if delBlocks[b] || (len(delBlocks) > 0 && !reachAvoiding(from, b, delBlocks)) {
				continue
			}
			if deferredOK {
				continue
			}
			return ret.Pos()
		}
		return token.NoPos
	}
	for i, mu := range regs {
		bad := token.NoPos
		// (i) inside the function that registers; (ii) in every caller up to New, after the call
		f := mu.Parent()
		from := mu.Block()
		var site ssa.CallInstruction
		for {
			if p := errorExitAfter(f, from, site); p.IsValid() {
				bad = p
				break
			}
			if f == newFn {
				break
			}
			up := nsc.Lift(mu)
			// walk one level up: find the call instruction in the parent through which f is reached
			var next ssa.CallInstruction
			for _, call := range nsc.Calls() {
				if call.Common().StaticCallee() == f {
					next = call
				}
			}
			_ = up
			if next == nil {
				break
			}
			site = next
			f = next.Parent()
			from = next.Block()
		}
		c.R.Cond(!bad.IsValid(), rule, fmt.Sprintf("s3db.New: registration #%d is undone on every later error exit", i+1), c.P.Pos(mu.Pos()),
			"no error return is reachable after the table was put into the registry (or each one deregisters first)",
			"an error return at "+c.P.Pos(bad)+" is reachable after the table was registered, without deregistration (a deferred clean-up keyed on a variable that this return does not assign does not count): a rejected CREATE leaves the name registered")
	}
}

// reachAvoiding: `to` reachable from `from` without entering avoid blocks (from and to themselves excluded from the test).
func reachAvoiding(from, to *ssa.BasicBlock, avoid map[*ssa.BasicBlock]bool) bool {
	if from == to {
		return true
	}
	seen := map[*ssa.BasicBlock]bool{from: true}
	work := []*ssa.BasicBlock{from}
	for len(work) > 0 {
		b := work[len(work)-1]
		work = work[:len(work)-1]
		for _, s := range b.Succs {
			if s == to {
				return true
			}
			if seen[s] || avoid[s] {
				continue
			}
			seen[s] = true
			work = append(work, s)
		}
	}
	return false
}

// deferredCleanupOnResultError: fn defers a closure that performs the cleanup (delete on the
// registry) when a captured variable is non-nil, and that variable is the function's error
// result (every return loads its error operand from it).
func deferredCleanupOnResultError(fn *ssa.Function, isRegistry func(ssa.Value) bool) bool {
	for _, b := range fn.Blocks {
		for _, in := range b.Instrs {
			d, ok := in.(*ssa.Defer)
			if !ok {
				continue
			}
			mc, ok := d.Call.Value.(*ssa.MakeClosure)
			if !ok {
				continue
			}
			cl := mc.Fn.(*ssa.Function)
			for _, call := range an.Calls(cl) {
				bi, ok := call.Common().Value.(*ssa.Builtin)
				if !ok || bi.Name() != "delete" || !isRegistry(call.Common().Args[0]) {
					continue
				}
				// unconditional cleanup in the closure?
				if call.Block() == cl.Blocks[0] {
					return false // would also undo successful registrations; not this idiom
				}
				for i, fv := range cl.FreeVars {
					g := an.GuardedByNilTest(an.Edge{From: call.Block()}, func(v ssa.Value) bool {
						ld, ok := v.(*ssa.UnOp)
						return ok && ld.Op == token.MUL && ld.X == ssa.Value(fv)
					}, false)
					if !g {
						continue
					}
					bound := mc.Bindings[i]
					// is `bound` the error result? every Return's last operand is a load of it
					all := true
					for _, rb := range fn.Blocks {
						ret, ok := rb.Instrs[len(rb.Instrs)-1].(*ssa.Return)
						if !ok {
							continue
						}
						ld, ok := ret.Results[len(ret.Results)-1].(*ssa.UnOp)
						if !ok || ld.Op != token.MUL || ld.X != bound {
							all = false
						}
					}
					if all {
						return true
					}
				}
			}
		}
	}
	return false
}

func c20Schema(c *Ctx) {
	const rule = "C20.schema"
	fn := mustFunc(c, "", "", "convertSchema")
	schemaStr := mustField(c, "", "VirtualTable", "SchemaString")
	if fn == nil || schemaStr == nil {
		return
	}
	name := core.FuncName(fn)
	accept := an.StoresToField(fn, schemaStr)
	if len(accept) == 0 {
		c.R.Unk(rule, name+": accepts", c.P.Pos(fn.Pos()), "no assignment of SchemaString")
		return
	}
	acc := accept[len(accept)-1]
	// rejecting tests: an If one side of which returns a non-nil error, classified by what it reads
	type rej struct{ what string }
	found := map[string]bool{}
	sc := c.Scope(fn)
	var allBlocks []*ssa.BasicBlock
	for _, f := range sc.Funcs {
		allBlocks = append(allBlocks, f.Blocks...)
	}
	for _, b := range allBlocks {
		if _, ok := b.Instrs[len(b.Instrs)-1].(*ssa.If); !ok {
			continue
		}
		errSide := -1
		for si := 0; si < 2; si++ {
			if returnsNonNilError(b.Succs[si]) && len(b.Succs[si].Preds) == 1 {
				errSide = si
			}
		}
		if errSide < 0 {
			continue
		}
		// the acceptance must not be reachable from the error side (it returns), and must come after the test
		if b.Parent() == fn {
			if !(b.Dominates(acc.Block()) || an.ReachableFromBlock(b, acc.Block(), nil)) {
				continue
			}
		} else {
			// the test sits in a helper split out of convertSchema: the schema is accepted only
			// after that helper returned without an error
			site, isCall := sc.Lift(b.Instrs[len(b.Instrs)-1]).(ssa.CallInstruction)
			if !isCall {
				continue
			}
			if okS, _ := an.SuccessDominates(site, acc); !okS {
				continue
			}
		}
		reads := map[string]bool{}
		errBlock := b.Succs[errSide]
		var conds []ssa.Value
		// the test itself plus the other operands of the same && / || expression (go/ssa puts them
		// in single-predecessor blocks labelled cond.true / cond.false)
		for gb := b; gb != nil; {
			if gi, ok := gb.Instrs[len(gb.Instrs)-1].(*ssa.If); ok {
				conds = append(conds, gi.Cond)
			}
			if len(gb.Preds) == 1 && (gb.Comment == "cond.true" || gb.Comment == "cond.false") {
				gb = gb.Preds[0]
			} else {
				gb = nil
			}
		}
		_ = errBlock
		for _, cv := range conds {
			an.DependsOn(cv, func(v ssa.Value) bool {
				if fv := an.FieldOfLoad(v); fv != nil {
					reads[fv.Name()] = true
				}
				if _, ok := v.(*ssa.Lookup); ok {
					reads["<map lookup>"] = true
				}
				if cl, ok := v.(*ssa.Call); ok {
					if bi, ok := cl.Call.Value.(*ssa.Builtin); ok && bi.Name() == "len" {
						reads["<len>"] = true
					}
				}
				return false
			})
		}
		switch {
		case reads["PrimaryKey"] && reads["<len>"] && !reads["<map lookup>"]:
			found["composite key"] = true
		case reads["Unique"]:
			found["UNIQUE"] = true
		case reads["Default"]:
			found["DEFAULT"] = true
		case reads["<map lookup>"] && reads["PrimaryKey"]:
			found["unknown key column"] = true
		case reads["<map lookup>"]:
			found["duplicate column"] = true
		}
	}
	for _, w := range []string{"composite key", "duplicate column", "unknown key column", "UNIQUE", "DEFAULT"} {
		c.R.Cond(found[w], rule, name+": rejects "+w, c.P.Pos(fn.Pos()), "an error-returning test precedes acceptance of the schema", "no test rejects "+w+" before the schema is accepted")
	}
	// maps of the table under construction are built before they are read/written
	for _, f := range c.P.RepoFuncs(func(rel string) bool { return rel == "" }) {
		inits := map[*types.Var][]*ssa.Store{}
		for _, b := range f.Blocks {
			for _, in := range b.Instrs {
				st, ok := in.(*ssa.Store)
				if !ok {
					continue
				}
				fa, ok := st.Addr.(*ssa.FieldAddr)
				if !ok {
					continue
				}
				if _, isMake := an.Unwrap(st.Val).(*ssa.MakeMap); !isMake {
					continue
				}
				if nt := an.NamedOf(fa.X.Type()); nt != nil && nt.Obj().Name() == "VirtualTable" {
					inits[an.FieldVar(fa.X.Type(), fa.Field)] = append(inits[an.FieldVar(fa.X.Type(), fa.Field)], st)
				}
			}
		}
		if len(inits) == 0 {
			continue
		}
		for _, b := range f.Blocks {
			for _, in := range b.Instrs {
				var m ssa.Value
				switch x := in.(type) {
				case *ssa.Lookup:
					m = x.X
				case *ssa.MapUpdate:
					m = x.Map
				default:
					continue
				}
				fv := an.FieldOfLoad(m)
				sts, ok := inits[fv]
				if !ok {
					continue
				}
				good := false
				for _, st := range sts {
					if an.InstrBefore(st, in) {
						good = true
					}
				}
				c.R.Cond(good, rule, fmt.Sprintf("%s: %s is built before it is used", core.FuncName(f), fv.Name()), c.P.Pos(in.Pos()),
					"the map is assigned before this access on every path", "a map of the table under construction is consulted before it is built: the lookup silently yields the zero value (e.g. key column 0)")
			}
		}
	}
}

// ---- C20.unique-rejected and the name used by the duplicate test ------------------------------------

func init() {
	register(&Rule{Name: "C20.unique-rejected", Min: 1, Run: c20UniqueRejected,
		Doc: "UNIQUE is rejected either by the parser unconditionally, or by a guard in convertSchema that does not depend on a field still being assigned in the same loop"})
	register(&Rule{Name: "C20.dup-name", Min: 1, Run: c20DupName,
		Doc: "the option name checked for duplicates is the very value the option switch dispatches on"})
	byProp["C20"] = append(byProp["C20"], "C20.unique-rejected", "C20.dup-name")
	explain["C20"] += " unique-rejected: the parser's UNIQUE action records an error unconditionally; if that is ever removed, the guard in convertSchema must be sound on its own (today it compares with KeyCol, which is assigned later in the same loop, so it would let UNIQUE through on the first column). dup-name: nothing rewrites the option name between the duplicate test and the dispatch (e.g. trimming white space after the seen-set lookup)."
}

func c20UniqueRejected(c *Ctx) {
	const rule = "C20.unique-rejected"
	uniqueF := an.LookupField(c.P, "sql/types", "SchemaColumn", "Unique")
	if uniqueF == nil {
		// find the field by name in sql/types
		if pk := c.P.Pkg("sql/types"); pk != nil {
			for _, n := range pk.Types.Scope().Names() {
				if tn, ok := pk.Types.Scope().Lookup(n).(*types.TypeName); ok {
					if st, ok := tn.Type().Underlying().(*types.Struct); ok {
						for i := 0; i < st.NumFields(); i++ {
							if st.Field(i).Name() == "Unique" {
								uniqueF = st.Field(i)
							}
						}
					}
				}
			}
		}
	}
	if uniqueF == nil {
		c.R.Errorf("anchor field Unique of the schema column type not found")
		return
	}
	// (A) the parser action that sets Unique also records an error, unconditionally
	parserRejects, setters := true, 0
	for _, fn := range c.P.RepoFuncs(func(rel string) bool { return rel == "sql" }) {
		for _, st := range an.StoresToField(fn, uniqueF) {
			if cb, isC := constBool(st.Val); !isC || !cb {
				continue
			}
			setters++
			c.R.SawFunc(core.FuncName(fn))
			// an append of an error whose result is stored, in a block every return passes
			rec := false
			for _, call := range an.Calls(fn) {
				bi, ok := call.Common().Value.(*ssa.Builtin)
				if !ok || bi.Name() != "append" {
					continue
				}
				if sl, ok := call.Common().Args[0].Type().Underlying().(*types.Slice); !ok || !an.IsErrorType(sl.Elem()) {
					continue
				}
				if !an.ReturnsReachableAvoiding(fn.Blocks[0], map[*ssa.BasicBlock]bool{call.Block(): true}) {
					rec = true
				}
			}
			if !rec {
				parserRejects = false
			}
		}
	}
	if setters == 0 {
		parserRejects = false
	}
	// (B) the guard in convertSchema is sound on its own
	fn := mustFunc(c, "", "", "convertSchema")
	if fn == nil {
		return
	}
	guardSound := false
	for _, b := range fn.Blocks {
		if _, ok := b.Instrs[len(b.Instrs)-1].(*ssa.If); !ok {
			continue
		}
		errSide := -1
		for si := 0; si < 2; si++ {
			if returnsNonNilError(b.Succs[si]) && len(b.Succs[si].Preds) == 1 {
				errSide = si
			}
		}
		if errSide < 0 {
			continue
		}
		var conds []ssa.Value
		for gb := b; gb != nil; {
			if gi, ok := gb.Instrs[len(gb.Instrs)-1].(*ssa.If); ok {
				conds = append(conds, gi.Cond)
			}
			if len(gb.Preds) == 1 && (gb.Comment == "cond.true" || gb.Comment == "cond.false") {
				gb = gb.Preds[0]
			} else {
				gb = nil
			}
		}
		readsUnique := false
		var tableFields []*types.Var
		for _, cv := range conds {
			an.DependsOn(cv, func(v ssa.Value) bool {
				if fv := an.FieldOfLoad(v); fv != nil {
					if fv == uniqueF {
						readsUnique = true
					}
					if ld, ok := v.(*ssa.UnOp); ok {
						if fa, ok := ld.X.(*ssa.FieldAddr); ok {
							if nt := an.NamedOf(fa.X.Type()); nt != nil && nt.Obj().Name() == "VirtualTable" {
								tableFields = append(tableFields, fv)
							}
						}
					}
				}
				return false
			})
		}
		if !readsUnique {
			continue
		}
		guardSound = true
		H := loopHeaderOf(b)
		for _, tf := range tableFields {
			for _, st := range an.StoresToField(fn, tf) {
				if H != nil && H.Dominates(st.Block()) && an.ReachableFromBlock(st.Block(), H, nil) {
					guardSound = false // assigned inside the loop the guard runs in: stale in earlier iterations
				}
			}
		}
	}
	c.R.Cond(parserRejects || guardSound, rule, "UNIQUE columns are rejected", c.P.Pos(fn.Pos()),
		fmt.Sprintf("parser records an error for every UNIQUE: %v; convertSchema guard sound on its own: %v", parserRejects, guardSound),
		"the parser no longer rejects UNIQUE, and the guard in convertSchema compares the column position with a table field that is only assigned later in the same loop (KeyCol is still 0 for columns before the key, and for tables without a key): UNIQUE on the first column is accepted and never enforced")
}

func c20DupName(c *Ctx) {
	const rule = "C20.dup-name"
	fn := mustFunc(c, "", "", "New")
	if fn == nil {
		return
	}
	fn = optionLoopFunc(c, fn)
	// the seen-set lookup
	var lk *ssa.Lookup
	for _, b := range fn.Blocks {
		for _, in := range b.Instrs {
			if l, ok := in.(*ssa.Lookup); ok && l.CommaOk {
				if m, ok := l.X.Type().Underlying().(*types.Map); ok {
					if _, isStruct := m.Elem().Underlying().(*types.Struct); isStruct {
						lk = l
					}
				}
			}
		}
	}
	if lk == nil {
		c.R.Unk(rule, "s3db.New: duplicate test", c.P.Pos(fn.Pos()), "no seen-set lookup found")
		return
	}
	nameKey := an.ExprKey(lk.Index)
	// the dispatch: comparisons of a string with constant option names
	same, other := 0, 0
	for _, b := range fn.Blocks {
		iff, ok := b.Instrs[len(b.Instrs)-1].(*ssa.If)
		if !ok {
			continue
		}
		bo, ok := iff.Cond.(*ssa.BinOp)
		if !ok || bo.Op != token.EQL {
			continue
		}
		k, ok := bo.Y.(*ssa.Const)
		if !ok || k.Value == nil || k.Value.Kind() != constant.String {
			continue
		}
		if !lk.Block().Dominates(b) {
			continue
		}
		if an.ExprKey(bo.X) == nameKey {
			same++
		} else {
			other++
		}
	}
	// nothing writes the name between the lookup and the dispatch
	rewritten := false
	if ld, ok := lk.Index.(*ssa.UnOp); ok {
		addrKey := an.ExprKey(ld.X)
		var base ssa.Value
		if ia, ok := ld.X.(*ssa.IndexAddr); ok {
			base = ia.X
		}
		for _, b := range fn.Blocks {
			for _, in := range b.Instrs {
				st, ok := in.(*ssa.Store)
				if !ok {
					continue
				}
				hit := an.ExprKey(st.Addr) == addrKey
				if ia, ok := st.Addr.(*ssa.IndexAddr); ok && base != nil && ia.X == base {
					hit = true // any element of the split result, whatever the index
				}
				if hit && !an.InstrBefore(st, lk) {
					rewritten = true
				}
			}
		}
	}
	c.R.Cond(same >= 3 && other == 0 && !rewritten, rule, "s3db.New: duplicate test and dispatch use the same name", c.P.Pos(lk.Pos()),
		fmt.Sprintf("%d dispatch comparisons on the value that was looked up in the seen set", same),
		"the option switch dispatches on a different (or rewritten) value than the one checked for duplicates: two spellings of one option (e.g. with white space before '=') both pass the duplicate test and the later one silently wins")
}

// ---- C20.int-range: a tree needs at least two entries per node -------------------------------------

func init() {
	register(&Rule{Name: "C20.int-range", Min: 1, Run: c20IntRange,
		Doc: "entries_per_node is stored only after a lower-bound test that rejects values below 2: mast's layer computation does not terminate for a branch factor of 1"})
	byProp["C20"] = append(byProp["C20"], "C20.int-range")
	byProp["C14"] = append(byProp["C14"], "C20.int-range")
	explain["C20"] += " int-range: 'malformed arguments are rejected' includes integer options outside their domain; entries_per_node=1 is accepted by ParseInt but makes the first INSERT spin for ever inside the tree's layer computation, so the store of the parsed value into S3Options.EntriesPerNode must be reached only on the side of a comparison with a constant that implies value >= 2."
}

func c20IntRange(c *Ctx) {
	const rule = "C20.int-range"
	fn := mustFunc(c, "", "", "New")
	epn := mustField(c, "", "S3Options", "EntriesPerNode")
	if fn == nil || epn == nil {
		return
	}
	sc := c.Scope(fn)
	n := 0
	for _, f := range sc.Funcs {
		for _, st := range an.StoresToField(f, epn) {
			n++
			// the parsed integer behind the stored value
			v := st.Val
			for i := 0; i < 4; i++ {
				if cv, ok := v.(*ssa.Convert); ok {
					v = cv.X
					continue
				}
				break
			}
			lower := int64(-1 << 62)
			for _, b := range f.Blocks {
				iff, ok := b.Instrs[len(b.Instrs)-1].(*ssa.If)
				if !ok {
					continue
				}
				cond, neg := an.StripNot(iff.Cond)
				bo, ok := cond.(*ssa.BinOp)
				if !ok {
					continue
				}
				x, y := bo.X, bo.Y
				op := bo.Op
				strip := func(w ssa.Value) ssa.Value {
					for i := 0; i < 4; i++ {
						if cv, ok := w.(*ssa.Convert); ok {
							w = cv.X
							continue
						}
						break
					}
					return w
				}
				if k, ok := x.(*ssa.Const); ok && strip(y) == v {
					// K op v  ==  v op' K
					x, y = y, k
					switch op {
					case token.LSS:
						op = token.GTR
					case token.LEQ:
						op = token.GEQ
					case token.GTR:
						op = token.LSS
					case token.GEQ:
						op = token.LEQ
					}
				}
				k, ok := y.(*ssa.Const)
				if !ok || strip(x) != v || k.Value == nil || k.Value.Kind() != constant.Int {
					continue
				}
				kv := k.Int64()
				for side := 0; side < 2; side++ {
					if !an.OnlyVia(b, side, st.Block()) {
						continue
					}
					truth := (side == 0) != neg
					// the bound implied for v on this side
					var lb int64 = -1 << 62
					switch {
					case op == token.LSS && !truth: // !(v < K)
						lb = kv
					case op == token.LEQ && !truth: // !(v <= K)
						lb = kv + 1
					case op == token.GTR && truth: // v > K
						lb = kv + 1
					case op == token.GEQ && truth: // v >= K
						lb = kv
					}
					if lb > lower {
						lower = lb
					}
				}
			}
			c.R.Cond(lower >= 2, rule, core.FuncName(f)+": entries_per_node is at least 2", c.P.Pos(st.Pos()),
				fmt.Sprintf("stored only where the value is known to be >= %d", lower),
				"entries_per_node is stored without a test that rejects values below 2: 'entries_per_node=1' is accepted and the first INSERT never returns (the tree's layer computation loops for ever with a branch factor of 1); zero and negative values silently mean the default")
		}
	}
	if n == 0 {
		c.R.Unk(rule, "s3db.New: entries_per_node", c.P.Pos(fn.Pos()), "no store to S3Options.EntriesPerNode found")
	}
}

// ---- C20.notnull-enforced: a declared NOT NULL is checked by the table itself ----------------------

func init() {
	register(&Rule{Name: "C20.notnull-enforced", Min: 2, Run: c20NotNull,
		Doc: "Insert and Update reject a NULL for a column declared NOT NULL (SQLite does not enforce declared constraints of a virtual table)"})
	byProp["C20"] = append(byProp["C20"], "C20.notnull-enforced")
	byProp["C06"] = append(byProp["C06"], "C20.notnull-enforced")
	explain["C20"] += " notnull-enforced: SQLite passes the declared schema of a virtual table to the planner but enforces none of its constraints, so 'NOT NULL behaviour matches the specification' needs a check in the table: in Insert and in Update, inside the loop over the given values, a return of ErrS3DBConstraintNotNull is guarded by a nil test of the value and by the schema's NotNull flag of that column (directly or through a boolean helper that reads it)."
}

func c20NotNull(c *Ctx) {
	const rule = "C20.notnull-enforced"
	pk := c.P.Pkg("")
	readsNotNull := func(f *ssa.Function) bool {
		for _, b := range f.Blocks {
			for _, in := range b.Instrs {
				if ld, ok := in.(*ssa.UnOp); ok {
					if fv := an.FieldOfLoad(ld); fv != nil && fv.Name() == "NotNull" {
						return true
					}
				}
				if fx, ok := in.(*ssa.Field); ok {
					if fv := an.FieldVar(fx.X.Type(), fx.Field); fv != nil && fv.Name() == "NotNull" {
						return true
					}
				}
			}
		}
		return false
	}
	for _, m := range []string{"Insert", "Update"} {
		fn := mustFunc(c, "", "*VirtualTable", m)
		if fn == nil {
			continue
		}
		name := core.FuncName(fn)
		sc := c.Scope(fn)
		good := false
		for _, f := range sc.Funcs {
			for _, b := range f.Blocks {
				ret, ok := b.Instrs[len(b.Instrs)-1].(*ssa.Return)
				if !ok || !globalLoad(an.RetErr(ret), "ErrS3DBConstraintNotNull") {
					continue
				}
				// guarded by a nil test of a map-range value and by the NotNull flag
				nilOK := an.GuardedByNilTest(an.Edge{From: b}, func(v ssa.Value) bool {
					return rangeOfNext(v) != nil
				}, true)
				flagOK := an.GuardedByValue(an.Edge{From: b}, func(v ssa.Value) bool {
					if fv := an.FieldOfLoad(v); fv != nil && fv.Name() == "NotNull" {
						return true
					}
					if fx, ok := v.(*ssa.Field); ok {
						if fv := an.FieldVar(fx.X.Type(), fx.Field); fv != nil && fv.Name() == "NotNull" {
							return true
						}
					}
					if cl, ok := v.(*ssa.Call); ok {
						if h := cl.Call.StaticCallee(); h != nil && h.Pkg != nil && h.Pkg.Pkg == pk.Types && readsNotNull(h) {
							return true
						}
					}
					return false
				}, true)
				if nilOK && flagOK {
					good = true
				}
			}
		}
		c.R.Cond(good, rule, name+": NULL for a NOT NULL column is refused", c.P.Pos(fn.Pos()),
			"a nil value of a column whose schema says NotNull returns ErrS3DBConstraintNotNull",
			"no check of the schema's NotNull flag: 'create virtual table k using s3db (columns=''a primary key, b not null, c'')' accepts 'insert into k(a,c) values(4,6)' and 'update k set b=null', which a native table refuses with 'NOT NULL constraint failed'")
	}
}

// ---- C20.endpoint-needs-bucket: the option cross-check runs on the options as given ----------------

func init() {
	register(&Rule{Name: "C20.endpoint-needs-bucket", Min: 1, Run: c20EndpointNeedsBucket,
		Doc: "OpenKV substitutes the temporary in-memory bucket only when no endpoint was given: the defaults are assigned on the 'Endpoint is empty' side of a test, so 's3_endpoint without s3_bucket' is rejected instead of silently redirected"})
	byProp["C20"] = append(byProp["C20"], "C20.endpoint-needs-bucket")
	explain["C20"] += " endpoint-needs-bucket: a validation that runs after the defaults were filled in can never fire; every assignment to the Bucket / Endpoint of the options inside OpenKV (the in-memory default) is reached only where a comparison showed the given Endpoint to be empty."
}

func c20EndpointNeedsBucket(c *Ctx) {
	const rule = "C20.endpoint-needs-bucket"
	fn := mustFunc(c, "", "", "OpenKV")
	bucketF := mustField(c, "", "S3Options", "Bucket")
	endpointF := mustField(c, "", "S3Options", "Endpoint")
	if fn == nil || bucketF == nil || endpointF == nil {
		return
	}
	name := core.FuncName(fn)
	var stores []*ssa.Store
	for _, f := range []*types.Var{bucketF, endpointF} {
		stores = append(stores, an.StoresToField(fn, f)...)
	}
	// only stores into the options parameter itself (its spill), not into the kv.Config literal
	var params []*ssa.Store
	for _, st := range stores {
		fa := st.Addr.(*ssa.FieldAddr)
		if al, ok := fa.X.(*ssa.Alloc); ok {
			isParamSpill := false
			for _, r := range *al.Referrers() {
				if s2, ok := r.(*ssa.Store); ok && s2.Addr == ssa.Value(al) {
					if _, isP := s2.Val.(*ssa.Parameter); isP {
						isParamSpill = true
					}
				}
			}
			if isParamSpill {
				params = append(params, st)
			}
		}
	}
	if len(params) == 0 {
		c.R.OK(rule, name+": defaults only without an endpoint", c.P.Pos(fn.Pos()), "OpenKV never rewrites the Bucket / Endpoint it was given")
		return
	}
	good := true
	why := ""
	for _, st := range params {
		guarded := false
		for _, b := range fn.Blocks {
			iff, ok := b.Instrs[len(b.Instrs)-1].(*ssa.If)
			if !ok {
				continue
			}
			cond, neg := an.StripNot(iff.Cond)
			bo, ok := cond.(*ssa.BinOp)
			if !ok || bo.Op != token.EQL && bo.Op != token.NEQ {
				continue
			}
			isEmpty := func(v ssa.Value) bool {
				k, ok := v.(*ssa.Const)
				return ok && k.Value != nil && k.Value.Kind() == constant.String && constant.StringVal(k.Value) == ""
			}
			var tested ssa.Value
			if isEmpty(bo.Y) {
				tested = bo.X
			} else if isEmpty(bo.X) {
				tested = bo.Y
			}
			if tested == nil || an.FieldOfLoad(tested) != endpointF {
				continue
			}
			// the side on which Endpoint == ""
			si := 0
			if (bo.Op == token.NEQ) != neg {
				si = 1
			}
			if an.OnlyVia(b, si, st.Block()) {
				// and the tested load precedes every rewrite of the field
				guarded = true
			}
		}
		if !guarded {
			good = false
			why = "the in-memory default is assigned at " + c.P.Pos(st.Pos()) + " without a test that the given Endpoint is empty: 'using s3db (s3_endpoint=…, columns=…)' without a bucket is accepted, declared and registered, and its rows go to the process-local temporary S3 instead of an error"
		}
	}
	c.R.Cond(good, rule, name+": defaults only without an endpoint", c.P.Pos(params[0].Pos()), "every rewrite of Bucket / Endpoint is on the 'Endpoint is empty' side", why)
}

// ---- C20.names-unquoted: one spelling per column name inside s3db ----------------------------------

func init() {
	register(&Rule{Name: "C20.names-unquoted", Min: 3, Run: c20NamesUnquoted,
		Doc: "sql.SQLName yields the identifier's content for every spelling (bare, 'single', \"double\"): the name is taken from a capture group and nothing is added to it"})
	byProp["C20"] = append(byProp["C20"], "C20.names-unquoted")
	explain["C20"] += " names-unquoted: the parsed name is the key under which s3db finds the key column, detects duplicates and stores the column's values, so \"id\" and id must be the same name: each assignment to SQLName's result is a capture group of the name pattern (or a strings.ReplaceAll of one, for the doubled quote), never a concatenation that keeps or re-adds quote characters."
}

func c20NamesUnquoted(c *Ctx) {
	const rule = "C20.names-unquoted"
	fn := mustFunc(c, "sql", "", "SQLName")
	if fn == nil {
		return
	}
	name := core.FuncName(fn)
	n := 0
	for _, f := range append([]*ssa.Function{fn}, fn.AnonFuncs...) {
		for _, b := range f.Blocks {
			for _, in := range b.Instrs {
				st, ok := in.(*ssa.Store)
				if !ok {
					continue
				}
				// *res = …  (res is the parameter, captured by the closure)
				root := an.ExprRoot(st.Addr)
				isRes := false
				switch x := root.(type) {
				case *ssa.FreeVar:
					isRes = x.Name() == fn.Params[0].Name()
				case *ssa.Parameter:
					isRes = x == fn.Params[0]
				}
				if !isRes {
					continue
				}
				n++
				concat := false
				fromGroup := false
				an.DependsOn(st.Val, func(v ssa.Value) bool {
					if bo, ok := v.(*ssa.BinOp); ok && bo.Op == token.ADD {
						if b, ok := bo.Type().Underlying().(*types.Basic); ok && b.Info()&types.IsString != 0 {
							concat = true
						}
					}
					if ld, ok := v.(*ssa.UnOp); ok && ld.Op == token.MUL {
						if ia, ok := ld.X.(*ssa.IndexAddr); ok {
							if _, isP := ia.X.(*ssa.Parameter); isP {
								fromGroup = true
							}
						}
					}
					return false
				})
				c.R.Cond(fromGroup && !concat, rule, fmt.Sprintf("%s: result #%d is a capture group", name, n), c.P.Pos(st.Pos()),
					"the name is the content of a capture group",
					fmt.Sprintf("the parsed name is built by concatenation (from a capture group: %v): a quoted spelling keeps its quotes inside s3db, so \"id\" and id are different names — 'primary key(\"id\")' no longer finds column id, and two clients spelling a column differently store its values under different names", fromGroup))
			}
		}
	}
	if n == 0 {
		c.R.Unk(rule, name+": result", c.P.Pos(fn.Pos()), "no assignment to the result found")
	}
}

// ---- C20.declared-names-quoted: names reach SQLite's parser as identifiers, whatever they contain -------

func init() {
	register(&Rule{Name: "C20.declared-names-quoted", Min: 1, Run: c20DeclaredNamesQuoted,
		Doc: "every column name pasted into the CREATE TABLE text that is declared to SQLite passes through a quoting function: a name with a space or a reserved word is otherwise re-parsed by SQLite as something else"})
	byProp["C20"] = append(byProp["C20"], "C20.declared-names-quoted")
	explain["C20"] += " declared-names-quoted: s3db parses the columns specification itself and then declares the table to SQLite as text, so SQLite parses the names a second time; a parsed name concatenated into that text as it is makes '\"my col\" primary key' declare a column 'my' of type 'col', and '\"order\"' fail to declare. In convertSchema (and helpers split out of it) no string concatenation has a Column.Name as a direct operand; a name is concatenated only as the result of a same-package function whose result contains a double-quote constant."
}

func c20DeclaredNamesQuoted(c *Ctx) {
	const rule = "C20.declared-names-quoted"
	fn := mustFunc(c, "", "", "convertSchema")
	if fn == nil {
		return
	}
	name := core.FuncName(fn)
	sc := c.Scope(fn)
	pk := c.P.Pkg("")
	isColName := func(v ssa.Value) bool {
		v = an.Unwrap(v)
		switch x := v.(type) {
		case *ssa.Field:
			fv := an.FieldVar(x.X.Type(), x.Field)
			return fv != nil && fv.Name() == "Name" && strings.Contains(x.X.Type().String(), "Column")
		case *ssa.UnOp:
			fv := an.FieldOfLoad(x)
			if fv == nil || fv.Name() != "Name" {
				return false
			}
			if fa, ok := x.X.(*ssa.FieldAddr); ok {
				return strings.Contains(fa.X.Type().String(), "Column")
			}
		}
		return false
	}
	quotes := func(h *ssa.Function) bool {
		if h == nil || h.Pkg == nil || h.Pkg.Pkg != pk.Types || len(h.Blocks) == 0 {
			return false
		}
		ok := false
		for _, b := range h.Blocks {
			ret, isRet := b.Instrs[len(b.Instrs)-1].(*ssa.Return)
			if !isRet || len(ret.Results) == 0 {
				continue
			}
			an.DependsOn(ret.Results[0], func(v ssa.Value) bool {
				if k, isK := v.(*ssa.Const); isK && k.Value != nil && k.Value.Kind() == constant.String && strings.Contains(constant.StringVal(k.Value), `"`) {
					ok = true
				}
				return false
			})
		}
		return ok
	}
	n, bad := 0, 0
	for _, f := range sc.Funcs {
		for _, b := range f.Blocks {
			for _, in := range b.Instrs {
				bo, ok := in.(*ssa.BinOp)
				if !ok || bo.Op != token.ADD {
					continue
				}
				if bt, ok := bo.Type().Underlying().(*types.Basic); !ok || bt.Info()&types.IsString == 0 {
					continue
				}
				for _, op := range []ssa.Value{bo.X, bo.Y} {
					if isColName(op) {
						n++
						bad++
						c.R.Bad(rule, fmt.Sprintf("%s: column name #%d is quoted for the declaration", name, n), c.P.Pos(bo.Pos()),
							"a parsed column name is concatenated into the CREATE TABLE text as it is: SQLite re-parses it — '\"my col\" primary key, b' declares a column 'my' of type 'col', '\"order\"' / '\"select\"' fail to declare although they are valid quoted names")
						continue
					}
					if cl, ok := an.Unwrap(op).(*ssa.Call); ok {
						takesName := false
						for _, a := range cl.Call.Args {
							if isColName(a) {
								takesName = true
							}
						}
						if takesName {
							n++
							c.R.Cond(quotes(cl.Call.StaticCallee()), rule, fmt.Sprintf("%s: column name #%d is quoted for the declaration", name, n), c.P.Pos(bo.Pos()),
								"the name goes through "+calleeLabel(cl)+", whose result carries double quotes", "the function the name passes through does not quote it")
						}
					}
				}
			}
		}
	}
	if n == 0 {
		c.R.Unk(rule, name+": column names in the declaration", c.P.Pos(fn.Pos()), "no concatenation of a column name found")
	}
}

// ---- C20.type-per-column: a column's type is its own ---------------------------------------------------

func init() {
	register(&Rule{Name: "C20.type-per-column", Min: 1, Run: c20TypePerColumn,
		Doc: "the scratch variable the column-type action reads is reset when a new column starts: an optional element's action always runs, so a stale capture would give an untyped column the previous column's type"})
	byProp["C20"] = append(byProp["C20"], "C20.type-per-column")
	byProp["C06"] = append(byProp["C06"], "C20.type-per-column")
	explain["C20"] += " type-per-column: in the parser combinators of sql.Schema the action attached to Optional(ColumnType(&v)) runs whether or not a type was present; the captured variable it copies into DefaultType must therefore be cleared by the action that starts a new column (or by the copying action itself), otherwise 'a text primary key, b' declares b as TEXT and 'where b = ''1''' matches the integer 1 through TEXT affinity."
}

func c20TypePerColumn(c *Ctx) {
	const rule = "C20.type-per-column"
	fn := mustFunc(c, "sql", "", "Schema")
	if fn == nil {
		return
	}
	name := core.FuncName(fn)
	var all []*ssa.Function
	var collect func(f *ssa.Function)
	collect = func(f *ssa.Function) {
		all = append(all, f)
		for _, a := range f.AnonFuncs {
			collect(a)
		}
	}
	collect(fn)
	// resolve a closure's free variable to the allocation it was bound to
	var resolve func(v ssa.Value, d int) ssa.Value
	resolve = func(v ssa.Value, d int) ssa.Value {
		fv, ok := v.(*ssa.FreeVar)
		if !ok || d > 6 {
			return v
		}
		f := fv.Parent()
		p := f.Parent()
		if p == nil {
			return v
		}
		for _, b := range p.Blocks {
			for _, in := range b.Instrs {
				mc, ok := in.(*ssa.MakeClosure)
				if !ok || mc.Fn != ssa.Value(f) {
					continue
				}
				for i, x := range f.FreeVars {
					if x == fv && i < len(mc.Bindings) {
						return resolve(mc.Bindings[i], d+1)
					}
				}
			}
		}
		return v
	}
	n := 0
	for _, f := range all {
		for _, b := range f.Blocks {
			for _, in := range b.Instrs {
				st, ok := in.(*ssa.Store)
				if !ok {
					continue
				}
				fa, ok := st.Addr.(*ssa.FieldAddr)
				if !ok {
					continue
				}
				fv := an.FieldVar(fa.X.Type(), fa.Field)
				if fv == nil || fv.Name() != "DefaultType" {
					continue
				}
				// the captured scratch variable the value is read from
				var scratch ssa.Value
				an.DependsOn(st.Val, func(v ssa.Value) bool {
					if ld, ok := v.(*ssa.UnOp); ok && ld.Op == token.MUL {
						if x, ok := ld.X.(*ssa.FreeVar); ok {
							if bt, ok := x.Type().(*types.Pointer); ok {
								if bb, ok := bt.Elem().Underlying().(*types.Basic); ok && bb.Info()&types.IsString != 0 {
									scratch = resolve(x, 0)
								}
							}
						}
					}
					return false
				})
				if scratch == nil {
					continue
				}
				n++
				// who clears it: a store of "" into the same allocation, in the closure that starts a column
				// (appends to Columns) or in this closure
				cleared := ""
				for _, g := range all {
					startsColumn := g == f
					for _, gb := range g.Blocks {
						for _, gi := range gb.Instrs {
							if s2, ok := gi.(*ssa.Store); ok {
								if fa2, ok := s2.Addr.(*ssa.FieldAddr); ok {
									if v2 := an.FieldVar(fa2.X.Type(), fa2.Field); v2 != nil && v2.Name() == "Columns" {
										startsColumn = true
									}
								}
							}
						}
					}
					if !startsColumn {
						continue
					}
					for _, gb := range g.Blocks {
						for _, gi := range gb.Instrs {
							s2, ok := gi.(*ssa.Store)
							if !ok || resolve(s2.Addr, 0) != scratch {
								continue
							}
							if k, ok := s2.Val.(*ssa.Const); ok && k.Value != nil && k.Value.Kind() == constant.String && constant.StringVal(k.Value) == "" {
								cleared = core.FuncName(g)
							}
						}
					}
				}
				c.R.Cond(cleared != "", rule, name+": column type scratch is cleared per column", c.P.Pos(st.Pos()),
					"cleared in "+cleared,
					"the variable the column-type action copies into DefaultType is never cleared when a column starts; the action of an Optional element runs even when nothing matched, so a column without a type inherits the previous column's: 'a text primary key, b' declares b TEXT, and 'where b = ''1''' then matches the integer 1")
			}
		}
	}
	if n == 0 {
		c.R.Unk(rule, name+": column type scratch is cleared per column", c.P.Pos(fn.Pos()), "no action that copies a captured string into DefaultType found")
	}
}

// ---- C20.list-grammar: a separator is part of a list only between two elements --------------------------

func init() {
	register(&Rule{Name: "C20.list-grammar", Min: 1, Run: c20ListGrammar,
		Doc: "typestate of parse.Delimited: the combinator never returns success with a consumed delimiter as the last thing it committed to the parser"})
	byProp["C20"] = append(byProp["C20"], "C20.list-grammar")
	explain["C20"] += " list-grammar: the columns specification and the key list are parsed with Delimited(term, delimiter); a delimiter that was consumed although no term follows it makes 'a primary key, b,' a valid specification. The combinator's closure is walked with the state 'what was last committed to the caller's parser' (a term or a delimiter; calls on a copy commit only when the copy is assigned back): no successful return is reachable with a delimiter committed last."
}

type listState struct{ e, c int } // last consumption committed to the parser / made on a copy: 0 none, 1 term, 2 delimiter

func (l listState) Key() string { return fmt.Sprintf("%d/%d", l.e, l.c) }

func c20ListGrammar(c *Ctx) {
	const rule = "C20.list-grammar"
	outer := mustFunc(c, "sql/parse", "", "Delimited")
	if outer == nil {
		return
	}
	if len(outer.AnonFuncs) != 1 || len(outer.Params) != 2 {
		c.R.Unk(rule, "parse.Delimited: shape", c.P.Pos(outer.Pos()), "expected Delimited(term, delimiter) to return one closure")
		return
	}
	f := outer.AnonFuncs[0]
	e := f.Params[0]
	kindOf := func(v ssa.Value) int {
		if ld, ok := v.(*ssa.UnOp); ok && ld.Op == token.MUL {
			v = ld.X // captured by reference
		}
		fv, ok := v.(*ssa.FreeVar)
		if !ok {
			return 0
		}
		switch fv.Name() {
		case outer.Params[0].Name():
			return 1
		case outer.Params[1].Name():
			return 2
		}
		return 0
	}
	h := an.THooks{}
	h.Branch = func(iff *ssa.If, side bool, st0 an.TState) an.TState {
		st := st0.(listState)
		cond, neg := an.StripNot(iff.Cond)
		cl, ok := cond.(*ssa.Call)
		if !ok {
			return st
		}
		k := kindOf(cl.Call.Value)
		if k == 0 || len(cl.Call.Args) != 1 {
			return st
		}
		if side != neg { // the parser function matched and consumed
			if cl.Call.Args[0] == ssa.Value(e) {
				st.e = k
			} else {
				st.c = k
			}
		}
		return st
	}
	h.Instr = func(in ssa.Instruction, st0 an.TState) an.TState {
		st := st0.(listState)
		switch x := in.(type) {
		case *ssa.Call:
			if calleeLabel(x) == "Copy" && len(x.Call.Args) > 0 && x.Call.Args[0] == ssa.Value(e) {
				st.c = st.e // a fresh copy starts from what is committed
			}
		case *ssa.Store:
			if x.Addr == ssa.Value(e) { // *e = *copy
				st.e = st.c
			}
		}
		return st
	}
	exits := an.WalkTypestate(f, listState{}, h, nil)
	good := len(exits) > 0
	why := ""
	for _, ex := range exits {
		if len(ex.Ret.Results) != 1 {
			continue
		}
		if cb, isC := constBool(ex.Ret.Results[0]); isC && !cb {
			continue
		}
		if ex.St.(listState).e == 2 {
			good = false
			why = "Delimited can return success at " + c.P.Pos(ex.Ret.Pos()) + " after committing a delimiter that no term follows: a trailing separator is accepted ('columns=''a primary key, b,''' creates the table), although the specification is malformed"
		}
	}
	c.R.Cond(good, rule, "parse.Delimited: no trailing delimiter is consumed", c.P.Pos(f.Pos()), "every successful return has a term as the last committed consumption", why)
}

// ---- C20.validate-before-open: a rejected CREATE has not touched the store ------------------------------

func init() {
	register(&Rule{Name: "C20.validate-before-open", Min: 1, Run: c20ValidateBeforeOpen,
		Doc: "in s3db.New no check that can reject the module arguments is reachable from the OpenKV call: opening a writable table merges and commits the versions it finds, so a rejection afterwards has already written objects"})
	byProp["C20"] = append(byProp["C20"], "C20.validate-before-open")
	explain["C20"] += " validate-before-open: 'rejected … and no object written' — kv.Open of a writable table that lists more than one current version merges them and commits (node, version, merged/ copies, DELETEs), so whatever can reject the arguments has to run before OpenKV. In New (and the helpers split out of it) no call that takes a value derived from the argument list and can answer with an error (a repository function or strconv's parsers) is reachable from the OpenKV call, and the columns check (convertSchema) exists."
}

func c20ValidateBeforeOpen(c *Ctx) {
	const rule = "C20.validate-before-open"
	fn := mustFunc(c, "", "", "New")
	open := mustFunc(c, "", "", "OpenKV")
	conv := mustFunc(c, "", "", "convertSchema")
	if fn == nil || open == nil || conv == nil {
		return
	}
	name := core.FuncName(fn)
	sc := c.Scope(fn)
	var openCall ssa.CallInstruction
	sawConv := false
	for _, call := range sc.Calls() {
		switch call.Common().StaticCallee() {
		case open:
			openCall = call
		case conv:
			sawConv = true
		}
	}
	if openCall == nil || !sawConv {
		c.R.Unk(rule, name+": arguments are judged before the store is opened", c.P.Pos(fn.Pos()), "OpenKV / convertSchema call not found in New")
		return
	}
	var argsParam ssa.Value
	for _, p := range fn.Params {
		if sl, ok := p.Type().Underlying().(*types.Slice); ok {
			if b, ok := sl.Elem().Underlying().(*types.Basic); ok && b.Kind() == types.String {
				argsParam = p
			}
		}
	}
	if argsParam == nil {
		c.R.Unk(rule, name+": arguments are judged before the store is opened", c.P.Pos(fn.Pos()), "New has no []string parameter")
		return
	}
	after := func(x ssa.Instruction) bool {
		a, b, ok := sc.Common(openCall, x)
		if !ok {
			return false
		}
		if a.Block() == b.Block() {
			ia, ib := -1, -1
			for i, in := range a.Block().Instrs {
				if in == a {
					ia = i
				}
				if in == b {
					ib = i
				}
			}
			if ib > ia {
				return true
			}
			// earlier in the same block: only after the open if the block is in a loop
			for _, s := range a.Block().Succs {
				if an.ReachableFromBlock(s, a.Block(), nil) {
					return true
				}
			}
			return false
		}
		return an.ReachableFromBlock(a.Block(), b.Block(), nil)
	}
	n := 0
	var bad []string
	for _, call := range sc.Calls() {
		cal := call.Common().StaticCallee()
		if cal == nil || cal == open || !an.ReturnsError(cal) {
			continue
		}
		pk := an.PkgPathOf(cal)
		if !(strings.HasPrefix(pk, core.ModPath) || pk == "strconv") {
			continue
		}
		fromArgs := false
		for _, a := range call.Common().Args {
			if b, ok := a.Type().Underlying().(*types.Basic); !ok || b.Kind() != types.String {
				continue
			}
			var dep func(v ssa.Value, d int)
			dep = func(v ssa.Value, d int) {
				an.DependsOn(v, func(w ssa.Value) bool {
					if w == argsParam {
						fromArgs = true
					}
					if p, isP := w.(*ssa.Parameter); isP && d < 4 {
						if up := sc.ArgOfParam(p); up != ssa.Value(p) {
							dep(up, d+1)
						}
					}
					return false
				})
			}
			dep(a, 0)
		}
		if !fromArgs {
			continue
		}
		n++
		if after(call) {
			bad = append(bad, calleeLabel(call)+" at "+c.P.Pos(call.Pos()))
		}
	}
	sort.Strings(bad)
	c.R.Stats["C20.validate-before-open.checks"] = n
	if n < 3 {
		c.R.Errorf("only %d argument checks found in New (3 confirmed by hand: convertSchema and two ParseInt)", n)
	}
	c.R.Cond(len(bad) == 0, rule, name+": arguments are judged before the store is opened", c.P.Pos(openCall.Pos()),
		fmt.Sprintf("%d checks of argument text, none reachable from the OpenKV call", n),
		"reachable from the OpenKV call: "+strings.Join(bad, "; ")+" — over a prefix with two unmerged versions the open has merged and committed (new node, new version, copies under merged/, DELETEs) before the statement is rejected")
}

// ---- C20.seq-whitespace: layout of a valid specification does not matter ------------------------------

func init() {
	register(&Rule{Name: "C20.seq-whitespace", Min: 1, Run: c20SeqWhitespace,
		Doc: "typestate of parse.SeqWS: whitespace is skipped in front of every element and behind the last one, so that the matchers that follow a sequence (a delimiter, the end of input), which do not skip blanks themselves, see the next token"})
	byProp["C20"] = append(byProp["C20"], "C20.seq-whitespace")
	explain["C20"] += " seq-whitespace: the columns grammar is built from SeqWS(...) sequences; Exact(\",\") in Delimited and End() compare the remaining text as it is. A valid specification is therefore accepted in every layout only if the sequence combinator leaves no blanks behind: walking its closure with the state 'blanks skipped since the last consumption', every element is tried in the skipped state and every successful return is reached in it (or with no element). The clause is moot, and the rule says so instead of firing, if the terminal matchers (Parser.Exact, Parser.CI, End) skip blanks themselves."
}

type wsState struct {
	s   int // 0 nothing yet, 1 blanks skipped, 2 an element was consumed and no blanks skipped since
	bad bool
}

func (w wsState) Key() string { return fmt.Sprintf("%d/%v", w.s, w.bad) }

func c20SeqWhitespace(c *Ctx) {
	const rule = "C20.seq-whitespace"
	outer := mustFunc(c, "sql/parse", "", "SeqWS")
	if outer == nil {
		return
	}
	if len(outer.AnonFuncs) != 1 {
		c.R.Unk(rule, "parse.SeqWS: shape", c.P.Pos(outer.Pos()), "expected SeqWS(fns...) to return one closure")
		return
	}
	f := outer.AnonFuncs[0]
	// do the terminals skip blanks themselves?
	callsSkip := func(fn *ssa.Function) bool {
		if fn == nil {
			return false
		}
		for _, call := range an.Calls(fn) {
			if calleeLabel(call) == "SkipWS" {
				return true
			}
		}
		return false
	}
	end := c.P.LookupFunc("sql/parse", "", "End")
	endSkips := end != nil && len(end.AnonFuncs) == 1 && callsSkip(end.AnonFuncs[0])
	if callsSkip(c.P.LookupFunc("sql/parse", "*Parser", "Exact")) && callsSkip(c.P.LookupFunc("sql/parse", "*Parser", "CI")) && endSkips {
		c.R.OK(rule, "parse.SeqWS: no blanks are left between tokens", c.P.Pos(f.Pos()), "the terminal matchers skip blanks themselves")
		return
	}
	isElem := func(cl *ssa.Call) bool {
		// a call of a parse.Func value that is not a static function: the element being tried
		if cl.Call.IsInvoke() || cl.Call.StaticCallee() != nil {
			return false
		}
		nt := an.NamedOf(cl.Call.Value.Type())
		return nt != nil && nt.Obj().Name() == "Func" && len(cl.Call.Args) == 1
	}
	h := an.THooks{}
	h.Instr = func(in ssa.Instruction, st0 an.TState) an.TState {
		st := st0.(wsState)
		if cl, ok := in.(*ssa.Call); ok {
			switch {
			case calleeLabel(cl) == "SkipWS":
				st.s = 1
			case isElem(cl):
				if st.s != 1 {
					st.bad = true
				}
			}
		}
		return st
	}
	h.Branch = func(iff *ssa.If, side bool, st0 an.TState) an.TState {
		st := st0.(wsState)
		cond, neg := an.StripNot(iff.Cond)
		if cl, ok := cond.(*ssa.Call); ok && isElem(cl) && side != neg {
			st.s = 2
		}
		return st
	}
	exits := an.WalkTypestate(f, wsState{}, h, nil)
	good := len(exits) > 0
	why := ""
	n := 0
	for _, ex := range exits {
		if len(ex.Ret.Results) != 1 {
			continue
		}
		if cb, isC := constBool(ex.Ret.Results[0]); isC && !cb {
			continue
		}
		n++
		st := ex.St.(wsState)
		if st.bad {
			good = false
			why = "an element of a SeqWS sequence is tried without skipping the blanks in front of it: 'a, b' and ' a' stop being valid"
		}
		if st.s == 2 {
			good = false
			why = "SeqWS can return success at " + c.P.Pos(ex.Ret.Pos()) + " with blanks left behind its last element; the delimiter and end-of-input matchers that follow do not skip blanks, so 'id primary key , name' or a specification ending in 'not null ' is rejected while the compact spelling is accepted"
		}
	}
	if n == 0 {
		c.R.Unk(rule, "parse.SeqWS: no blanks are left between tokens", c.P.Pos(f.Pos()), "no successful return found")
		return
	}
	c.R.Cond(good, rule, "parse.SeqWS: no blanks are left between tokens", c.P.Pos(f.Pos()), "blanks are skipped in front of every element and behind the last", why)
}
