package rules

import (
	"fmt"
	"go/constant"
	"go/token"
	"go/types"
	"math"
	"sort"
	"strings"

	"golang.org/x/tools/go/ssa"

	"s3dbcheck/an"
	"s3dbcheck/core"
)

func init() {
	register(&Rule{Name: "C07.order-layer", Min: 1, Run: c07OrderLayer,
		Doc: "storage classes that Order can find equal must be hashed by Layer through one representation"})
	register(&Rule{Name: "C07.compare-only", Min: 4, Run: c07CompareOnly,
		Doc: "inside the comparator key values are touched only through comparisons: no arithmetic, no int->float conversion"})
	register(&Rule{Name: "C07.convert-range", Min: 1, Run: c07ConvertRange,
		Doc: "every float->int64 conversion in the comparator is dominated by exact range guards [-2^63, 2^63)"})
	register(&Rule{Name: "C07.insert-guards", Min: 3, Run: c07InsertGuards,
		Doc: "NOT NULL and uniqueness of the key are decided before the write, on the row fetched for the same key"})
	register(&Rule{Name: "C07.null-operand", Min: 6, Run: c07NullOperand,
		Doc: "a possibly-NULL value never becomes a Key that reaches the comparator"})
	register(&Rule{Name: "C07.exhaustive", Min: 4, Run: c07Exhaustive,
		Doc: "every storage class NewKey can produce is handled by typeIndex, Layer, Value and FromSQLiteValue"})
	claim("C07", "C07 clauses decided: order-layer (equal keys must address one tree position; the INT/REAL case is a recorded known finding), compare-only and convert-range (the comparator touches key values only through comparisons and exactly guarded conversions: a small interval analysis of the guards), insert-guards, null-operand, exhaustive. Not decided: antisymmetry/transitivity value by value, agreement with SQLite's collation on text/blobs.",
		"C07.order-layer", "C07.compare-only", "C07.convert-range", "C07.insert-guards", "C07.null-operand", "C07.exhaustive")
}

// protoTypeNames maps enum values of v1proto.Type to short names.
func protoTypeNames(c *Ctx) (map[int64]string, *types.Var) {
	pk := c.P.Pkg("proto/v1")
	if pk == nil {
		c.R.Errorf("package proto/v1 not loaded")
		return nil, nil
	}
	tn, _ := pk.Types.Scope().Lookup("Type").(*types.TypeName)
	if tn == nil {
		c.R.Errorf("anchor type v1proto.Type not found")
		return nil, nil
	}
	out := map[int64]string{}
	for _, n := range pk.Types.Scope().Names() {
		k, ok := pk.Types.Scope().Lookup(n).(*types.Const)
		if !ok || !types.Identical(k.Type(), tn.Type()) {
			continue
		}
		v, _ := constant.Int64Val(k.Val())
		out[v] = strings.TrimPrefix(n, "Type_")
	}
	f := an.LookupField(c.P, "proto/v1", "SQLiteValue", "Type")
	if f == nil {
		c.R.Errorf("anchor field SQLiteValue.Type not found")
	}
	return out, f
}

// tagWalk walks fn carrying "<base>.Type == K" facts learned from branches; visit is called for
// every instruction with the facts in force. Facts are keyed by the ExprKey of the *SQLiteValue.
type tagFacts map[string]int64

func (t tagFacts) clone() tagFacts {
	n := tagFacts{}
	for k, v := range t {
		n[k] = v
	}
	return n
}
func (t tagFacts) key() string {
	var ks []string
	for k, v := range t {
		ks = append(ks, fmt.Sprintf("%s=%d", k, v))
	}
	sort.Strings(ks)
	return strings.Join(ks, ";")
}

// typeTest recognises "<x>.Type == K" / "!=": returns base key, K, and whether succ[0] is the equal side.
func typeTest(iff *ssa.If, typeField *types.Var) (base string, k int64, eqIsTrue bool, ok bool) {
	cond, neg := an.StripNot(iff.Cond)
	bo, isBo := cond.(*ssa.BinOp)
	if !isBo || (bo.Op != token.EQL && bo.Op != token.NEQ) {
		return
	}
	var ld ssa.Value
	var kc *ssa.Const
	if c, isC := bo.Y.(*ssa.Const); isC {
		ld, kc = bo.X, c
	} else if c, isC := bo.X.(*ssa.Const); isC {
		ld, kc = bo.Y, c
	} else {
		return
	}
	if an.FieldOfLoad(ld) != typeField || kc.Value == nil {
		return
	}
	var b ssa.Value
	switch x := ld.(type) {
	case *ssa.UnOp:
		b = x.X.(*ssa.FieldAddr).X
	case *ssa.Field:
		b = x.X
	}
	eq := bo.Op == token.EQL
	if neg {
		eq = !eq
	}
	return an.ExprKey(b), kc.Int64(), eq, true
}

func tagWalk(fn *ssa.Function, typeField *types.Var, visit func(in ssa.Instruction, f tagFacts)) {
	type st struct {
		b *ssa.BasicBlock
		f tagFacts
	}
	seen := map[string]bool{}
	work := []st{{fn.Blocks[0], tagFacts{}}}
	for len(work) > 0 {
		s := work[len(work)-1]
		work = work[:len(work)-1]
		k := fmt.Sprintf("%d|%s", s.b.Index, s.f.key())
		if seen[k] {
			continue
		}
		seen[k] = true
		for _, in := range s.b.Instrs {
			visit(in, s.f)
		}
		if iff, ok := s.b.Instrs[len(s.b.Instrs)-1].(*ssa.If); ok {
			if base, kk, eqTrue, ok := typeTest(iff, typeField); ok {
				eqS, neS := s.b.Succs[0], s.b.Succs[1]
				if !eqTrue {
					eqS, neS = neS, eqS
				}
				if cur, known := s.f[base]; known {
					if cur == kk {
						work = append(work, st{eqS, s.f})
					} else {
						work = append(work, st{neS, s.f})
					}
					continue
				}
				f2 := s.f.clone()
				f2[base] = kk
				work = append(work, st{eqS, f2}, st{neS, s.f})
				continue
			}
		}
		for _, n := range s.b.Succs {
			work = append(work, st{n, s.f})
		}
	}
}

func c07OrderLayer(c *Ctx) {
	const rule = "C07.order-layer"
	names, typeField := protoTypeNames(c)
	order := mustFunc(c, "", "*Key", "Order")
	layer := mustFunc(c, "", "*Key", "Layer")
	if names == nil || typeField == nil || order == nil || layer == nil {
		return
	}
	// pairs of classes for which Order can return 0
	type pair struct{ a, b int64 }
	maybeZero := map[pair]bool{}
	var canBeZero func(v ssa.Value, depth int) bool
	canBeZero = func(v ssa.Value, depth int) bool {
		if depth > 4 {
			return true
		}
		switch x := v.(type) {
		case *ssa.Const:
			return x.Value == nil || constant.Sign(x.Value) == 0
		case *ssa.Call:
			// order(flip, cmp) and similar sign-preserving wrappers: zero iff an int argument can be zero
			f := x.Call.StaticCallee()
			if f != nil && an.PkgPathOf(f) == core.ModPath && f.Name() == "order" {
				return canBeZero(x.Call.Args[len(x.Call.Args)-1], depth+1)
			}
			return true
		}
		return true
	}
	tagWalk(order, typeField, func(in ssa.Instruction, f tagFacts) {
		ret, ok := in.(*ssa.Return)
		if !ok || len(ret.Results) != 1 || !canBeZero(ret.Results[0], 0) {
			return
		}
		if len(f) != 2 {
			return // not both classes known on this path
		}
		var ks []int64
		for _, v := range f {
			ks = append(ks, v)
		}
		sort.Slice(ks, func(i, j int) bool { return ks[i] < ks[j] })
		maybeZero[pair{ks[0], ks[1]}] = true
	})
	same := 0
	var cross []pair
	for p := range maybeZero {
		if p.a == p.b {
			same++
		} else {
			cross = append(cross, p)
		}
	}
	c.R.Stats["C07.order.same_class_equal_pairs"] = same
	if same < 3 {
		c.R.Unk(rule, "s3db.(*Key).Order: class table", c.P.Pos(order.Pos()), fmt.Sprintf("could extract only %d same-class comparison branches from Order (expected >= 3): its shape changed", same))
		return
	}
	// representation through which Layer hashes each class
	rep := map[int64]map[string]bool{}
	var defaultLayer *ssa.Global
	if pk := c.P.Pkg(""); pk != nil {
		if sp := c.P.SSA.Package(pk.Types); sp != nil {
			defaultLayer, _ = sp.Members["defaultLayer"].(*ssa.Global)
		}
	}
	for _, lf := range c.Scope(layer).Funcs { // the switch may sit in an immediately-invoked closure
		tagWalk(lf, typeField, func(in ssa.Instruction, f tagFacts) {
			call, ok := in.(*ssa.Call)
			if !ok || len(f) != 1 || len(call.Call.Args) < 1 {
				return
			}
			isHash := false
			argIdx := 0
			isDirect := func(cl *ssa.Call) bool {
				ld, ok := cl.Call.Value.(*ssa.UnOp)
				return ok && ld.Op == token.MUL && defaultLayer != nil && ld.X == defaultLayer
			}
			if isDirect(call) {
				isHash = true
			} else if h := call.Call.StaticCallee(); h != nil && an.PkgPathOf(h) == core.ModPath && len(h.Blocks) > 0 {
				// a helper that hands one of its parameters to the hashing function as it is
				// (mustLayer(key, branchFactor)): the representation is the argument at this call
				for _, hc := range an.Calls(h) {
					cl2, ok := hc.(*ssa.Call)
					if !ok || !isDirect(cl2) || len(cl2.Call.Args) < 1 {
						continue
					}
					for i, hp := range h.Params {
						if an.Unwrap(cl2.Call.Args[0]) == ssa.Value(hp) && i < len(call.Call.Args) {
							isHash = true
							argIdx = i
						}
					}
				}
			}
			if !isHash {
				return
			}
			var tag int64
			for _, v := range f {
				tag = v
			}
			if rep[tag] == nil {
				rep[tag] = map[string]bool{}
			}
			rep[tag][an.Unwrap(call.Call.Args[argIdx]).Type().String()] = true
		})
	}
	if len(rep) < 3 {
		c.R.Unk(rule, "s3db.(*Key).Layer: class table", c.P.Pos(layer.Pos()), "could not extract the per-class hashing calls from Layer: its shape changed")
		return
	}
	sort.Slice(cross, func(i, j int) bool { return cross[i].a*100+cross[i].b < cross[j].a*100+cross[j].b })
	for _, p := range cross {
		shared := false
		for t := range rep[p.a] {
			if rep[p.b][t] {
				shared = true
			}
		}
		construct := fmt.Sprintf("s3db.(*Key).Layer{%s,%s}", names[p.a], names[p.b])
		c.R.Cond(shared, rule, construct, c.P.Pos(layer.Pos()),
			"both classes can be hashed through a common representation",
			fmt.Sprintf("Order can find a %s key and a %s key equal, but Layer hashes them through different representations (%v vs %v): equal keys can live in different tree levels", names[p.a], names[p.b], keysOf(rep[p.a]), keysOf(rep[p.b])))
	}
	if len(cross) == 0 {
		c.R.OK(rule, "s3db.(*Key).Order: no cross-class equality", c.P.Pos(order.Pos()), "keys of different storage classes never compare equal")
	}
}

func keysOf(m map[string]bool) []string {
	var out []string
	for k := range m {
		out = append(out, k)
	}
	sort.Strings(out)
	return out
}

// comparatorFuncs: Order and every repo function it can call (statically), i.e. the comparator.
func comparatorFuncs(c *Ctx) []*ssa.Function {
	order := mustFunc(c, "", "*Key", "Order")
	if order == nil {
		return nil
	}
	seen := map[*ssa.Function]bool{order: true}
	work := []*ssa.Function{order}
	var out []*ssa.Function
	for len(work) > 0 {
		f := work[len(work)-1]
		work = work[:len(work)-1]
		out = append(out, f)
		for _, call := range an.Calls(f) {
			cal := call.Common().StaticCallee()
			if cal == nil || seen[cal] || an.PkgPathOf(cal) != core.ModPath || len(cal.Blocks) == 0 {
				continue
			}
			// error/diagnostic paths (String, Value used in the panic message) are not comparisons
			if cal.Name() == "Value" || cal.Name() == "String" || cal.Name() == "mustJSON" {
				continue
			}
			seen[cal] = true
			work = append(work, cal)
		}
	}
	sort.Slice(out, func(i, j int) bool { return out[i].String() < out[j].String() })
	return out
}

func isFloat(t types.Type) bool {
	b, ok := t.Underlying().(*types.Basic)
	return ok && b.Info()&types.IsFloat != 0
}
func isInteger(t types.Type) bool {
	b, ok := t.Underlying().(*types.Basic)
	return ok && b.Info()&types.IsInteger != 0
}

func c07CompareOnly(c *Ctx) {
	const rule = "C07.compare-only"
	valFields := map[*types.Var]bool{}
	for _, n := range []string{"Int", "Real", "Text", "Blob"} {
		if f := mustField(c, "proto/v1", "SQLiteValue", n); f != nil {
			valFields[f] = true
		}
	}
	fromKey := func(v ssa.Value) bool {
		return an.DependsOn(v, func(w ssa.Value) bool {
			if valFields[an.FieldOfLoad(w)] {
				return true
			}
			// parameters of comparator helpers carry key values (compareIntReal(i, r))
			if p, ok := w.(*ssa.Parameter); ok {
				return isFloat(p.Type()) || (isInteger(p.Type()) && p.Type().Underlying().(*types.Basic).Kind() == types.Int64)
			}
			return false
		})
	}
	for _, fn := range comparatorFuncs(c) {
		name := core.FuncName(fn)
		c.R.SawFunc(name)
		bad := 0
		for _, b := range fn.Blocks {
			for _, in := range b.Instrs {
				switch x := in.(type) {
				case *ssa.BinOp:
					switch x.Op {
					case token.ADD, token.SUB, token.MUL, token.QUO, token.REM, token.SHL, token.SHR, token.AND, token.OR, token.XOR, token.AND_NOT:
						if _, isStr := x.X.Type().Underlying().(*types.Basic); isStr && (fromKey(x.X) || fromKey(x.Y)) {
							bad++
							c.R.Bad(rule, fmt.Sprintf("%s: arithmetic %s on key values", name, x.Op), c.P.Pos(x.Pos()),
								"the comparator computes with key values ("+x.String()+"): arithmetic can overflow or round, so the result is not a total order over the full value range")
						}
					}
				case *ssa.Convert:
					if isInteger(x.X.Type()) && isFloat(x.Type()) && fromKey(x.X) {
						bad++
						c.R.Bad(rule, name+": int->float conversion of a key value", c.P.Pos(x.Pos()),
							"an integer key value is converted to float64 before comparing: distinct values beyond 2^53 compare equal")
					}
				}
			}
		}
		if bad == 0 {
			c.R.OK(rule, name+": comparisons only", c.P.Pos(fn.Pos()), "no arithmetic and no int->float conversion on key values")
		}
	}
}

func c07ConvertRange(c *Ctx) {
	const rule = "C07.convert-range"
	n := 0
	for _, fn := range comparatorFuncs(c) {
		name := core.FuncName(fn)
		for _, b := range fn.Blocks {
			for _, in := range b.Instrs {
				cv, ok := in.(*ssa.Convert)
				if !ok || !isFloat(cv.X.Type()) || !isInteger(cv.Type()) {
					continue
				}
				n++
				// root float: look through range-preserving rounding calls
				root := cv.X
				for {
					cl, ok := root.(*ssa.Call)
					if !ok || cl.Call.StaticCallee() == nil || an.PkgPathOf(cl.Call.StaticCallee()) != "math" {
						break
					}
					switch cl.Call.StaticCallee().Name() {
					case "Trunc", "Floor", "Ceil", "Round", "RoundToEven":
						root = cl.Call.Args[0]
						continue
					}
					break
				}
				lo, hi := math.Inf(-1), math.Inf(1) // known: lo <= r (loStrict: lo < r), r < hi or r <= hi
				loStrict, hiStrict := false, false
				for _, blk := range fn.Blocks {
					iff, ok := blk.Instrs[len(blk.Instrs)-1].(*ssa.If)
					if !ok {
						continue
					}
					cond, neg := an.StripNot(iff.Cond)
					bo, ok := cond.(*ssa.BinOp)
					if !ok {
						continue
					}
					op := bo.Op
					var kc *ssa.Const
					if bo.X == root {
						kc, _ = bo.Y.(*ssa.Const)
					} else if bo.Y == root {
						kc, _ = bo.X.(*ssa.Const)
						op = flipOp(op)
					}
					if kc == nil || kc.Value == nil {
						continue
					}
					K, _ := constant.Float64Val(constant.ToFloat(kc.Value))
					for si := 0; si < 2; si++ {
						if !an.OnlyVia(blk, si, b) {
							continue
						}
						holds := si == 0
						if neg {
							holds = !holds
						}
						o := op
						if !holds {
							o = negateCmp(o)
						}
						switch o { // r o K holds at the conversion
						case token.LSS:
							if K < hi || (K == hi && !hiStrict) {
								hi, hiStrict = K, true
							}
						case token.LEQ:
							if K < hi {
								hi, hiStrict = K, false
							}
						case token.GTR:
							if K > lo || (K == lo && !loStrict) {
								lo, loStrict = K, true
							}
						case token.GEQ:
							if K > lo {
								lo, loStrict = K, false
							}
						}
					}
				}
				const two63 = 9223372036854775808.0
				okHi := hi < two63 || (hi == two63 && hiStrict)
				okLo := lo >= -two63
				iv := fmt.Sprintf("%s%g, %g%s", map[bool]string{true: "(", false: "["}[loStrict], lo, hi, map[bool]string{true: ")", false: "]"}[hiStrict])
				c.R.Cond(okHi && okLo, rule, fmt.Sprintf("%s: float->%s conversion #%d", name, cv.Type(), n), c.P.Pos(cv.Pos()),
					"guards bound the operand to "+iv+" which lies inside [-2^63, 2^63)",
					"the guards only bound the operand to "+iv+": a value outside [-2^63, 2^63) (e.g. exactly 2^63) reaches the conversion, whose result is then implementation-defined, so two different keys can compare equal or out of order")
			}
		}
	}
}

func init() {
	// when the comparator contains no float->int conversion at all the rule holds trivially
	old := byName["C07.convert-range"].Run
	byName["C07.convert-range"].Run = func(c *Ctx) {
		old(c)
		if c.R.Counts["C07.convert-range"] == 0 {
			c.R.OK("C07.convert-range", "comparator: no float->int conversion", "-", "nothing to guard")
		}
	}
}

func negateCmp(op token.Token) token.Token {
	switch op {
	case token.LSS:
		return token.GEQ
	case token.LEQ:
		return token.GTR
	case token.GTR:
		return token.LEQ
	case token.GEQ:
		return token.LSS
	case token.EQL:
		return token.NEQ
	case token.NEQ:
		return token.EQL
	}
	return op
}

// ---- C07.insert-guards ----------------------------------------------------------------------------

func globalLoad(v ssa.Value, name string) bool {
	ld, ok := v.(*ssa.UnOp)
	if !ok || ld.Op != token.MUL {
		return false
	}
	g, ok := ld.X.(*ssa.Global)
	return ok && g.Name() == name
}

func c07InsertGuards(c *Ctx) {
	const rule = "C07.insert-guards"
	fn := mustFunc(c, "", "*VirtualTable", "Insert")
	getRow := mustFunc(c, "", "", "getRow")
	rowDeleted := mustField(c, "proto/v1", "Row", "Deleted")
	if fn == nil || getRow == nil || rowDeleted == nil {
		return
	}
	name := core.FuncName(fn)
	var set, get ssa.CallInstruction
	for _, call := range an.Calls(fn) {
		if an.CalleeIs(call, kvPkg, "DB", "Set") {
			set = call
		}
		if call.Common().StaticCallee() == getRow {
			get = call
		}
	}
	if set == nil || get == nil {
		c.R.Bad(rule, name+": shape", c.P.Pos(fn.Pos()), "Insert does not fetch the stored row (getRow) and write with kv Set")
		return
	}
	// same key for lookup and write
	keyOf := func(v ssa.Value) ssa.Value {
		v = an.Unwrap(v)
		if cl, ok := v.(*ssa.Call); ok && cl.Call.StaticCallee() != nil && cl.Call.StaticCallee().Name() == "NewKey" {
			return cl.Call.Args[0]
		}
		return nil
	}
	var gk ssa.Value
	for _, a := range get.Common().Args { // the *Key argument, wherever it sits (function or method form)
		if k := keyOf(a); k != nil {
			gk = k
		}
	}
	sk := keyOf(set.Common().Args[3])
	c.R.Cond(gk != nil && sk != nil && an.SameValue(gk, sk), rule, name+": uniqueness checked on the written key", c.P.Pos(set.Pos()),
		"the row is fetched with NewKey(key) of the same key that is written", "the uniqueness lookup and the write use different keys")
	ok, why := an.SuccessDominates(get, set)
	c.R.Cond(ok, rule, name+": lookup before write", c.P.Pos(set.Pos()), "the write happens only after the stored row was fetched successfully", "the row can be written without a successful lookup of the existing row: "+why)
	// NOT NULL: the nil side of a nil test of the statement's key returns ErrS3DBConstraintNotNull and cannot reach Set
	nn := false
	// PK: a return of ErrS3DBConstraintPrimaryKey exists; Set unreachable from the "live row exists" edge
	pk := false
	for _, b := range fn.Blocks {
		ret, isRet := b.Instrs[len(b.Instrs)-1].(*ssa.Return)
		if !isRet {
			continue
		}
		last := an.RetErr(ret)
		if globalLoad(last, "ErrS3DBConstraintNotNull") {
			if an.GuardedByNilTest(an.Edge{From: b}, func(v ssa.Value) bool { return gk != nil && (an.SameValue(v, gk) || phiHas(gk, v)) }, true) {
				nn = true
			}
		}
		if globalLoad(last, "ErrS3DBConstraintPrimaryKey") {
			pk = true
		}
	}
	if !nn && gk != nil {
		// the key comes out of a helper split out of Insert (key, err := c.insertKey(…)): the helper
		// rejects a nil value with ErrS3DBConstraintNotNull and otherwise returns that very value
		if ex, ok := an.Unwrap(gk).(*ssa.Extract); ok && ex.Index == 0 {
			if cl, ok := ex.Tuple.(*ssa.Call); ok {
				if h := cl.Call.StaticCallee(); h != nil && c.Scope(fn).Contains(h) {
					if okS, _ := an.SuccessDominates(cl, get); okS {
						var rejected []ssa.Value
						for _, b := range h.Blocks {
							ret, isRet := b.Instrs[len(b.Instrs)-1].(*ssa.Return)
							if !isRet || !globalLoad(an.RetErr(ret), "ErrS3DBConstraintNotNull") {
								continue
							}
							for _, hb := range h.Blocks {
								iff, isIf := hb.Instrs[len(hb.Instrs)-1].(*ssa.If)
								if !isIf {
									continue
								}
								if v, isNE, isNil := nilTestedValue(iff); isNil {
									si := 0
									if isNE {
										si = 1
									}
									if an.OnlyVia(hb, si, b) || hb.Succs[si] == b {
										rejected = append(rejected, v)
									}
								}
							}
						}
						for _, b := range h.Blocks {
							ret, isRet := b.Instrs[len(b.Instrs)-1].(*ssa.Return)
							if !isRet || !an.IsNilConst(an.RetErr(ret)) {
								continue
							}
							rv := an.RetVal(ret, 0)
							for _, v := range rejected {
								if an.SameValue(rv, v) || phiHas(rv, v) {
									nn = true
								}
							}
						}
					}
				}
			}
		}
	}
	c.R.Cond(nn, rule, name+": NULL key rejected", c.P.Pos(fn.Pos()), "a nil key from the statement returns ErrS3DBConstraintNotNull before any lookup or write", "no path rejects a NULL key with ErrS3DBConstraintNotNull")
	// live-row edge: Deleted == false on the fetched row, under ok == true
	liveBlocksSet := false
	var okVal ssa.Value
	if cv := get.Value(); cv != nil {
		for _, r := range *cv.Referrers() {
			if ex, isEx := r.(*ssa.Extract); isEx && ex.Index == 0 {
				okVal = ex
			}
		}
	}
	// typestate over feasible paths (helpers split out of Insert are walked in line, a boolean
	// helper's result is followed): the write is reached with "the key exists" only if the row was
	// found deleted
	okTested := false
	{
		h := an.THooks{}
		h.Branch = func(iff *ssa.If, side bool, st0 an.TState) an.TState {
			st := st0.(reinsState)
			cond, neg := an.StripNot(iff.Cond)
			if okVal != nil && cond == okVal {
				okTested = true
				if side != neg {
					st.refused = true // reused as "the key exists"
				}
			}
			if an.FieldOfLoad(cond) == rowDeleted {
				want := 2
				if side != neg {
					want = 1
				}
				if st.deleted != 0 && st.deleted != want {
					return nil
				}
				st.deleted = want
			}
			return st
		}
		reached := false
		liveBlocksSet = true
		h.Instr = func(in ssa.Instruction, st0 an.TState) an.TState {
			st := st0.(reinsState)
			if in == set.(ssa.Instruction) {
				reached = true
				if st.refused && st.deleted != 1 {
					liveBlocksSet = false
				}
			}
			return st
		}
		an.WalkTypestate(fn, reinsState{}, h, c.Scope(fn))
		if !reached {
			liveBlocksSet = false
		}
	}
	c.R.Cond(pk && okTested && liveBlocksSet, rule, name+": existing live row rejects the insert", c.P.Pos(set.Pos()),
		"when the key exists and is not deleted the insert returns ErrS3DBConstraintPrimaryKey and cannot reach the write",
		"an INSERT of a key that already has a live row can reach the write (second row version instead of a constraint failure)")
}

func phiHas(v ssa.Value, x ssa.Value) bool {
	ph, ok := an.Unwrap(v).(*ssa.Phi)
	if !ok {
		return false
	}
	for _, e := range ph.Edges {
		if an.SameValue(e, x) {
			return true
		}
	}
	return false
}

// ---- C07.null-operand -----------------------------------------------------------------------------

func c07NullOperand(c *Ctx) {
	const rule = "C07.null-operand"
	newKey := mustFunc(c, "", "", "NewKey")
	if newKey == nil {
		return
	}
	// by-design exceptions, one construct each
	exceptions := map[string]string{
		"(*s3db.VirtualTable).Delete": "xUpdate(delete) passes the stored key of an existing row, which is never NULL (NOT NULL is enforced on insert)",
		"s3db.toSQLiteValue":          "column values may be NULL; the result is used as a value (its SQLiteValue), never as a tree key",
	}
	for _, fn := range c.P.RepoFuncs(func(rel string) bool { return rel == "" || rel == "sqlite" }) {
		fname := core.FuncName(fn)
		for _, call := range an.Calls(fn) {
			if call.Common().StaticCallee() != newKey {
				continue
			}
			c.R.SawFunc(fname)
			arg := call.Common().Args[0]
			pos := c.P.Pos(call.Pos())
			construct := fname + ": NewKey(" + describeArg(arg) + ")"
			if why, ok := exceptions[fname]; ok {
				c.R.OK(rule, construct, pos, "by-design exception: "+why)
				continue
			}
			ok, why := nonNilAt(arg, an.Edge{From: call.Block()}, 0)
			c.R.Cond(ok, rule, construct, pos, "the value is known non-NULL here: "+why,
				"a possibly-NULL value becomes a Key that is compared/looked up: typeIndex panics on NULL (\"unhandled key type\") and the cgo trampoline does not recover ("+why+")")
		}
	}
}

func describeArg(v ssa.Value) string {
	v = an.Unwrap(v)
	switch x := v.(type) {
	case *ssa.Parameter:
		return x.Name()
	case *ssa.Phi:
		return "phi " + x.Comment
	case *ssa.UnOp:
		if ia, ok := x.X.(*ssa.IndexAddr); ok {
			return describeArg(ia.X) + "[i]"
		}
	case *ssa.Const:
		return "const"
	case *ssa.Lookup:
		return "map lookup"
	}
	return strings.TrimPrefix(fmt.Sprintf("%T", v), "*ssa.")
}

// nonNilAt: interface value v cannot be nil when control is on edge e (e.To may be nil: "in block e.From").
func nonNilAt(v ssa.Value, e an.Edge, depth int) (bool, string) {
	if depth > 4 {
		return false, "derivation too deep"
	}
	key := an.ExprKey(v)
	if an.GuardedByNilTest(e, func(w ssa.Value) bool { return w == v || an.ExprKey(w) == key }, false) {
		return true, "dominated by the non-nil side of a nil test of the same value"
	}
	switch x := v.(type) {
	case *ssa.MakeInterface:
		return true, "a concrete value boxed into the interface"
	case *ssa.Const:
		if x.IsNil() {
			return false, "the nil constant"
		}
		return true, "a constant"
	case *ssa.Phi:
		for i, ev := range x.Edges {
			if ok, why := nonNilAt(ev, an.Edge{From: x.Block().Preds[i], To: x.Block()}, depth+1); !ok {
				return false, why
			}
		}
		return true, "every incoming value is non-nil on its path"
	case *ssa.Extract:
		// value, err := helper(…): non-nil whenever err is nil, if the helper says so on every
		// successful return and the use runs only after the call succeeded
		cl, ok := x.Tuple.(*ssa.Call)
		if !ok || x.Index != 0 {
			break
		}
		cal := cl.Call.StaticCallee()
		if cal == nil || len(cal.Blocks) == 0 || !strings.HasPrefix(an.PkgPathOf(cal), core.ModPath) {
			break
		}
		res := cal.Signature.Results()
		if res.Len() != 2 || !an.IsErrorType(res.At(1).Type()) {
			break
		}
		target := e.From.Instrs[0]
		if e.To != nil {
			target = e.To.Instrs[0]
		}
		if okS, _ := an.SuccessDominates(cl, target); !okS && cl.Block() != e.From {
			break
		}
		if cl.Block() == e.From {
			break // the error is not yet tested in the block of the call itself
		}
		for _, b := range cal.Blocks {
			ret, isRet := b.Instrs[len(b.Instrs)-1].(*ssa.Return)
			if !isRet || !an.IsNilConst(an.RetErr(ret)) {
				continue
			}
			if okR, why := nonNilAt(an.RetVal(ret, 0), an.Edge{From: b}, depth+1); !okR {
				return false, "helper " + cal.Name() + " can return a nil value without an error (" + why + ")"
			}
		}
		return true, "result of " + cal.Name() + ", which returns a non-nil value whenever it returns no error"
	}
	return false, "no dominating nil test of " + describeArg(v)
}

// ---- C07.exhaustive ----------------------------------------------------------------------------------

func c07Exhaustive(c *Ctx) {
	const rule = "C07.exhaustive"
	names, typeField := protoTypeNames(c)
	newKey := mustFunc(c, "", "", "NewKey")
	if names == nil || typeField == nil || newKey == nil {
		return
	}
	// classes NewKey produces: constants stored into SQLiteValue.Type
	produced := map[int64]bool{}
	for _, st := range an.StoresToField(newKey, typeField) {
		if k, ok := st.Val.(*ssa.Const); ok && k.Value != nil {
			produced[k.Int64()] = true
		}
	}
	// literals without an explicit Type store produce the zero class
	if len(produced) < 4 {
		c.R.Unk(rule, "s3db.NewKey: classes", c.P.Pos(newKey.Pos()), "could not extract the storage classes NewKey produces")
		return
	}
	var nullTag int64 = -1
	for v, n := range names {
		if n == "NULL" {
			nullTag = v
		}
	}
	handled := func(fn *ssa.Function) map[int64]bool {
		out := map[int64]bool{}
		for _, hf := range c.Scope(fn).Funcs {
			for _, b := range hf.Blocks {
				if iff, ok := b.Instrs[len(b.Instrs)-1].(*ssa.If); ok {
					if _, k, _, ok := typeTest(iff, typeField); ok {
						out[k] = true
					}
				}
			}
		}
		return out
	}
	type target struct {
		recv, name string
		nullOK     bool // NULL may fall through to the default
	}
	for _, t := range []target{{"", "typeIndex", true}, {"*Key", "Layer", false}, {"*Key", "Value", true}, {"", "FromSQLiteValue", true}} {
		fn := mustFunc(c, "", t.recv, t.name)
		if fn == nil {
			continue
		}
		h := handled(fn)
		var missing []string
		for k := range produced {
			if k == nullTag && t.nullOK {
				continue
			}
			if !h[k] {
				missing = append(missing, names[k])
			}
		}
		sort.Strings(missing)
		c.R.Cond(len(missing) == 0, rule, core.FuncName(fn)+": handles every class NewKey produces", c.P.Pos(fn.Pos()),
			fmt.Sprintf("%d classes handled", len(h)), "storage classes produced by NewKey but not handled here: "+strings.Join(missing, ", "))
	}
}

// ---- C07.rank-injective: distinct storage classes get distinct ranks -------------------------------

func init() {
	register(&Rule{Name: "C07.rank-injective", Min: 1, Run: c07RankInjective,
		Doc: "typeIndex assigns a different rank to every storage class (orderType relies on it to put the operands into the order Order's branches assume)"})
	byProp["C07"] = append(byProp["C07"], "C07.rank-injective")
	byProp["C06"] = append(byProp["C06"], "C07.rank-injective")
	explain["C07"] += " rank-injective: the class ranks extracted from typeIndex are pairwise distinct and increase in the order in which Order tests the classes (with equal ranks orderType stops normalising mixed pairs and Order(REAL, INT) falls through to a constant)."
}

func c07RankInjective(c *Ctx) {
	const rule = "C07.rank-injective"
	names, typeField := protoTypeNames(c)
	ti := mustFunc(c, "", "", "typeIndex")
	order := mustFunc(c, "", "*Key", "Order")
	if names == nil || typeField == nil || ti == nil || order == nil {
		return
	}
	rank := map[int64]int64{}
	ok := true
	tagWalk(ti, typeField, func(in ssa.Instruction, f tagFacts) {
		ret, isRet := in.(*ssa.Return)
		if !isRet || len(f) != 1 {
			return
		}
		k, isC := ret.Results[0].(*ssa.Const)
		if !isC || k.Value == nil {
			ok = false
			return
		}
		for _, tag := range f {
			rank[tag] = k.Int64()
		}
	})
	if !ok || len(rank) < 4 {
		c.R.Unk(rule, core.FuncName(ti)+": rank table", c.P.Pos(ti.Pos()), fmt.Sprintf("cannot extract a constant rank per storage class from typeIndex (%d classes found)", len(rank)))
		return
	}
	// injective
	seen := map[int64]int64{}
	var dup []string
	for tag, r := range rank {
		if other, ok := seen[r]; ok {
			a, b := names[tag], names[other]
			if a > b {
				a, b = b, a
			}
			dup = append(dup, fmt.Sprintf("%s and %s both have rank %d", a, b, r))
		}
		seen[r] = tag
	}
	sort.Strings(dup)
	c.R.Cond(len(dup) == 0, rule, core.FuncName(ti)+": distinct classes have distinct ranks", c.P.Pos(ti.Pos()),
		fmt.Sprintf("%d classes, %d ranks", len(rank), len(seen)), strings.Join(dup, "; ")+": orderType no longer puts a mixed pair into the order Order's branches assume, so Order(x, y) and Order(y, x) disagree (not antisymmetric)")
	// the order in which Order tests the first operand's class is the rank order
	var tested []int64
	seenT := map[int64]bool{}
	var base string
	for _, b := range order.Blocks {
		iff, isIf := b.Instrs[len(b.Instrs)-1].(*ssa.If)
		if !isIf {
			continue
		}
		bs, k, _, isT := typeTest(iff, typeField)
		if !isT {
			continue
		}
		if base == "" {
			base = bs
		}
		if bs == base && !seenT[k] {
			seenT[k] = true
			tested = append(tested, k)
		}
	}
	mono := len(tested) >= 3
	for i := 1; i < len(tested); i++ {
		if rank[tested[i-1]] >= rank[tested[i]] {
			mono = false
		}
	}
	var ts []string
	for _, k := range tested {
		ts = append(ts, fmt.Sprintf("%s(rank %d)", names[k], rank[k]))
	}
	c.R.Cond(mono, rule, core.FuncName(order)+": classes are tested in rank order", c.P.Pos(order.Pos()),
		strings.Join(ts, " < "), "Order tests the first operand's class in the order "+strings.Join(ts, ", ")+", which is not increasing in typeIndex rank: a normalised pair can reach a branch that assumes the opposite order")
}

// ---- C07.scan-by-order: rows are located by the comparator, never by the layer hash, when reading ------

func init() {
	register(&Rule{Name: "C07.scan-by-order", Min: 1, Run: c07ScanByOrder,
		Doc: "Cursor.Filter / Next locate rows with the ordered tree cursor only; they never use the point lookup (getRow / DB.Get), which descends by the key's layer hash"})
	byProp["C07"] = append(byProp["C07"], "C07.scan-by-order")
	byProp["C06"] = append(byProp["C06"], "C07.scan-by-order")
	explain["C07"] += " scan-by-order: mast's Get goes to Layer(key) and reports 'absent' unless the key sits exactly there, while the cursor walks by Order only; because Order equates an INTEGER and the REAL of the same value but Layer does not (the recorded finding), a WHERE key = 2.0 answered by a point lookup misses the stored integer 2 — and echoes the lookup value as the key. The read path (Filter, Next and the helpers split out of them) contains no call of getRow or (*kv.DB).Get."
}

func c07ScanByOrder(c *Ctx) {
	const rule = "C07.scan-by-order"
	getRow := mustFunc(c, "", "", "getRow")
	if getRow == nil {
		return
	}
	for _, m := range []string{"Filter", "Next"} {
		fn := mustFunc(c, "", "*Cursor", m)
		if fn == nil {
			continue
		}
		name := core.FuncName(fn)
		bad := ""
		// the function, its single-caller helpers, and (one level) any same-package callee
		seen := map[*ssa.Function]bool{}
		work := append([]*ssa.Function{}, c.Scope(fn).Funcs...)
		for len(work) > 0 {
			f := work[len(work)-1]
			work = work[:len(work)-1]
			if seen[f] {
				continue
			}
			seen[f] = true
			for _, call := range an.Calls(f) {
				cal := call.Common().StaticCallee()
				if cal == getRow || an.CalleeIs(call, kvPkg, "DB", "Get") {
					bad = core.FuncName(f) + " at " + c.P.Pos(call.Pos())
				}
				if cal != nil && an.PkgPathOf(cal) == core.ModPath && len(cal.Blocks) > 0 && cal != fn && cal.Name() != "Next" && len(seen) < 12 {
					if m == "Filter" && cal.Signature.Recv() != nil && strings.Contains(cal.Signature.Recv().Type().String(), "Cursor") {
						work = append(work, cal)
					}
				}
			}
		}
		c.R.Cond(bad == "", rule, name+": no point lookup on the read path", c.P.Pos(fn.Pos()), "rows are found with the ordered cursor only",
			"the read path calls the point lookup in "+bad+": it descends by Key.Layer, so a key that compares equal but hashes to another layer (WHERE a = 2.0 for the stored integer 2) is reported absent on a multi-level tree, and on a flat tree the lookup value is returned as the key")
	}
}
