package rules

import (
	"fmt"
	"go/token"

	"golang.org/x/tools/go/ssa"

	"s3dbcheck/an"
	"s3dbcheck/core"
)

func init() {
	register(&Rule{Name: "C05.effects", Min: 8, Run: c05Effects,
		Doc: "write callbacks and xBegin reach only read requests; rollback reaches no request at all"})
	register(&Rule{Name: "C05.snapshot", Min: 5, Run: c05Snapshot,
		Doc: "txStart typestate: only ever a Clone of the live root; restored by Rollback; cleared by Commit only after the storage commit succeeded"})
	register(&Rule{Name: "C05.txtime", Min: 4, Run: c05TxTime,
		Doc: "transaction write-time flag protocol in the sqlite layer"})
	claim("C05", "C05 clauses decided: effects (nothing is written to the bucket before xSync, ROLLBACK cannot create a version), snapshot (txStart protocol on all paths), txtime (a transaction's write time is fixed once, only when the connection has none, and released by every transaction end), handle (shared with C14: the live handle is cancelled before it is replaced). Not decided: copy-on-write independence inside mast (dependency), visibility of own writes, contents after a failing statement.",
		"C05.effects", "C05.snapshot", "C05.txtime", "C14.handle")
}

func c05Effects(c *Ctx) {
	const rule = "C05.effects"
	e := c.Eff()
	mutAll := e.ReachSet(func(k an.SinkKind) bool { return k == an.SinkMut })
	anyS := e.ReachSet(nil)
	type ent struct {
		fn       *ssa.Function
		noAtAll  bool
		name     string
	}
	var ents []ent
	for _, en := range an.SqliteEntries(c.P) {
		if !an.LibraryPkg(en.PkgRel) {
			continue
		}
		switch {
		case en.Iface == "WriteableVirtualTable" && (en.Method == "Insert" || en.Method == "Update" || en.Method == "Delete" || en.Method == "Replace"):
			ents = append(ents, ent{en.Fn, false, en.Name()})
		case en.Iface == "Transactional" && en.Method == "Begin":
			ents = append(ents, ent{en.Fn, false, en.Name()})
		case en.Iface == "Transactional" && en.Method == "Rollback":
			ents = append(ents, ent{en.Fn, true, en.Name()})
		}
	}
	for _, m := range []string{"Insert", "Update", "Delete", "Begin"} {
		if fn := c.P.LookupFunc("", "*VirtualTable", m); fn != nil {
			ents = append(ents, ent{fn, false, core.FuncName(fn)})
		} else {
			c.R.Errorf("anchor s3db.(*VirtualTable).%s not found", m)
		}
	}
	if fn := c.P.LookupFunc("", "*VirtualTable", "Rollback"); fn != nil {
		ents = append(ents, ent{fn, true, core.FuncName(fn)})
	}
	for _, en := range ents {
		c.R.SawFunc(en.name)
		set := mutAll
		what := "a mutating S3 request (the transaction would leak before xSync)"
		if en.noAtAll {
			set = anyS
			what = "an S3 request (rollback must not depend on, or write to, storage)"
		}
		if !set[en.fn] {
			c.R.OK(rule, en.name, c.P.Pos(en.fn.Pos()), "cannot reach "+what)
			continue
		}
		res := e.Reach([]*ssa.Function{en.fn}, false)
		for _, h := range res.Hits {
			if en.noAtAll || h.Kind == an.SinkMut {
				c.R.Bad(rule, en.name+" -> "+h.Sink.Name(), c.P.Pos(en.fn.Pos()), "reaches "+what, e.PathStrings(h.Path)...)
			}
		}
	}
}

func c05Snapshot(c *Ctx) {
	const rule = "C05.snapshot"
	txStart := mustField(c, "", "VirtualTable", "txStart")
	kvRoot := mustField(c, "", "KV", "Root")
	begin := mustFunc(c, "", "*VirtualTable", "Begin")
	commit := mustFunc(c, "", "*VirtualTable", "Commit")
	rollback := mustFunc(c, "", "*VirtualTable", "Rollback")
	if txStart == nil || kvRoot == nil || begin == nil || commit == nil || rollback == nil {
		return
	}
	nStores := 0
	for _, fn := range c.P.RepoFuncs(an.LibraryPkg) {
		for _, st := range an.StoresToField(fn, txStart) {
			nStores++
			fname := core.FuncName(fn)
			pos := c.P.Pos(st.Pos())
			if an.IsNilConst(st.Val) {
				// where a clear may sit, decided by role and followed through helpers (a
				// forgetSnapshot() shared by Commit and EndReadOnly is judged at each of its calls):
				// in Rollback; in Commit after the storage commit succeeded; or on the true side of
				// the table's ReadOnly flag (a read-only table holds no writes of its own)
				roF := an.LookupField(c.P, "", "S3Options", "ReadOnly")
				isRO := func(v ssa.Value) bool { return roF != nil && an.FieldOfLoad(v) == roF }
				var okAt func(f *ssa.Function, at ssa.Instruction, depth int) (bool, string)
				okAt = func(f *ssa.Function, at ssa.Instruction, depth int) (bool, string) {
					switch f {
					case rollback:
						return true, ""
					case commit:
						var kc ssa.CallInstruction
						for _, call := range an.Calls(f) {
							if an.CalleeIs(call, kvPkg, "DB", "Commit") {
								kc = call
							}
						}
						if kc == nil {
							return false, "the snapshot is dropped although the commit may have failed: the rollback SQLite performs next restores nothing (no kv Commit call)"
						}
						ok, why := an.SuccessDominates(kc, at)
						return ok, "the snapshot is dropped although the commit may have failed: the rollback SQLite performs next restores nothing (" + why + ")"
					}
					if an.GuardedByValue(an.Edge{From: at.Block()}, isRO, true) {
						return true, ""
					}
					const outside = "the transaction snapshot is dropped outside Commit-after-success and Rollback, and not only for a read-only table (e.g. in a deferred function): a failed commit can no longer be rolled back"
					if depth >= 3 {
						return false, outside
					}
					sites := 0
					for _, caller := range c.P.RepoFuncs(an.LibraryPkg) {
						for _, call := range an.Calls(caller) {
							if call.Common().StaticCallee() != f {
								continue
							}
							if _, isDefer := call.(*ssa.Defer); isDefer {
								return false, outside
							}
							sites++
							if ok, why := okAt(caller, call, depth+1); !ok {
								return false, why
							}
						}
					}
					return sites > 0, outside
				}
				good, why := okAt(fn, st, 0)
				c.R.Cond(good, rule, fname+": clears txStart", pos, "the snapshot is dropped only by Rollback, by Commit after the storage commit succeeded, or for a read-only table (nothing can have been written)", why)
				continue
			}
			// non-nil: must be the result of Clone of the live root, in Begin, when no snapshot exists
			isClone := false
			if ex, ok := an.Unwrap(st.Val).(*ssa.Extract); ok && ex.Index == 0 {
				if cl, ok := ex.Tuple.(*ssa.Call); ok && an.CalleeIs(cl, kvPkg, "DB", "Clone") {
					if an.FieldOfLoad(cl.Call.Args[0]) == kvRoot {
						isClone = true
					}
				}
			}
			c.R.Cond(isClone && fn == begin, rule, fname+": sets txStart", pos, "the snapshot is a copy-on-write Clone of the live root taken in Begin",
				"txStart is assigned something other than Clone(live root) in Begin (an alias of the live tree would make ROLLBACK a no-op)")
			if fn == begin {
				g := an.GuardedByNilTest(an.Edge{From: st.Block()}, func(v ssa.Value) bool { return an.FieldOfLoad(v) == txStart }, true)
				c.R.Cond(g, rule, fname+": one snapshot per transaction", pos, "a second BEGIN cannot overwrite the snapshot", "Begin can overwrite an existing snapshot: rollback would restore a mid-transaction state")
			}
		}
	}
	// Begin succeeds only with a snapshot taken by this very call: a Begin that answers success while
	// keeping an older snapshot lets Rollback restore a state from before the transaction
	{
		h := an.THooks{Instr: func(in ssa.Instruction, st an.TState) an.TState {
			if s, ok := in.(*ssa.Store); ok {
				if fa, ok := s.Addr.(*ssa.FieldAddr); ok && an.FieldVar(fa.X.Type(), fa.Field) == txStart && !an.IsNilConst(s.Val) {
					return ansState(true)
				}
			}
			return st
		}}
		exits := an.WalkTypestate(begin, ansState(false), h, c.Scope(begin))
		good := len(exits) > 0
		why := ""
		for _, ex := range exits {
			if ex.ErrNil != 0 && !bool(ex.St.(ansState)) {
				good = false
				why = "Begin can answer success at " + c.P.Pos(ex.Ret.Pos()) + " without taking a snapshot (e.g. when one is still in place): the next ROLLBACK installs a tree from before this transaction — on a read-only table, whose xSync never ends the transaction, a zero-row write, a refresh and a rejected write make the table fall back to the rows it had before the refresh"
			}
		}
		c.R.Cond(good, rule, core.FuncName(begin)+": success means a fresh snapshot", c.P.Pos(begin.Pos()), "every successful return of Begin stored a snapshot taken in this call", why)
	}
	// Rollback restores: store KV.Root = load txStart, guarded by txStart != nil
	restored := false
	for _, st := range an.StoresToField(rollback, kvRoot) {
		if an.FieldOfLoad(st.Val) == txStart {
			restored = true
			c.R.OK(rule, core.FuncName(rollback)+": restores the snapshot", c.P.Pos(st.Pos()), "Tree.Root = txStart")
		} else {
			c.R.Bad(rule, core.FuncName(rollback)+": restores the snapshot", c.P.Pos(st.Pos()), "Rollback installs something other than the transaction snapshot")
		}
	}
	if !restored {
		c.R.Bad(rule, core.FuncName(rollback)+": restores the snapshot", c.P.Pos(rollback.Pos()), "Rollback does not install txStart as the live root")
	} else {
		// restoring must depend on nothing but the existence of a snapshot
		for _, st := range an.StoresToField(rollback, kvRoot) {
			extra := extraConditions(rollback, st.Block(), func(v ssa.Value) bool { return an.FieldOfLoad(v) == txStart })
			c.R.Cond(len(extra) == 0, rule, core.FuncName(rollback)+": unconditional restore", c.P.Pos(st.Pos()),
				"whenever a snapshot exists it is restored", "the restore is additionally conditional on "+fmt.Sprint(extra)+": after a failed commit (tree flushed, not dirty) the transaction's rows would stay visible")
		}
	}
}

// extraConditions lists the branch conditions (other than nil tests of values accepted by
// allowed) that decide whether block b executes.
func extraConditions(fn *ssa.Function, b *ssa.BasicBlock, allowed func(ssa.Value) bool) []string {
	var out []string
	for _, blk := range fn.Blocks {
		iff, ok := blk.Instrs[len(blk.Instrs)-1].(*ssa.If)
		if !ok || blk == b {
			continue
		}
		if !(an.OnlyVia(blk, 0, b) || an.OnlyVia(blk, 1, b)) {
			continue
		}
		cond, _ := an.StripNot(iff.Cond)
		if bo, ok := cond.(*ssa.BinOp); ok && (bo.Op == token.NEQ || bo.Op == token.EQL) {
			if an.IsNilConst(bo.Y) && allowed(bo.X) || an.IsNilConst(bo.X) && allowed(bo.Y) {
				continue
			}
		}
		out = append(out, cond.String())
	}
	return out
}

// onlyCalledFrom: fn is one of roots, or every static call site of fn lies in such a function
// (helper extraction, bounded depth).
func onlyCalledFrom(c *Ctx, fn *ssa.Function, roots map[*ssa.Function]bool, depth int) bool {
	if roots[fn] {
		return true
	}
	if depth > 2 {
		return false
	}
	sites := staticCallSites(c, fn)
	if len(sites) == 0 {
		return false
	}
	for _, s := range sites {
		if !onlyCalledFrom(c, s.Parent(), roots, depth+1) {
			return false
		}
	}
	return true
}

func c05TxTime(c *Ctx) {
	const rule = "C05.txtime"
	flag := mustField(c, "sqlite", "S3DBConn", "txFixedWriteTime")
	wt := mustField(c, "sqlite", "S3DBConn", "writeTime")
	reset := mustFunc(c, "sqlite", "*S3DBConn", "ResetContext")
	if flag == nil || wt == nil || reset == nil {
		return
	}
	isReset := func(call ssa.CallInstruction) bool { return call.Common().StaticCallee() == reset }
	var begins, ends []an.Entry
	for _, en := range an.SqliteEntries(c.P) {
		if en.PkgRel != "sqlite" || en.Iface != "Transactional" {
			continue
		}
		switch en.Method {
		case "Begin":
			begins = append(begins, en)
		case "Commit", "Rollback":
			ends = append(ends, en)
		}
	}
	beginSet := map[*ssa.Function]bool{}
	for _, b := range begins {
		beginSet[b.Fn] = true
	}
	// guardedByIsZero: block b of fn runs only when writeTime.IsZero() (tested in fn itself, or
	// fn is a helper whose every call site is so guarded)
	var guardedByIsZero func(fn *ssa.Function, b *ssa.BasicBlock, depth int) bool
	guardedByIsZero = func(fn *ssa.Function, b *ssa.BasicBlock, depth int) bool {
		for _, blk := range fn.Blocks {
			iff, ok := blk.Instrs[len(blk.Instrs)-1].(*ssa.If)
			if !ok {
				continue
			}
			cond, neg := an.StripNot(iff.Cond)
			cl, ok := cond.(*ssa.Call)
			if !ok || cl.Call.StaticCallee() == nil || cl.Call.StaticCallee().Name() != "IsZero" || len(cl.Call.Args) != 1 || an.FieldOfLoad(cl.Call.Args[0]) != wt {
				continue
			}
			si := 0
			if neg {
				si = 1
			}
			if an.OnlyVia(blk, si, b) {
				return true
			}
		}
		if depth < 2 {
			sites := staticCallSites(c, fn)
			if len(sites) == 0 {
				return false
			}
			for _, s := range sites {
				if !guardedByIsZero(s.Parent(), s.Block(), depth+1) {
					return false
				}
			}
			return true
		}
		return false
	}
	// stores of true
	for _, fn := range c.P.RepoFuncs(func(rel string) bool { return rel == "sqlite" }) {
		for _, st := range an.StoresToField(fn, flag) {
			cb, isC := constBool(st.Val)
			if !isC || !cb {
				continue
			}
			fname := core.FuncName(fn)
			c.R.SawFunc(fname)
			pos := c.P.Pos(st.Pos())
			if !onlyCalledFrom(c, fn, beginSet, 0) {
				c.R.Bad(rule, "fixes the write time in xBegin only", pos, "txFixedWriteTime is set in "+fname+", which is not (only called from) xBegin")
				continue
			}
			c.R.Cond(guardedByIsZero(fn, st.Block(), 0), rule, "xBegin: fixes the write time only when none is set", pos, "the transaction time is taken once, only if the connection has no write time",
				"the write time can be re-stamped although one is already in force (e.g. when a second table joins the transaction): writes of one transaction carry different times")
			okReset := false
			for _, call := range an.Calls(fn) {
				if isReset(call) && an.InstrBefore(st, call) {
					okReset = true
				}
			}
			c.R.Cond(okReset, rule, "xBegin: installs the fixed time", pos, "ResetContext() follows", "the fixed write time is never installed into the request context")
		}
	}
	// releases(fn): every path of fn tests the flag and, when it is set, clears the write time,
	// clears the flag and reinstalls the context
	// effectsIn: which of the three release effects an instruction has (directly, or as a
	// same-package helper that has them on every one of its paths)
	var mustEffects func(fn *ssa.Function, depth int) map[string]bool
	effectsOf := func(in ssa.Instruction, depth int) []string {
		switch x := in.(type) {
		case *ssa.Store:
			if fa, ok := x.Addr.(*ssa.FieldAddr); ok {
				switch an.FieldVar(fa.X.Type(), fa.Field) {
				case flag:
					if cb, isC := constBool(x.Val); isC && !cb {
						return []string{"flag=false"}
					}
				case wt:
					if an.IsZeroValue(x.Val) {
						return []string{"writeTime=zero"}
					}
				}
			}
		case ssa.CallInstruction:
			if isReset(x) {
				return []string{"ResetContext()"}
			}
			if cal := x.Common().StaticCallee(); cal != nil && depth < 2 && an.PkgPathOf(cal) == core.ModPath+"/sqlite" && len(cal.Blocks) > 0 && cal != reset {
				var out []string
				for k := range mustEffects(cal, depth+1) {
					out = append(out, k)
				}
				return out
			}
		}
		return nil
	}
	mustEffects = func(fn *ssa.Function, depth int) map[string]bool {
		where := map[string]map[*ssa.BasicBlock]bool{}
		for _, blk := range fn.Blocks {
			for _, in := range blk.Instrs {
				for _, k := range effectsOf(in, depth) {
					if where[k] == nil {
						where[k] = map[*ssa.BasicBlock]bool{}
					}
					where[k][blk] = true
				}
			}
		}
		out := map[string]bool{}
		for k, blks := range where {
			if !an.ReturnsReachableAvoiding(fn.Blocks[0], blks) {
				out[k] = true
			}
		}
		return out
	}
	releases := func(fn *ssa.Function) (bool, string) {
		var test *ssa.BasicBlock
		ti := 0
		for _, blk := range fn.Blocks {
			iff, ok := blk.Instrs[len(blk.Instrs)-1].(*ssa.If)
			if !ok {
				continue
			}
			cond, neg := an.StripNot(iff.Cond)
			if an.FieldOfLoad(cond) == flag {
				test = blk
				ti = 0
				if neg {
					ti = 1
				}
			}
		}
		if test == nil {
			return false, "does not look at txFixedWriteTime"
		}
		if an.ReturnsReachableAvoiding(fn.Blocks[0], map[*ssa.BasicBlock]bool{test: true}) {
			return false, "some path returns without testing txFixedWriteTime"
		}
		ts := test.Succs[ti]
		need := map[string]*ssa.BasicBlock{}
		for _, blk := range fn.Blocks {
			if !(blk == ts || ts.Dominates(blk)) {
				continue
			}
			for _, in := range blk.Instrs {
				for _, k := range effectsOf(in, 0) {
					need[k] = blk
				}
			}
		}
		for _, k := range []string{"flag=false", "writeTime=zero", "ResetContext()"} {
			blk := need[k]
			if blk == nil || an.ReturnsReachableAvoiding(ts, map[*ssa.BasicBlock]bool{blk: true}) {
				return false, "when the transaction time was fixed, some path returns without " + k
			}
		}
		return true, ""
	}
	for _, en := range ends {
		fn := en.Fn
		name := en.Name()
		c.R.SawFunc(name)
		ok, why := releases(fn)
		if !ok {
			// through a helper: every path to a return passes a call of a releasing same-package function
			hb := map[*ssa.BasicBlock]bool{}
			for _, call := range an.Calls(fn) {
				cal := call.Common().StaticCallee()
				if cal == nil || an.PkgPathOf(cal) != core.ModPath+"/sqlite" || len(cal.Blocks) == 0 {
					continue
				}
				if r, _ := releases(cal); r {
					hb[call.Block()] = true
				}
			}
			if len(hb) > 0 && !an.ReturnsReachableAvoiding(fn.Blocks[0], hb) {
				ok = true
			}
		}
		c.R.Cond(ok, rule, name+": releases the transaction time", c.P.Pos(fn.Pos()),
			"on every path: if the time was fixed at BEGIN it is cleared, the flag reset and the context reinstalled (inline or through a helper)",
			"a transaction end keeps the time fixed at BEGIN in force ("+why+"): later statements and the next transaction run with a stale write time")
	}
	if len(ends) < 2 || len(begins) < 1 {
		c.R.Errorf("expected Transactional Begin/Commit/Rollback implementations in package sqlite, found %d begin / %d end", len(begins), len(ends))
	}
}

func init() {
	byProp["C05"] = append(byProp["C05"], "C03.commit-order", "C15.conn")
	explain["C05"] += " Shared: commit-order (C03: a commit cannot report failure after its version PUT succeeded, so 'a failing commit leaves the bucket without a new version' and the local rollback agree with the bucket) and conn (C15: the transaction's fixed write time is really installed into the request context, whatever other attribute is set)."
}

// ---- C05.clone-deep: a snapshot never shares a mutable root with the tree it was taken from ----------

func init() {
	register(&Rule{Name: "C05.clone-deep", Min: 1, Run: c05CloneDeep,
		Doc: "crdt.Tree.Clone returns a tree made by (*mast.Mast).Clone on every successful path: copying the handle shares the in-memory root node, which is written in place while it has never been stored"})
	byProp["C05"] = append(byProp["C05"], "C05.clone-deep")
	byProp["C13"] = append(byProp["C13"], "C05.snapshot")
	explain["C13"] += " snapshot (shared with C05): 'write statements fail with an error and leave its visible rows unchanged' — a read-only table's transaction is never ended by xSync, so the rollback after a rejected write restores whatever snapshot Begin left in place; Begin succeeds only with a snapshot taken by that call."
	byProp["C06"] = append(byProp["C06"], "C16.fresh-bytes", "C08.tables")
	explain["C05"] += " clone-deep: mast.Clone is what marks the nodes of a tree shared, so that the next write copies them; a clone that only copies the Mast struct is independent for stored trees but not for a table that has never held a version — its root is an in-memory node that Insert changes in place, and ROLLBACK then 'restores' a snapshot that contains the rolled-back rows. Every successful return of (crdt.Tree).Clone lies on a path that called (*mast.Mast).Clone and returns a tree holding its result."
	explain["C06"] += " fresh-bytes (shared with C16) and tables (shared with C08): node encodings are not shared buffers; INTEGER goes out through the 64-bit result call."
}

func c05CloneDeep(c *Ctx) {
	const rule = "C05.clone-deep"
	fn := c.P.LookupFunc("kv/internal/crdt", "Tree", "Clone")
	if fn == nil {
		fn = mustFunc(c, "kv/internal/crdt", "*Tree", "Clone")
	}
	if fn == nil {
		return
	}
	name := core.FuncName(fn)
	c.R.SawFunc(name)
	h := an.THooks{Instr: func(in ssa.Instruction, st an.TState) an.TState {
		if cl, ok := in.(ssa.CallInstruction); ok && an.CalleeIs(cl, mastPkg, "Mast", "Clone") {
			return ansState(true)
		}
		return st
	}}
	exits := an.WalkTypestate(fn, ansState(false), h, c.Scope(fn))
	good := len(exits) > 0
	why := ""
	for _, ex := range exits {
		if ex.ErrNil != 0 && !bool(ex.St.(ansState)) {
			good = false
			why = "Clone can return a tree at " + c.P.Pos(ex.Ret.Pos()) + " without calling mast's Clone: the copy shares the in-memory root node with the original; on a table that has never held a version the first transaction's rows survive ROLLBACK inside that node and the next write publishes them"
		}
	}
	c.R.Cond(good, rule, name+": every successful return follows mast.Clone", c.P.Pos(fn.Pos()), "no shortcut copies the tree handle", why)
}
