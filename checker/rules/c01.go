package rules

import (
	"fmt"
	"go/token"
	"strings"

	"golang.org/x/tools/go/ssa"

	"s3dbcheck/an"
	"s3dbcheck/core"
)

func init() {
	register(&Rule{Name: "C01.rows-pairing", Min: 6, Run: c01RowsPairing,
		Doc: "inside MergeRows every time is combined only with values of its own side"})
	register(&Rule{Name: "C01.custom-merge-whole", Min: 1, Run: c01CustomWhole,
		Doc: "the custom-merge wrapper inserts the callback's result as a whole"})
	claim("C01", "C01 clauses decided (structural conditions that order/grouping independence needs; none of them is the convergence property itself): join-table (shared with C17: the kv-level join is a comparison-only function whose extracted decision table is the documented, order-symmetric rule), merge-inserts and recorded-iff-merged (shared with C03: the winner is inserted for every differing key; a version counts as merged iff it was), time and merge-pairing (shared with C02: the merge callback merges onto the later entry and expresses the result relative to that entry's time in both orientations), rows-pairing (MergeRows never combines one side's time with the other side's value), custom-merge-whole (entry metadata and value of a merged entry both come from the callback: a wrapper that keeps the tree side's modification time makes the result depend on fold order). Not decided: commutativity/associativity/idempotence of MergeRows over all histories, quiescence (no new versions when nothing was committed) — runtime values.",
		"C17.join-table", "C03.merge-inserts", "C03.recorded-iff-merged", "C02.time", "C02.merge-pairing", "C01.rows-pairing", "C01.custom-merge-whole")
}

func c01RowsPairing(c *Ctx) {
	const rule = "C01.rows-pairing"
	fn := mustFunc(c, "", "", "MergeRows")
	if fn == nil {
		return
	}
	name := core.FuncName(fn)
	// sides: parameters t1,r1 / t2,r2 by position: (_, t1, r1, t2, r2, outTime)
	if len(fn.Params) != 6 {
		c.R.Errorf("MergeRows no longer has the (_, t1, r1, t2, r2, outTime) signature")
		return
	}
	t := map[ssa.Value]int{fn.Params[1]: 1, fn.Params[3]: 2}
	r := map[ssa.Value]int{fn.Params[2]: 1, fn.Params[4]: 2}
	sideOfTime := func(v ssa.Value) int {
		s := 0
		an.DependsOn(v, func(w ssa.Value) bool {
			if k, ok := t[w]; ok {
				if s == 0 {
					s = k
				} else if s != k {
					s = 3
				}
			}
			return false
		})
		return s
	}
	sideOfRow := func(v ssa.Value) int {
		s := 0
		an.DependsOn(v, func(w ssa.Value) bool {
			if k, ok := r[w]; ok {
				if s == 0 {
					s = k
				} else if s != k {
					s = 3
				}
			}
			return false
		})
		return s
	}
	n := 0
	for _, call := range an.Calls(fn) {
		args := call.Common().Args
		// a call that takes a time of one side and a row-derived value
		var ts, rs []int
		for _, a := range args {
			if nt := an.NamedOf(a.Type()); nt != nil && nt.Obj().Name() == "Time" && nt.Obj().Pkg().Path() == "time" {
				if k, ok := t[an.Unwrap(a)]; ok {
					ts = append(ts, k)
				}
				continue
			}
			if s := sideOfRow(a); s == 1 || s == 2 {
				// row-derived and not a time
				if sideOfTime(a) == 0 {
					rs = append(rs, s)
				}
			}
		}
		if len(ts) != 1 || len(rs) == 0 {
			continue
		}
		n++
		good := true
		for _, s := range rs {
			if s != ts[0] {
				good = false
			}
		}
		c.R.Cond(good, rule, fmt.Sprintf("%s: %s pairs a time with its own side #%d", name, calleeLabel(call), n), c.P.Pos(call.Pos()),
			fmt.Sprintf("t%d with values of r%d", ts[0], ts[0]), fmt.Sprintf("t%d is combined with a value derived from the other row: the value's offset is read against the wrong base time", ts[0]))
	}
	if n < 6 {
		c.R.Errorf("only %d time/value pairings found in MergeRows (>= 6 confirmed by hand)", n)
	}
	_ = token.ADD
}

func c01CustomWhole(c *Ctx) {
	const rule = "C01.custom-merge-whole"
	conv := mustFunc(c, "kv/internal/crdt", "", "convertMergeFunc")
	if conv == nil {
		return
	}
	var cl *ssa.Function
	for _, f := range c.P.RepoFuncs(func(rel string) bool { return rel == "kv/internal/crdt" }) {
		if f.Parent() == conv {
			cl = f
		}
	}
	if cl == nil {
		c.R.Unk(rule, core.FuncName(conv)+": wrapper", c.P.Pos(conv.Pos()), "no closure in convertMergeFunc")
		return
	}
	name := core.FuncName(cl)
	c.R.SawFunc(name)
	// the call of the user's callback (a free variable)
	var cbCall *ssa.Call
	for _, call := range an.Calls(cl) {
		c2, ok := call.(*ssa.Call)
		if !ok {
			continue
		}
		isFree := false
		if _, ok := c2.Call.Value.(*ssa.FreeVar); ok {
			isFree = true
		}
		if ld, ok := c2.Call.Value.(*ssa.UnOp); ok && ld.Op == token.MUL {
			if _, ok := ld.X.(*ssa.FreeVar); ok {
				isFree = true
			}
		}
		if isFree && c2.Call.Signature().Results().Len() == 1 {
			if nt := an.NamedOf(c2.Type()); nt != nil && nt.Obj().Name() == "Value" {
				cbCall = c2
			}
		}
	}
	if cbCall == nil {
		c.R.Unk(rule, name+": callback result", c.P.Pos(cl.Pos()), "cannot find the call of the custom merge callback")
		return
	}
	// the inserted value's local: after the whole-value store of the callback's result there is no
	// field-wise store into it, and no field of it is taken from elsewhere
	var ins ssa.CallInstruction
	for _, call := range an.Calls(cl) {
		if an.CalleeIs(call, mastPkg, "Mast", "Insert") {
			ins = call
		}
	}
	if ins == nil {
		c.R.Unk(rule, name+": insert", c.P.Pos(cl.Pos()), "no Insert in the wrapper")
		return
	}
	val := an.Unwrap(ins.Common().Args[3])
	good := false
	why := "the inserted value is not the callback's result"
	if ld, ok := val.(*ssa.UnOp); ok && ld.Op == token.MUL {
		if al, ok := ld.X.(*ssa.Alloc); ok {
			whole, fieldStores := false, 0
			for _, ref := range *al.Referrers() {
				switch x := ref.(type) {
				case *ssa.Store:
					if x.Addr == ssa.Value(al) && x.Val == ssa.Value(cbCall) {
						whole = true
					}
				case *ssa.FieldAddr:
					for _, rr := range *x.Referrers() {
						if st, ok := rr.(*ssa.Store); ok && st.Addr == ssa.Value(x) {
							fieldStores++
						}
					}
				}
			}
			good = whole && fieldStores == 0
			if whole && fieldStores > 0 {
				why = "fields of the inserted entry are overwritten individually after/instead of taking the callback's result as a whole (e.g. only .Value is taken): modification time and history link then come from whichever version was folded first"
			}
		}
	} else if val == ssa.Value(cbCall) {
		good = true
	} else if ph, ok := val.(*ssa.Phi); ok {
		// every incoming value is the callback's result, except the "only in the other tree" case
		// which takes the removed value as it is
		good = true
		sawCb := false
		for _, e := range ph.Edges {
			e = an.Unwrap(e)
			switch {
			case e == ssa.Value(cbCall):
				sawCb = true
			case isTypeAssertOf(e, cl.Params[6]):
			case isZeroConst(e):
			default:
				good = false
				why = "on some path the inserted entry is neither the callback's result nor the other tree's entry: " + e.String()
			}
		}
		if !sawCb {
			good = false
		}
	}
	c.R.Cond(good, rule, name+": inserts the callback's result unmodified", c.P.Pos(ins.Pos()),
		"changed entries get value and metadata from the custom merge callback", why)
}

func isTypeAssertOf(v ssa.Value, p ssa.Value) bool {
	ta, ok := v.(*ssa.TypeAssert)
	return ok && ta.X == p
}

func isZeroConst(v ssa.Value) bool {
	k, ok := v.(*ssa.Const)
	return ok && k.Value == nil
}

// ---- C01.column-always-answers / shared lists ----------------------------------------------------------

func init() {
	register(&Rule{Name: "C01.column-always-answers", Min: 1, Run: c01ColumnAnswers,
		Doc: "xColumn of the s3db table sets a result on every successful path: an UPDATE therefore re-assigns every column, which the row merge (whose undelete rule is not associative for partially assigned rows) relies on"})
	byProp["C01"] = append(byProp["C01"], "C01.column-always-answers", "C02.delta")
	byProp["C08"] = append(byProp["C08"], "C01.column-always-answers")
	explain["C01"] += " column-always-answers: MergeRows hides column values older than a re-insert only while the delete marker is still a separate merge input, so it is order-independent only for rows whose columns all carry the time of the last statement that wrote the row. That holds because every SQL UPDATE hands xUpdate every column: Cursor.Column never returns without a result (it does not use sqlite3_vtab_nochange). A Column that leaves unassigned columns unset makes readers of the same versions disagree (stale UPDATE, DELETE and re-INSERT of one key). delta (shared with C02): every given value, NULL included, is recorded."
}

type ansState bool

func (a ansState) Key() string { return fmt.Sprint(bool(a)) }

func c01ColumnAnswers(c *Ctx) {
	const rule = "C01.column-always-answers"
	fn := mustFunc(c, "sqlite", "*Cursor", "Column")
	scr := mustFunc(c, "sqlite", "", "setContextResult")
	if fn == nil || scr == nil {
		return
	}
	name := core.FuncName(fn)
	h := an.THooks{Instr: func(in ssa.Instruction, st an.TState) an.TState {
		if cl, ok := in.(ssa.CallInstruction); ok {
			if f := cl.Common().StaticCallee(); f == scr || strings.HasPrefix(calleeLabel(cl), "Result") {
				return ansState(true)
			}
		}
		return st
	}}
	exits := an.WalkTypestate(fn, ansState(false), h, c.Scope(fn))
	good := len(exits) > 0
	why := ""
	for _, ex := range exits {
		if ex.ErrNil != 0 && !bool(ex.St.(ansState)) {
			good = false
			why = "Column can return success at " + c.P.Pos(ex.Ret.Pos()) + " without setting a result (e.g. under ctx.NoChange()): xUpdate then sees 'no change' for the column, UPDATE assigns only some columns, and the row merge stops being order-independent — readers that merge the same versions (stale UPDATE, DELETE, re-INSERT of one key) disagree"
		}
	}
	c.R.Cond(good, rule, name+": every successful return follows a result", c.P.Pos(fn.Pos()), "a result is set on every successful path", why)
}
