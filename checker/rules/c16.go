package rules

import (
	"fmt"
	"go/constant"
	"go/token"
	"go/types"
	"sort"
	"strings"

	"golang.org/x/tools/go/ssa"

	"s3dbcheck/an"
	"s3dbcheck/core"
)

func init() {
	register(&Rule{Name: "C16.codec-fields", Min: 8, Run: c16CodecFields,
		Doc: "marshalProto and unmarshalProto carry every field of the entry value, each from the same-named field"})
	register(&Rule{Name: "C16.codec-shape", Min: 6, Run: c16CodecShape,
		Doc: "keys, values and child links are carried position by position in slices of the same length; absent links use one convention on both sides"})
	claim("C16", "C16 clauses decided: codec-fields and codec-shape (encoder/decoder agreement of the node codec installed by the SQL layer: every field of the stored entry value is written and read back from the same-named field; Key/Value/Link are index-aligned slices of equal length, and where the encoder leaves an absent link at the zero value the decoder maps that zero value back to absent), commit-order and content-named (shared: nodes before version object; names bound to bytes), snapshot (shared with C05: after a failed flush the rollback restores the pre-transaction tree unconditionally, so no later commit publishes links to objects that were never stored). Not decided: 'decodes to exactly what was encoded' value by value, key order inside nodes, the redundant-commit short-circuit (runtime state).",
		"C16.codec-fields", "C16.codec-shape", "C03.commit-order", "C04.content-named", "C05.snapshot")
}

func structFields(t types.Type) []*types.Var {
	st, ok := t.Underlying().(*types.Struct)
	if !ok {
		return nil
	}
	var out []*types.Var
	for i := 0; i < st.NumFields(); i++ {
		if st.Field(i).Exported() {
			out = append(out, st.Field(i))
		}
	}
	return out
}

func c16CodecFields(c *Ctx) {
	const rule = "C16.codec-fields"
	enc := mustFunc(c, "", "", "marshalProto")
	dec := mustFunc(c, "", "", "unmarshalProto")
	crdtPk := c.P.Pkg("kv/crdt")
	protoPk := c.P.Pkg("proto/v1")
	if enc == nil || dec == nil || crdtPk == nil || protoPk == nil {
		return
	}
	valT, _ := crdtPk.Types.Scope().Lookup("Value").(*types.TypeName)
	pvT, _ := protoPk.Types.Scope().Lookup("CRDTValue").(*types.TypeName)
	if valT == nil || pvT == nil {
		c.R.Errorf("anchor types crdt.Value / v1proto.CRDTValue not found")
		return
	}
	// fields that must be carried: the exported fields of the Go-side entry value
	want := structFields(valT.Type())
	check := func(fn *ssa.Function, target *types.TypeName, dir string) {
		name := core.FuncName(fn)
		// the literal of the target type built in fn
		var lit *ssa.Alloc
		for _, b := range fn.Blocks {
			for _, in := range b.Instrs {
				if al, ok := in.(*ssa.Alloc); ok {
					if nt := an.NamedOf(al.Type().Underlying().(*types.Pointer).Elem()); nt != nil && nt.Obj() == target {
						n := 0
						for _, r := range *al.Referrers() {
							if _, ok := r.(*ssa.FieldAddr); ok {
								n++
							}
						}
						if n > 0 {
							lit = al
						}
					}
				}
			}
		}
		if lit == nil {
			c.R.Unk(rule, name+": builds "+target.Name(), c.P.Pos(fn.Pos()), "no composite literal of "+target.Name()+" found")
			return
		}
		for _, wf := range want {
			src := an.StoreToFieldOf(lit, wf.Name())
			construct := fmt.Sprintf("%s: %s.%s (%s)", name, target.Name(), wf.Name(), dir)
			if src == nil {
				c.R.Bad(rule, construct, c.P.Pos(lit.Pos()), "the field is not carried: it comes back as its zero value after a store/load cycle")
				continue
			}
			// fed from the same-named field of the other side
			var from []string
			an.DependsOn(src, func(v ssa.Value) bool {
				if fv := an.FieldOfLoad(v); fv != nil {
					from = append(from, fv.Name())
				}
				return false
			})
			good := false
			for _, f := range from {
				if f == wf.Name() {
					good = true
				}
			}
			sort.Strings(from)
			c.R.Cond(good, rule, construct, c.P.Pos(lit.Pos()), "fed from the same-named field", "fed from "+strings.Join(from, ",")+" instead of "+wf.Name()+" (cross-wired fields)")
		}
	}
	check(enc, pvT, "encode")
	check(dec, valT, "decode")
}

func c16CodecShape(c *Ctx) {
	const rule = "C16.codec-shape"
	enc := mustFunc(c, "", "", "marshalProto")
	dec := mustFunc(c, "", "", "unmarshalProto")
	if enc == nil || dec == nil {
		return
	}
	type side struct {
		fn        *ssa.Function
		guardedBy map[string]string // slice name -> "nil" / "zero" / "" (how the element store is guarded)
	}
	sides := []*side{{fn: enc, guardedBy: map[string]string{}}, {fn: dec, guardedBy: map[string]string{}}}
	for _, sd := range sides {
		fn := sd.fn
		name := core.FuncName(fn)
		for _, x := range []string{"Key", "Value", "Link"} {
			// element stores out.X[i] = f(in.X[i])
			var store *ssa.Store
			var idxOut ssa.Value
			for _, b := range fn.Blocks {
				for _, in := range b.Instrs {
					st, ok := in.(*ssa.Store)
					if !ok {
						continue
					}
					ia, ok := st.Addr.(*ssa.IndexAddr)
					if !ok {
						continue
					}
					if fv := an.FieldOfLoad(ia.X); fv == nil || fv.Name() != x {
						continue
					}
					store, idxOut = st, ia.Index
				}
			}
			construct := fmt.Sprintf("%s: %s carried position by position", name, x)
			if store == nil {
				c.R.Bad(rule, construct, c.P.Pos(fn.Pos()), "no indexed store out."+x+"[i] = ...: elements are not carried at their own position (e.g. appended, which drops the position of absent links)")
				continue
			}
			// the source reads in.X at the same index
			same := an.DependsOn(store.Val, func(v ssa.Value) bool {
				ia, ok := v.(*ssa.IndexAddr)
				if !ok {
					return false
				}
				fv := an.FieldOfLoad(ia.X)
				return fv != nil && fv.Name() == x && ia.Index == idxOut
			})
			c.R.Cond(same, rule, construct, c.P.Pos(store.Pos()), "out."+x+"[i] is computed from in."+x+"[i]", "out."+x+"[i] is not computed from in."+x+"[i] (positions shift)")
			// the slice is made with len(in.X)
			lenOK := false
			for _, b := range fn.Blocks {
				for _, in := range b.Instrs {
					ms, ok := in.(*ssa.MakeSlice)
					if !ok {
						continue
					}
					// stored to out.X ?
					toX := false
					for _, r := range *ms.Referrers() {
						if st, ok := r.(*ssa.Store); ok {
							if fa, ok := st.Addr.(*ssa.FieldAddr); ok {
								if fv := an.FieldVar(fa.X.Type(), fa.Field); fv != nil && fv.Name() == x {
									toX = true
								}
							}
						}
					}
					if !toX {
						continue
					}
					if lc, ok := ms.Len.(*ssa.Call); ok {
						if bi, ok := lc.Call.Value.(*ssa.Builtin); ok && bi.Name() == "len" {
							if fv := an.FieldOfLoad(lc.Call.Args[0]); fv != nil && fv.Name() == x {
								lenOK = true
							}
						}
					}
				}
			}
			c.R.Cond(lenOK, rule, fmt.Sprintf("%s: %s has the length of its source", name, x), c.P.Pos(store.Pos()), "make(.., len(in."+x+"))", "out."+x+" is not sized by len(in."+x+"): positions of child links no longer correspond to keys")
			// how is the element store guarded?
			g := ""
			for _, b := range fn.Blocks {
				iff, ok := b.Instrs[len(b.Instrs)-1].(*ssa.If)
				if !ok {
					continue
				}
				cond, _ := an.StripNot(iff.Cond)
				bo, ok := cond.(*ssa.BinOp)
				if !ok || (bo.Op != token.EQL && bo.Op != token.NEQ) {
					continue
				}
				readsElem := func(v ssa.Value) bool {
					return an.DependsOn(v, func(w ssa.Value) bool {
						ia, ok := w.(*ssa.IndexAddr)
						if !ok {
							return false
						}
						fv := an.FieldOfLoad(ia.X)
						return fv != nil && fv.Name() == x
					})
				}
				var other ssa.Value
				if readsElem(bo.X) {
					other = bo.Y
				} else if readsElem(bo.Y) {
					other = bo.X
				} else {
					continue
				}
				if !(an.OnlyVia(b, 0, store.Block()) || an.OnlyVia(b, 1, store.Block())) {
					continue
				}
				if an.IsNilConst(other) {
					g = "nil"
				} else if k, ok := other.(*ssa.Const); ok && k.Value != nil && k.Value.Kind() == constant.String && constant.StringVal(k.Value) == "" {
					g = "zero"
				}
			}
			sd.guardedBy[x] = g
		}
	}
	// absent-element convention: if the encoder skips nil elements (leaving the zero value), the
	// decoder must skip zero values (leaving nil)
	for _, x := range []string{"Key", "Value", "Link"} {
		e, d := sides[0].guardedBy[x], sides[1].guardedBy[x]
		construct := "absent " + x + " elements use one convention"
		switch {
		case e == "nil" && d != "zero":
			c.R.Bad(rule, construct, c.P.Pos(dec.Pos()), "the encoder writes an absent "+x+" as the zero value, but the decoder stores every element: an absent child link comes back as the string \"\" and the tree tries to load an object of that name")
		case e == "" && d == "zero":
			c.R.Bad(rule, construct, c.P.Pos(enc.Pos()), "the decoder treats zero values as absent but the encoder does not skip absent elements")
		default:
			c.R.OK(rule, construct, c.P.Pos(enc.Pos()), fmt.Sprintf("encoder guard %q, decoder guard %q", e, d))
		}
	}
}

// ---- C16.store-means-stored and C16.single-source ----------------------------------------------------

func init() {
	register(&Rule{Name: "C16.store-means-stored", Min: 1, Run: c16StoreMeansStored,
		Doc: "the node store wrapper reports success only after the inner store of this very call succeeded"})
	register(&Rule{Name: "C16.single-source", Min: 1, Run: c16SingleSource,
		Doc: "an opened tree names a single source version exactly when exactly one version was merged"})
	byProp["C16"] = append(byProp["C16"], "C16.store-means-stored", "C16.single-source")
	explain["C16"] += " store-means-stored: persistEncryptor.Store returns nil only as the result of, or after the success of, the inner store in the same call — a success that skips the PUT (e.g. a 'seen this name' set filled before the upload succeeded) lets a commit be acknowledged whose version refers to an object that does not exist. single-source: mergeRoots sets tree.Source from the map of versions that were really merged and guards it with the length of that same map; Commit's 'nothing changed, write nothing' test reads Source and MergeSources."
}

func c16StoreMeansStored(c *Ctx) {
	const rule = "C16.store-means-stored"
	fn := mustFunc(c, "kv", "*persistEncryptor", "Store")
	if fn == nil {
		return
	}
	name := core.FuncName(fn)
	var inner []ssa.CallInstruction
	for _, call := range an.Calls(fn) {
		if an.CalleeIs(call, mastPersistS3, "Persist", "Store") {
			inner = append(inner, call)
		}
	}
	// every return that may report success lies on a path that called the inner store (that the
	// inner error is then honoured is C14.errors); paths are the feasible ones under nil-facts
	h := an.THooks{Instr: func(in ssa.Instruction, st an.TState) an.TState {
		if cl, ok := in.(ssa.CallInstruction); ok {
			for _, ic := range inner {
				if ic == cl {
					return ackState{set: true}
				}
			}
		}
		return st
	}}
	exits := an.WalkTypestate(fn, ackState{}, h, c.Scope(fn))
	k := 0
	seen := map[string]bool{}
	for _, ex := range exits {
		if ex.ErrNil == 0 {
			continue
		}
		key := c.P.Pos(ex.Ret.Pos())
		stored := ex.St.(ackState).set
		if seen[key] && stored {
			continue
		}
		seen[key] = true
		k++
		c.R.Cond(stored, rule, fmt.Sprintf("%s: success return #%d only after the inner store", name, k), key,
			"every feasible path to this (possibly successful) return called the inner Store", "Store can report success without having stored the object in this call: a commit is acknowledged although a node it refers to was never uploaded")
	}
	if k == 0 || len(inner) == 0 {
		c.R.Unk(rule, name+": returns", c.P.Pos(fn.Pos()), "no return found that reports the inner store's outcome")
	}
}

func c16SingleSource(c *Ctx) { continuesMerged(c, "C16.single-source") }

// ---- C16.fresh-bytes / C16.cache-scope ---------------------------------------------------------------

func init() {
	register(&Rule{Name: "C16.fresh-bytes", Min: 1, Run: c16FreshBytes,
		Doc: "the node encoder returns bytes nothing else holds on to: the result is not derived from a package-level variable or a sync.Pool"})
	register(&Rule{Name: "C16.cache-scope", Min: 1, Run: c16CacheScope,
		Doc: "the store wrapper's NodeURLPrefix — the identity under which mast remembers which nodes are already stored — includes the prefix the objects are stored under"})
	byProp["C16"] = append(byProp["C16"], "C16.fresh-bytes", "C16.cache-scope")
	explain["C16"] += " fresh-bytes: mast names a node by the hash of the encoder's result and only queues the upload; the bytes must stay untouched until the PUT has read them, so the encoder may not hand out a buffer it (or a pool) can hand out again. cache-scope: mast skips the PUT of a node its cache already contains under NodeURLPrefix()+name, so that prefix must identify where the object is stored (it is the inner store's NodeURLPrefix, or depends on the store's Prefix); with a bucket-wide identity a node uploaded for one table makes another table's commit skip its own copy."
}

func c16FreshBytes(c *Ctx) {
	const rule = "C16.fresh-bytes"
	fn := mustFunc(c, "", "", "marshalProto")
	if fn == nil {
		return
	}
	name := core.FuncName(fn)
	bad := ""
	for _, b := range fn.Blocks {
		ret, ok := b.Instrs[len(b.Instrs)-1].(*ssa.Return)
		if !ok || len(ret.Results) == 0 {
			continue
		}
		v := an.RetVal(ret, 0)
		if an.IsNilConst(v) {
			continue
		}
		an.DependsOn(v, func(x ssa.Value) bool {
			switch y := x.(type) {
			case *ssa.Global:
				bad = "the package-level variable " + y.Name()
				return true
			case *ssa.Call:
				if f := y.Call.StaticCallee(); f != nil && an.PkgPathOf(f) == "sync" && f.Name() == "Get" {
					bad = "a buffer taken from a sync.Pool"
					return true
				}
			}
			return false
		})
	}
	c.R.Cond(bad == "", rule, name+": result is not shared", c.P.Pos(fn.Pos()), "the encoded bytes are allocated by this call",
		"the encoded bytes are derived from "+bad+": the buffer can be handed out again while mast still holds the bytes for the queued upload — the object named by the hash of the child's bytes is written with the parent's bytes")
}

func c16CacheScope(c *Ctx) {
	const rule = "C16.cache-scope"
	fn := mustFunc(c, "kv", "*persistEncryptor", "NodeURLPrefix")
	if fn == nil {
		return
	}
	name := core.FuncName(fn)
	good := false
	n := 0
	for _, b := range fn.Blocks {
		ret, ok := b.Instrs[len(b.Instrs)-1].(*ssa.Return)
		if !ok || len(ret.Results) != 1 {
			continue
		}
		n++
		g := false
		an.DependsOn(ret.Results[0], func(x ssa.Value) bool {
			if cl, ok := x.(*ssa.Call); ok && calleeLabel(cl) == "NodeURLPrefix" && cl.Parent() == fn {
				g = true
			}
			if f := an.FieldOfLoad(x); f != nil && f.Name() == "Prefix" {
				g = true
			}
			if fx, ok := x.(*ssa.Field); ok {
				if f := an.FieldVar(fx.X.Type(), fx.Field); f != nil && f.Name() == "Prefix" {
					g = true
				}
			}
			return g
		})
		if g {
			good = true
		} else {
			good = false
			break
		}
	}
	c.R.Cond(good && n > 0, rule, name+": identity includes the prefix", c.P.Pos(fn.Pos()), "delegates to the inner store's NodeURLPrefix() / depends on its Prefix",
		"the cache identity of a stored node does not include the prefix it is stored under: mast's 'already stored' test (cache.Contains) answers for another table of the bucket, the PUT under this table's prefix is skipped and the committed version refers to an object that does not exist")
}
