// Package rules holds the rule instances per property (DESIGN.md section 5).
package rules

import (
	"sort"

	"golang.org/x/tools/go/ssa"

	"s3dbcheck/an"
	"s3dbcheck/core"
)

// Ctx is what a rule gets: the program, the report of the property being decided, and
// lazily built shared engines.
type Ctx struct {
	P *core.Program
	R *core.Report

	eff *an.Effects
	idx an.CallSiteIndex
	scopes map[*ssa.Function]*an.Scope
}

// Scope returns the anchor function together with the single-caller helpers split out of it.
func (c *Ctx) Scope(fn *ssa.Function) *an.Scope {
	if c.idx == nil {
		c.idx = an.BuildCallSiteIndex(c.P.RepoFuncs(an.LibraryPkg))
		c.scopes = map[*ssa.Function]*an.Scope{}
	}
	if s, ok := c.scopes[fn]; ok {
		return s
	}
	s := an.NewScope(fn, c.idx, 3)
	c.scopes[fn] = s
	return s
}

// Eff returns the effects engine on the VTA graph.
func (c *Ctx) Eff() *an.Effects {
	if c.eff == nil {
		e, err := an.NewEffects(c.P, c.P.VTA())
		if err != nil {
			c.R.Errorf("%v", err)
			panic(err)
		}
		c.eff = e
	}
	return c.eff
}

// Rule is a named rule with the instance count confirmed by hand on the reference tree.
type Rule struct {
	Name string
	Min  int
	Run  func(c *Ctx)
	Doc  string
}

var byName = map[string]*Rule{}
var byProp = map[string][]string{}
var explain = map[string]string{}

func register(r *Rule) { byName[r.Name] = r }

// claim says: property id is decided (in part) by these rules; text goes to coverage.explanation.
func claim(id, explanation string, ruleNames ...string) {
	byProp[id] = append(byProp[id], ruleNames...)
	explain[id] = explanation
}

func Properties() []string {
	var out []string
	for k := range byProp {
		out = append(out, k)
	}
	sort.Strings(out)
	return out
}

func RuleNames(id string) []string { return byProp[id] }

// engines shared between properties in one process (program is immutable)
var sharedEff *an.Effects

// Run executes every rule of the property. Returns false if the property is unknown.
func Run(p *core.Program, id string, r *core.Report) bool {
	names, ok := byProp[id]
	if !ok {
		return false
	}
	c := &Ctx{P: p, R: r, eff: sharedEff}
	r.Explain(explain[id])
	for _, n := range names {
		rule := byName[n]
		if rule == nil {
			r.Errorf("rule %s not built", n)
			continue
		}
		r.RulesRun = append(r.RulesRun, n)
		rule.Run(c)
		if rule.Min > 0 {
			r.Min(n, rule.Min)
		}
	}
	if c.eff != nil {
		sharedEff = c.eff
	}
	return true
}
