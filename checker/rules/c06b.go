package rules

import (
	"fmt"
	"go/constant"
	"go/token"
	"go/types"
	"sort"
	"strings"

	"golang.org/x/tools/go/ssa"

	"s3dbcheck/an"
	"s3dbcheck/core"
)

// ---- C06.op-table / C06.window / C06.window-next: the scan window over-approximates the constraints --
//
// SQLite re-checks every pushed constraint (C06.no-omit), so a scan is correct iff it returns a
// SUPERSET of the rows that satisfy the pushed key constraints, in key order. That is a statement
// about three small pieces of code whose inputs are enumerations and comparison results:
//   mapOp        SQLite operator  -> s3db.Op                  (table agreement)
//   Filter       s3db.Op          -> which bound it may tighten, and how strictly
//   Next         (direction, bounds present, strictness flags, sign of key-vs-bound) -> return / skip / stop
// Each is decided by abstract interpretation over its finite input domain (E9 walker with the
// domain's facts fixed): no key value is ever computed.

func init() {
	register(&Rule{Name: "C06.op-table", Min: 3, Run: c06OpTable,
		Doc: "mapOp maps each SQLite constraint operator to the s3db operator of the same name and everything else to OpIgnore"})
	register(&Rule{Name: "C06.window", Min: 6, Run: c06Window,
		Doc: "Cursor.Filter: an upper bound is only ever tightened by <, <=, =; a lower bound by >, >=, =; a bound is strict only for < / >"})
	register(&Rule{Name: "C06.window-next", Min: 1, Run: c06WindowNext,
		Doc: "Cursor.Next: for every direction, bound presence, strictness and comparison outcome under which a live row satisfies the window, the row is returned — never skipped, never taken for the end of the scan"})
	byProp["C06"] = append(byProp["C06"], "C06.op-table", "C06.window", "C06.window-next")
	explain["C06"] += " op-table / window / window-next: SQLite re-checks pushed constraints, so a scan is correct iff it yields a superset of the qualifying rows in key order. mapOp's table is extracted and compared by constant name; for each s3db.Op value the stores Filter can reach are enumerated (max only for LT/LE/EQ, min only for GT/GE/EQ, strict flag false for LE/GE/EQ); Next's decision table is extracted over (direction x bounds present x strict flags x sign(key-max) x sign(key-min)) with a live row: in every world where the row lies inside the window it reaches 'currentRow = row' and neither 'eof = true' nor the next loop iteration."
}

// enumByValue reads an enumeration: the typed constants of the type, or — s3db.Op's constants are
// declared untyped (OpIgnore = iota) — the integer constants of the package named prefix+Upper….
func enumByValue(c *Ctx, pkgPath, typeName, prefix string) map[int64]string {
	if m := enumNames(c, pkgPath, typeName, prefix); len(m) > 0 {
		return m
	}
	pk := c.P.ByPath[pkgPath]
	if pk == nil {
		return nil
	}
	out := map[int64]string{}
	for _, n := range pk.Types.Scope().Names() {
		k, ok := pk.Types.Scope().Lookup(n).(*types.Const)
		if !ok || !strings.HasPrefix(n, prefix) || len(n) <= len(prefix) || n[len(prefix)] < 'A' || n[len(prefix)] > 'Z' {
			continue
		}
		if b, ok := k.Type().Underlying().(*types.Basic); !ok || b.Info()&types.IsInteger == 0 {
			continue
		}
		v, exact := constant.Int64Val(k.Val())
		if !exact {
			continue
		}
		if _, dup := out[v]; dup {
			return nil // not an enumeration
		}
		out[v] = strings.TrimPrefix(n, prefix)
	}
	return out
}

// constEnv: integer constants carried by phis along the path being walked.
type constEnv struct{ m string } // "name=value;" sorted by insertion (paths are short)

func (e constEnv) Key() string { return e.m }

func (e constEnv) get(v ssa.Value) (int64, bool) {
	if k, ok := v.(*ssa.Const); ok && k.Value != nil && k.Value.Kind() == constant.Int {
		return k.Int64(), true
	}
	tag := v.Name() + "="
	if i := strings.LastIndex(e.m, ";"+tag); i >= 0 {
		rest := e.m[i+1+len(tag):]
		var x int64
		fmt.Sscan(rest[:strings.Index(rest, ";")], &x)
		return x, true
	}
	return 0, false
}

func (e constEnv) set(v ssa.Value, x int64) constEnv {
	return constEnv{e.m + fmt.Sprintf(";%s=%d;", v.Name(), x)}
}

func c06OpTable(c *Ctx) {
	const rule = "C06.op-table"
	fn := mustFunc(c, "sqlite", "", "mapOp")
	if fn == nil {
		return
	}
	name := core.FuncName(fn)
	sq := enumByValue(c, riyazaliPkg, "ConstraintOp", "INDEX_CONSTRAINT_")
	ops := enumByValue(c, core.ModPath, "Op", "Op")
	if len(sq) == 0 || len(ops) == 0 || len(fn.Params) != 2 {
		c.R.Unk(rule, name+": tables", c.P.Pos(fn.Pos()), "cannot read the operator enumerations")
		return
	}
	ignore := int64(-1)
	for v, n := range ops {
		if n == "Ignore" {
			ignore = v
		}
	}
	in, usable := fn.Params[0], fn.Params[1]
	// the function is evaluated for every (operator constant, usable) over the facts
	// "in == K" / "usable": the result is the constant returned on the only feasible path
	eval := func(k int64, us bool) (map[int64]bool, bool) {
		facts := map[ssa.Value]bool{usable: us}
		for _, b := range fn.Blocks {
			for _, ins := range b.Instrs {
				bo, ok := ins.(*ssa.BinOp)
				if !ok || bo.Op != token.EQL && bo.Op != token.NEQ {
					continue
				}
				var kc *ssa.Const
				if bo.X == ssa.Value(in) {
					kc, _ = bo.Y.(*ssa.Const)
				} else if bo.Y == ssa.Value(in) {
					kc, _ = bo.X.(*ssa.Const)
				}
				if kc == nil || kc.Value == nil {
					continue
				}
				facts[bo] = (kc.Int64() == k) == (bo.Op == token.EQL)
			}
		}
		h := an.THooks{Phi: func(ph *ssa.Phi, inc ssa.Value, st an.TState) an.TState {
			e := st.(constEnv)
			if x, ok := e.get(inc); ok {
				return e.set(ph, x)
			}
			return e
		}}
		exits, _ := an.WalkTypestateFrom(fn.Blocks[0], 0, constEnv{}, facts, h, nil)
		out := map[int64]bool{}
		okAll := len(exits) > 0
		for _, ex := range exits {
			if len(ex.Ret.Results) != 1 {
				return nil, false
			}
			if x, ok := ex.St.(constEnv).get(ex.Ret.Results[0]); ok {
				out[x] = true
			} else {
				okAll = false
			}
		}
		return out, okAll
	}
	var ks []int64
	for k := range sq {
		ks = append(ks, k)
	}
	sort.Slice(ks, func(i, j int) bool { return ks[i] < ks[j] })
	pushed := 0
	for _, k := range ks {
		from := sq[k]
		res, ok := eval(k, true)
		if !ok || len(res) != 1 {
			c.R.Unk(rule, fmt.Sprintf("%s: INDEX_CONSTRAINT_%s", name, from), c.P.Pos(fn.Pos()), "the result for this operator is not a single constant")
			continue
		}
		var rv int64
		for x := range res {
			rv = x
		}
		if rv == ignore {
			continue // not pushed down: SQLite filters (performance only)
		}
		pushed++
		to := ops[rv]
		c.R.Cond(from == to, rule, fmt.Sprintf("%s: INDEX_CONSTRAINT_%s", name, from), c.P.Pos(fn.Pos()),
			"pushed down as Op"+to, fmt.Sprintf("INDEX_CONSTRAINT_%s is pushed down as Op%s: the window is computed for a different comparison than the one SQLite asked for, rows are missing", from, to))
		// an unusable constraint carries no value: it must be ignored
		if resU, okU := eval(k, false); !okU || len(resU) != 1 || !resU[ignore] {
			c.R.Bad(rule, fmt.Sprintf("%s: unusable INDEX_CONSTRAINT_%s ignored", name, from), c.P.Pos(fn.Pos()), "an unusable constraint is pushed down: xFilter gets no argument for it")
		}
	}
	c.R.Stats["C06.op-table_operators"] = len(ks)
	c.R.Stats["C06.op-table_pushed"] = pushed
	if pushed == 0 {
		c.R.Unk(rule, name+": cases", c.P.Pos(fn.Pos()), "no operator is pushed down")
	}
}

// opTests finds "X == OpK" / "X != OpK" comparisons in the functions and groups them by X.
func opTests(fns []*ssa.Function, opT types.Type) map[ssa.Value][]*ssa.BinOp {
	out := map[ssa.Value][]*ssa.BinOp{}
	for _, f := range fns {
		for _, b := range f.Blocks {
			for _, in := range b.Instrs {
				bo, ok := in.(*ssa.BinOp)
				if !ok || bo.Op != token.EQL && bo.Op != token.NEQ {
					continue
				}
				var x ssa.Value
				if k, ok := bo.Y.(*ssa.Const); ok && types.Identical(k.Type(), opT) {
					x = bo.X
				} else if k, ok := bo.X.(*ssa.Const); ok && types.Identical(k.Type(), opT) {
					x = bo.Y
				}
				if x == nil {
					continue
				}
				if _, isC := x.(*ssa.Const); isC {
					continue
				}
				out[x] = append(out[x], bo)
			}
		}
	}
	return out
}

type winState struct {
	seen string // sorted list of "field=value" stores reached on this path
}

func (w winState) Key() string { return w.seen }

func c06Window(c *Ctx) {
	const rule = "C06.window"
	fn := mustFunc(c, "", "*Cursor", "Filter")
	if fn == nil {
		return
	}
	name := core.FuncName(fn)
	pk := c.P.Pkg("")
	opTN, _ := pk.Types.Scope().Lookup("Op").(*types.TypeName)
	if opTN == nil {
		c.R.Unk(rule, name+": operator type", c.P.Pos(fn.Pos()), "type s3db.Op not found")
		return
	}
	ops := enumByValue(c, core.ModPath, "Op", "Op")
	fields := map[string]*types.Var{}
	for _, f := range []string{"max", "min", "ltMax", "gtMin"} {
		fields[f] = mustField(c, "", "Cursor", f)
		if fields[f] == nil {
			return
		}
	}
	sc := c.Scope(fn)
	tests := opTests(sc.Funcs, opTN.Type())
	if len(tests) != 1 {
		c.R.Unk(rule, name+": operator value", c.P.Pos(fn.Pos()), fmt.Sprintf("expected the comparisons with Op constants to test one value, found %d", len(tests)))
		return
	}
	var opVal ssa.Value
	var cmps []*ssa.BinOp
	for v, l := range tests {
		opVal, cmps = v, l
	}
	def, ok := opVal.(ssa.Instruction)
	if !ok {
		c.R.Unk(rule, name+": operator value", c.P.Pos(fn.Pos()), "the operator value is not computed in this function")
		return
	}
	defBlock := def.Block()
	defIdx := 0
	for i, in := range defBlock.Instrs {
		if in == def {
			defIdx = i
		}
	}
	vals := make([]int64, 0, len(ops))
	for v := range ops {
		vals = append(vals, v)
	}
	sort.Slice(vals, func(i, j int) bool { return vals[i] < vals[j] })
	upper := map[string]bool{"LT": true, "LE": true, "EQ": true}
	lower := map[string]bool{"GT": true, "GE": true, "EQ": true}
	for _, k := range vals {
		kn := ops[k]
		facts := map[ssa.Value]bool{}
		for _, bo := range cmps {
			var kc *ssa.Const
			if x, ok := bo.Y.(*ssa.Const); ok {
				kc = x
			} else {
				kc = bo.X.(*ssa.Const)
			}
			eq := kc.Int64() == k
			if bo.Op == token.NEQ {
				eq = !eq
			}
			facts[bo] = eq
		}
		reached := map[string]bool{}
		h := an.THooks{Instr: func(in ssa.Instruction, st an.TState) an.TState {
			if in == def {
				return nil // next constraint: another operator value
			}
			s, ok := in.(*ssa.Store)
			if !ok {
				return st
			}
			fa, ok := s.Addr.(*ssa.FieldAddr)
			if !ok {
				return st
			}
			fv := an.FieldVar(fa.X.Type(), fa.Field)
			for fname, f := range fields {
				if fv != f {
					continue
				}
				val := "?"
				if an.IsNilConst(s.Val) {
					val = "nil"
				} else if cb, isC := constBool(s.Val); isC {
					val = fmt.Sprint(cb)
				} else if f2, ok := facts[s.Val]; ok {
					val = fmt.Sprint(f2)
				} else if fname == "max" || fname == "min" {
					val = "bound"
				}
				reached[fname+"="+val] = true
			}
			return st
		}}
		an.WalkTypestateFrom(defBlock, defIdx+1, winState{}, facts, h, sc)
		var why []string
		if reached["max=bound"] && !upper[kn] {
			why = append(why, "it can tighten the upper bound")
		}
		if reached["min=bound"] && !lower[kn] {
			why = append(why, "it can tighten the lower bound")
		}
		if kn != "LT" && (reached["ltMax=true"] || reached["ltMax=?"]) {
			why = append(why, "it can make the upper bound strict")
		}
		if kn != "GT" && (reached["gtMin=true"] || reached["gtMin=?"]) {
			why = append(why, "it can make the lower bound strict")
		}
		var got []string
		for r := range reached {
			got = append(got, r)
		}
		sort.Strings(got)
		c.R.Cond(len(why) == 0, rule, fmt.Sprintf("%s: Op%s", name, kn), c.P.Pos(def.Pos()),
			"reaches only ["+strings.Join(got, " ")+"]",
			fmt.Sprintf("for a constraint with operator Op%s %s (stores reached: %s): the scan window would exclude rows that satisfy the constraint, and SQLite's re-check cannot bring them back", kn, strings.Join(why, " and "), strings.Join(got, " ")))
	}
}

// ---- Next --------------------------------------------------------------------------------------------

type nextWorld struct {
	desc, maxNil, minNil, ltMax, gtMin bool
	sMax, sMin                         int
}

func (w nextWorld) String() string {
	d := "asc"
	if w.desc {
		d = "desc"
	}
	b := func(nilB bool, strict bool, s int, n string) string {
		if nilB {
			return "no " + n
		}
		r := map[int]string{-1: "key<" + n, 0: "key=" + n, 1: "key>" + n}[s]
		if strict {
			r += " (strict)"
		}
		return r
	}
	return fmt.Sprintf("%s, %s, %s", d, b(w.maxNil, w.ltMax, w.sMax, "max"), b(w.minNil, w.gtMin, w.sMin, "min"))
}

func (w nextWorld) inWindow() bool {
	okMax := w.maxNil || w.sMax < 0 || w.sMax == 0 && !w.ltMax
	okMin := w.minNil || w.sMin > 0 || w.sMin == 0 && !w.gtMin
	return okMax && okMin
}

type nextState struct {
	iter   int
	stored bool
	// overrides of the strict flags by stores on this path: 0 none, 1 false, 2 true
	ltMax, gtMin int
	bad          string
}

func (s nextState) Key() string {
	return fmt.Sprintf("%d/%v/%d/%d/%s", s.iter, s.stored, s.ltMax, s.gtMin, s.bad)
}

func c06WindowNext(c *Ctx) {
	const rule = "C06.window-next"
	fn := mustFunc(c, "", "*Cursor", "Next")
	if fn == nil {
		return
	}
	name := core.FuncName(fn)
	f := map[string]*types.Var{}
	for _, n := range []string{"max", "min", "ltMax", "gtMin", "desc", "eof", "currentRow"} {
		f[n] = mustField(c, "", "Cursor", n)
		if f[n] == nil {
			return
		}
	}
	sc := c.Scope(fn)
	// the scan loop: the header of the loop that contains the Get call
	var get ssa.CallInstruction
	for _, call := range sc.Calls() {
		if calleeLabel(call) == "Get" {
			get = call
		}
	}
	if get == nil {
		c.R.Unk(rule, name+": scan loop", c.P.Pos(fn.Pos()), "no cursor.Get() found")
		return
	}
	H := loopHeaderOf(get.Block())
	if H == nil {
		c.R.Unk(rule, name+": scan loop", c.P.Pos(fn.Pos()), "cursor.Get() is not inside a loop")
		return
	}
	fromGet := func(v ssa.Value) bool {
		r := an.ExprRoot(v)
		for i := 0; i < 4; i++ {
			if ex, ok := r.(*ssa.Extract); ok {
				return ex.Tuple == get.Value()
			}
			if ld, ok := r.(*ssa.UnOp); ok && ld.Op == token.MUL {
				r = an.ExprRoot(ld.X)
				continue
			}
			if fa, ok := r.(*ssa.FieldAddr); ok {
				r = an.ExprRoot(fa.X)
				continue
			}
			break
		}
		return false
	}
	signOf := func(w nextWorld, call *ssa.Call) (int, bool) {
		if calleeLabel(call) != "Order" || len(call.Call.Args) < 2 {
			return 0, false
		}
		arg := call.Call.Args[len(call.Call.Args)-1]
		if mi, ok := arg.(*ssa.MakeInterface); ok {
			arg = mi.X
		}
		switch an.FieldOfLoad(arg) {
		case f["max"]:
			return w.sMax, true
		case f["min"]:
			return w.sMin, true
		}
		return 0, false
	}
	evalCmp := func(op token.Token, s int) (bool, bool) {
		switch op {
		case token.LSS:
			return s < 0, true
		case token.LEQ:
			return s <= 0, true
		case token.GTR:
			return s > 0, true
		case token.GEQ:
			return s >= 0, true
		case token.EQL:
			return s == 0, true
		case token.NEQ:
			return s != 0, true
		}
		return false, false
	}
	var violations []string
	worlds, inWin := 0, 0
	undecided := ""
	bools := []bool{false, true}
	for _, desc := range bools {
		for _, maxNil := range bools {
			for _, minNil := range bools {
				for _, lt := range bools {
					for _, gt := range bools {
						for sMax := -1; sMax <= 1; sMax++ {
							for sMin := -1; sMin <= 1; sMin++ {
								w := nextWorld{desc, maxNil, minNil, lt, gt, sMax, sMin}
								// consistent worlds only: min <= max when both present
								if maxNil && (lt || sMax != 0) || minNil && (gt || sMin != 0) {
									continue // canonical representative for absent bounds
								}
								if !maxNil && !minNil && sMax > 0 && sMin < 0 {
									continue // key above max and below min: empty window, min > max
								}
								worlds++
								if !w.inWindow() {
									continue
								}
								inWin++
								condVal := func(cond ssa.Value, st nextState) (bool, bool) {
									switch x := cond.(type) {
									case *ssa.UnOp:
										if x.Op == token.MUL {
											switch an.FieldOfLoad(x) {
											case f["desc"]:
												return w.desc, true
											case f["ltMax"]:
												if st.ltMax != 0 {
													return st.ltMax == 2, true
												}
												return w.ltMax, true
											case f["gtMin"]:
												if st.gtMin != 0 {
													return st.gtMin == 2, true
												}
												return w.gtMin, true
											}
											if fv := an.FieldOfLoad(x); fv != nil && fv.Name() == "Deleted" && fromGet(x) {
												return false, true
											}
										}
									case *ssa.Extract:
										if x.Tuple == get.Value() && x.Index == 2 {
											return true, true
										}
									case *ssa.BinOp:
										// nil tests of the bounds and of the row
										var tested ssa.Value
										if an.IsNilConst(x.Y) {
											tested = x.X
										} else if an.IsNilConst(x.X) {
											tested = x.Y
										}
										if tested != nil && (x.Op == token.EQL || x.Op == token.NEQ) {
											isNil, known := false, false
											switch an.FieldOfLoad(tested) {
											case f["max"]:
												isNil, known = w.maxNil, true
											case f["min"]:
												isNil, known = w.minNil, true
											default:
												if fromGet(tested) {
													isNil, known = false, true
												}
											}
											if known {
												return isNil == (x.Op == token.EQL), true
											}
											return false, false
										}
										// sign tests of a comparison result
										if k, ok := x.Y.(*ssa.Const); ok && k.Value != nil && k.Value.Kind() == constant.Int && k.Int64() == 0 {
											if cl, ok := x.X.(*ssa.Call); ok {
												if s, ok := signOf(w, cl); ok {
													return evalCmp(x.Op, s)
												}
											}
										}
									}
									return false, false
								}
								h := an.THooks{}
								h.Branch = func(iff *ssa.If, side bool, st0 an.TState) an.TState {
									st := st0.(nextState)
									cond, neg := an.StripNot(iff.Cond)
									if v, ok := condVal(cond, st); ok {
										if (v != neg) != side {
											return nil
										}
									}
									return st
								}
								h.Instr = func(in ssa.Instruction, st0 an.TState) an.TState {
									st := st0.(nextState)
									if in.Block() == H && in == H.Instrs[firstNonPhi(H)] {
										st.iter++
										if st.iter >= 2 {
											if !st.stored {
												violations = append(violations, w.String()+": the row is skipped (the loop goes on to the next entry)")
											}
											return nil
										}
									}
									if s, ok := in.(*ssa.Store); ok {
										if fa, ok := s.Addr.(*ssa.FieldAddr); ok {
											switch an.FieldVar(fa.X.Type(), fa.Field) {
											case f["eof"]:
												if cb, isC := constBool(s.Val); isC && cb && !st.stored {
													violations = append(violations, w.String()+": the row is taken for the end of the scan (eof = true)")
													return nil
												}
											case f["currentRow"]:
												st.stored = true
											case f["ltMax"]:
												if cb, isC := constBool(s.Val); isC {
													st.ltMax = 1
													if cb {
														st.ltMax = 2
													}
												}
											case f["gtMin"]:
												if cb, isC := constBool(s.Val); isC {
													st.gtMin = 1
													if cb {
														st.gtMin = 2
													}
												}
											}
										}
									}
									return st
								}
								// start at the loop header with eof false
								exits, _ := an.WalkTypestateFrom(H, 0, nextState{}, nil, h, sc)
								for _, ex := range exits {
									st := ex.St.(nextState)
									if ex.ErrNil == 1 && !st.stored {
										violations = append(violations, w.String()+": Next returns without a current row at "+c.P.Pos(ex.Ret.Pos()))
									}
								}
							}
						}
					}
				}
			}
		}
	}
	c.R.Stats["C06.window-next_worlds"] = worlds
	c.R.Stats["C06.window-next_in_window"] = inWin
	if undecided != "" {
		c.R.Unk(rule, name+": rows inside the window are returned", c.P.Pos(fn.Pos()), undecided)
		return
	}
	sort.Strings(violations)
	violations = uniqStrings(violations)
	if len(violations) > 0 {
		show := violations
		if len(show) > 4 {
			show = show[:4]
		}
		c.R.Bad(rule, name+": rows inside the window are returned", c.P.Pos(fn.Pos()),
			fmt.Sprintf("%d of %d in-window worlds lose the row, e.g. %s — SQLite's re-check can only drop rows, not bring back one the scan skipped or stopped before", len(violations), inWin, strings.Join(show, "; ")))
		return
	}
	c.R.OK(rule, name+": rows inside the window are returned", c.P.Pos(fn.Pos()),
		fmt.Sprintf("%d consistent worlds (direction x bounds x strictness x comparison signs), %d with the row inside the window: in each the row becomes the current row", worlds, inWin))
}

func firstNonPhi(b *ssa.BasicBlock) int {
	for i, in := range b.Instrs {
		if _, ok := in.(*ssa.Phi); !ok {
			return i
		}
	}
	return 0
}

func uniqStrings(xs []string) []string {
	var out []string
	for i, x := range xs {
		if i == 0 || x != xs[i-1] {
			out = append(out, x)
		}
	}
	return out
}

// ---- C06.cow-discipline: the tree never writes to a node it may share --------------------------------
//
// mast's nodes are copy-on-write: a node that was stored or loaded is "shared" (other trees, clones,
// cursors — and the NodeCache, which hands the very same object out again for the same name) and
// must be copied (ToMut) before the first write. The rule is an ownership check over the pinned
// dependency: every store to a field of a *mastNode (or to an element of its Key/Value/Link) writes
// to a node the function owns — allocated here, the result of ToMut / xcopy / a constructor — or
// runs where the node is known to be unshared or already dirty.

func init() {
	register(&Rule{Name: "C06.cow-discipline", Min: 10, Run: c06Cow,
		Doc: "copy-on-write ownership in the pinned mast: no function writes to a node that may be shared without copying it first"})
	byProp["C06"] = append(byProp["C06"], "C06.cow-discipline")
	byProp["C16"] = append(byProp["C16"], "C06.cow-discipline")
	byProp["C05"] = append(byProp["C05"], "C06.cow-discipline")
	explain["C05"] += " cow-discipline (shared with C06): the pre-transaction snapshot shares node objects with the live tree through the node cache; a node written in place makes ROLLBACK restore rows of the rolled-back transaction."
	explain["C06"] += " cow-discipline: with node_cache_entries>0 mast's NodeCache returns the same in-memory node object for the same name, so a write to a shared node (including marking it dirty, which makes the next update skip the copy) corrupts every later reader of that name; each store to a *mastNode in package mast must target a node the function owns (allocation, ToMut, xcopy, constructor result) or be guarded by the node's own dirty/shared flags."
}

func c06Cow(c *Ctx) {
	const rule = "C06.cow-discipline"
	pk := c.P.ByPath[mastPkg]
	if pk == nil {
		c.R.Unk(rule, "mast: loaded", "-", "package mast not loaded")
		return
	}
	sp := c.P.SSA.Package(pk.Types)
	tn, _ := pk.Types.Scope().Lookup("mastNode").(*types.TypeName)
	if sp == nil || tn == nil {
		c.R.Unk(rule, "mast: mastNode", "-", "type mastNode not found")
		return
	}
	isNodePtr := func(t types.Type) bool {
		p, ok := t.(*types.Pointer)
		return ok && types.Identical(p.Elem(), tn.Type())
	}
	// constructors: functions of the package returning *mastNode whose every returned value is owned
	var owned func(v ssa.Value, depth int) bool
	fresh := map[*ssa.Function]bool{}
	var fns []*ssa.Function
	for fn := range c.P.AllFuncs {
		if fn.Pkg == sp && len(fn.Blocks) > 0 && fn.Synthetic == "" {
			fns = append(fns, fn)
		}
	}
	sort.Slice(fns, func(i, j int) bool { return fns[i].String() < fns[j].String() })
	owned = func(v ssa.Value, depth int) bool {
		if depth > 6 {
			return false
		}
		switch x := v.(type) {
		case *ssa.Alloc:
			return true
		case *ssa.Call:
			if f := x.Call.StaticCallee(); f != nil {
				if f.Name() == "ToMut" || f.Name() == "xcopy" || fresh[f] {
					return true
				}
			}
		case *ssa.Phi:
			for _, e := range x.Edges {
				if e != v && !owned(e, depth+1) {
					return false
				}
			}
			return true
		case *ssa.Extract:
			if cl, ok := x.Tuple.(*ssa.Call); ok {
				if f := cl.Call.StaticCallee(); f != nil && fresh[f] {
					return true
				}
			}
		}
		return false
	}
	for round := 0; round < 3; round++ {
		for _, fn := range fns {
			res := fn.Signature.Results()
			if res.Len() == 0 || !isNodePtr(res.At(0).Type()) || fn.Name() == "ToMut" {
				continue
			}
			all := true
			for _, b := range fn.Blocks {
				if ret, ok := b.Instrs[len(b.Instrs)-1].(*ssa.Return); ok {
					rv := an.RetVal(ret, 0)
					if an.IsNilConst(rv) {
						continue
					}
					if !owned(rv, 0) {
						all = false
					}
				}
			}
			if all {
				fresh[fn] = true
			}
		}
	}
	// the node a store writes to
	target := func(addr ssa.Value) ssa.Value {
		for i := 0; i < 8; i++ {
			switch x := addr.(type) {
			case *ssa.FieldAddr:
				if isNodePtr(x.X.Type()) {
					return x.X
				}
				addr = x.X
			case *ssa.IndexAddr:
				addr = x.X
			case *ssa.UnOp:
				if x.Op != token.MUL {
					return nil
				}
				addr = x.X
			default:
				return nil
			}
		}
		return nil
	}
	flagGuard := func(b *ssa.BasicBlock, node ssa.Value) bool {
		// dominated by "node.dirty" true, or "node.shared" false
		nk := an.ExprKey(node)
		for _, blk := range b.Parent().Blocks {
			iff, ok := blk.Instrs[len(blk.Instrs)-1].(*ssa.If)
			if !ok {
				continue
			}
			cond, neg := an.StripNot(iff.Cond)
			f := an.FieldOfLoad(cond)
			if f == nil || f.Name() != "dirty" && f.Name() != "shared" {
				continue
			}
			ld := cond.(*ssa.UnOp)
			fa, ok := ld.X.(*ssa.FieldAddr)
			if !ok || an.ExprKey(fa.X) != nk {
				continue
			}
			want := f.Name() == "dirty"
			si := 0
			if want == neg {
				si = 1
			}
			if an.OnlyVia(blk, si, b) {
				return true
			}
		}
		return false
	}
	// static call sites per function of the package (for one-level ownership of parameters)
	sites := map[*ssa.Function][]ssa.CallInstruction{}
	for _, fn := range fns {
		for _, call := range an.Calls(fn) {
			if cal := call.Common().StaticCallee(); cal != nil && cal.Pkg == sp {
				sites[cal] = append(sites[cal], call)
			}
		}
		for _, af := range fn.AnonFuncs {
			for _, call := range an.Calls(af) {
				if cal := call.Common().StaticCallee(); cal != nil && cal.Pkg == sp {
					sites[cal] = append(sites[cal], call)
				}
			}
		}
	}
	// memOwned: the node is a reload of a location that was assigned an owned node earlier in the block
	memOwned := func(st *ssa.Store, node ssa.Value) bool {
		ld, ok := node.(*ssa.UnOp)
		if !ok || ld.Op != token.MUL {
			return false
		}
		k := an.ExprKey(ld.X)
		for _, in := range st.Block().Instrs {
			if in == ssa.Instruction(st) {
				break
			}
			if s2, ok := in.(*ssa.Store); ok && an.ExprKey(s2.Addr) == k && owned(s2.Val, 0) {
				return true
			}
		}
		return false
	}
	// ownedAtCallers: node is a parameter and every static call site passes an owned node
	ownedAtCallers := func(fn *ssa.Function, node ssa.Value) bool {
		p, ok := node.(*ssa.Parameter)
		if !ok {
			// a closure's free variable bound to a local allocation of the enclosing function
			if fv, ok := node.(*ssa.FreeVar); ok && fn.Parent() != nil {
				_ = fv
			}
			return false
		}
		idx := -1
		for i, q := range fn.Params {
			if q == p {
				idx = i
			}
		}
		cs := sites[fn]
		if idx < 0 || len(cs) == 0 {
			return false
		}
		for _, call := range cs {
			args := call.Common().Args
			if idx >= len(args) {
				return false
			}
			a := args[idx]
			if owned(a, 0) {
				continue
			}
			// a parameter of the caller that is itself owned at all of its callers (one more level)
			if pp, ok := a.(*ssa.Parameter); ok {
				cf := call.Parent()
				j := -1
				for i, q := range cf.Params {
					if q == pp {
						j = i
					}
				}
				ok2 := j >= 0 && len(sites[cf]) > 0
				for _, c2 := range sites[cf] {
					if j >= len(c2.Common().Args) || !owned(c2.Common().Args[j], 0) {
						ok2 = false
					}
				}
				if ok2 {
					continue
				}
			}
			return false
		}
		return true
	}
	type agg struct {
		fields []string
		pos    string
		status string // ok reason, or "" for bad
	}
	n := 0
	for _, fn := range fns {
		if fn.Name() == "init" {
			continue
		}
		byNode := map[string]*agg{}
		var order []string
		for _, b := range fn.Blocks {
			for _, in := range b.Instrs {
				st, ok := in.(*ssa.Store)
				if !ok {
					continue
				}
				node := target(st.Addr)
				if node == nil {
					continue
				}
				what := "element of Key/Value/Link"
				if fa, ok := st.Addr.(*ssa.FieldAddr); ok && isNodePtr(fa.X.Type()) {
					if fv := an.FieldVar(fa.X.Type(), fa.Field); fv != nil {
						what = fv.Name()
					}
				} else if fa, ok := st.Addr.(*ssa.FieldAddr); ok {
					if fv := an.FieldVar(fa.X.Type(), fa.Field); fv != nil {
						what = fv.Name()
					}
				}
				fname := "mast." + strings.TrimPrefix(strings.ReplaceAll(fn.String(), mastPkg+".", ""), "mast.")
				nk := fname + ": writes to " + describeArg(node)
				reason := ""
				switch {
				case owned(node, 0):
					reason = "owned here (allocation / ToMut / xcopy / constructor)"
				case memOwned(st, node):
					reason = "the location was assigned the ToMut copy just before"
				case flagGuard(b, node):
					reason = "guarded by the node's own dirty/shared flag"
				case ownedAtCallers(fn, node):
					reason = "every caller passes a node it owns"
				default:
					if why, ok := cowExceptions[fname+"|"+describeArg(node)]; ok {
						reason = "confirmed by reading mast v1.2.33: " + why
					}
				}
				a := byNode[nk]
				if a == nil {
					a = &agg{pos: c.P.Pos(st.Pos()), status: reason}
					byNode[nk] = a
					order = append(order, nk)
				} else if reason == "" {
					a.status = ""
					if a.fields == nil {
						a.pos = c.P.Pos(st.Pos())
					}
				}
				a.fields = append(a.fields, what)
			}
		}
		for _, nk := range order {
			a := byNode[nk]
			n++
			fs := uniqStrings(sortedCopy(a.fields))
			if a.status != "" {
				c.R.OK(rule, nk, a.pos, a.status+" ("+strings.Join(fs, ", ")+")")
			} else {
				c.R.Bad(rule, nk, a.pos, "a node that may be shared — a parameter, a loaded or cached node — is written ("+strings.Join(fs, ", ")+") without being copied with ToMut first")
			}
		}
	}
	if n == 0 {
		c.R.Unk(rule, "mast: node writes", "-", "no store to a *mastNode found")
	}
}

func sortedCopy(xs []string) []string {
	out := append([]string{}, xs...)
	sort.Strings(out)
	return out
}

// cowExceptions: writes to a node that is not syntactically owned, each confirmed by reading mast v1.2.33.
var cowExceptions = map[string]string{
	"mast.(*Mast).savePathForRoot|UnOp": "second loop: every node of the path was made dirty (hence a private copy) by the first loop",
	"mast.(*mastNode).store|node":        "store runs on the dirty nodes of the tree being flushed (a clean node returns its source); afterwards the node is marked shared",
	"mast.(*mastNode).store|UnOp":        "same: the child being flushed is a dirty, private node of this tree",
	"mast.unmarshalNodeWithRegisteredTypes|node": "fills the node loadPersisted has just allocated (via unmarshalNode), not yet visible to anyone",
	"mast.unmarshalStringNode|node":               "fills the node loadPersisted has just allocated (via unmarshalNode), not yet visible to anyone",
}
