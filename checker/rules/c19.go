package rules

import (
	"fmt"
	"go/token"
	"go/types"
	"sort"
	"strings"

	"golang.org/x/tools/go/ssa"

	"s3dbcheck/an"
	"s3dbcheck/core"
)

func init() {
	register(&Rule{Name: "C19.locks", Min: 8, Run: c19Locks,
		Doc: "every runtime-written package-level variable of the library has a guard lock; every access holds it; every Lock is released on all exits; check and initialisation share one critical section"})
	claim("C19", "C19 clauses decided: locks (lockset analysis: all package-level state of the library packages that is written after init is listed with its guard mutex, every access lies inside the guard's critical section on all paths, no return path leaves a guard locked, and a lazily initialised global is tested and assigned within one critical section), scope (shared with C15: the attribute block is per connection). Not decided: races on a *VirtualTable reached by name from another connection (the registry is keyed by table name only), deadlocks across different locks, serializability.",
		"C19.locks", "C15.scope")
}

// guardTable: package-level variable -> the mutex that guards it (confirmed by reading).
var guardTable = map[string]string{
	"s3db.tables":         "s3db.tableLock",
	"s3db.inMemoryS3":     "s3db.inMemoryS3Lock",
	"s3db.inMemoryBucket": "s3db.inMemoryS3Lock",
}

func globalName(g *ssa.Global) string {
	p := strings.TrimPrefix(strings.TrimPrefix(g.Pkg.Pkg.Path(), core.ModPath), "/")
	if p == "" {
		p = "s3db"
	}
	return p + "." + g.Name()
}

// lockOp classifies a call as Lock/Unlock of a package-level mutex.
func lockOp(call ssa.CallInstruction) (lock string, op string) {
	f := call.Common().StaticCallee()
	if f == nil || an.PkgPathOf(f) != "sync" || len(call.Common().Args) == 0 {
		return "", ""
	}
	switch f.Name() {
	case "Lock", "Unlock", "RLock", "RUnlock":
	default:
		return "", ""
	}
	g, ok := call.Common().Args[0].(*ssa.Global)
	if !ok {
		return "", ""
	}
	return globalName(g), strings.TrimPrefix(f.Name(), "R")
}

type lockState map[string]bool

func (s lockState) clone() lockState {
	n := lockState{}
	for k, v := range s {
		n[k] = v
	}
	return n
}

// heldAt computes, for every instruction, the set of locks definitely held (must analysis).
func heldAt(fn *ssa.Function) map[ssa.Instruction]lockState {
	all := lockState{}
	for _, call := range an.Calls(fn) {
		if l, _ := lockOp(call); l != "" {
			all[l] = true
		}
	}
	in := map[*ssa.BasicBlock]lockState{}
	out := map[*ssa.BasicBlock]lockState{}
	for _, b := range fn.Blocks {
		out[b] = all.clone()
	}
	res := map[ssa.Instruction]lockState{}
	for changed := true; changed; {
		changed = false
		for _, b := range fn.Blocks {
			var st lockState
			if len(b.Preds) == 0 {
				st = lockState{}
			} else {
				st = all.clone()
				for _, p := range b.Preds {
					for k := range st {
						if !out[p][k] {
							delete(st, k)
						}
					}
				}
			}
			in[b] = st
			cur := st.clone()
			for _, ins := range b.Instrs {
				res[ins] = cur.clone()
				if call, ok := ins.(ssa.CallInstruction); ok {
					if _, isDefer := ins.(*ssa.Defer); isDefer {
						continue
					}
					if l, op := lockOp(call); l != "" {
						if op == "Lock" {
							cur[l] = true
						} else {
							delete(cur, l)
						}
					}
				}
			}
			if len(cur) != len(out[b]) {
				changed = true
			} else {
				for k := range cur {
					if !out[b][k] {
						changed = true
					}
				}
			}
			out[b] = cur
		}
	}
	return res
}

func c19Locks(c *Ctx) {
	const rule = "C19.locks"
	isInit := func(fn *ssa.Function) bool {
		for f := fn; f != nil; f = f.Parent() {
			if f.Name() == "init" || strings.HasPrefix(f.Name(), "init#") {
				if f.Parent() == nil {
					return true
				}
			}
		}
		return false
	}
	// helpers that only init (transitively) calls also run before any connection exists; closures
	// handed to sync.Once.Do are serialised by the Once
	callers := map[*ssa.Function][]*ssa.Function{}
	onceClosures := map[*ssa.Function]bool{}
	lib := c.P.RepoFuncs(an.LibraryPkg)
	for _, fn := range lib {
		for _, call := range an.Calls(fn) {
			if cal := call.Common().StaticCallee(); cal != nil {
				callers[cal] = append(callers[cal], fn)
				if an.PkgPathOf(cal) == "sync" && cal.Name() == "Do" {
					for _, a := range call.Common().Args {
						switch x := a.(type) {
						case *ssa.MakeClosure:
							onceClosures[x.Fn.(*ssa.Function)] = true
						case *ssa.Function:
							onceClosures[x] = true
						}
					}
				}
			}
		}
	}
	initOnly := map[*ssa.Function]bool{}
	for changed := true; changed; {
		changed = false
		for _, fn := range lib {
			if initOnly[fn] || fn.Parent() != nil || fn.Object() == nil || fn.Object().Exported() || fn.Signature.Recv() != nil {
				continue
			}
			cs := callers[fn]
			if len(cs) == 0 {
				continue
			}
			all := true
			for _, cl := range cs {
				if !(cl.Parent() == nil && isInit(cl)) && !initOnly[cl] {
					all = false
				}
			}
			if all {
				initOnly[fn] = true
				changed = true
			}
		}
	}
	// the callback registered by init runs per connection, not at init time
	runsAtInit := func(fn *ssa.Function) bool {
		return (isInit(fn) && fn.Parent() == nil) || initOnly[fn] || onceClosures[fn]
	}

	type access struct {
		fn    *ssa.Function
		in    ssa.Instruction
		g     *ssa.Global
		write bool
	}
	var accs []access
	written := map[*ssa.Global]bool{}
	for _, fn := range c.P.RepoFuncs(an.LibraryPkg) {
		if runsAtInit(fn) {
			continue
		}
		for _, b := range fn.Blocks {
			for _, in := range b.Instrs {
				switch x := in.(type) {
				case *ssa.Store:
					if g, ok := x.Addr.(*ssa.Global); ok && core.IsRepoPkg(g.Pkg.Pkg) {
						accs = append(accs, access{fn, in, g, true})
						written[g] = true
					}
				case *ssa.UnOp:
					if g, ok := x.X.(*ssa.Global); ok && x.Op == token.MUL && core.IsRepoPkg(g.Pkg.Pkg) {
						// what is done with the loaded value: map writes count as writes of the global
						w := false
						if x.Referrers() != nil {
							for _, r := range *x.Referrers() {
								switch rr := r.(type) {
								case *ssa.MapUpdate:
									if rr.Map == ssa.Value(x) {
										w = true
									}
								case *ssa.Call:
									if bi, ok := rr.Call.Value.(*ssa.Builtin); ok && bi.Name() == "delete" {
										w = true
									}
								}
							}
						}
						accs = append(accs, access{fn, in, g, w})
						if w {
							written[g] = true
						}
					}
				}
			}
		}
	}
	// 1. every runtime-written global has a guard
	var ws []*ssa.Global
	for g := range written {
		ws = append(ws, g)
	}
	sort.Slice(ws, func(i, j int) bool { return globalName(ws[i]) < globalName(ws[j]) })
	for _, g := range ws {
		name := globalName(g)
		if isSyncType(g.Type()) {
			continue
		}
		_, ok := guardTable[name]
		c.R.Cond(ok, rule, "package variable "+name+" has a guard", c.P.Pos(g.Pos()), "guarded by "+guardTable[name],
			"a package-level variable of a library package is written after init but has no guard lock in the confirmed table: connections on different threads race on it")
	}
	// 1b. shared mutable objects: a package variable holding a pointer to a struct whose methods are
	// called at runtime (outside init) is shared by all connections; it needs a guard or a type
	// known to be safe for concurrent use
	safeTypes := map[string]bool{
		"*github.com/aws/aws-sdk-go/service/s3.S3": true, // the SDK client is documented goroutine-safe (and it is guarded here anyway)
		"*regexp.Regexp":                           true, // "A Regexp is safe for concurrent use by multiple goroutines"
	}
	flagged := map[*ssa.Global]bool{}
	for _, a := range accs {
		if a.write || flagged[a.g] {
			continue
		}
		name := globalName(a.g)
		if _, ok := guardTable[name]; ok {
			continue
		}
		if strings.HasPrefix(name, "proto/") {
			continue // generated code
		}
		pt, ok := a.g.Type().(*types.Pointer).Elem().(*types.Pointer)
		if !ok {
			continue
		}
		if _, isStruct := pt.Elem().Underlying().(*types.Struct); !isStruct || isSyncType(pt) || safeTypes[pt.String()] {
			continue
		}
		// used as a method receiver or passed on?
		ld := a.in.(*ssa.UnOp)
		used := false
		if ld.Referrers() != nil {
			for _, r := range *ld.Referrers() {
				if _, isCall := r.(ssa.CallInstruction); isCall {
					used = true
				}
			}
		}
		if !used {
			continue
		}
		flagged[a.g] = true
		c.R.Bad(rule, "package variable "+name+" is a shared mutable object without a guard", c.P.Pos(a.in.Pos()),
			"a package-level "+pt.String()+" is used (method calls) at runtime by "+core.FuncName(a.fn)+" with no guard lock and no known concurrency-safe type: every connection in the process shares it (e.g. a *rand.Rand from rand.New is not safe for concurrent use)")
	}
	// 1c. a package variable whose address is handed out (call argument, closure capture, stored
	// pointer) is written by whoever holds the pointer — at any time, on any thread
	{
		type esc struct {
			g   *ssa.Global
			pos token.Pos
			how string
		}
		var escs []esc
		for _, fn := range c.P.RepoFuncs(an.LibraryPkg) {
			for _, b := range fn.Blocks {
				for _, in := range b.Instrs {
					var ops []ssa.Value
					how := ""
					switch x := in.(type) {
					case ssa.CallInstruction:
						cc := x.Common()
						if cc.IsInvoke() {
							ops = cc.Args
						} else if cal := cc.StaticCallee(); cal != nil && cal.Signature.Recv() != nil && len(cc.Args) > 0 {
							// method call on the variable itself: its own methods decide (1b / sync types)
							ops = cc.Args[1:]
						} else {
							ops = cc.Args
						}
						how = "passed to " + calleeLabel(x)
					case *ssa.MakeClosure:
						ops = x.Bindings
						how = "captured by a closure"
					case *ssa.Store:
						ops = []ssa.Value{x.Val}
						how = "stored as a pointer"
					case *ssa.MakeInterface:
						ops = []ssa.Value{x.X}
						how = "boxed into an interface"
					}
					for _, o := range ops {
						if g, ok := o.(*ssa.Global); ok && core.IsRepoPkg(g.Pkg.Pkg) {
							escs = append(escs, esc{g, in.Pos(), how + " in " + core.FuncName(fn)})
						}
					}
				}
			}
		}
		seenG := map[*ssa.Global]bool{}
		for _, e := range escs {
			name := globalName(e.g)
			if seenG[e.g] || isSyncType(e.g.Type().(*types.Pointer).Elem()) || strings.HasPrefix(name, "proto/") {
				continue
			}
			if _, ok := guardTable[name]; ok {
				continue
			}
			seenG[e.g] = true
			if why, ok := addressEscapeExceptions[name]; ok {
				c.R.OK(rule, "package variable "+name+" is not shared by reference", c.P.Pos(e.pos), "confirmed by reading: "+why)
				continue
			}
			c.R.Bad(rule, "package variable "+name+" is not shared by reference", c.P.Pos(e.pos),
				"the address of a package-level variable is "+e.how+": whoever holds the pointer writes the variable at run time, on any thread, outside every guard (e.g. a parser built once around '&result' makes the result a process-wide variable: two connections creating tables at the same time read each other's option values)")
		}
		c.R.Stats["C19.address_escapes"] = len(escs)
	}
	// 2. every access of a guarded global holds its guard
	held := map[*ssa.Function]map[ssa.Instruction]lockState{}
	nAcc := 0
	perFn := map[string]int{}
	for _, a := range accs {
		name := globalName(a.g)
		guard, ok := guardTable[name]
		if !ok {
			continue
		}
		nAcc++
		if held[a.fn] == nil {
			held[a.fn] = heldAt(a.fn)
		}
		fname := core.FuncName(a.fn)
		c.R.SawFunc(fname)
		perFn[fname+name]++
		kind := "read"
		if a.write {
			kind = "write"
		}
		c.R.Cond(held[a.fn][a.in][guard], rule, fmt.Sprintf("%s: %s of %s #%d under %s", fname, kind, name, perFn[fname+name], guard), c.P.Pos(a.in.Pos()),
			"the guard is held on every path to this access", "the guard is not held on some path to this access: data race between connections on different threads")
	}
	c.R.Stats["C19.guarded_accesses"] = nAcc
	if nAcc < 8 {
		c.R.Errorf("only %d accesses of guarded package variables found (>= 8 confirmed by hand)", nAcc)
	}
	// 3. no return path leaves a guard locked
	for _, fn := range c.P.RepoFuncs(an.LibraryPkg) {
		hasLock := false
		for _, call := range an.Calls(fn) {
			if l, _ := lockOp(call); l != "" {
				hasLock = true
			}
		}
		if !hasLock {
			continue
		}
		fname := core.FuncName(fn)
		leaks := lockLeaks(fn)
		if len(leaks) == 0 {
			c.R.OK(rule, fname+": locks released on every exit", c.P.Pos(fn.Pos()), "every Lock is followed by Unlock (direct or deferred) on every path to a return")
		}
		for i, l := range leaks {
			c.R.Bad(rule, fmt.Sprintf("%s: %s released on every exit #%d", fname, l.lock, i+1), c.P.Pos(l.pos),
				"a return is reachable with "+l.lock+" still locked and no deferred Unlock: the next operation that needs it blocks forever, on any connection")
		}
	}
	// 4. check-then-act: a store to a guarded global that is decided by a nil test of the same
	// global must be in the same critical section as that read
	for _, a := range accs {
		st, ok := a.in.(*ssa.Store)
		if !ok {
			continue
		}
		name := globalName(a.g)
		guard, ok := guardTable[name]
		if !ok {
			continue
		}
		// reads of the same global whose nil test guards the store
		var reads []*ssa.UnOp
		for _, b := range a.fn.Blocks {
			for _, in := range b.Instrs {
				if ld, ok := in.(*ssa.UnOp); ok && ld.Op == token.MUL && ld.X == ssa.Value(a.g) {
					if an.GuardedByNilTest(an.Edge{From: st.Block()}, func(v ssa.Value) bool { return v == ssa.Value(ld) }, true) {
						reads = append(reads, ld)
					}
				}
			}
		}
		for _, rd := range reads {
			split := false
			for _, call := range an.Calls(a.fn) {
				if _, isDefer := call.(*ssa.Defer); isDefer {
					continue
				}
				l, op := lockOp(call)
				if l != guard || op != "Unlock" {
					continue
				}
				after := (call.Block() == rd.Block() && an.InstrBefore(rd, call)) || (call.Block() != rd.Block() && an.ReachableFromBlock(rd.Block(), call.Block(), nil))
				before := (call.Block() == st.Block() && an.InstrBefore(call, st)) || (call.Block() != st.Block() && an.ReachableFromBlock(call.Block(), st.Block(), nil))
				if after && before {
					split = true
				}
			}
			c.R.Cond(!split, rule, fmt.Sprintf("%s: lazy initialisation of %s is one critical section", core.FuncName(a.fn), name), c.P.Pos(st.Pos()),
				"the nil check and the assignment happen without releasing "+guard+" in between", "the guard is released between the nil check and the assignment: two threads can both see nil and both initialise (the later one wins, earlier users keep the other instance)")
		}
	}
}

// addressEscapeExceptions: package variables whose address is handed out, each confirmed by reading.
var addressEscapeExceptions = map[string]string{
	"writetime.i": "the address is the unique context key (key = &i); nothing ever dereferences it",
}

func isSyncType(t types.Type) bool {
	if pt, ok := t.(*types.Pointer); ok {
		t = pt.Elem()
	}
	nt, ok := t.(*types.Named)
	if !ok || nt.Obj().Pkg() == nil {
		return false
	}
	p := nt.Obj().Pkg().Path()
	return p == "sync" || p == "sync/atomic"
}

type lockLeak struct {
	lock string
	pos  token.Pos
}

// lockLeaks: may-analysis of "locked without a registered deferred unlock" reaching a Return.
func lockLeaks(fn *ssa.Function) []lockLeak {
	type st struct {
		held     map[string]bool
		deferred map[string]bool
	}
	key := func(s st) string {
		var ks []string
		for k := range s.held {
			ks = append(ks, "h:"+k)
		}
		for k := range s.deferred {
			ks = append(ks, "d:"+k)
		}
		sort.Strings(ks)
		return strings.Join(ks, ",")
	}
	cp := func(m map[string]bool) map[string]bool {
		n := map[string]bool{}
		for k, v := range m {
			n[k] = v
		}
		return n
	}
	seen := map[string]bool{}
	type item struct {
		b *ssa.BasicBlock
		s st
	}
	work := []item{{fn.Blocks[0], st{map[string]bool{}, map[string]bool{}}}}
	var out []lockLeak
	reported := map[string]bool{}
	for len(work) > 0 {
		it := work[len(work)-1]
		work = work[:len(work)-1]
		k := fmt.Sprintf("%d|%s", it.b.Index, key(it.s))
		if seen[k] {
			continue
		}
		seen[k] = true
		s := st{cp(it.s.held), cp(it.s.deferred)}
		for _, in := range it.b.Instrs {
			switch x := in.(type) {
			case *ssa.Defer:
				if l, op := lockOp(x); l != "" && op == "Unlock" {
					s.deferred[l] = true
				}
			case ssa.CallInstruction:
				if l, op := lockOp(x); l != "" {
					if op == "Lock" {
						s.held[l] = true
					} else {
						delete(s.held, l)
					}
				}
			case *ssa.Return:
				for l := range s.held {
					if !s.deferred[l] && !reported[l+fmt.Sprint(x.Pos())] {
						reported[l+fmt.Sprint(x.Pos())] = true
						out = append(out, lockLeak{l, x.Pos()})
					}
				}
			}
		}
		for _, n := range it.b.Succs {
			work = append(work, item{n, s})
		}
	}
	sort.Slice(out, func(i, j int) bool { return out[i].pos < out[j].pos })
	return out
}

// ---- C19.registry-exact: a name addresses at most one table -----------------------------------------

func init() {
	register(&Rule{Name: "C19.registry-exact", Min: 1, Run: c19RegistryExact,
		Doc: "the process-wide table registry is only read by exact key: no lookup iterates the map (Go's map order is random, so 'first match' picks a table by chance)"})
	byProp["C19"] = append(byProp["C19"], "C19.registry-exact")
	explain["C19"] += " registry-exact: name-addressed functions (s3db_version / refresh / vacuum / changes) must reach the caller's own table; the registry is shared by all connections of the process, so a lookup that ranges over it with a looser match (case-insensitive, prefix) returns another connection's table depending on map iteration order — every read of the registry outside init is an index expression with the name as key."
}

func c19RegistryExact(c *Ctx) {
	const rule = "C19.registry-exact"
	n := 0
	for _, fn := range c.P.RepoFuncs(an.LibraryPkg) {
		for _, b := range fn.Blocks {
			for _, in := range b.Instrs {
				ld, ok := in.(*ssa.UnOp)
				if !ok || ld.Op != token.MUL {
					continue
				}
				g, ok := ld.X.(*ssa.Global)
				if !ok || g.Name() != "tables" || !core.IsRepoPkg(g.Pkg.Pkg) || ld.Referrers() == nil {
					continue
				}
				for _, r := range *ld.Referrers() {
					n++
					switch x := r.(type) {
					case *ssa.Range:
						c.R.Bad(rule, core.FuncName(fn)+": registry read by exact name", c.P.Pos(x.Pos()),
							"the table registry is iterated: which table a non-exact match returns depends on Go's random map order, and the registry holds the tables of every connection in the process")
					case *ssa.Lookup, *ssa.MapUpdate:
						// exact key
					}
				}
			}
		}
	}
	if n == 0 {
		c.R.Unk(rule, "s3db: table registry", "-", "no read of the package variable 'tables' found")
		return
	}
	c.R.OK(rule, "s3db: registry reads counted", "-", fmt.Sprintf("%d uses of the registry inspected", n))
}

// ---- C19.lock-no-io: the registry lock is never held across a storage request ------------------------

func init() {
	register(&Rule{Name: "C19.lock-no-io", Min: 1, Run: c19LockNoIO,
		Doc: "no call that can reach the S3 client is made while a process-wide guard lock is held: a mutex wait ignores the waiting connection's deadline"})
	byProp["C19"] = append(byProp["C19"], "C19.lock-no-io", "C03.commit-order")
	byProp["C14"] = append(byProp["C14"], "C19.lock-no-io")
	explain["C19"] += " lock-no-io: 'without deadlocks or cross-talk: each connection's deadline … affects only its own statements' — CREATE/DROP, closing a connection, s3db_refresh, s3db_version, s3db_vacuum and s3db_changes of every connection take the registry lock; if one connection holds it while it talks to its (slow, stalled) endpoint, the others wait in a mutex, where no context deadline applies. Lockset (must-held) at every call site whose callee can reach the S3 client: no guard lock of the table above is held. commit-order (shared with C03): on a shared prefix another connection's open lists either the old versions or the new one — the new version is stored before its sources are retired."
	explain["C14"] += " lock-no-io (shared with C19): a statement waiting for a lock held across another connection's storage request is not bounded by its own deadline."
}

func c19LockNoIO(c *Ctx) {
	const rule = "C19.lock-no-io"
	n, locked := 0, 0
	held := map[*ssa.Function]map[ssa.Instruction]lockState{}
	var bad []string
	for _, s := range storageErrSites(c) {
		n++
		h, ok := held[s.Fn]
		if !ok {
			h = heldAt(s.Fn)
			held[s.Fn] = h
		}
		st := h[s.Call.(ssa.Instruction)]
		for l := range st {
			isGuard := false
			for _, g := range guardTable {
				if g == l {
					isGuard = true
				}
			}
			if !isGuard {
				continue
			}
			locked++
			bad = append(bad, fmt.Sprintf("%s -> %s at %s holds %s", core.FuncName(s.Fn), s.Callee, c.P.Pos(s.Call.Pos()), l))
		}
	}
	sort.Strings(bad)
	c.R.Stats["C19.lock-no-io.sites"] = n
	if n < 60 {
		c.R.Errorf("C19.lock-no-io: only %d storage call sites found", n)
	}
	c.R.Cond(len(bad) == 0, rule, "no guard lock is held across a storage request", "-", fmt.Sprintf("%d call sites that can reach the S3 client, none inside a critical section of %d guard locks", n, len(guardTable)),
		strings.Join(bad, "; ")+": every other connection's CREATE / DROP / close / refresh / version / vacuum / changes waits for that lock for as long as this connection's endpoint takes, whatever its own deadline says")
}
