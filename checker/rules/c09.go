package rules

import (
	"fmt"
	"go/constant"
	"go/token"
	"go/types"
	"strings"

	"golang.org/x/tools/go/ssa"

	"s3dbcheck/an"
	"s3dbcheck/core"
)

func init() {
	register(&Rule{Name: "C09.gc-same-set", Min: 1, Run: c09SameSet,
		Doc: "node objects are collected for deletion for exactly the versions whose version objects are deleted"})
	register(&Rule{Name: "C09.gc-diff-pairs", Min: 3, Run: c09DiffPairs,
		Doc: "a retired version's objects are compared with each of its own successors, and only links the successor dropped are collected"})
	register(&Rule{Name: "C09.vacuum-handle", Min: 2, Run: c09VacuumHandle,
		Doc: "history is deleted from the handle that was just committed, after it became the live tree"})
	register(&Rule{Name: "C09.gc-excludes-live", Min: 1, Run: c09ExcludesLive,
		Doc: "objects still linked by the retained current tree are taken out of the deletion set"})
	claim("C09", "C09 clauses decided (each a necessary condition of 'vacuum removes only storage no retained version needs'): gc-same-set, gc-diff-pairs, vacuum-handle, gc-excludes-live (the links of the handle's own live tree are taken off the deletion list by a complete walk against the empty tree; repaired as 421ec03), vacuum-order / vacuum-purge / who-deletes (shared with C04, C03). Not decided: whether a deleted object is in fact unreferenced for a given history (content-hash sharing between arbitrary versions is a runtime fact), dependency behaviour of mast's DiffLinks.",
		"C09.gc-same-set", "C09.gc-diff-pairs", "C09.vacuum-handle", "C09.gc-excludes-live", "C04.vacuum-order", "C04.vacuum-purge", "C03.who-deletes")
	register(&Rule{Name: "C10.one-cutoff", Min: 4, Run: c10OneCutoff,
		Doc: "one cutoff value decides the row side, the tombstone purge and the version side of a vacuum"})
	claim("C10", "C10 clauses decided: one-cutoff (the cutoff given to s3db_vacuum is, unchanged, the value compared with row delete times, passed to RemoveTombstones, and passed to DeleteHistoricVersions / the version-graph walk), vacuum-handle and gc-diff-pairs and gc-same-set (shared with C09: what is reclaimed is computed from the just-committed version graph, per retired version against its own successors), vacuum-purge (shared with C04). Not decided: strictness of the individual comparisons at the boundary (<, <=), idempotence of a repeated vacuum, which rows a given history leaves — runtime values.",
		"C10.one-cutoff", "C09.vacuum-handle", "C09.gc-diff-pairs", "C09.gc-same-set", "C04.vacuum-purge")
}

func gcFunc(c *Ctx) *ssa.Function { return mustFunc(c, "kv", "*DB", "getHistoricRootsAndNodes") }

// rangeOfNext returns the Range a value (key/value extract of a Next) iterates, if any.
func rangeOfNext(v ssa.Value) *ssa.Range {
	ex, ok := an.Unwrap(v).(*ssa.Extract)
	if !ok {
		return nil
	}
	nx, ok := ex.Tuple.(*ssa.Next)
	if !ok {
		return nil
	}
	r, _ := nx.Iter.(*ssa.Range)
	return r
}

func diffLinksCall(fn *ssa.Function) ssa.CallInstruction {
	for _, call := range an.Calls(fn) {
		if an.CalleeIs(call, mastPkg, "Mast", "DiffLinks") {
			return call
		}
	}
	return nil
}

func c09SameSet(c *Ctx) {
	const rule = "C09.gc-same-set"
	fn := gcFunc(c)
	if fn == nil {
		return
	}
	name := core.FuncName(fn)
	dl := diffLinksCall(fn)
	if dl == nil {
		c.R.Unk(rule, name+": node collection", c.P.Pos(fn.Pos()), "no DiffLinks call found")
		return
	}
	// the outer map loop around the node collection: the Range over a map of maps that dominates it
	var outer *ssa.Range
	for _, b := range fn.Blocks {
		for _, in := range b.Instrs {
			r, ok := in.(*ssa.Range)
			if !ok || !b.Dominates(dl.Block()) {
				continue
			}
			if m, ok := r.X.Type().Underlying().(*types.Map); ok {
				if _, inner := m.Elem().Underlying().(*types.Map); inner {
					// is the DiffLinks call inside this range's loop?
					for _, ref := range *r.Referrers() {
						if nx, ok := ref.(*ssa.Next); ok && nx.Block().Dominates(dl.Block()) && an.ReachableFromBlock(dl.Block(), nx.Block(), nil) {
							outer = r
						}
					}
				}
			}
		}
	}
	// the map whose keys become the returned version names
	var rootsFrom *ssa.Range
	for _, b := range fn.Blocks {
		for _, in := range b.Instrs {
			cl, ok := in.(*ssa.Call)
			if !ok {
				continue
			}
			bi, ok := cl.Call.Value.(*ssa.Builtin)
			if !ok || bi.Name() != "append" {
				continue
			}
			elems, lit := sliceLitElems(cl.Call.Args[1])
			if !lit || len(elems) != 1 {
				continue
			}
			r := rangeOfNext(elems[0])
			if r == nil {
				continue
			}
			if m, ok := r.X.Type().Underlying().(*types.Map); ok {
				if _, inner := m.Elem().Underlying().(*types.Map); inner {
					rootsFrom = r
				}
			}
		}
	}
	if outer == nil || rootsFrom == nil {
		c.R.Unk(rule, name+": candidate sets", c.P.Pos(dl.Pos()), "cannot identify the loop that collects nodes and the loop that lists the versions to delete")
		return
	}
	c.R.Cond(an.SameValue(outer.X, rootsFrom.X), rule, name+": nodes are collected for the versions that are deleted", c.P.Pos(dl.Pos()),
		"both loops range over the same candidate map", "node objects are collected by iterating a different set of versions than the set whose version objects are deleted: a version that is retained (newer than the cutoff) can lose its nodes")
}

func c09DiffPairs(c *Ctx) {
	const rule = "C09.gc-diff-pairs"
	fn := gcFunc(c)
	if fn == nil {
		return
	}
	name := core.FuncName(fn)
	dl := diffLinksCall(fn)
	if dl == nil {
		c.R.Unk(rule, name+": node collection", c.P.Pos(fn.Pos()), "no DiffLinks call found")
		return
	}
	loadOf := func(v ssa.Value) *ssa.Call {
		var found *ssa.Call
		an.DependsOn(v, func(w ssa.Value) bool {
			if cl, ok := w.(*ssa.Call); ok && an.CalleeIs(cl, crdtPkg, "", "Load") {
				found = cl
				return true
			}
			return false
		})
		return found
	}
	args := dl.Common().Args // recv, ctx, other, callback
	recvLoad, argLoad := loadOf(args[0]), loadOf(args[2])
	c.R.Cond(recvLoad != nil && argLoad != nil && recvLoad != argLoad, rule, name+": successor is diffed against its own predecessor", c.P.Pos(dl.Pos()),
		"DiffLinks(receiver = a loaded successor, argument = the loaded retired version)", "the links of a retired version are not compared with a successor loaded from the version graph (e.g. with the live tree instead): objects that a retained intermediate version still needs are collected")
	if recvLoad != nil && argLoad != nil {
		// the successor comes from the inner loop over the retired version's children, the
		// predecessor from the outer loop
		inner := an.DependsOn(recvLoad, func(w ssa.Value) bool { return rangeOfNext(w) != nil })
		c.R.Cond(inner, rule, name+": every successor is visited", c.P.Pos(recvLoad.Pos()), "the successor is an element of the loop over the retired version's children", "the successor does not come from iterating the retired version's children")
	}
	// the callback collects only links reported as removed
	var cb *ssa.Function
	if mc, ok := args[3].(*ssa.MakeClosure); ok {
		cb = mc.Fn.(*ssa.Function)
	}
	if cb == nil {
		c.R.Unk(rule, name+": collects dropped links only", c.P.Pos(dl.Pos()), "the DiffLinks callback is not a function literal")
		return
	}
	removedP := cb.Params[0]
	n := 0
	for _, b := range cb.Blocks {
		for _, in := range b.Instrs {
			if _, ok := in.(*ssa.MapUpdate); !ok {
				continue
			}
			n++
			g := an.GuardedByValue(an.Edge{From: b}, func(v ssa.Value) bool { return v == ssa.Value(removedP) }, true)
			c.R.Cond(g, rule, name+": collects dropped links only", c.P.Pos(in.Pos()), "a link becomes a deletion candidate only when the successor dropped it", "links the successor still has (or added) are collected for deletion")
		}
	}
	if n == 0 {
		c.R.Unk(rule, name+": collects dropped links only", c.P.Pos(cb.Pos()), "the callback records nothing")
	}
}

func c09VacuumHandle(c *Ctx) {
	const rule = "C09.vacuum-handle"
	fn := mustFunc(c, "", "", "Vacuum")
	dh := mustFunc(c, "kv", "", "DeleteHistoricVersions")
	kvRoot := mustField(c, "", "KV", "Root")
	if fn == nil || dh == nil || kvRoot == nil {
		return
	}
	name := core.FuncName(fn)
	sc := c.Scope(fn)
	var commit, dhCall ssa.CallInstruction
	for _, call := range sc.Calls() {
		if an.CalleeIs(call, kvPkg, "DB", "Commit") {
			commit = call
		}
		if call.Common().StaticCallee() == dh {
			dhCall = call
		}
	}
	if commit == nil || dhCall == nil {
		c.R.Unk(rule, name+": shape", c.P.Pos(fn.Pos()), "Vacuum does not both commit and delete history")
		return
	}
	committed := commit.Common().Args[0]
	var swap *ssa.Store
	for _, f := range sc.Funcs {
		for _, st := range an.StoresToField(f, kvRoot) {
			if f == commit.Parent() && sameExpr(st.Val, committed) {
				swap = st
			}
		}
	}
	c.R.Cond(swap != nil && sc.Before(swap, dhCall), rule, name+": committed tree is live before history is deleted", c.P.Pos(dhCall.Pos()),
		"Tree.Root = <committed clone> precedes DeleteHistoricVersions", "history is deleted while the connection still holds the pre-vacuum handle: if deletion fails half way the connection keeps a tree whose objects are gone")
	h := dhCall.Common().Args[1]
	good := dhCall.Parent() == commit.Parent() && sameExpr(h, committed)
	if !good && an.FieldOfLoad(h) == kvRoot && swap != nil && sc.Before(swap, dhCall) {
		good = true
	}
	c.R.Cond(good, rule, name+": history is computed from the committed handle", c.P.Pos(dhCall.Pos()),
		"DeleteHistoricVersions walks the version graph from the version just written", "DeleteHistoricVersions is given a handle other than the one just committed (e.g. the stale pre-vacuum one): the version the vacuum superseded is never reclaimed, and a repeated vacuum changes the bucket")
}

func c09ExcludesLive(c *Ctx) {
	const rule = "C09.gc-excludes-live"
	fn := gcFunc(c)
	dhf := mustFunc(c, "kv", "", "DeleteHistoricVersions")
	if fn == nil || dhf == nil {
		return
	}
	// any subtraction from the candidate node set: delete(candidates, ..) or a walk over the live
	// tree's links (s.crdt.Mast as the receiver of a links traversal other than the pairwise diff)
	subtracts := false
	for _, f := range []*ssa.Function{fn, dhf} {
		for _, call := range an.Calls(f) {
			if bi, ok := call.Common().Value.(*ssa.Builtin); ok && bi.Name() == "delete" {
				if m, ok := call.Common().Args[0].Type().Underlying().(*types.Map); ok {
					if b, ok := m.Key().Underlying().(*types.Basic); ok && b.Kind() == types.String {
						if _, isInt := m.Elem().Underlying().(*types.Basic); isInt {
							subtracts = true
						}
					}
				}
			}
			if strings.Contains(calleeLabel(call), "Links") {
				rv := an.RecvValue(call)
				crdtF := an.LookupField(c.P, "kv", "DB", "crdt")
				if rv != nil && crdtF != nil && an.HasField(rv, crdtF) {
					subtracts = true
				}
			}
		}
	}
	// the walk that protects the live tree's links visits ALL of them: it is a diff against a tree
	// loaded from an empty root on every path (a diff against the parent version protects only what
	// the current version added: a node that an old diff reported removed and a later version links
	// again, inherited unchanged by the current one, would stay on the deletion list)
	emptyRootFn := c.P.LookupFunc("kv", "", "emptyRoot")
	var onlyEmpty func(v ssa.Value, d int) bool
	onlyEmpty = func(v ssa.Value, d int) bool {
		if d > 6 {
			return false
		}
		switch x := v.(type) {
		case *ssa.Call:
			return emptyRootFn != nil && x.Call.StaticCallee() == emptyRootFn
		case *ssa.Phi:
			for _, e := range x.Edges {
				if !onlyEmpty(e, d+1) {
					return false
				}
			}
			return len(x.Edges) > 0
		case *ssa.UnOp:
			if al, ok := x.X.(*ssa.Alloc); ok && x.Op == token.MUL {
				n := 0
				for _, r := range *al.Referrers() {
					if st, ok := r.(*ssa.Store); ok && st.Addr == ssa.Value(al) {
						n++
						if !onlyEmpty(st.Val, d+1) {
							return false
						}
					}
				}
				return n > 0
			}
		}
		return false
	}
	fullWalk, sawWalk := true, false
	for _, call := range an.Calls(fn) {
		if calleeLabel(call) != "DiffLinks" {
			continue
		}
		rv := an.RecvValue(call)
		crdtF := an.LookupField(c.P, "kv", "DB", "crdt")
		if rv == nil || crdtF == nil || !an.HasField(rv, crdtF) {
			continue // the pairwise diffs between a retired version and its successors
		}
		sawWalk = true
		// the other tree: <X>.Mast where X comes from crdt.Load(..., root)
		ok := false
		an.DependsOn(call.Common().Args[len(call.Common().Args)-2], func(v ssa.Value) bool {
			if cl, isCall := v.(*ssa.Call); isCall && calleeLabel(cl) == "Load" {
				args := cl.Call.Args
				if onlyEmpty(args[len(args)-1], 0) {
					ok = true
				}
			}
			return false
		})
		if !ok {
			fullWalk = false
		}
	}
	if sawWalk && !fullWalk {
		subtracts = false
	}
	c.R.Cond(subtracts, rule, core.FuncName(fn)+": node candidates exclude the live tree's links", c.P.Pos(fn.Pos()),
		"links of the retained current tree are removed from the deletion set",
		"the deletion set is 'links a retired version had and its successor dropped'; nothing removes ALL links that the current (or another retained) version has again (no walk of the live tree, or a walk that compares it with something else than an empty tree and so visits only part of it) — node objects are content-addressed, so a history that returns to earlier content (insert X, delete X, vacuum) deletes an object the current version refers to")
	_ = fmt.Sprint
}

func c10OneCutoff(c *Ctx) {
	const rule = "C10.one-cutoff"
	fn := mustFunc(c, "", "", "Vacuum")
	dh := mustFunc(c, "kv", "", "DeleteHistoricVersions")
	if fn == nil || dh == nil {
		return
	}
	name := core.FuncName(fn)
	sc := c.Scope(fn)
	cut := an.ParamNamed(fn, "beforeTime")
	if cut == nil {
		for _, p := range fn.Params {
			if nt := an.NamedOf(p.Type()); nt != nil && nt.Obj().Name() == "Time" {
				cut = p
			}
		}
	}
	if cut == nil {
		c.R.Errorf("Vacuum has no time.Time cutoff parameter")
		return
	}
	// the cutoff, or the cutoff clamped to a range: a value whose phi leaves are the parameter, a
	// package-level time (an end of the range) or such a time moved by a constant
	var clampedCut func(v ssa.Value, d int) bool
	clampedCut = func(v ssa.Value, d int) bool {
		v = sc.ArgOfParam(v)
		if an.SameValue(v, cut) {
			return true
		}
		if d > 6 {
			return false
		}
		switch x := v.(type) {
		case *ssa.Phi:
			sawCut := false
			for _, e := range x.Edges {
				if e == ssa.Value(x) {
					continue
				}
				if !clampedCut(e, d+1) {
					return false
				}
				if an.DependsOn(e, func(w ssa.Value) bool { return w == ssa.Value(cut) }) || an.SameValue(e, cut) {
					sawCut = true
				}
			}
			return sawCut
		case *ssa.UnOp:
			if g, ok := x.X.(*ssa.Global); ok && x.Op == token.MUL {
				nt := an.NamedOf(g.Type().(*types.Pointer).Elem())
				return nt != nil && nt.Obj().Name() == "Time"
			}
		case *ssa.Call:
			if f := x.Call.StaticCallee(); f != nil && an.PkgPathOf(f) == "time" && f.Name() == "Add" && len(x.Call.Args) == 2 {
				if _, isK := constInt(x.Call.Args[1]); isK {
					return clampedCut(x.Call.Args[0], d+1)
				}
			}
		}
		return false
	}
	var theCut ssa.Value // the one value all three sides must use
	isCut := func(v ssa.Value) bool {
		if !clampedCut(v, 0) {
			return false
		}
		// a bare range end is not the cutoff
		if _, isLoad := sc.ArgOfParam(v).(*ssa.UnOp); isLoad {
			return false
		}
		if theCut == nil {
			theCut = sc.ArgOfParam(v)
			return true
		}
		return an.SameValue(sc.ArgOfParam(v), theCut)
	}
	// the last use fixes the value: look at the purge and the version side first
	for _, call := range sc.Calls() {
		if an.CalleeIs(call, kvPkg, "DB", "RemoveTombstones") {
			a := call.Common().Args
			isCut(a[len(a)-1])
		}
	}
	// row side: a Before/After comparison whose argument is the cutoff
	rowSide := false
	for _, call := range sc.Calls() {
		f := call.Common().StaticCallee()
		if f != nil && an.PkgPathOf(f) == "time" && (f.Name() == "Before" || f.Name() == "After") {
			for _, a := range call.Common().Args {
				if isCut(a) {
					rowSide = true
				}
			}
		}
	}
	c.R.Cond(rowSide, rule, name+": row delete times are compared with the cutoff", c.P.Pos(fn.Pos()), "Before/After(cutoff) in the row loop", "the row-side test does not use the cutoff parameter itself")
	for _, t := range []struct{ typ, m, what string }{{"DB", "RemoveTombstones", "tombstone purge"}, {"", "DeleteHistoricVersions", "version side"}} {
		found := false
		for _, call := range sc.Calls() {
			if (t.typ != "" && an.CalleeIs(call, kvPkg, t.typ, t.m)) || (t.typ == "" && call.Common().StaticCallee() == dh) {
				found = true
				a := call.Common().Args
				c.R.Cond(isCut(a[len(a)-1]), rule, name+": "+t.what+" uses the same cutoff", c.P.Pos(call.Pos()), "the cutoff (as given, or clamped to the storable range) is the same value on all three sides", "the "+t.what+" gets a different time than the other sides: rows, tombstones and versions are reclaimed against different cutoffs")
			}
		}
		if !found {
			c.R.Bad(rule, name+": "+t.what+" uses the same cutoff", c.P.Pos(fn.Pos()), "Vacuum does not call "+t.m)
		}
	}
	// inside DeleteHistoricVersions the cutoff reaches the version-graph walk unchanged
	before := dh.Params[len(dh.Params)-1]
	gc := gcFunc(c)
	for _, call := range an.Calls(dh) {
		if gc != nil && call.Common().StaticCallee() == gc {
			ok := false
			for _, a := range call.Common().Args {
				if an.SameValue(a, before) {
					ok = true
				}
			}
			c.R.Cond(ok, rule, core.FuncName(dh)+": version walk uses the cutoff", c.P.Pos(call.Pos()), "passed unchanged", "the version-graph walk gets a different cutoff")
		}
	}
}

// ---- C10.gc-order: node objects are deleted before the version objects that say which they are ------

func init() {
	register(&Rule{Name: "C10.gc-order", Min: 1, Run: c10GcOrder,
		Doc: "DeleteHistoricVersions deletes every node object before any version object: the retired version objects are the only record of which nodes are garbage, so an interrupted vacuum can be completed by the next one"})
	register(&Rule{Name: "C09.gc-all-successors", Min: 2, Run: c09AllSuccessors,
		Doc: "a retired version becomes a deletion candidate only if none of the versions that superseded it is newer than the cutoff, and it is compared with all of them"})
	byProp["C10"] = append(byProp["C10"], "C10.gc-order", "C09.gc-all-successors", "C17.merge-result")
	byProp["C09"] = append(byProp["C09"], "C09.gc-all-successors", "C10.gc-order")
	byProp["C11"] = append(byProp["C11"], "C09.gc-all-successors")
	explain["C10"] += " gc-order: in DeleteHistoricVersions no DELETE of a version object (merged/) can run before a DELETE of a node object (no path from the former to the latter) — the garbage list is recomputed from the retired version objects on every vacuum, so deleting them first makes the nodes of an interrupted vacuum unreclaimable for ever. gc-all-successors (shared with C09/C11): a parent is a candidate only on paths on which no child was found newer than the cutoff (flag-sensitive), and the value recorded for it is the complete set of its children. merge-result (shared with C17): a merged version is always recorded as a parent, otherwise it is retired to merged/ but no version names it and vacuum never finds it."
	explain["C11"] += " gc-all-successors (shared with C09): a version forked into a child older and a child newer than the cutoff stays; the newer child still links its nodes."
}

func c10GcOrder(c *Ctx) {
	const rule = "C10.gc-order"
	dh := mustFunc(c, "kv", "", "DeleteHistoricVersions")
	mergedF := mustField(c, "kv", "DB", "merged")
	persistF := mustField(c, "kv", "DB", "persist")
	if dh == nil || mergedF == nil || persistF == nil {
		return
	}
	name := core.FuncName(dh)
	sc := c.Scope(dh)
	var nodes, roots []ssa.CallInstruction
	for _, f := range sc.Funcs {
		for _, del := range deleteCalls(f) {
			tgt := deleteTargetOf(del)
			if tgt == nil {
				continue
			}
			switch {
			case pathHas(tgt.PrefixThrough, mergedF):
				roots = append(roots, del)
			case pathHas(tgt.PrefixThrough, persistF):
				nodes = append(nodes, del)
			}
		}
	}
	if len(nodes) == 0 || len(roots) == 0 {
		c.R.Unk(rule, name+": nodes before versions", c.P.Pos(dh.Pos()), fmt.Sprintf("expected DELETEs of node objects and of merged/ version objects, found %d / %d", len(nodes), len(roots)))
		return
	}
	good := true
	why := ""
	for _, r := range roots {
		for _, n := range nodes {
			lr, ln := sc.Lift(r), sc.Lift(n)
			if lr.Block() == ln.Block() && !an.InstrBefore(ln, lr) || lr.Block() != ln.Block() && an.ReachableFromBlock(lr.Block(), ln.Block(), nil) {
				good = false
				why = fmt.Sprintf("the DELETE of a version object at %s can run before the DELETE of a node object at %s: if the vacuum is interrupted in between, the record of which nodes are garbage is gone and no later vacuum reclaims them", c.P.Pos(r.Pos()), c.P.Pos(n.Pos()))
			}
			if !an.ReachableFromBlock(ln.Block(), lr.Block(), nil) && lr.Block() != ln.Block() {
				good = false
				why = "the version objects are not deleted on the path that deletes the node objects"
			}
		}
	}
	c.R.Cond(good, rule, name+": nodes before versions", c.P.Pos(roots[0].Pos()), "no version-object DELETE can precede a node-object DELETE", why)
}

func c09AllSuccessors(c *Ctx) {
	const rule = "C09.gc-all-successors"
	fn := gcFunc(c)
	if fn == nil {
		return
	}
	name := core.FuncName(fn)
	// the dependents map: result of getDependents; the loop over it; the candidate store
	var depCall *ssa.Call
	for _, call := range an.Calls(fn) {
		// by role: the kv function that turns the version graph into the successors map
		// (getDependents today): its result type is the map of maps of *crdt.Root
		if cl, ok := call.(*ssa.Call); ok && isDependentsCall(call) {
			depCall = cl
		}
	}
	if depCall == nil {
		c.R.Unk(rule, name+": candidate selection", c.P.Pos(fn.Pos()), "no call of getDependents found")
		return
	}
	var cutoff *ssa.Parameter
	for _, p := range fn.Params {
		if nt := an.NamedOf(p.Type()); nt != nil && nt.Obj().Pkg() != nil && nt.Obj().Pkg().Path() == "time" && nt.Obj().Name() == "Time" {
			cutoff = p
		}
	}
	if cutoff == nil {
		c.R.Unk(rule, name+": candidate selection", c.P.Pos(fn.Pos()), "no cutoff parameter of type time.Time")
		return
	}
	n := 0
	for _, b := range fn.Blocks {
		for _, in := range b.Instrs {
			mu, ok := in.(*ssa.MapUpdate)
			if !ok {
				continue
			}
			kr := rangeOfNext(mu.Key)
			if kr == nil || an.Unwrap(kr.X) != ssa.Value(depCall) {
				continue
			}
			n++
			// (1) the value is the complete children set of that parent
			vr := rangeOfNext(mu.Value)
			whole := false
			if vr == kr {
				if ex, ok := an.Unwrap(mu.Value).(*ssa.Extract); ok && ex.Index == 2 {
					whole = true
				}
			}
			c.R.Cond(whole, rule, name+": candidate compared with all its successors", c.P.Pos(mu.Pos()),
				"the candidate is recorded with the complete set of versions that superseded it",
				"the candidate is recorded with a filtered set of its successors: nodes that a successor left out of the set still links are collected for deletion (a version forked into one child older and one newer than the cutoff loses nodes the newer child needs)")
			// (2) no path from a "too new" outcome to the store within the same outer iteration
			outerH := loopHeaderOf(b)
			stop := map[*ssa.BasicBlock]bool{}
			if outerH != nil {
				// the outer loop is the one over the dependents map: its header holds the Next of kr
				for h := outerH; h != nil; h = loopHeaderOf2(h) {
					stop[h] = true
					holds := false
					for _, hi := range h.Instrs {
						if nx, ok := hi.(*ssa.Next); ok && nx.Iter == ssa.Value(kr) {
							holds = true
						}
					}
					if holds {
						stop = map[*ssa.BasicBlock]bool{h: true}
						break
					}
				}
			}
			tests := 0
			good := true
			why := ""
			for _, at := range ageTests(fn, cutoff) {
				tb := at.b
				// only tests inside the loop over this parent's children (dominated by the outer header)
				if outerH == nil || !an.ReachableFromBlock(tb, b, nil) {
					continue
				}
				tests++
				if an.ReachableWithFacts(tb, tb.Succs[at.tooNewSide], b, stop, nil) {
					good = false
					why = fmt.Sprintf("from the outcome 'a successor is newer than the cutoff (or of unknown age)' at %s the candidate store is still reachable in the same iteration: a version is treated as history although a version that superseded it is not covered by the cutoff", c.P.Pos(at.pos))
				}
			}
			if tests == 0 {
				// the test sits in a boolean helper: "if allOldEnough(children, cutoff) { candidates[parent] = children }"
				an.GuardedByValue(an.Edge{From: b}, func(v ssa.Value) bool {
					cl, ok := v.(*ssa.Call)
					if !ok {
						return false
					}
					h := cl.Call.StaticCallee()
					if h == nil || len(h.Blocks) == 0 || an.PkgPathOf(h) != kvPkg {
						return false
					}
					var hc *ssa.Parameter
					getsChildren := false
					for ai, a := range cl.Call.Args {
						if an.Unwrap(a) == ssa.Value(cutoff) && ai < len(h.Params) {
							hc = h.Params[ai]
						}
						if rangeOfNext(a) == kr {
							getsChildren = true
						}
					}
					if hc == nil || !getsChildren {
						return false
					}
					// in the helper no "too new" outcome reaches a 'return true'
					var trues []*ssa.BasicBlock
					for _, hb := range h.Blocks {
						if ret, ok := hb.Instrs[len(hb.Instrs)-1].(*ssa.Return); ok && len(ret.Results) == 1 {
							if cb, isC := constBool(ret.Results[0]); !isC || cb {
								trues = append(trues, hb)
							}
						}
					}
					for _, at := range ageTests(h, hc) {
						tests++
						for _, tb := range trues {
							if an.ReachableWithFacts(at.b, at.b.Succs[at.tooNewSide], tb, nil, nil) {
								good = false
								why = fmt.Sprintf("in %s the outcome 'a successor is newer than the cutoff' at %s can still lead to 'return true'", core.FuncName(h), c.P.Pos(at.pos))
							}
						}
					}
					return true
				}, true)
			}
			if tests == 0 {
				good, why = false, "no comparison of a successor's creation time with the cutoff guards the candidate store"
			}
			c.R.Cond(good, rule, name+": candidate only if every successor is old enough", c.P.Pos(mu.Pos()), fmt.Sprintf("%d age tests; none of their 'too new' outcomes reaches the store", tests), why)
		}
	}
	if n == 0 {
		c.R.Unk(rule, name+": candidate selection", c.P.Pos(fn.Pos()), "no store into the candidate map keyed by the range over getDependents' result")
	}
}

type ageTest struct {
	b          *ssa.BasicBlock
	tooNewSide int
	pos        token.Pos
}

// ageTests finds the branches of fn that compare a creation time with the cutoff (After / Before) or
// test a Created field for nil, with the successor index of the "too new / unknown age" outcome.
func ageTests(fn *ssa.Function, cutoff *ssa.Parameter) []ageTest {
	var out []ageTest
	for _, tb := range fn.Blocks {
		iff, ok := tb.Instrs[len(tb.Instrs)-1].(*ssa.If)
		if !ok {
			continue
		}
		cond, neg := an.StripNot(iff.Cond)
		tooNewSide := -1
		switch x := cond.(type) {
		case *ssa.Call:
			f := x.Call.StaticCallee()
			if f == nil || an.PkgPathOf(f) != "time" || len(x.Call.Args) != 2 {
				break
			}
			usesCutoff := an.Unwrap(x.Call.Args[1]) == ssa.Value(cutoff) || an.Unwrap(x.Call.Args[0]) == ssa.Value(cutoff)
			if !usesCutoff {
				break
			}
			recvIsCutoff := an.Unwrap(x.Call.Args[0]) == ssa.Value(cutoff)
			switch f.Name() {
			case "After": // created.After(cutoff): too new when true
				tooNewSide = 0
				if recvIsCutoff {
					tooNewSide = 1
				}
			case "Before": // created.Before(cutoff): too new when false
				tooNewSide = 1
				if recvIsCutoff {
					tooNewSide = 0
				}
			}
		case *ssa.BinOp:
			// childRoot.Created == nil: unknown age counts as too new
			if x.Op == token.EQL || x.Op == token.NEQ {
				var tested ssa.Value
				if an.IsNilConst(x.Y) {
					tested = x.X
				} else if an.IsNilConst(x.X) {
					tested = x.Y
				}
				if tested != nil {
					if f := an.FieldOfLoad(tested); f != nil && f.Name() == "Created" {
						tooNewSide = 0
						if x.Op == token.NEQ {
							tooNewSide = 1
						}
					}
				}
			}
		}
		if tooNewSide < 0 {
			continue
		}
		if neg {
			tooNewSide = 1 - tooNewSide
		}
		out = append(out, ageTest{tb, tooNewSide, iff.Cond.Pos()})
	}
	return out
}

// loopHeaderOf2 returns the next enclosing loop header of a loop header h.
func loopHeaderOf2(h *ssa.BasicBlock) *ssa.BasicBlock {
	if h.Idom() == nil {
		return nil
	}
	return loopHeaderOf(h.Idom())
}

// ---- C09.purge-table: which kv tombstones RemoveTombstones sweeps ----------------------------------

func init() {
	register(&Rule{Name: "C09.purge-table", Min: 4, Run: c09PurgeTable,
		Doc: "decision table of RemoveTombstones' sweep over the sign of the tombstone time and its order with the cutoff: vacuum's own markers (zero time.Time, a negative nanosecond count) and tombstones before the cutoff are swept, live entries and newer tombstones are kept"})
	byProp["C09"] = append(byProp["C09"], "C09.purge-table", "C03.open-errors")
	byProp["C10"] = append(byProp["C10"], "C09.purge-table", "C03.open-errors")
	byProp["C04"] = append(byProp["C04"], "C09.purge-table")
	explain["C09"] += " purge-table: s3db.Vacuum purges a deleted row by a kv tombstone stamped time.Time{} (C04.vacuum-purge), whose UnixNano() is negative, and relies on RemoveTombstones sweeping it in the same vacuum; a marker that stays hides nothing (crdt.Get does not hide it) but blocks the key: re-inserting it dereferences a nil row. The sweep's callback is evaluated over the four order worlds of (tombstone time, 0, cutoff): negative -> deleted, zero (not a tombstone) -> kept, between 0 and the cutoff -> deleted, at or after the cutoff -> kept. open-errors (shared with C03): a version object that cannot be read while the version graph is loaded fails the vacuum — skipping it removes a reason not to delete its parent."
}

func c09PurgeTable(c *Ctx) {
	const rule = "C09.purge-table"
	fn := mustFunc(c, "kv", "*DB", "RemoveTombstones")
	if fn == nil {
		return
	}
	name := core.FuncName(fn)
	sc := c.Scope(fn)
	// the callback that deletes: the anonymous function (in scope or a closure of fn) calling Mast.Delete
	var cb *ssa.Function
	var del ssa.CallInstruction
	cands := append([]*ssa.Function{}, sc.Funcs...)
	cands = append(cands, fn.AnonFuncs...)
	for _, f := range cands {
		for _, call := range an.Calls(f) {
			if an.CalleeIs(call, mastPkg, "Mast", "Delete") {
				cb, del = f, call
			}
		}
	}
	if cb == nil {
		c.R.Unk(rule, name+": sweep", c.P.Pos(fn.Pos()), "no call of Mast.Delete found in RemoveTombstones")
		return
	}
	isTS := func(v ssa.Value) bool {
		switch x := v.(type) {
		case *ssa.Field:
			f := an.FieldVar(x.X.Type(), x.Field)
			return f != nil && f.Name() == "TombstoneSinceEpochNanos"
		case *ssa.UnOp:
			f := an.FieldOfLoad(x)
			return f != nil && f.Name() == "TombstoneSinceEpochNanos"
		}
		return false
	}
	isZero := func(v ssa.Value) bool {
		k, ok := v.(*ssa.Const)
		return ok && k.Value != nil && k.Value.String() == "0"
	}
	type world struct {
		name         string
		sign         int  // of ts
		beforeCutoff bool // ts < cutoff
		wantDelete   bool
	}
	worlds := []world{
		{"vacuum's marker (negative time)", -1, true, true},
		{"not a tombstone (zero)", 0, true, false},
		{"tombstone before the cutoff", 1, true, true},
		{"tombstone at or after the cutoff", 1, false, false},
	}
	cmp := func(op token.Token, lt, eq bool) (bool, bool) {
		// lt: left < right; eq: left == right
		switch op {
		case token.LSS:
			return lt, true
		case token.LEQ:
			return lt || eq, true
		case token.GTR:
			return !lt && !eq, true
		case token.GEQ:
			return !lt, true
		case token.EQL:
			return eq, true
		case token.NEQ:
			return !eq, true
		}
		return false, false
	}
	for _, w := range worlds {
		reached := false
		unknownCond := ""
		h := an.THooks{}
		h.Instr = func(in ssa.Instruction, st an.TState) an.TState {
			if in == del.(ssa.Instruction) {
				reached = true
			}
			return st
		}
		h.Branch = func(iff *ssa.If, side bool, st an.TState) an.TState {
			cond, neg := an.StripNot(iff.Cond)
			bo, ok := cond.(*ssa.BinOp)
			if !ok {
				return st
			}
			var val, known bool
			switch {
			case isTS(bo.X) && isZero(bo.Y):
				val, known = cmp(bo.Op, w.sign < 0, w.sign == 0)
			case isZero(bo.X) && isTS(bo.Y):
				val, known = cmp(bo.Op, w.sign > 0, w.sign == 0)
			case isTS(bo.X):
				val, known = cmp(bo.Op, w.beforeCutoff, false)
			case isTS(bo.Y):
				val, known = cmp(bo.Op, !w.beforeCutoff, false)
			default:
				return st
			}
			if !known {
				unknownCond = c.P.Pos(bo.Pos())
				return st
			}
			if (val != neg) != side {
				return nil
			}
			return st
		}
		an.WalkTypestate(cb, noState{}, h, nil)
		if unknownCond != "" {
			c.R.Unk(rule, name+": "+w.name, c.P.Pos(del.Pos()), "a comparison of the tombstone time of an unexpected shape at "+unknownCond)
			continue
		}
		why := "it is kept"
		if !w.wantDelete {
			why = "it is deleted"
		}
		okMsg := "kept"
		if w.wantDelete {
			okMsg = "swept"
		}
		c.R.Cond(reached == w.wantDelete, rule, name+": "+w.name, c.P.Pos(del.Pos()), okMsg,
			fmt.Sprintf("%s: %s — vacuum's purge markers must be swept by the same vacuum (a marker that stays blocks its key: re-inserting it panics), tombstones before the cutoff are reclaimed, everything else stays", w.name, why))
	}
}

// ---- C09.vacuum-outside-tx: the live handle is not swapped under a transaction snapshot -------------

func init() {
	register(&Rule{Name: "C09.vacuum-outside-tx", Min: 1, Run: c09VacuumOutsideTx,
		Doc: "Vacuum replaces the table's tree only when no transaction snapshot (txStart) is held: a ROLLBACK would otherwise restore the pre-vacuum tree, whose objects the vacuum has just deleted"})
	byProp["C09"] = append(byProp["C09"], "C09.vacuum-outside-tx")
	byProp["C05"] = append(byProp["C05"], "C09.vacuum-outside-tx")
	explain["C09"] += " vacuum-outside-tx: deleting storage cannot be rolled back, so the snapshot a ROLLBACK restores must not be older than the vacuum: every store to the table's tree in Vacuum is reached only under 'txStart == nil' (or after txStart was replaced)."
}

func c09VacuumOutsideTx(c *Ctx) {
	const rule = "C09.vacuum-outside-tx"
	fn := mustFunc(c, "", "", "Vacuum")
	txStart := mustField(c, "", "VirtualTable", "txStart")
	rootF := mustField(c, "", "KV", "Root")
	if fn == nil || txStart == nil || rootF == nil {
		return
	}
	name := core.FuncName(fn)
	sc := c.Scope(fn)
	n := 0
	for _, f := range sc.Funcs {
		for _, st := range an.StoresToField(f, rootF) {
			n++
			good := false
			// guarded by a nil test of txStart in the anchor (lifted position)
			pos := sc.Lift(st)
			if an.GuardedByNilTest(an.Edge{From: pos.Block()}, func(v ssa.Value) bool { return an.FieldOfLoad(v) == txStart }, true) {
				good = true
			}
			// or the snapshot is replaced before the swap
			for _, f2 := range sc.Funcs {
				for _, s2 := range an.StoresToField(f2, txStart) {
					if sc.Before(s2, st) {
						good = true
					}
				}
			}
			key := name + ": tree swapped only outside a transaction"
			if n > 1 {
				key += fmt.Sprintf("#%d", n)
			}
			c.R.Cond(good, rule, key, c.P.Pos(st.Pos()), "the swap is reached only when no transaction snapshot is held",
				"the vacuumed tree is installed while a transaction snapshot may be held: 'begin; update t … where <no row>; select * from s3db_vacuum(t, <future cutoff>); rollback' restores the pre-vacuum tree whose objects were just deleted — the table then reads as empty")
		}
	}
	if n == 0 {
		c.R.Unk(rule, name+": tree swapped only outside a transaction", c.P.Pos(fn.Pos()), "no store to the table's tree found in Vacuum")
	}
}

// ---- C09.gc-evicts-cache: what vacuum deletes, the node cache forgets ------------------------------

func init() {
	register(&Rule{Name: "C09.gc-evicts-cache", Min: 1, Run: c09EvictsCache,
		Doc: "every node object DeleteHistoricVersions deletes is also removed from the node cache, which mast consults as its record of what is already stored"})
	byProp["C09"] = append(byProp["C09"], "C09.gc-evicts-cache")
	byProp["C16"] = append(byProp["C16"], "C09.gc-evicts-cache")
	explain["C09"] += " gc-evicts-cache: mast skips the PUT of a node whose name its NodeCache contains (store.go: cache.Contains); the cache outlives a vacuum, so a node the vacuum deleted and a later commit re-creates with identical content would never be stored again (node_cache_entries>0: insert 1; insert 2; vacuum; delete 2; vacuum -> other readers see an empty table). In the loop that DELETEs node objects, the same name — under the store's NodeURLPrefix — is removed from cfg.NodeCache."
	explain["C16"] += " gc-evicts-cache (shared with C09): 'every object a version refers to exists' also after a vacuum with a node cache."
}

// sprintfShape describes a key built by fmt.Sprintf: the format constant and, per verb position, a
// label of what is passed.
func sprintfShape(v ssa.Value) (format string, args []ssa.Value, ok bool) {
	// a key kept in a (captured) local: the single value stored into it
	if ld, isLd := v.(*ssa.UnOp); isLd && ld.Op == token.MUL {
		if al, isAl := ld.X.(*ssa.Alloc); isAl {
			var src ssa.Value
			n := 0
			for _, r := range *al.Referrers() {
				if st, isSt := r.(*ssa.Store); isSt && st.Addr == ssa.Value(al) {
					src = st.Val
					n++
				}
			}
			if n == 1 {
				v = src
			}
		}
	}
	cl, isCall := an.Unwrap(v).(*ssa.Call)
	if !isCall {
		return "", nil, false
	}
	f := cl.Call.StaticCallee()
	if f == nil || an.PkgPathOf(f) != "fmt" || f.Name() != "Sprintf" || len(cl.Call.Args) != 2 {
		return "", nil, false
	}
	k, isK := cl.Call.Args[0].(*ssa.Const)
	if !isK || k.Value == nil || k.Value.Kind() != constant.String {
		return "", nil, false
	}
	// the variadic slice: new [N]any; stores at constant indices
	sl, isSl := cl.Call.Args[1].(*ssa.Slice)
	if !isSl {
		return "", nil, false
	}
	al, isAl := sl.X.(*ssa.Alloc)
	if !isAl {
		return "", nil, false
	}
	vals := map[int64]ssa.Value{}
	for _, r := range *al.Referrers() {
		ia, isIA := r.(*ssa.IndexAddr)
		if !isIA {
			continue
		}
		ik, isC := ia.Index.(*ssa.Const)
		if !isC || ia.Referrers() == nil {
			continue
		}
		for _, rr := range *ia.Referrers() {
			if st, isSt := rr.(*ssa.Store); isSt {
				vals[ik.Int64()] = st.Val
			}
		}
	}
	for i := int64(0); i < int64(len(vals)); i++ {
		args = append(args, vals[i])
	}
	return constant.StringVal(k.Value), args, true
}

// keyPiece is one piece of a string key: a literal or a computed part.
type keyPiece struct {
	lit string
	dyn ssa.Value
}

// keyTemplate reads how a string is put together: constants, + concatenation, fmt.Sprintf with a
// constant format of %s/%v verbs, and single-assignment locals are looked through; everything else is
// one computed piece.
func keyTemplate(v ssa.Value, depth int) ([]keyPiece, bool) {
	if depth > 8 {
		return nil, false
	}
	switch x := v.(type) {
	case *ssa.MakeInterface:
		return keyTemplate(x.X, depth+1)
	case *ssa.ChangeType:
		return keyTemplate(x.X, depth+1)
	case *ssa.Const:
		if x.Value != nil && x.Value.Kind() == constant.String {
			return []keyPiece{{lit: constant.StringVal(x.Value)}}, true
		}
		return nil, false
	case *ssa.BinOp:
		if x.Op == token.ADD {
			l, ok1 := keyTemplate(x.X, depth+1)
			r, ok2 := keyTemplate(x.Y, depth+1)
			return append(l, r...), ok1 && ok2
		}
	case *ssa.UnOp:
		if x.Op == token.MUL {
			if al, ok := x.X.(*ssa.Alloc); ok {
				var src ssa.Value
				n := 0
				for _, r := range *al.Referrers() {
					if st, ok := r.(*ssa.Store); ok && st.Addr == ssa.Value(al) {
						src = st.Val
						n++
					}
				}
				if n == 1 {
					return keyTemplate(src, depth+1)
				}
			}
		}
	case *ssa.Call:
		if f := x.Call.StaticCallee(); f != nil && an.PkgPathOf(f) == "fmt" && f.Name() == "Sprintf" {
			ft, args, ok := sprintfShape(x)
			if !ok {
				return nil, false
			}
			var out []keyPiece
			ai := 0
			for i := 0; i < len(ft); i++ {
				if ft[i] != '%' {
					out = append(out, keyPiece{lit: string(ft[i])})
					continue
				}
				if i+1 >= len(ft) {
					return nil, false
				}
				i++
				switch ft[i] {
				case '%':
					out = append(out, keyPiece{lit: "%"})
				case 's', 'v':
					if ai >= len(args) {
						return nil, false
					}
					sub, ok := keyTemplate(args[ai], depth+1)
					if !ok {
						return nil, false
					}
					out = append(out, sub...)
					ai++
				default:
					return nil, false
				}
			}
			return out, ai == len(args)
		}
	}
	return []keyPiece{{dyn: v}}, true
}

// normalise merges adjacent literals.
func normaliseKey(ps []keyPiece) []keyPiece {
	var out []keyPiece
	for _, p := range ps {
		if p.dyn == nil && p.lit == "" {
			continue
		}
		if p.dyn == nil && len(out) > 0 && out[len(out)-1].dyn == nil {
			out[len(out)-1].lit += p.lit
			continue
		}
		out = append(out, p)
	}
	return out
}

// keyShape renders a template with roles: P = derived from NodeURLPrefix(), N = the node's name (as
// decided by isName), ? = anything else.
func keyShape(ps []keyPiece, dep func(ssa.Value, func(ssa.Value) bool), isName func(ssa.Value) bool) string {
	var sb strings.Builder
	for _, p := range normaliseKey(ps) {
		if p.dyn == nil {
			sb.WriteString(fmt.Sprintf("%q", p.lit))
			continue
		}
		pre, nm := false, false
		dep(p.dyn, func(v ssa.Value) bool {
			if cl, ok := v.(*ssa.Call); ok && calleeLabel(cl) == "NodeURLPrefix" {
				pre = true
			}
			if isName != nil && isName(v) {
				nm = true
			}
			return false
		})
		switch {
		case pre && !nm:
			sb.WriteString("<P>")
		case nm && !pre:
			sb.WriteString("<N>")
		case isName == nil && !pre:
			sb.WriteString("<N>")
		default:
			sb.WriteString("<?>")
		}
	}
	return sb.String()
}

// mastCacheKeyShape is the shape of the key mast passes to NodeCache.Contains in (*mastNode).store.
func mastCacheKeyShape(c *Ctx) (string, string) {
	store := depMethod(c, mastPkg, "mastNode", "store")
	if store == nil {
		return "", "mast's (*mastNode).store not found"
	}
	plain := func(v ssa.Value, pred func(ssa.Value) bool) { an.DependsOn(v, pred) }
	fns := append([]*ssa.Function{store}, store.AnonFuncs...)
	for _, f := range fns {
		for _, call := range an.Calls(f) {
			if calleeLabel(call) != "Contains" || len(call.Common().Args) == 0 {
				continue
			}
			a := call.Common().Args[len(call.Common().Args)-1]
			if ps, ok := keyTemplate(a, 0); ok {
				return keyShape(ps, plain, nil), ""
			}
		}
	}
	return "", "cannot read how mast builds its cache key"
}

func c09EvictsCache(c *Ctx) {
	const rule = "C09.gc-evicts-cache"
	dh := mustFunc(c, "kv", "", "DeleteHistoricVersions")
	persistF := mustField(c, "kv", "DB", "persist")
	cacheF := mustField(c, "kv", "Config", "NodeCache")
	if dh == nil || persistF == nil || cacheF == nil {
		return
	}
	name := core.FuncName(dh)
	sc := c.Scope(dh)
	ref, refWhy := mastCacheKeyShape(c)
	if ref == "" {
		c.R.Unk(rule, name+": deleted nodes leave the cache", c.P.Pos(dh.Pos()), refWhy)
		return
	}
	c.R.Stats["C09.gc-evicts-cache.mast-key-shape:"+ref] = 1
	// dependence that follows a helper's parameters to the arguments at its only call site
	var scoped func(v ssa.Value, pred func(ssa.Value) bool)
	scoped = func(v ssa.Value, pred func(ssa.Value) bool) {
		an.DependsOn(v, func(w ssa.Value) bool {
			if p, ok := w.(*ssa.Parameter); ok {
				if a := sc.ArgOfParam(p); a != ssa.Value(p) {
					scoped(a, pred)
				}
			}
			if fv, ok := w.(*ssa.FreeVar); ok {
				if a := sc.ResolveFree(fv); a != ssa.Value(fv) {
					scoped(a, pred)
				}
			}
			return pred(w)
		})
	}
	n := 0
	for _, f := range sc.Funcs {
		for _, del := range deleteCalls(f) {
			tgt := deleteTargetOf(del)
			if tgt == nil || !pathHas(tgt.PrefixThrough, persistF) {
				continue
			}
			n++
			good := false
			why := "the loop that deletes node objects does not remove them from cfg.NodeCache: mast's 'already stored' test keeps answering yes for a deleted object, and a later commit that re-creates the same content skips its PUT — the committed version refers to an object that does not exist (node_cache_entries>0: insert 1; insert 2; vacuum; delete 2; vacuum: a fresh reader sees an empty table)"
			isName := func(v ssa.Value) bool {
				return tgt.KeySuffix != nil && (v == tgt.KeySuffix || an.Unwrap(v) == an.Unwrap(tgt.KeySuffix))
			}
			for _, call := range sc.Calls() {
				if calleeLabel(call) != "Remove" {
					continue
				}
				// same loop iteration: both sit (lifted to their common function) in one loop
				x, y, ok := scCommon(sc, call, del)
				if !ok {
					continue
				}
				H := loopHeaderOf(y.Block())
				if H == nil || loopHeaderOf(x.Block()) != H {
					continue
				}
				rv := call.Common().Value
				if !call.Common().IsInvoke() {
					rv = an.RecvValue(call)
				}
				isCache := false
				if rv != nil {
					scoped(rv, func(v ssa.Value) bool {
						if an.FieldOfLoad(v) == cacheF {
							isCache = true
						}
						return false
					})
				}
				args := call.Common().Args
				if !isCache || len(args) == 0 {
					continue
				}
				ps, ok := keyTemplate(args[len(args)-1], 0)
				if !ok {
					why = fmt.Sprintf("cannot read how the cache key removed at %s is built", c.P.Pos(call.Pos()))
					continue
				}
				shape := keyShape(ps, scoped, isName)
				if shape == ref {
					good = true
				} else {
					why = fmt.Sprintf("the cache key removed at %s has the shape %s, mast looks nodes up under %s (P = NodeURLPrefix(), N = the node's name): Remove of a key that is never present is silent, the deleted node stays 'already stored' for the cache", c.P.Pos(call.Pos()), shape, ref)
				}
			}
			c.R.Cond(good, rule, name+": deleted nodes leave the cache", c.P.Pos(del.Pos()), "the node's cache key "+ref+" is removed in the same loop", why)
		}
	}
	if n == 0 {
		c.R.Unk(rule, name+": deleted nodes leave the cache", c.P.Pos(dh.Pos()), "no DELETE of node objects found")
	}
}

// scCommon lifts two instructions to the deepest function of the scope that contains both.
func scCommon(sc *an.Scope, a, b ssa.Instruction) (ssa.Instruction, ssa.Instruction, bool) {
	return sc.Common(a, b)
}

// ---- C09.gc-retires-first: nothing vacuum is about to gut is still listed as current ----------------

func init() {
	register(&Rule{Name: "C09.gc-retires-first", Min: 1, Run: c09RetiresFirst,
		Doc: "before DeleteHistoricVersions deletes a node object, every retired version whose history it deletes has been removed from current/: retirement is best-effort, and a listed version with missing nodes makes every later open fail"})
	byProp["C09"] = append(byProp["C09"], "C09.gc-retires-first")
	byProp["C14"] = append(byProp["C14"], "C09.gc-retires-first")
	byProp["C03"] = append(byProp["C03"], "C09.gc-retires-first")
	explain["C09"] += " gc-retires-first: Commit's DELETE of a superseded version under current/ is best-effort (its failure is swallowed: no failure after the commit point), so a version this handle regards as history can still be listed; once vacuum has deleted some of the nodes only that version needs, every open that lists it fails in the merge ('merge: load … NoSuchKey') and the table cannot be attached any more. DeleteHistoricVersions therefore issues a DELETE under current/ for every name of the retired list, with its error honoured, on every path before the first node DELETE."
	explain["C14"] += " gc-retires-first (shared with C09): 'once the fault clears, a new open sees all committed data' after a swallowed retirement failure followed by an interrupted vacuum."
}

func c09RetiresFirst(c *Ctx) {
	const rule = "C09.gc-retires-first"
	dh := mustFunc(c, "kv", "", "DeleteHistoricVersions")
	rootF := mustField(c, "kv", "DB", "root")
	persistF := mustField(c, "kv", "DB", "persist")
	if dh == nil || rootF == nil || persistF == nil {
		return
	}
	name := core.FuncName(dh)
	var unlist, nodes []ssa.CallInstruction
	for _, d := range deleteCalls(dh) {
		t := deleteTargetOf(d)
		if t == nil {
			continue
		}
		switch {
		case pathHas(t.PrefixThrough, persistF):
			nodes = append(nodes, d)
		case pathHas(t.PrefixThrough, rootF) && retiredListElement(dh, t.KeySuffix):
			unlist = append(unlist, d)
		}
	}
	if len(nodes) == 0 {
		c.R.Unk(rule, name+": retired versions are unlisted first", c.P.Pos(dh.Pos()), "no DELETE of node objects found")
		return
	}
	good := len(unlist) > 0
	why := "no DELETE under current/ for the names of the retired list: a version whose best-effort retirement failed stays listed while vacuum deletes its nodes — entries_per_node=2: insert 24 rows; 'update … where a=3' with the DELETE under root/current/ refused; another update; s3db_vacuum interrupted at its 2nd node DELETE: every fresh open fails with 'merge: load: persist load …: NoSuchKey'"
	for _, u := range unlist {
		for _, nd := range nodes {
			// the un-listing loop is finished before the first node is deleted: the node DELETE is not
			// reachable without passing the loop, and the loop is not reachable from it
			if an.ReachableFromBlock(nd.Block(), u.Block(), nil) {
				good = false
				why = "a node object can be deleted before every retired version is removed from current/"
			}
			if !an.ReachableFromBlock(u.Block(), nd.Block(), nil) {
				good = false
				why = "the node deletions are not on the path that un-lists the retired versions"
			}
		}
		if ev, hasErr := an.ErrResult(u); !hasErr || ev == nil {
			good = false
			why = "the result of the DELETE under current/ is not looked at: if it fails the nodes are deleted all the same"
		} else if fl := an.AnalyzeErr(dh, ev); fl.Verdict != an.ErrPropagated {
			good = false
			why = "a failed DELETE under current/ does not stop the vacuum (" + fl.Verdict.String() + ")"
		}
	}
	pos := c.P.Pos(nodes[0].Pos())
	if len(unlist) > 0 {
		pos = c.P.Pos(unlist[0].Pos())
	}
	c.R.Cond(good, rule, name+": retired versions are unlisted first", pos, "DELETE current/<name> for every retired name, error honoured, before the first node DELETE", why)
}

func isDependentsCall(call ssa.CallInstruction) bool {
	cal := call.Common().StaticCallee()
	if cal == nil || an.PkgPathOf(cal) != kvPkg {
		return false
	}
	res := cal.Signature.Results()
	if res.Len() != 1 {
		return false
	}
	outer, ok := res.At(0).Type().Underlying().(*types.Map)
	if !ok {
		return false
	}
	inner, ok := outer.Elem().Underlying().(*types.Map)
	if !ok {
		return false
	}
	nt := an.NamedOf(inner.Elem())
	return nt != nil && nt.Obj().Name() == "Root"
}
