package rules

import (
	"fmt"
	"go/types"
	"strings"

	"golang.org/x/tools/go/ssa"

	"s3dbcheck/an"
	"s3dbcheck/core"
)

func init() {
	register(&Rule{Name: "C09.gc-same-set", Min: 1, Run: c09SameSet,
		Doc: "node objects are collected for deletion for exactly the versions whose version objects are deleted"})
	register(&Rule{Name: "C09.gc-diff-pairs", Min: 3, Run: c09DiffPairs,
		Doc: "a retired version's objects are compared with each of its own successors, and only links the successor dropped are collected"})
	register(&Rule{Name: "C09.vacuum-handle", Min: 2, Run: c09VacuumHandle,
		Doc: "history is deleted from the handle that was just committed, after it became the live tree"})
	register(&Rule{Name: "C09.gc-excludes-live", Min: 1, Run: c09ExcludesLive,
		Doc: "objects still linked by the retained current tree are taken out of the deletion set"})
	claim("C09", "C09 clauses decided (each a necessary condition of 'vacuum removes only storage no retained version needs'): gc-same-set, gc-diff-pairs, vacuum-handle, gc-excludes-live (violated: recorded known finding — content-addressed objects shared between a deleted and the current version are not protected), vacuum-order / vacuum-purge / who-deletes (shared with C04, C03). Not decided: whether a deleted object is in fact unreferenced for a given history (content-hash sharing between arbitrary versions is a runtime fact), dependency behaviour of mast's DiffLinks.",
		"C09.gc-same-set", "C09.gc-diff-pairs", "C09.vacuum-handle", "C09.gc-excludes-live", "C04.vacuum-order", "C04.vacuum-purge", "C03.who-deletes")
	register(&Rule{Name: "C10.one-cutoff", Min: 4, Run: c10OneCutoff,
		Doc: "one cutoff value decides the row side, the tombstone purge and the version side of a vacuum"})
	claim("C10", "C10 clauses decided: one-cutoff (the cutoff given to s3db_vacuum is, unchanged, the value compared with row delete times, passed to RemoveTombstones, and passed to DeleteHistoricVersions / the version-graph walk), vacuum-handle and gc-diff-pairs and gc-same-set (shared with C09: what is reclaimed is computed from the just-committed version graph, per retired version against its own successors), vacuum-purge (shared with C04). Not decided: strictness of the individual comparisons at the boundary (<, <=), idempotence of a repeated vacuum, which rows a given history leaves — runtime values.",
		"C10.one-cutoff", "C09.vacuum-handle", "C09.gc-diff-pairs", "C09.gc-same-set", "C04.vacuum-purge")
}

func gcFunc(c *Ctx) *ssa.Function { return mustFunc(c, "kv", "*DB", "getHistoricRootsAndNodes") }

// rangeOfNext returns the Range a value (key/value extract of a Next) iterates, if any.
func rangeOfNext(v ssa.Value) *ssa.Range {
	ex, ok := an.Unwrap(v).(*ssa.Extract)
	if !ok {
		return nil
	}
	nx, ok := ex.Tuple.(*ssa.Next)
	if !ok {
		return nil
	}
	r, _ := nx.Iter.(*ssa.Range)
	return r
}

func diffLinksCall(fn *ssa.Function) ssa.CallInstruction {
	for _, call := range an.Calls(fn) {
		if an.CalleeIs(call, mastPkg, "Mast", "DiffLinks") {
			return call
		}
	}
	return nil
}

func c09SameSet(c *Ctx) {
	const rule = "C09.gc-same-set"
	fn := gcFunc(c)
	if fn == nil {
		return
	}
	name := core.FuncName(fn)
	dl := diffLinksCall(fn)
	if dl == nil {
		c.R.Unk(rule, name+": node collection", c.P.Pos(fn.Pos()), "no DiffLinks call found")
		return
	}
	// the outer map loop around the node collection: the Range over a map of maps that dominates it
	var outer *ssa.Range
	for _, b := range fn.Blocks {
		for _, in := range b.Instrs {
			r, ok := in.(*ssa.Range)
			if !ok || !b.Dominates(dl.Block()) {
				continue
			}
			if m, ok := r.X.Type().Underlying().(*types.Map); ok {
				if _, inner := m.Elem().Underlying().(*types.Map); inner {
					// is the DiffLinks call inside this range's loop?
					for _, ref := range *r.Referrers() {
						if nx, ok := ref.(*ssa.Next); ok && nx.Block().Dominates(dl.Block()) && an.ReachableFromBlock(dl.Block(), nx.Block(), nil) {
							outer = r
						}
					}
				}
			}
		}
	}
	// the map whose keys become the returned version names
	var rootsFrom *ssa.Range
	for _, b := range fn.Blocks {
		for _, in := range b.Instrs {
			cl, ok := in.(*ssa.Call)
			if !ok {
				continue
			}
			bi, ok := cl.Call.Value.(*ssa.Builtin)
			if !ok || bi.Name() != "append" {
				continue
			}
			elems, lit := sliceLitElems(cl.Call.Args[1])
			if !lit || len(elems) != 1 {
				continue
			}
			r := rangeOfNext(elems[0])
			if r == nil {
				continue
			}
			if m, ok := r.X.Type().Underlying().(*types.Map); ok {
				if _, inner := m.Elem().Underlying().(*types.Map); inner {
					rootsFrom = r
				}
			}
		}
	}
	if outer == nil || rootsFrom == nil {
		c.R.Unk(rule, name+": candidate sets", c.P.Pos(dl.Pos()), "cannot identify the loop that collects nodes and the loop that lists the versions to delete")
		return
	}
	c.R.Cond(an.SameValue(outer.X, rootsFrom.X), rule, name+": nodes are collected for the versions that are deleted", c.P.Pos(dl.Pos()),
		"both loops range over the same candidate map", "node objects are collected by iterating a different set of versions than the set whose version objects are deleted: a version that is retained (newer than the cutoff) can lose its nodes")
}

func c09DiffPairs(c *Ctx) {
	const rule = "C09.gc-diff-pairs"
	fn := gcFunc(c)
	if fn == nil {
		return
	}
	name := core.FuncName(fn)
	dl := diffLinksCall(fn)
	if dl == nil {
		c.R.Unk(rule, name+": node collection", c.P.Pos(fn.Pos()), "no DiffLinks call found")
		return
	}
	loadOf := func(v ssa.Value) *ssa.Call {
		var found *ssa.Call
		an.DependsOn(v, func(w ssa.Value) bool {
			if cl, ok := w.(*ssa.Call); ok && an.CalleeIs(cl, crdtPkg, "", "Load") {
				found = cl
				return true
			}
			return false
		})
		return found
	}
	args := dl.Common().Args // recv, ctx, other, callback
	recvLoad, argLoad := loadOf(args[0]), loadOf(args[2])
	c.R.Cond(recvLoad != nil && argLoad != nil && recvLoad != argLoad, rule, name+": successor is diffed against its own predecessor", c.P.Pos(dl.Pos()),
		"DiffLinks(receiver = a loaded successor, argument = the loaded retired version)", "the links of a retired version are not compared with a successor loaded from the version graph (e.g. with the live tree instead): objects that a retained intermediate version still needs are collected")
	if recvLoad != nil && argLoad != nil {
		// the successor comes from the inner loop over the retired version's children, the
		// predecessor from the outer loop
		inner := an.DependsOn(recvLoad, func(w ssa.Value) bool { return rangeOfNext(w) != nil })
		c.R.Cond(inner, rule, name+": every successor is visited", c.P.Pos(recvLoad.Pos()), "the successor is an element of the loop over the retired version's children", "the successor does not come from iterating the retired version's children")
	}
	// the callback collects only links reported as removed
	var cb *ssa.Function
	if mc, ok := args[3].(*ssa.MakeClosure); ok {
		cb = mc.Fn.(*ssa.Function)
	}
	if cb == nil {
		c.R.Unk(rule, name+": collects dropped links only", c.P.Pos(dl.Pos()), "the DiffLinks callback is not a function literal")
		return
	}
	removedP := cb.Params[0]
	n := 0
	for _, b := range cb.Blocks {
		for _, in := range b.Instrs {
			if _, ok := in.(*ssa.MapUpdate); !ok {
				continue
			}
			n++
			g := an.GuardedByValue(an.Edge{From: b}, func(v ssa.Value) bool { return v == ssa.Value(removedP) }, true)
			c.R.Cond(g, rule, name+": collects dropped links only", c.P.Pos(in.Pos()), "a link becomes a deletion candidate only when the successor dropped it", "links the successor still has (or added) are collected for deletion")
		}
	}
	if n == 0 {
		c.R.Unk(rule, name+": collects dropped links only", c.P.Pos(cb.Pos()), "the callback records nothing")
	}
}

func c09VacuumHandle(c *Ctx) {
	const rule = "C09.vacuum-handle"
	fn := mustFunc(c, "", "", "Vacuum")
	dh := mustFunc(c, "kv", "", "DeleteHistoricVersions")
	kvRoot := mustField(c, "", "KV", "Root")
	if fn == nil || dh == nil || kvRoot == nil {
		return
	}
	name := core.FuncName(fn)
	sc := c.Scope(fn)
	var commit, dhCall ssa.CallInstruction
	for _, call := range sc.Calls() {
		if an.CalleeIs(call, kvPkg, "DB", "Commit") {
			commit = call
		}
		if call.Common().StaticCallee() == dh {
			dhCall = call
		}
	}
	if commit == nil || dhCall == nil {
		c.R.Unk(rule, name+": shape", c.P.Pos(fn.Pos()), "Vacuum does not both commit and delete history")
		return
	}
	committed := commit.Common().Args[0]
	var swap *ssa.Store
	for _, f := range sc.Funcs {
		for _, st := range an.StoresToField(f, kvRoot) {
			if f == commit.Parent() && sameExpr(st.Val, committed) {
				swap = st
			}
		}
	}
	c.R.Cond(swap != nil && sc.Before(swap, dhCall), rule, name+": committed tree is live before history is deleted", c.P.Pos(dhCall.Pos()),
		"Tree.Root = <committed clone> precedes DeleteHistoricVersions", "history is deleted while the connection still holds the pre-vacuum handle: if deletion fails half way the connection keeps a tree whose objects are gone")
	h := dhCall.Common().Args[1]
	good := dhCall.Parent() == commit.Parent() && sameExpr(h, committed)
	if !good && an.FieldOfLoad(h) == kvRoot && swap != nil && sc.Before(swap, dhCall) {
		good = true
	}
	c.R.Cond(good, rule, name+": history is computed from the committed handle", c.P.Pos(dhCall.Pos()),
		"DeleteHistoricVersions walks the version graph from the version just written", "DeleteHistoricVersions is given a handle other than the one just committed (e.g. the stale pre-vacuum one): the version the vacuum superseded is never reclaimed, and a repeated vacuum changes the bucket")
}

func c09ExcludesLive(c *Ctx) {
	const rule = "C09.gc-excludes-live"
	fn := gcFunc(c)
	dhf := mustFunc(c, "kv", "", "DeleteHistoricVersions")
	if fn == nil || dhf == nil {
		return
	}
	// any subtraction from the candidate node set: delete(candidates, ..) or a walk over the live
	// tree's links (s.crdt.Mast as the receiver of a links traversal other than the pairwise diff)
	subtracts := false
	for _, f := range []*ssa.Function{fn, dhf} {
		for _, call := range an.Calls(f) {
			if bi, ok := call.Common().Value.(*ssa.Builtin); ok && bi.Name() == "delete" {
				if m, ok := call.Common().Args[0].Type().Underlying().(*types.Map); ok {
					if b, ok := m.Key().Underlying().(*types.Basic); ok && b.Kind() == types.String {
						if _, isInt := m.Elem().Underlying().(*types.Basic); isInt {
							subtracts = true
						}
					}
				}
			}
			if strings.Contains(calleeLabel(call), "Links") {
				rv := an.RecvValue(call)
				crdtF := an.LookupField(c.P, "kv", "DB", "crdt")
				if rv != nil && crdtF != nil && an.HasField(rv, crdtF) {
					subtracts = true
				}
			}
		}
	}
	c.R.Cond(subtracts, rule, core.FuncName(fn)+": node candidates exclude the live tree's links", c.P.Pos(fn.Pos()),
		"links of the retained current tree are removed from the deletion set",
		"the deletion set is 'links a retired version had and its successor dropped'; nothing removes links that the current (or another retained) version has again — node objects are content-addressed, so a history that returns to earlier content (insert X, delete X, vacuum) deletes an object the current version refers to")
	_ = fmt.Sprint
}

func c10OneCutoff(c *Ctx) {
	const rule = "C10.one-cutoff"
	fn := mustFunc(c, "", "", "Vacuum")
	dh := mustFunc(c, "kv", "", "DeleteHistoricVersions")
	if fn == nil || dh == nil {
		return
	}
	name := core.FuncName(fn)
	sc := c.Scope(fn)
	cut := an.ParamNamed(fn, "beforeTime")
	if cut == nil {
		for _, p := range fn.Params {
			if nt := an.NamedOf(p.Type()); nt != nil && nt.Obj().Name() == "Time" {
				cut = p
			}
		}
	}
	if cut == nil {
		c.R.Errorf("Vacuum has no time.Time cutoff parameter")
		return
	}
	isCut := func(v ssa.Value) bool { return an.SameValue(sc.ArgOfParam(v), cut) }
	// row side: a Before/After comparison whose argument is the cutoff
	rowSide := false
	for _, call := range sc.Calls() {
		f := call.Common().StaticCallee()
		if f != nil && an.PkgPathOf(f) == "time" && (f.Name() == "Before" || f.Name() == "After") {
			for _, a := range call.Common().Args {
				if isCut(a) {
					rowSide = true
				}
			}
		}
	}
	c.R.Cond(rowSide, rule, name+": row delete times are compared with the cutoff", c.P.Pos(fn.Pos()), "Before/After(cutoff) in the row loop", "the row-side test does not use the cutoff parameter itself")
	for _, t := range []struct{ typ, m, what string }{{"DB", "RemoveTombstones", "tombstone purge"}, {"", "DeleteHistoricVersions", "version side"}} {
		found := false
		for _, call := range sc.Calls() {
			if (t.typ != "" && an.CalleeIs(call, kvPkg, t.typ, t.m)) || (t.typ == "" && call.Common().StaticCallee() == dh) {
				found = true
				a := call.Common().Args
				c.R.Cond(isCut(a[len(a)-1]), rule, name+": "+t.what+" uses the same cutoff", c.P.Pos(call.Pos()), "the cutoff parameter is passed unchanged", "the "+t.what+" gets a different time than the row side: rows, tombstones and versions are reclaimed against different cutoffs")
			}
		}
		if !found {
			c.R.Bad(rule, name+": "+t.what+" uses the same cutoff", c.P.Pos(fn.Pos()), "Vacuum does not call "+t.m)
		}
	}
	// inside DeleteHistoricVersions the cutoff reaches the version-graph walk unchanged
	before := dh.Params[len(dh.Params)-1]
	gc := gcFunc(c)
	for _, call := range an.Calls(dh) {
		if gc != nil && call.Common().StaticCallee() == gc {
			ok := false
			for _, a := range call.Common().Args {
				if an.SameValue(a, before) {
					ok = true
				}
			}
			c.R.Cond(ok, rule, core.FuncName(dh)+": version walk uses the cutoff", c.P.Pos(call.Pos()), "passed unchanged", "the version-graph walk gets a different cutoff")
		}
	}
}
