package rules

import (
	"fmt"
	"go/token"
	"go/types"
	"sort"
	"strings"

	"golang.org/x/tools/go/ssa"

	"s3dbcheck/an"
	"s3dbcheck/core"
)

func init() {
	register(&Rule{Name: "C17.join-table", Min: 3, Run: c17JoinTable,
		Doc: "the decision table of crdt.LastWriteWins, extracted over the finite order domain, is the documented join"})
	register(&Rule{Name: "C17.local-update", Min: 1, Run: c17LocalUpdate,
		Doc: "a local Set/Tombstone stores the join of the new and the existing entry"})
	register(&Rule{Name: "C17.trace-cutoff", Min: 1, Run: c17TraceCutoff,
		Doc: "TraceHistory bounds every deeper level by the time of the entry it just reported"})
	register(&Rule{Name: "C17.diff-visible", Min: 2, Run: c17DiffVisible,
		Doc: "Diff compares visible values (tombstones read as absent) and reports only unequal ones"})
	claim("C17", "C17 clauses decided: join-table (LastWriteWins and its helpers touch their inputs only through comparisons of the same field and zero tests; their decision table over the finite order domain — which side is tombstoned, sign of the difference of modification and tombstone times — is extracted by abstract interpretation and equals the documented rule: a tombstone beats a value, the earliest tombstone wins, otherwise the later modification wins), merge-inserts (shared with C03: the tree merge inserts that join for every differing key), local-update, trace-cutoff, diff-visible. Not decided: the composition over whole histories (which entries a history produces), Diff completeness inside mast, JSON vs gob root formats.",
		"C17.join-table", "C03.merge-inserts", "C17.local-update", "C17.trace-cutoff", "C17.diff-visible")
}

func joinWorlds() []an.OrderWorld {
	var out []an.OrderWorld
	for _, tA := range []bool{false, true} {
		for _, tB := range []bool{false, true} {
			for _, cm := range []int{-1, 0, 1} {
				for _, ct := range []int{-1, 0, 1} {
					// consistency of the zero facts with the order of the tombstone times
					if !tA && !tB && ct != 0 {
						continue
					}
					if tA != tB && ct == 0 {
						continue
					}
					out = append(out, an.OrderWorld{
						Cmp:     map[string]int{"ModEpochNanos": cm, "TombstoneSinceEpochNanos": ct},
						NonZero: map[string]bool{"A.TombstoneSinceEpochNanos": tA, "B.TombstoneSinceEpochNanos": tB},
					})
				}
			}
		}
	}
	return out
}

func c17JoinTable(c *Ctx) {
	const rule = "C17.join-table"
	fn := mustFunc(c, "kv/crdt", "", "LastWriteWins")
	if fn == nil {
		return
	}
	name := core.FuncName(fn)
	type class struct {
		name  string
		n     int
		bad   []string
		ties  int
	}
	classes := map[string]*class{
		"one-tombstone":  {name: "exactly one side tombstoned: the tombstone wins"},
		"both-tombstone": {name: "both tombstoned: the earlier tombstone wins"},
		"no-tombstone":   {name: "no tombstone: the later modification wins"},
	}
	fields := map[string]bool{}
	for _, w := range joinWorlds() {
		got, seen, err := an.EvalOrderFunc(fn, w)
		for k := range seen {
			fields[k] = true
		}
		if err != nil {
			c.R.Unk(rule, name+": comparison-only", c.P.Pos(fn.Pos()), "the join is no longer a comparison-only function whose decision table can be extracted: "+err.Error())
			return
		}
		tA, tB := w.NonZero["A.TombstoneSinceEpochNanos"], w.NonZero["B.TombstoneSinceEpochNanos"]
		var cl *class
		want := "" // "" = tie: either is fine
		switch {
		case tA != tB:
			cl = classes["one-tombstone"]
			want = "B"
			if tA {
				want = "A"
			}
		case tA && tB:
			cl = classes["both-tombstone"]
			switch w.Cmp["TombstoneSinceEpochNanos"] {
			case -1:
				want = "A"
			case 1:
				want = "B"
			}
		default:
			cl = classes["no-tombstone"]
			switch w.Cmp["ModEpochNanos"] {
			case 1:
				want = "A"
			case -1:
				want = "B"
			}
		}
		cl.n++
		if want == "" {
			cl.ties++
			continue
		}
		if got != want {
			cl.bad = append(cl.bad, fmt.Sprintf("%s -> returns %s, documented rule says %s", w, got, want))
		}
	}
	var ks []string
	for k := range classes {
		ks = append(ks, k)
	}
	sort.Strings(ks)
	total := 0
	for _, k := range ks {
		cl := classes[k]
		total += cl.n
		c.R.Cond(len(cl.bad) == 0, rule, name+": "+cl.name, c.P.Pos(fn.Pos()),
			fmt.Sprintf("%d order worlds checked (%d ties, where either result is allowed)", cl.n, cl.ties), strings.Join(cl.bad, "; "))
	}
	c.R.Stats["C17.join.worlds"] = total
	var fs []string
	for k := range fields {
		fs = append(fs, k)
	}
	sort.Strings(fs)
	c.R.Notes = append(c.R.Notes, "join conditions found: "+strings.Join(fs, ", "))
}

func c17LocalUpdate(c *Ctx) {
	const rule = "C17.local-update"
	fn := mustFunc(c, "kv/internal/crdt", "*Tree", "update")
	lww := mustFunc(c, "kv/crdt", "", "LastWriteWins")
	if fn == nil || lww == nil {
		return
	}
	name := core.FuncName(fn)
	cvP := fn.Params[len(fn.Params)-1]
	var joins []*ssa.Call
	usc := c.Scope(fn)
	for _, call := range an.Calls(fn) {
		cl, ok := call.(*ssa.Call)
		if !ok {
			continue
		}
		if cl.Call.StaticCallee() == lww {
			joins = append(joins, cl)
			continue
		}
		// a helper of update that performs the join on its own arguments
		if cal := cl.Call.StaticCallee(); cal != nil && usc.Contains(cal) {
			for _, ic := range an.Calls(cal) {
				if icl, ok := ic.(*ssa.Call); ok && icl.Call.StaticCallee() == lww {
					fromParams := 0
					for _, a := range icl.Call.Args {
						if an.DependsOn(a, func(v ssa.Value) bool { _, isP := v.(*ssa.Parameter); return isP }) {
							fromParams++
						}
					}
					if fromParams == len(icl.Call.Args) {
						joins = append(joins, cl)
					}
				}
			}
		}
	}
	k := 0
	for _, call := range an.Calls(fn) {
		if !an.CalleeIs(call, mastPkg, "Mast", "Insert") {
			continue
		}
		k++
		val := call.Common().Args[3]
		fromJoin := an.DependsOn(val, func(v ssa.Value) bool {
			for _, j := range joins {
				if v == ssa.Value(j) {
					return true
				}
			}
			return false
		})
		fromNew := an.DependsOn(val, func(v ssa.Value) bool { return v == ssa.Value(cvP) })
		// the branch on "contains": with an existing entry the join must be stored
		contains := false
		if g := guardOfBoolExtract(fn, call.Block(), "Get"); g != nil {
			contains = *g
		} else if ph, ok := an.Unwrap(val).(*ssa.Phi); ok {
			// one Insert for both cases: classify the incoming values by the branch they come from
			okAll := true
			for i, e := range ph.Edges {
				g := guardOfBoolExtract(fn, ph.Block().Preds[i], "Get")
				eJoin := an.DependsOn(e, func(v ssa.Value) bool {
					for _, j := range joins {
						if v == ssa.Value(j) {
							return true
						}
					}
					return false
				})
				if g != nil && *g && !eJoin {
					okAll = false
				}
				if g == nil && !eJoin && !an.DependsOn(e, func(v ssa.Value) bool { return v == ssa.Value(cvP) }) {
					okAll = false
				}
			}
			k++
			c.R.Cond(okAll && len(joins) > 0, rule, fmt.Sprintf("%s: existing entry -> stores the join", name), c.P.Pos(call.Pos()),
				"the value inserted on the 'entry exists' path is the join of new and existing", "with an existing entry the value stored is not the join of new and existing")
			continue
		}
		if contains {
			c.R.Cond(fromJoin, rule, fmt.Sprintf("%s: existing entry -> stores the join", name), c.P.Pos(call.Pos()),
				"Insert(key, *LastWriteWins(&new, &existing))", "with an existing entry the value stored is not the join of new and existing (a newer stored value can be overwritten by an older write)")
		} else {
			c.R.Cond(fromNew || fromJoin, rule, fmt.Sprintf("%s: no entry -> stores the new value", name), c.P.Pos(call.Pos()), "Insert(key, cv)", "the value stored for a fresh key is not the value given")
		}
	}
	if k == 0 {
		c.R.Bad(rule, name+": stores", c.P.Pos(fn.Pos()), "update never inserts")
	}
	// every successful return follows an Insert: no condition short-cuts the join (a 'the tree
	// already has a later value' exit also drops back-dated tombstones, which must win)
	{
		h := an.THooks{Instr: func(in ssa.Instruction, st an.TState) an.TState {
			if cl, ok := in.(ssa.CallInstruction); ok && an.CalleeIs(cl, mastPkg, "Mast", "Insert") {
				return ackState{set: true}
			}
			return st
		}}
		exits := an.WalkTypestate(fn, ackState{}, h, usc)
		good := len(exits) > 0
		why := ""
		for _, ex := range exits {
			if ex.ErrNil != 0 && !ex.St.(ackState).set {
				good = false
				why = "update can return success at " + c.P.Pos(ex.Ret.Pos()) + " without storing anything: whatever condition decides that (e.g. 'the stored value is later') is applied to tombstones too, and a tombstone must beat every value regardless of time"
			}
		}
		c.R.Cond(good, rule, name+": every successful return follows a store", c.P.Pos(fn.Pos()), "no exit skips the join and the Insert", why)
	}
	// the join gets both the new and the existing value
	for _, j := range joins {
		first := j.Call.Args[0]
		if cal := j.Call.StaticCallee(); cal != nil && cal.Signature.Recv() != nil && len(j.Call.Args) > 1 {
			first = j.Call.Args[1] // a helper method: skip its receiver
		}
		a0 := an.DependsOn(first, func(v ssa.Value) bool { return v == ssa.Value(cvP) })
		c.R.Cond(a0, rule, name+": join(new, existing)", c.P.Pos(j.Pos()), "the new value is the first argument (ties go to the new value)", "the join is not called with the new value first")
	}
}

// guardOfBoolExtract: is block b only reached when the boolean result (extract #0) of a call to a
// method named `method` is true (-> true) / false (-> false)? nil if undetermined.
func guardOfBoolExtract(fn *ssa.Function, b *ssa.BasicBlock, method string) *bool {
	for _, blk := range fn.Blocks {
		iff, ok := blk.Instrs[len(blk.Instrs)-1].(*ssa.If)
		if !ok {
			continue
		}
		cond, neg := an.StripNot(iff.Cond)
		ex, ok := cond.(*ssa.Extract)
		if !ok || ex.Index != 0 {
			continue
		}
		cl, ok := ex.Tuple.(*ssa.Call)
		if !ok || calleeLabel(cl) != method {
			continue
		}
		for si := 0; si < 2; si++ {
			if an.OnlyVia(blk, si, b) {
				v := si == 0
				if neg {
					v = !v
				}
				return &v
			}
		}
	}
	return nil
}

func c17TraceCutoff(c *Ctx) {
	const rule = "C17.trace-cutoff"
	fn := mustFunc(c, "kv", "*DB", "TraceHistory")
	cutoffF := mustField(c, "kv", "dbAndCutoff", "cutoff")
	modF := mustField(c, "kv/crdt", "Value", "ModEpochNanos")
	if fn == nil || cutoffF == nil || modF == nil {
		return
	}
	name := core.FuncName(fn)
	// the entry reported by this iteration: the local the Get call fills (gv)
	var gv ssa.Value
	for _, call := range an.Calls(fn) {
		if an.CalleeIs(call, mastPkg, "Mast", "Get") {
			a := call.Common().Args
			gv = an.Unwrap(a[len(a)-1])
		}
	}
	if gv == nil {
		c.R.Unk(rule, name+": reported entry", c.P.Pos(fn.Pos()), "no Mast.Get call found")
		return
	}
	sc := c.Scope(fn)
	n := 0
	for _, f := range sc.Funcs {
		for _, st := range an.StoresToField(f, cutoffF) {
			if k, ok := st.Val.(*ssa.Const); ok && k.Value != nil {
				continue // the initial MaxInt64 of the starting point
			}
			n++
			val := sc.ArgOfParam(st.Val) // a helper may receive the cutoff as a parameter
			good := false
			if fv := an.FieldOfLoad(val); fv == modF {
				if ld, ok := val.(*ssa.UnOp); ok && ld.Op == token.MUL {
					if fa, ok := ld.X.(*ssa.FieldAddr); ok && fa.X == gv {
						good = true
					}
				}
			}
			c.R.Cond(good, rule, fmt.Sprintf("%s: deeper level #%d is bounded by the reported entry's time", name, n), c.P.Pos(st.Pos()),
				"cutoff = gv.ModEpochNanos of the entry just reported", "a previous version is queued with a cutoff other than the time of the entry just reported (e.g. the inherited one): entries newer than an already reported one can be yielded, history is no longer strictly decreasing")
		}
	}
	if n == 0 {
		c.R.Unk(rule, name+": deeper levels", c.P.Pos(fn.Pos()), "no non-constant cutoff assignment found")
	}
}

func c17DiffVisible(c *Ctx) {
	const rule = "C17.diff-visible"
	diff := mustFunc(c, "kv", "DB", "Diff")
	inner := mustFunc(c, "kv", "", "innerValue")
	if diff == nil || inner == nil {
		return
	}
	// the callback handed to DiffIter
	var cb *ssa.Function
	dsc := c.Scope(diff)
	for _, f := range c.P.RepoFuncs(func(rel string) bool { return rel == "kv" }) {
		if f.Parent() != nil && dsc.Contains(f.Parent()) {
			cb = f // the callback literal, in Diff itself or in a factory only Diff calls
		}
	}
	if cb == nil {
		c.R.Unk(rule, core.FuncName(diff)+": callback", c.P.Pos(diff.Pos()), "no closure found in Diff")
		return
	}
	name := core.FuncName(cb)
	c.R.SawFunc(name)
	// user callback f is called only when !DeepEqual(innerValue(added), innerValue(removed))
	var userCalls []ssa.CallInstruction
	for _, call := range an.Calls(cb) {
		if _, isFree := call.Common().Value.(*ssa.FreeVar); isFree {
			userCalls = append(userCalls, call)
		}
		if ld, ok := call.Common().Value.(*ssa.UnOp); ok {
			if _, isFree := ld.X.(*ssa.FreeVar); isFree {
				userCalls = append(userCalls, call)
			}
		}
	}
	if len(userCalls) == 0 {
		c.R.Bad(rule, name+": reports", c.P.Pos(cb.Pos()), "the diff callback never invokes the user's function")
		return
	}
	for i, uc := range userCalls {
		guard := false
		for _, blk := range cb.Blocks {
			iff, ok := blk.Instrs[len(blk.Instrs)-1].(*ssa.If)
			if !ok {
				continue
			}
			cond, neg := an.StripNot(iff.Cond)
			cl, ok := cond.(*ssa.Call)
			if !ok || cl.Call.StaticCallee() == nil || cl.Call.StaticCallee().Name() != "DeepEqual" {
				continue
			}
			viaInner := 0
			for _, a := range cl.Call.Args {
				if an.DependsOn(a, func(v ssa.Value) bool {
					ic, ok := v.(*ssa.Call)
					return ok && ic.Call.StaticCallee() == inner
				}) {
					viaInner++
				}
			}
			si := 1
			if neg {
				si = 0
			}
			if viaInner == 2 && an.OnlyVia(blk, si, uc.Block()) {
				guard = true
			}
		}
		c.R.Cond(guard, rule, fmt.Sprintf("%s: report #%d only for unequal visible values", name, i+1), c.P.Pos(uc.Pos()),
			"f is called only when the visible values (innerValue of both sides) are not DeepEqual", "a key can be reported although its visible value is equal on both sides (or the comparison is not on visible values)")
		// the values handed to f are the visible values
		args := uc.Common().Args
		vis := 0
		for _, a := range args {
			if an.DependsOn(a, func(v ssa.Value) bool {
				ic, ok := v.(*ssa.Call)
				return ok && ic.Call.StaticCallee() == inner
			}) {
				vis++
			}
		}
		c.R.Cond(vis >= 2, rule, fmt.Sprintf("%s: report #%d passes visible values", name, i+1), c.P.Pos(uc.Pos()), "both values go through innerValue (a tombstone reads as absent)", "raw entry values are passed to the user (tombstones visible)")
	}
	// innerValue: tombstoned -> nil
	tombF := an.LookupField(c.P, "kv/crdt", "Value", "TombstoneSinceEpochNanos")
	ok := false
	for _, blk := range inner.Blocks {
		iff, isIf := blk.Instrs[len(blk.Instrs)-1].(*ssa.If)
		if !isIf {
			continue
		}
		cond, neg := an.StripNot(iff.Cond)
		bo, isBo := cond.(*ssa.BinOp)
		if !isBo || (bo.Op != token.NEQ && bo.Op != token.EQL) {
			continue
		}
		if an.FieldOfLoad(bo.X) != tombF && an.FieldOfLoad(bo.Y) != tombF {
			continue
		}
		ne := bo.Op == token.NEQ
		if neg {
			ne = !ne
		}
		si := 0
		if !ne {
			si = 1
		}
		s := blk.Succs[si]
		if ret, isRet := s.Instrs[len(s.Instrs)-1].(*ssa.Return); isRet && an.IsNilConst(an.RetVal(ret, 0)) {
			ok = true
		}
	}
	c.R.Cond(ok, rule, core.FuncName(inner)+": a tombstone reads as absent", c.P.Pos(inner.Pos()), "TombstoneSinceEpochNanos != 0 -> nil", "innerValue does not map tombstoned entries to nil")
}

// ---- C17.merge-result: the merged tree is the join, never one side taken whole ----------------------

func init() {
	register(&Rule{Name: "C17.merge-result", Min: 4, Run: c17MergeResult,
		Doc: "Tree.Merge replaces the receiving tree only by mergeTrees(own tree, other tree); mergeTrees returns a clone of the primary into which every graft was diffed with the merge callback"})
	for _, id := range []string{"C17", "C01", "C03", "C04"} {
		byProp[id] = append(byProp[id], "C17.merge-result")
	}
	explain["C17"] += " merge-result: the only value ever assigned to the receiving tree in Tree.Merge is the result of mergeTrees called with the receiver's own tree as primary and the other tree as graft; mergeTrees' successful result is the clone of the primary (or the primary itself when there is nothing to graft) after DiffIter ran on it for each element of the graft list with a callback built from the merge function and that same clone. A shortcut that adopts one side wholesale ('the other tree descends from ours') loses whatever the other side lacks."
	byProp["C01"] = append(byProp["C01"], "C07.compare-only", "C07.convert-range")
	explain["C01"] += " compare-only / convert-range (shared with C07): the tree merge is a merge-join in key order followed by insert-by-key, so a comparator that equates distinct keys (integers beyond 2^53 compared through float64) conflates two writers' rows, and which one survives depends on the merge order."
	explain["C04"] += " merge-result (shared with C17): an open that finds leftovers of an interrupted commit (parent and child both listed) must still fold them entry by entry; adopting the child wholesale drops other clients' acknowledged rows."
}

type mergeRec struct{ recorded, anonymous bool }

func (m mergeRec) Key() string { return fmt.Sprintf("%v/%v", m.recorded, m.anonymous) }

func c17MergeResult(c *Ctx) {
	const rule = "C17.merge-result"
	merge := mustFunc(c, "kv/internal/crdt", "*Tree", "Merge")
	mt := mustFunc(c, "kv/internal/crdt", "", "mergeTrees")
	mastF := mustField(c, "kv/internal/crdt", "Tree", "Mast")
	if merge == nil || mt == nil || mastF == nil {
		return
	}
	name := core.FuncName(merge)
	sc := c.Scope(merge)
	recv := merge.Params[0]
	other := merge.Params[1+1] // ctx, other
	if len(merge.Params) >= 3 {
		other = merge.Params[2]
	}
	loadsMastOf := func(v ssa.Value, root ssa.Value) bool {
		v = an.Unwrap(v)
		return an.FieldOfLoad(v) == mastF && an.ExprRoot(v) == root
	}
	n := 0
	for _, f := range sc.Funcs {
		for _, st := range an.StoresToField(f, mastF) {
			if an.ExprRoot(st.Addr) != ssa.Value(recv) && sc.ArgOfParam(an.ExprRoot(st.Addr)) != ssa.Value(recv) {
				continue
			}
			n++
			key := fmt.Sprintf("%s: tree replaced by the join", name)
			if n > 1 {
				key += fmt.Sprintf("#%d", n)
			}
			good := false
			why := "the receiving tree is assigned a value that is not the result of mergeTrees(own tree, other tree): a merge that adopts one side wholesale loses the entries only the other side has"
			if ex, ok := an.Unwrap(st.Val).(*ssa.Extract); ok && ex.Index == 0 {
				if cl, ok := ex.Tuple.(*ssa.Call); ok && cl.Common().StaticCallee() == mt {
					args := cl.Common().Args
					primaryOK := len(args) >= 5 && loadsMastOf(args[3], recv)
					graftOK := false
					if len(args) >= 5 {
						an.DependsOn(args[4], func(v ssa.Value) bool {
							if loadsMastOf(v, other) {
								graftOK = true
							}
							return false
						})
					}
					if primaryOK && graftOK {
						good = true
					} else {
						why = fmt.Sprintf("mergeTrees is not called with the receiver's tree as primary (%v) and the other tree as graft (%v)", primaryOK, graftOK)
					}
					if ok, w := sc.SuccessDominates(cl, st); !ok {
						good, why = false, "the result of a failed mergeTrees can be installed: "+w
					}
				}
			}
			c.R.Cond(good, rule, key, c.P.Pos(st.Pos()), "c.Mast = mergeTrees(…, c.Mast, other.Mast) after it succeeded", why)
		}
	}
	if n == 0 {
		c.R.Bad(rule, name+": tree replaced by the join", c.P.Pos(merge.Pos()), "Merge never installs a merged tree")
	}
	// every successful Merge records the other version as a parent (when it has a name)
	srcF := mustField(c, "kv/internal/crdt", "Tree", "Source")
	msF := mustField(c, "kv/internal/crdt", "Tree", "MergeSources")
	if srcF != nil && msF != nil {
		type recState struct{ recorded, anonymous bool }
		_ = recState{}
		h := an.THooks{}
		h.Instr = func(in ssa.Instruction, st an.TState) an.TState {
			s := st.(mergeRec)
			if stx, ok := in.(*ssa.Store); ok {
				if fa, ok := stx.Addr.(*ssa.FieldAddr); ok && an.FieldVar(fa.X.Type(), fa.Field) == msF && an.ExprRoot(fa.X) == ssa.Value(recv) {
					// the stored slice must hold *other.Source
					if an.DependsOn(stx.Val, func(v ssa.Value) bool {
						return an.FieldOfLoad(v) == srcF && an.ExprRoot(v) == ssa.Value(other)
					}) {
						s.recorded = true
					}
				}
			}
			return s
		}
		h.Branch = func(iff *ssa.If, side bool, st an.TState) an.TState {
			s := st.(mergeRec)
			if v, isNE, isNil := nilTestedValue(iff); isNil && an.FieldOfLoad(v) == srcF && an.ExprRoot(v) == ssa.Value(other) {
				if side != isNE { // the nil side
					s.anonymous = true
				}
			}
			return s
		}
		exits := an.WalkTypestate(merge, mergeRec{}, h, sc)
		good := len(exits) > 0
		why := ""
		for _, ex := range exits {
			s := ex.St.(mergeRec)
			if ex.ErrNil != 0 && !s.recorded && !s.anonymous {
				good = false
				why = "Merge can return success at " + c.P.Pos(ex.Ret.Pos()) + " without appending the other version's name to MergeSources: the opener still retires that version to merged/, but no version names it as a parent, so history walks and vacuum never find it again"
			}
		}
		c.R.Cond(good, rule, name+": a merged version is recorded as a parent", c.P.Pos(merge.Pos()), "every successful return follows the append of *other.Source to MergeSources (or other has no name)", why)
	}
	// mergeTrees
	mname := core.FuncName(mt)
	if len(mt.Params) < 5 {
		c.R.Unk(rule, mname+": shape", c.P.Pos(mt.Pos()), "unexpected signature")
		return
	}
	primary, grafts := mt.Params[3], mt.Params[4]
	var clone *ssa.Alloc
	for _, call := range an.Calls(mt) {
		if an.CalleeIs(call, mastPkg, "Mast", "Clone") && an.Unwrap(an.RecvValue(call)) == ssa.Value(primary) {
			// the alloc the clone is stored into
			if cv, ok := call.(ssa.Value); ok {
				for _, r := range *cv.Referrers() {
					if ex, ok := r.(*ssa.Extract); ok && ex.Index == 0 {
						for _, rr := range *ex.Referrers() {
							if s, ok := rr.(*ssa.Store); ok {
								if al, ok := s.Addr.(*ssa.Alloc); ok {
									clone = al
								}
							}
						}
					}
				}
			}
		}
	}
	c.R.Cond(clone != nil, rule, mname+": works on a clone of the primary", c.P.Pos(mt.Pos()), "newTree = primary.Clone()", "no clone of the primary tree found: the merge would modify (or not start from) the receiving tree")
	if clone == nil {
		return
	}
	// successful returns: the clone, or the primary under len(grafts)==0
	k := 0
	for _, b := range mt.Blocks {
		ret, ok := b.Instrs[len(b.Instrs)-1].(*ssa.Return)
		if !ok || !an.IsNilConst(an.RetErr(ret)) {
			continue
		}
		k++
		v := an.RetVal(ret, 0)
		good := v == ssa.Value(clone)
		if v == ssa.Value(primary) {
			// only when there is nothing to graft
			good = an.GuardedByValue(an.Edge{From: b}, func(x ssa.Value) bool {
				bo, ok := x.(*ssa.BinOp)
				if !ok || bo.Op != token.EQL {
					return false
				}
				cl, ok := bo.X.(*ssa.Call)
				if !ok {
					return false
				}
				bi, ok := cl.Call.Value.(*ssa.Builtin)
				return ok && bi.Name() == "len" && cl.Call.Args[0] == ssa.Value(grafts) && an.ExprKey(bo.Y) == "const:0:int"
			}, true)
		}
		c.R.Cond(good, rule, fmt.Sprintf("%s: success return #%d", mname, k), c.P.Pos(ret.Pos()), "returns the merged clone (or the primary when there is nothing to graft)", "a successful return hands back something other than the clone every graft was merged into")
	}
	// DiffIter on the clone for each graft element with a callback over the clone
	nd := 0
	for _, call := range an.Calls(mt) {
		if !an.CalleeIs(call, mastPkg, "Mast", "DiffIter") {
			continue
		}
		nd++
		args := call.Common().Args // recv, ctx, graft, f
		recvOK := args[0] == ssa.Value(clone)
		elemOK := false
		if ld, ok := args[2].(*ssa.UnOp); ok {
			if ia, ok := ld.X.(*ssa.IndexAddr); ok && ia.X == ssa.Value(grafts) {
				elemOK = true
			}
		}
		cbOK := false
		if cl, ok := args[3].(*ssa.Call); ok && calleeLabel(cl) == "ToDiffFunc" {
			for _, a := range cl.Call.Args {
				if a == ssa.Value(clone) {
					cbOK = true
				}
			}
			if cl.Call.Args[0] != ssa.Value(mt.Params[1]) {
				cbOK = false
			}
		}
		inLoop := an.InCycle(call.Block())
		// the loop is left normally only through the range's own exit
		c.R.Cond(recvOK && elemOK && cbOK && inLoop, rule, mname+": every graft is diffed into the clone", c.P.Pos(call.Pos()),
			"for each element of grafts: clone.DiffIter(graft, mergeFunc.ToDiffFunc(clone))",
			fmt.Sprintf("DiffIter is not run on the clone (%v) for each graft (%v, in loop %v) with the merge function's callback over the clone (%v)", recvOK, elemOK, inLoop, cbOK))
	}
	if nd == 0 {
		c.R.Bad(rule, mname+": every graft is diffed into the clone", c.P.Pos(mt.Pos()), "mergeTrees never diffs a graft into the clone")
	}
}

// ---- C17.get-hides-tombstones / C17.adapter-defers: readers and merges agree about tombstones ---------

func init() {
	register(&Rule{Name: "C17.get-hides-tombstones", Min: 1, Run: c17GetHides,
		Doc: "(*crdt.Tree).Get answers 'found' only on paths where the stored entry was tested and is not a tombstone, whatever the destination's type"})
	register(&Rule{Name: "C17.adapter-defers", Min: 1, Run: c17AdapterDefers,
		Doc: "the adapter MergeFunc.ToDiffFunc answers for a differing key only with what the merge function answered: no successful return without calling it"})
	byProp["C17"] = append(byProp["C17"], "C17.get-hides-tombstones", "C17.adapter-defers")
	byProp["C01"] = append(byProp["C01"], "C17.adapter-defers")
	explain["C17"] += " get-hides-tombstones: 'a tombstone makes the key absent … Get, cursors, Diff and TraceHistory agree' — every 'found' return of Tree.Get (all of DB.Get, and what sqlite's getRow uses in its metadata form) lies behind the not-a-tombstone side of the test of the stored entry. adapter-defers: every merge mode goes through MergeFunc.ToDiffFunc; a shortcut there that answers 'handled' for a key without calling the merge function (e.g. for a tombstone the merging tree has no entry for) drops the other version's write from the merged version although the source version is retired — the result then depends on the shuffled fold order."
	explain["C01"] += " adapter-defers (shared with C17): no differing key is settled without the merge function."
}

// tombstoneSide: for a branch condition that tests an entry's tombstone time (or calls
// Tombstoned()), the side (true/false successor) on which the entry is NOT a tombstone; ok=false
// if the condition is not such a test.
func tombstoneSide(cond ssa.Value) (notTombSide bool, ok bool) {
	cond, neg := an.StripNot(cond)
	isTombField := func(v ssa.Value) bool {
		found := false
		an.DependsOn(v, func(w ssa.Value) bool {
			if fv := an.FieldOfLoad(w); fv != nil && fv.Name() == "TombstoneSinceEpochNanos" {
				found = true
			}
			if f, isF := w.(*ssa.Field); isF {
				if fv := an.FieldVar(f.X.Type(), f.Field); fv != nil && fv.Name() == "TombstoneSinceEpochNanos" {
					found = true
				}
			}
			return false
		})
		return found
	}
	switch x := cond.(type) {
	case *ssa.Call:
		l := calleeLabel(x)
		if l == "Tombstoned" || l == "IsTombstoned" {
			return neg, true // true side = tombstoned; with a stripped '!' the sides swap
		}
	case *ssa.BinOp:
		var other ssa.Value
		swapped := false
		switch {
		case isTombField(x.X):
			other = x.Y
		case isTombField(x.Y):
			other = x.X
			swapped = true
		default:
			return false, false
		}
		k, isK := constInt(other)
		if !isK || k != 0 {
			return false, false
		}
		op := x.Op
		if swapped {
			switch op {
			case token.LSS:
				op = token.GTR
			case token.GTR:
				op = token.LSS
			case token.LEQ:
				op = token.GEQ
			case token.GEQ:
				op = token.LEQ
			}
		}
		// the tombstone time is a positive number when set, 0 when not
		var tombOnTrue bool
		switch op {
		case token.GTR, token.NEQ:
			tombOnTrue = true
		case token.EQL, token.LEQ:
			tombOnTrue = false
		default:
			return false, false
		}
		return tombOnTrue == neg, true
	}
	return false, false
}

func c17GetHides(c *Ctx) {
	const rule = "C17.get-hides-tombstones"
	fn := mustFunc(c, "kv/internal/crdt", "*Tree", "Get")
	if fn == nil {
		return
	}
	name := core.FuncName(fn)
	c.R.SawFunc(name)
	h := an.THooks{Branch: func(iff *ssa.If, side bool, st an.TState) an.TState {
		if nt, ok := tombstoneSide(iff.Cond); ok && side == nt {
			return ansState(true)
		}
		return st
	}}
	exits := an.WalkTypestate(fn, ansState(false), h, c.Scope(fn))
	good := len(exits) > 0
	why := ""
	n := 0
	for _, ex := range exits {
		if len(ex.Ret.Results) != 2 {
			continue
		}
		if cb, isC := constBool(ex.Ret.Results[0]); isC && !cb {
			continue
		}
		n++
		if !bool(ex.St.(ansState)) {
			good = false
			why = "Get can answer 'found' at " + c.P.Pos(ex.Ret.Pos()) + " without having tested the stored entry for a tombstone: the metadata form Get(key, *crdt.Value) reports a deleted key as present (nil value, the tombstone's times) while the plain form, IsTombstoned and the cursor say absent"
		}
	}
	if n == 0 {
		c.R.Unk(rule, name+": found means not a tombstone", c.P.Pos(fn.Pos()), "no 'found' return located")
		return
	}
	c.R.Cond(good, rule, name+": found means not a tombstone", c.P.Pos(fn.Pos()), fmt.Sprintf("%d 'found' returns, each behind the not-a-tombstone side of the test", n), why)
}

func c17AdapterDefers(c *Ctx) {
	const rule = "C17.adapter-defers"
	outer := mustFunc(c, "kv/internal/crdt", "MergeFunc", "ToDiffFunc")
	if outer == nil {
		return
	}
	if len(outer.AnonFuncs) != 1 {
		c.R.Unk(rule, "crdt.MergeFunc.ToDiffFunc: shape", c.P.Pos(outer.Pos()), "expected one closure")
		return
	}
	f := outer.AnonFuncs[0]
	name := core.FuncName(f)
	c.R.SawFunc(name)
	isMF := func(cl ssa.CallInstruction) bool {
		v := cl.Common().Value
		if ld, ok := v.(*ssa.UnOp); ok && ld.Op == token.MUL {
			v = ld.X
		}
		fv, ok := v.(*ssa.FreeVar)
		if !ok {
			return false
		}
		nt := an.NamedOf(fv.Type())
		if p, isP := fv.Type().(*types.Pointer); isP {
			nt = an.NamedOf(p.Elem())
		}
		return nt != nil && nt.Obj().Name() == "MergeFunc"
	}
	h := an.THooks{Instr: func(in ssa.Instruction, st an.TState) an.TState {
		if cl, ok := in.(ssa.CallInstruction); ok && isMF(cl) {
			return ansState(true)
		}
		return st
	}}
	exits := an.WalkTypestate(f, ansState(false), h, nil)
	good := len(exits) > 0
	why := ""
	for _, ex := range exits {
		if ex.ErrNil != 0 && !bool(ex.St.(ansState)) {
			good = false
			why = "the adapter can answer without error at " + c.P.Pos(ex.Ret.Pos()) + " although the merge function was not called: that key's entry of the other version (e.g. a tombstone for a key this tree never had) is left out of the merged version while its source version is retired — a slower writer's older value becomes visible again, and the outcome depends on the fold order"
		}
	}
	c.R.Cond(good, rule, name+": every answer comes from the merge function", c.P.Pos(f.Pos()), "no successful return bypasses the merge function", why)
}
