package rules

import (
	"encoding/json"
	"fmt"
	"io"
	"os"
	"os/exec"
	"path/filepath"
	"sort"
	"strings"
	"sync"

	"golang.org/x/tools/go/ssa"

	"s3dbcheck/an"
	"s3dbcheck/core"
)

// Self-validation of the checker (thorough tier, DESIGN.md 3.3): seeded variants must turn the
// expected rule to "violated", benign variants must leave every verdict unchanged, and the
// effect rules are re-run on the more conservative CHA call graph. Failures are checker
// defects: they are reported as ERROR (exit 2), never as a VIOLATION of the property.

type variant struct {
	Name   string   `json:"name"`
	Patch  string   `json:"patch"`
	Expect []string `json:"expect"`
	Kind   string   `json:"kind"`
}

type variantTable struct {
	Variants []variant `json:"variants"`
	Benign   []variant `json:"benign"`
}

func init() { SelfValidate = selfValidate }

func copyTree(src, dst string) error {
	return filepath.Walk(src, func(p string, info os.FileInfo, err error) error {
		if err != nil {
			return err
		}
		rel, _ := filepath.Rel(src, p)
		if rel == ".git" || strings.HasPrefix(rel, ".git"+string(filepath.Separator)) {
			if info.IsDir() {
				return filepath.SkipDir
			}
			return nil
		}
		target := filepath.Join(dst, rel)
		if info.IsDir() {
			return os.MkdirAll(target, 0o755)
		}
		if !info.Mode().IsRegular() {
			return nil
		}
		in, err := os.Open(p)
		if err != nil {
			return err
		}
		defer in.Close()
		out, err := os.OpenFile(target, os.O_CREATE|os.O_WRONLY|os.O_TRUNC, info.Mode().Perm())
		if err != nil {
			return err
		}
		defer out.Close()
		_, err = io.Copy(out, in)
		return err
	})
}

type workerResult struct {
	applied bool
	loadErr string
	obls    []core.Obligation
}

// runVariant applies patch to a scratch copy of the repository and runs this binary on it.
func runVariant(repo, root, patch, id string) workerResult {
	base := os.Getenv("TMPDIR")
	if base == "" {
		base = "/var/tmp"
	}
	dir, err := os.MkdirTemp(base, "s3dbcheck-var-")
	if err != nil {
		return workerResult{loadErr: err.Error()}
	}
	defer os.RemoveAll(dir)
	scratch := filepath.Join(dir, "repo")
	if err := copyTree(repo, scratch); err != nil {
		return workerResult{loadErr: "copy: " + err.Error()}
	}
	pp := patch
	if !filepath.IsAbs(pp) {
		pp = filepath.Join(root, patch)
	}
	ap := exec.Command("git", "apply", "--whitespace=nowarn", pp)
	ap.Dir = scratch
	ap.Env = append(os.Environ(), "GIT_CEILING_DIRECTORIES="+dir)
	if out, err := ap.CombinedOutput(); err != nil {
		_ = out
		return workerResult{applied: false}
	}
	outFile := filepath.Join(dir, "out.json")
	self, _ := os.Executable()
	w := exec.Command(self, "-repo", scratch, "-property", id, "-no-evidence", "-json", outFile, "-known", filepath.Join(dir, "none"), "-evidence-dir", filepath.Join(dir, "ev"))
	w.Env = append(os.Environ(), "S3DBCHECK_WORKER=1")
	wo, _ := w.CombinedOutput()
	b, err := os.ReadFile(outFile)
	if err != nil {
		msg := string(wo)
		if len(msg) > 300 {
			msg = msg[:300]
		}
		return workerResult{applied: true, loadErr: "worker produced no result: " + msg}
	}
	var obls []core.Obligation
	if err := json.Unmarshal(b, &obls); err != nil {
		return workerResult{applied: true, loadErr: err.Error()}
	}
	return workerResult{applied: true, obls: obls}
}

func selfValidate(p *core.Program, id string, r *core.Report, seed int64) map[string]any {
	res := map[string]any{}
	root := filepath.Dir(filepath.Dir(SelfTestDir))
	b, err := os.ReadFile(filepath.Join(SelfTestDir, "variants.json"))
	if err != nil {
		r.Errorf("self-validation: cannot read %s/variants.json: %v", SelfTestDir, err)
		return res
	}
	var tab variantTable
	if err := json.Unmarshal(b, &tab); err != nil {
		r.Errorf("self-validation: %v", err)
		return res
	}
	mine := map[string]bool{}
	for _, n := range byProp[id] {
		mine[n] = true
	}
	baseBad := map[string]bool{}
	for _, o := range r.Obls {
		if o.Status != core.Discharged {
			baseBad[o.Key()] = true
		}
	}
	type job struct {
		v      variant
		benign bool
		expect []string
	}
	var jobs []job
	for _, v := range tab.Variants {
		var ex []string
		for _, e := range v.Expect {
			if mine[e] {
				ex = append(ex, e)
			}
		}
		if len(ex) > 0 {
			jobs = append(jobs, job{v: v, expect: ex})
		}
	}
	for _, v := range tab.Benign {
		jobs = append(jobs, job{v: v, benign: true})
	}
	// deterministic rotation by seed (order only)
	if n := len(jobs); n > 1 {
		k := int(seed % int64(n))
		if k < 0 {
			k = -k
		}
		jobs = append(jobs[k:], jobs[:k]...)
	}
	type outcome struct {
		j   job
		res workerResult
	}
	outs := make([]outcome, len(jobs))
	var wg sync.WaitGroup
	sem := make(chan struct{}, 4)
	for i, j := range jobs {
		wg.Add(1)
		go func(i int, j job) {
			defer wg.Done()
			sem <- struct{}{}
			defer func() { <-sem }()
			outs[i] = outcome{j, runVariant(p.RepoDir, root, j.v.Patch, id)}
		}(i, j)
	}
	wg.Wait()
	var fired, notFired, skipped, silent, noisy, rulesCovered []string
	covered := map[string]bool{}
	for _, o := range outs {
		switch {
		case !o.res.applied && o.res.loadErr == "":
			skipped = append(skipped, o.j.v.Name)
		case o.res.loadErr != "" && !o.j.benign:
			// a variant that does not type-check is a defect of the self-test, not of the repo
			notFired = append(notFired, o.j.v.Name+" ("+o.res.loadErr+")")
		case o.j.benign:
			var newBad []string
			if o.res.loadErr != "" {
				newBad = append(newBad, o.res.loadErr)
			}
			for _, ob := range o.res.obls {
				if ob.Status != core.Discharged && !baseBad[ob.Key()] && mine[ob.Rule] {
					newBad = append(newBad, ob.Key())
				}
			}
			if len(newBad) == 0 {
				silent = append(silent, o.j.v.Name)
			} else {
				noisy = append(noisy, o.j.v.Name+": "+strings.Join(newBad, "; "))
			}
		default:
			hit := false
			for _, ob := range o.res.obls {
				if ob.Status == core.Violated && !baseBad[ob.Key()] {
					for _, e := range o.j.expect {
						if ob.Rule == e {
							hit = true
							covered[e] = true
						}
					}
				}
			}
			if hit {
				fired = append(fired, o.j.v.Name)
			} else {
				notFired = append(notFired, o.j.v.Name+" (expected "+strings.Join(o.j.expect, "/")+")")
			}
		}
	}
	for k := range covered {
		rulesCovered = append(rulesCovered, k)
	}
	sort.Strings(fired)
	sort.Strings(notFired)
	sort.Strings(skipped)
	sort.Strings(silent)
	sort.Strings(noisy)
	sort.Strings(rulesCovered)
	var uncovered []string
	for _, n := range byProp[id] {
		if !covered[n] {
			uncovered = append(uncovered, n)
		}
	}
	res["seeded_variants_run"] = len(fired) + len(notFired)
	res["seeded_variants_fired"] = fired
	res["seeded_variants_not_fired"] = notFired
	res["variants_skipped_patch_does_not_apply"] = skipped
	res["benign_variants_run"] = len(silent) + len(noisy)
	res["benign_variants_silent"] = silent
	res["benign_variants_noisy"] = noisy
	res["rules_with_a_firing_variant"] = rulesCovered
	res["rules_without_a_firing_variant"] = uncovered
	for _, n := range notFired {
		r.Errorf("self-validation: seeded variant did not fire: %s", n)
	}
	for _, n := range noisy {
		r.Errorf("self-validation: benign variant raised an alarm: %s", n)
	}
	// CHA cross-check of the effect rules
	if mine["C13.gated"] || mine["C05.effects"] || mine["C04.two-phase"] || mine["C13.reads"] {
		eff, err := an.NewEffects(p, p.CHA())
		if err != nil {
			r.Errorf("self-validation: %v", err)
			return res
		}
		vtaEff, _ := an.NewEffects(p, p.VTA())
		isMutK := func(k an.SinkKind) bool { return k == an.SinkMut }
		chaCut, vtaCut := eff.ReachSetCut(isMutK), vtaEff.ReachSetCut(isMutK)
		chaAll, vtaAll := eff.ReachSet(isMutK), vtaEff.ReachSet(isMutK)
		var entries []*ssa.Function
		for _, en := range an.SqliteEntries(p) {
			if an.LibraryPkg(en.PkgRel) {
				entries = append(entries, en.Fn)
			}
		}
		for _, en := range an.ExportedAPI(p, "") {
			entries = append(entries, en.Fn)
		}
		for _, en := range an.ExportedAPI(p, "kv") {
			entries = append(entries, en.Fn)
		}
		var diffs []string
		for _, fn := range entries {
			if chaCut[fn] != vtaCut[fn] {
				diffs = append(diffs, fmt.Sprintf("%s: ungated mutation reachable cha=%v vta=%v", core.FuncName(fn), chaCut[fn], vtaCut[fn]))
			}
			if chaAll[fn] != vtaAll[fn] {
				diffs = append(diffs, fmt.Sprintf("%s: mutation reachable (gates ignored) cha=%v vta=%v", core.FuncName(fn), chaAll[fn], vtaAll[fn]))
			}
		}
		sort.Strings(diffs)
		res["cha_crosscheck_entries"] = len(entries)
		res["cha_vs_vta_differences"] = diffs
		res["cha_note"] = "CHA over-approximates VTA: a difference where only CHA reaches a mutation is imprecision of CHA, reported but not failing; a difference where only VTA reaches one would be a soundness problem and fails"
		for _, fn := range entries {
			if (vtaCut[fn] && !chaCut[fn]) || (vtaAll[fn] && !chaAll[fn]) {
				r.Errorf("self-validation: VTA reaches a mutation from %s that CHA does not: call graphs inconsistent", core.FuncName(fn))
			}
		}
	}
	return res
}
