package rules

// SelfTestDir holds the self-validation variants (patches, fixtures).
var SelfTestDir string
