package rules

import (
	"go/token"
	"fmt"
	"strings"

	"golang.org/x/tools/go/ssa"

	"s3dbcheck/an"
	"s3dbcheck/core"
)

func init() {
	register(&Rule{Name: "C04.content-named", Min: 2, Run: c04ContentNamed,
		Doc: "the version object's name is a function of a hash of exactly the bytes that are stored"})
	register(&Rule{Name: "C04.two-phase", Min: 3, Run: c04TwoPhase,
		Doc: "xSync reaches the storage commit; xCommit and xRollback reach no S3 request at all"})
	register(&Rule{Name: "C04.vacuum-order", Min: 3, Run: c04VacuumOrder,
		Doc: "vacuum deletes history and swaps the live tree only after its commit succeeded; nodes are deleted before versions"})
	register(&Rule{Name: "C04.vacuum-purge", Min: 2, Run: c04VacuumPurge,
		Doc: "the kv tombstones vacuum creates are purged by the same call before it commits"})
	claim("C04", "C04 clauses decided (crash atomicity is an ordering argument around a single-PUT commit point): commit-order and retire (shared with C03), content-named (the name is bound to the stored bytes: one immutable object, one request), two-phase (storage commit in xSync only), vacuum-order, vacuum-purge (the version vacuum publishes must not contain kv tombstones, which the SQL-layer merge of a recovery open cannot digest: vacuum stamps them with the zero time, which RemoveTombstones(cutoff) always purges, and purges before it commits). Not decided: that mast's flush awaits all node PUTs (dependency, trusted), and the contents of recovered tables.",
		"C03.commit-order", "C03.retire", "C04.content-named", "C04.two-phase", "C04.vacuum-order", "C04.vacuum-purge")
}

// hashPkgs: packages whose functions count as a cryptographic content hash.
var hashPkgs = map[string]bool{
	"github.com/minio/blake2b-simd": true,
	"golang.org/x/crypto/blake2b":   true,
	"golang.org/x/crypto/sha3":      true,
	"crypto/sha256":                 true,
	"crypto/sha512":                 true,
}

func c04ContentNamed(c *Ctx) {
	const rule = "C04.content-named"
	fn := mustFunc(c, "kv", "*DB", "Commit")
	rootF := mustField(c, "kv", "DB", "root")
	if fn == nil || rootF == nil {
		return
	}
	name := core.FuncName(fn)
	puts := persistStoreCalls(fn, rootF)
	if len(puts) != 1 {
		c.R.Bad(rule, name+": version PUT", c.P.Pos(fn.Pos()), fmt.Sprintf("expected exactly one s.root.Store call, found %d", len(puts)))
		return
	}
	put := puts[0]
	args := put.Common().Args // recv, ctx, name, bytes
	nameV, bytesV := args[2], args[3]
	// name depends on hash(bytesV)
	var hashCall *ssa.Call
	dep := an.DependsOn(nameV, func(v ssa.Value) bool {
		cl, ok := v.(*ssa.Call)
		if !ok {
			return false
		}
		f := cl.Call.StaticCallee()
		if f == nil || !hashPkgs[an.PkgPathOf(f)] {
			return false
		}
		for _, a := range cl.Call.Args {
			if an.SameValue(a, bytesV) {
				hashCall = cl
				return true
			}
		}
		return false
	})
	c.R.Cond(dep, rule, name+": name derives from hash of the stored bytes", c.P.Pos(put.Pos()),
		"the object name passed to the version PUT is computed from a cryptographic hash of the very value passed as its body",
		"the version name is not derived from a hash of the bytes that are stored: two different versions can share a name (overwrite) or a name stops identifying its content")
	_ = hashCall
	// nothing else feeds the body: bytes are the marshalled root (phi over the format switch)
	okBody := an.DependsOn(bytesV, func(v ssa.Value) bool {
		cl, ok := v.(*ssa.Call)
		if !ok {
			return false
		}
		return an.DependsOn(cl, func(w ssa.Value) bool {
			mk, ok := w.(*ssa.Call)
			return ok && an.CalleeIs(mk, crdtPkg, "Tree", "MakeRoot")
		})
	})
	c.R.Cond(okBody, rule, name+": body is the marshalled root", c.P.Pos(put.Pos()),
		"the stored bytes are computed from the root MakeRoot returned", "the stored bytes do not come from the root that MakeRoot produced")
}

func c04TwoPhase(c *Ctx) {
	const rule = "C04.two-phase"
	e := c.Eff()
	any := e.ReachSet(nil)
	kvCommit := mustFunc(c, "kv", "*DB", "Commit")
	if kvCommit == nil {
		return
	}
	for _, en := range an.SqliteEntries(c.P) {
		if !an.LibraryPkg(en.PkgRel) {
			continue
		}
		switch {
		case en.Iface == "TwoPhaseCommitter" && en.Method == "Sync":
			// must reach kv Commit (forward reachability over the call graph)
			reaches := reachesFunc(e, en.Fn, kvCommit)
			c.R.Cond(reaches, rule, en.Name()+" performs the storage commit", c.P.Pos(en.Fn.Pos()),
				"xSync reaches kv.(*DB).Commit: a failing commit can still abort the SQLite transaction", "xSync no longer reaches the storage commit")
		case en.Iface == "Transactional" && (en.Method == "Commit" || en.Method == "Rollback"):
			if !any[en.Fn] {
				c.R.OK(rule, en.Name()+" issues no S3 request", c.P.Pos(en.Fn.Pos()), "phase two cannot fail on storage and cannot create a version")
				continue
			}
			res := e.Reach([]*ssa.Function{en.Fn}, false)
			for _, h := range res.Hits {
				c.R.Bad(rule, en.Name()+" issues no S3 request -> "+h.Sink.Name(), c.P.Pos(en.Fn.Pos()),
					"x"+en.Method+" can issue an S3 request: SQLite ignores its result, so a failure here is an acknowledged commit that was not stored (or a rollback that writes)", e.PathStrings(h.Path)...)
			}
		}
	}
}

func reachesFunc(e *an.Effects, from, to *ssa.Function) bool {
	seen := map[*ssa.Function]bool{from: true}
	work := []*ssa.Function{from}
	for len(work) > 0 {
		f := work[len(work)-1]
		work = work[:len(work)-1]
		if f == to {
			return true
		}
		n := e.CG.Nodes[f]
		if n == nil {
			continue
		}
		for _, ed := range n.Out {
			cal := ed.Callee.Func
			if cal == nil || seen[cal] {
				continue
			}
			if p := an.PkgPathOf(cal); !strings.HasPrefix(p, core.ModPath) {
				continue // stay inside the repository
			}
			seen[cal] = true
			work = append(work, cal)
		}
	}
	return false
}

func c04VacuumOrder(c *Ctx) {
	const rule = "C04.vacuum-order"
	fn := mustFunc(c, "", "", "Vacuum")
	rootField := mustField(c, "", "KV", "Root")
	dh := mustFunc(c, "kv", "", "DeleteHistoricVersions")
	if fn == nil || rootField == nil || dh == nil {
		return
	}
	name := core.FuncName(fn)
	sc := c.Scope(fn)
	var commits, dhCalls []ssa.CallInstruction
	for _, call := range sc.Calls() {
		if an.CalleeIs(call, kvPkg, "DB", "Commit") {
			commits = append(commits, call)
		}
		if call.Common().StaticCallee() == dh {
			dhCalls = append(dhCalls, call)
		}
	}
	if len(commits) != 1 {
		c.R.Bad(rule, name+": commit", c.P.Pos(fn.Pos()), fmt.Sprintf("expected one kv Commit in Vacuum, found %d", len(commits)))
		return
	}
	commit := commits[0]
	for _, d := range dhCalls {
		ok, why := sc.SuccessDominates(commit, d)
		c.R.Cond(ok, rule, name+": history deleted after commit", c.P.Pos(d.Pos()), "DeleteHistoricVersions runs only after the vacuumed tree was committed",
			"history can be deleted before/without the commit that supersedes it: "+why)
	}
	if len(dhCalls) == 0 {
		c.R.Bad(rule, name+": history deleted after commit", c.P.Pos(fn.Pos()), "Vacuum never calls DeleteHistoricVersions")
	}
	n := 0
	for _, f := range sc.Funcs {
		for _, st := range an.StoresToField(f, rootField) {
			n++
			ok2, why := sc.SuccessDominates(commit, st)
			c.R.Cond(ok2, rule, name+": live tree swapped after commit", c.P.Pos(st.Pos()), "the table switches to the vacuumed tree only after it was committed",
				"the live tree is replaced before/without a successful commit: "+why)
		}
	}
	if n == 0 {
		c.R.Bad(rule, name+": live tree swapped after commit", c.P.Pos(fn.Pos()), "Vacuum never installs the vacuumed tree")
	}
	// inside DeleteHistoricVersions: all node deletions complete before any version deletion
	persistF := mustField(c, "kv", "DB", "persist")
	rootF4 := mustField(c, "kv", "DB", "root")
	var nodeDels, verDels []ssa.CallInstruction
	for _, d := range deleteCalls(dh) {
		t := deleteTargetOf(d)
		switch {
		case t != nil && pathHas(t.PrefixThrough, persistF):
			nodeDels = append(nodeDels, d)
		case t != nil && rootF4 != nil && pathHas(t.PrefixThrough, rootF4) && retiredListElement(dh, t.KeySuffix):
			// un-listing a retired version from current/ is not the deletion of its record (the
			// object under merged/): it has to come first, see C09.gc-retires-first
		default:
			verDels = append(verDels, d)
		}
	}
	c.R.SawFunc(core.FuncName(dh))
	if len(nodeDels) == 0 || len(verDels) == 0 {
		c.R.Bad(rule, core.FuncName(dh)+": nodes before versions", c.P.Pos(dh.Pos()), "cannot find both node deletions and version deletions")
		return
	}
	ok := true
	for _, v := range verDels {
		for _, nd := range nodeDels {
			if an.ReachableFromBlock(v.Block(), nd.Block(), nil) {
				ok = false
			}
		}
	}
	c.R.Cond(ok, rule, core.FuncName(dh)+": nodes before versions", c.P.Pos(verDels[0].Pos()),
		"no node object is deleted after a version object: after a crash in between the candidates can be recomputed from the versions that still exist",
		"a version object can be deleted before all node deletions are done: a crash in between orphans nodes that nothing names any more")
}

func c04VacuumPurge(c *Ctx) {
	const rule = "C04.vacuum-purge"
	fn := mustFunc(c, "", "", "Vacuum")
	if fn == nil {
		return
	}
	name := core.FuncName(fn)
	sc := c.Scope(fn)
	var tombs, purges, commits []ssa.CallInstruction
	for _, call := range sc.Calls() {
		switch {
		case an.CalleeIs(call, kvPkg, "DB", "Tombstone"):
			tombs = append(tombs, call)
		case an.CalleeIs(call, kvPkg, "DB", "RemoveTombstones"):
			purges = append(purges, call)
		case an.CalleeIs(call, kvPkg, "DB", "Commit"):
			commits = append(commits, call)
		}
	}
	// The markers are swept by RemoveTombstones(cutoff), which keeps ts >= cutoff: the marker time M
	// has to be below the cutoff handed to it on every path. (The zero time.Time, which this rule
	// accepted at first, is not: its UnixNano wraps to a value in 1754.) M is a package-level time
	// that nothing writes after init; the cutoff is "after M" where it was tested so
	// (cutoff.After(M) on its true side) or made so (M.Add(positive constant)), followed through phis.
	for i, t := range tombs {
		when := t.Common().Args[2]
		var marker *ssa.Global
		if ld, ok := when.(*ssa.UnOp); ok && ld.Op == token.MUL {
			if g, ok := ld.X.(*ssa.Global); ok {
				marker = g
			}
		}
		good := false
		why := "vacuum stamps its markers with " + when.String() + ", not with a package-level time that the cutoff is kept above"
		if marker != nil {
			written := false
			for _, f := range c.P.RepoFuncs(an.LibraryPkg) {
				if f.Name() == "init" || strings.HasPrefix(f.Name(), "init#") {
					continue
				}
				for _, b := range f.Blocks {
					for _, in := range b.Instrs {
						if st, ok := in.(*ssa.Store); ok && st.Addr == ssa.Value(marker) {
							written = true
						}
					}
				}
			}
			isM := func(v ssa.Value) bool {
				ld, ok := v.(*ssa.UnOp)
				return ok && ld.Op == token.MUL && ld.X == ssa.Value(marker)
			}
			timeCall := func(in ssa.Instruction, name string) (*ssa.Call, bool) {
				cl, ok := in.(*ssa.Call)
				if !ok {
					return nil, false
				}
				f := cl.Call.StaticCallee()
				return cl, f != nil && an.PkgPathOf(f) == "time" && f.Name() == name && len(cl.Call.Args) == 2
			}
			h := an.THooks{}
			h.Instr = func(in ssa.Instruction, st0 an.TState) an.TState {
				st := st0.(authState)
				if cl, ok := timeCall(in, "Add"); ok && isM(cl.Call.Args[0]) {
					if k, isK := constInt(cl.Call.Args[1]); isK && k > 0 {
						st = st.with(cl)
					}
				}
				if cl, ok := in.(ssa.CallInstruction); ok && an.CalleeIs(cl, kvPkg, "DB", "RemoveTombstones") {
					if !st.carries(cl.Common().Args[2]) && !st.carries(sc.ArgOfParam(cl.Common().Args[2])) {
						st.helpers = "unsafe"
					}
				}
				return st
			}
			h.Phi = func(ph *ssa.Phi, incoming ssa.Value, st0 an.TState) an.TState {
				st := st0.(authState)
				if st.carries(incoming) {
					return st.with(ph)
				}
				return st.without(ph)
			}
			h.Branch = func(iff *ssa.If, side bool, st0 an.TState) an.TState {
				st := st0.(authState)
				cond, neg := an.StripNot(iff.Cond)
				if in, ok := cond.(ssa.Instruction); ok {
					if cl, ok := timeCall(in, "After"); ok && isM(cl.Call.Args[1]) && side != neg {
						st = st.with(cl.Call.Args[0])
					}
					if cl, ok := timeCall(in, "Before"); ok && isM(cl.Call.Args[0]) && side != neg {
						st = st.with(cl.Call.Args[1])
					}
				}
				return st
			}
			good = !written
			if written {
				why = "the marker time " + marker.Name() + " is assigned outside init"
			}
			for _, ex := range an.WalkTypestate(fn, authState{}, h, sc) {
				if ex.St.(authState).helpers == "unsafe" {
					good = false
					why = "RemoveTombstones can be reached with a cutoff that was neither tested to be after " + marker.Name() + " nor made so: it keeps ts >= cutoff, so vacuum's own markers stay in the committed version, hide their keys for good and win against every later INSERT"
				}
			}
		}
		c.R.Cond(good, rule, fmt.Sprintf("%s: Tombstone #%d uses a time below every cutoff", name, i+1), c.P.Pos(t.Pos()),
			"the markers carry a fixed package-level time and the cutoff handed to RemoveTombstones is after it on every path", why)
	}
	if len(tombs) == 0 {
		c.R.OK(rule, name+": no tombstones created", c.P.Pos(fn.Pos()), "nothing to purge")
	}
	ok := len(purges) > 0 && len(commits) == 1
	if ok {
		ok = false
		for _, p := range purges {
			if s, _ := sc.SuccessDominates(p, commits[0]); s {
				ok = true
			}
		}
	}
	c.R.Cond(ok, rule, name+": purge before commit", c.P.Pos(fn.Pos()), "RemoveTombstones succeeded before the vacuumed tree is committed", "the vacuumed tree can be committed without its tombstones having been purged")
}

// ---- C04.commit-once: a failed storage commit is never repeated on the same tree --------------------

func init() {
	register(&Rule{Name: "C04.commit-once", Min: 2, Run: c04CommitOnce,
		Doc: "no path repeats (*kv.DB).Commit after it failed: the tree marks nodes clean when their PUT is queued, so a second call on the same tree reports success without storing anything"})
	byProp["C04"] = append(byProp["C04"], "C04.commit-once")
	byProp["C14"] = append(byProp["C14"], "C04.commit-once")
	byProp["C16"] = append(byProp["C16"], "C04.commit-once")
	explain["C04"] += " commit-once: after a failed flush the in-memory tree looks clean (mast marks a node clean when its PUT is queued, not when it succeeded; the same holds when only the version PUT failed), so calling Commit again takes the 'nothing to commit' exit and acknowledges a transaction of which nothing was stored. In every library function the failure side of a call of (*kv.DB).Commit reaches no further Commit, and no Commit sits in a loop; the only recovery is the rollback to the pre-transaction snapshot (C05.snapshot)."
}

type noState struct{}

func (noState) Key() string { return "" }

func c04CommitOnce(c *Ctx) {
	const rule = "C04.commit-once"
	n := 0
	for _, fn := range c.P.RepoFuncs(an.LibraryPkg) {
		var commits []ssa.CallInstruction
		for _, call := range an.Calls(fn) {
			if an.CalleeIs(call, kvPkg, "DB", "Commit") {
				if _, isDefer := call.(*ssa.Defer); !isDefer {
					commits = append(commits, call)
				}
			}
		}
		// the wrapper one level up counts as a commit too (s3db.(*VirtualTable).Commit)
		for _, call := range an.Calls(fn) {
			if an.CalleeIs(call, core.ModPath, "VirtualTable", "Commit") {
				commits = append(commits, call)
			}
		}
		if len(commits) == 0 {
			continue
		}
		name := core.FuncName(fn)
		c.R.SawFunc(name)
		for i, call := range commits {
			n++
			key := fmt.Sprintf("%s: commit is not retried", name)
			if i > 0 {
				key += fmt.Sprintf("#%d", i+1)
			}
			pos := c.P.Pos(call.Pos())
			if an.InCycle(call.Block()) {
				c.R.Bad(rule, key, pos, "the storage commit sits in a loop: after a failed attempt the tree looks clean and the next attempt reports success without storing anything")
				continue
			}
			ev, hasErr := an.ErrResult(call)
			if !hasErr || ev == nil {
				c.R.OK(rule, key, pos, "single call, result not tested here (error discipline is C14.errors)")
				continue
			}
			def := ev.(ssa.Instruction)
			b := def.Block()
			idx := 0
			for k, in := range b.Instrs {
				if in == def {
					idx = k
				}
			}
			var hit ssa.CallInstruction
			h := an.THooks{Instr: func(in ssa.Instruction, st an.TState) an.TState {
				if cl, ok := in.(ssa.CallInstruction); ok {
					for _, o := range commits {
						if o == cl {
							hit = cl
						}
					}
				}
				return st
			}}
			an.WalkTypestateFrom(b, idx+1, noState{}, map[ssa.Value]bool{ev: false}, h, nil)
			if hit != nil {
				c.R.Bad(rule, key, pos, "after this commit failed, control can reach another commit of the tree at "+c.P.Pos(hit.Pos())+": the tree looks clean after a failed flush, so the repeated call takes the 'nothing to commit' exit and the transaction is acknowledged although nothing (or only part) was stored")
			} else {
				c.R.OK(rule, key, pos, "on the failure side no further commit is reachable")
			}
		}
	}
	if n == 0 {
		c.R.Unk(rule, "commit call sites", "-", "no call of (*kv.DB).Commit found in library code")
	}
}
