package rules

import (
	"go/constant"
	"fmt"
	"go/token"
	"go/types"

	"golang.org/x/tools/go/ssa"

	"s3dbcheck/an"
	"s3dbcheck/core"
)

func init() {
	register(&Rule{Name: "C11.who-writes", Min: 3, Run: c11WhoWrites,
		Doc: "PUT requests are issued only through the three confirmed stores (version by Commit, merged copy by moveMergedRoots, nodes by the encrypting persist)"})
	register(&Rule{Name: "C11.historic-strict", Min: 4, Run: c11HistoricStrict,
		Doc: "mergeRoots skips a version only when skipUnreadable is true: an explicit version set fails instead of returning part of a snapshot"})
	register(&Rule{Name: "C11.roots", Min: 2, Run: c11Roots,
		Doc: "Roots() lists exactly the keys of DB.mergedRoots"})
	claim("C11", "C11 clauses decided: content-named (a name is bound to the bytes it was derived from), who-writes (no other PUT site can overwrite a version or merged object), historic-strict (opening explicit versions never skips), roots (s3db_version lists the keys of the map that recorded-iff-merged ties to what was merged), persist-lists (explicit versions are looked up in merged/ and current/). Not decided: row-level equality of re-opened snapshots; s3db_version stability under no-op statements.",
		"C04.content-named", "C11.who-writes", "C11.historic-strict", "C11.roots", "C03.persist-lists", "C03.recorded-iff-merged")
}

func c11WhoWrites(c *Ctx) {
	const rule = "C11.who-writes"
	rootF := mustField(c, "kv", "DB", "root")
	mergedF := mustField(c, "kv", "DB", "merged")
	if rootF == nil || mergedF == nil {
		return
	}
	peT, _ := c.P.Pkg("kv").Types.Scope().Lookup("persistEncryptor").(*types.TypeName)
	if peT == nil {
		c.R.Errorf("anchor type kv.persistEncryptor not found")
		return
	}
	retire := retireFunc(c)
	for _, fn := range c.P.RepoFuncs(an.LibraryPkg) {
		fname := core.FuncName(fn)
		for _, call := range an.Calls(fn) {
			cc := call.Common()
			// direct mutating requests other than DELETE (those are C03.who-deletes)
			direct := ""
			if cc.IsInvoke() {
				if nt := an.NamedOf(cc.Value.Type()); nt != nil && nt.Obj().Name() == "S3Interface" {
					direct = cc.Method.Name()
				}
			} else if f := cc.StaticCallee(); f != nil {
				if k, ok := an.SinkOf(f); ok && k == an.SinkMut {
					direct = f.Name()
				}
			}
			if direct != "" {
				if len(direct) >= 12 && direct[:12] == "DeleteObject" {
					continue
				}
				if k := sinkKindByName(direct); k == an.SinkMut {
					c.R.Bad(rule, fname+": direct "+direct, c.P.Pos(call.Pos()), "library code issues a mutating S3 request itself instead of going through the three confirmed stores")
				}
				continue
			}
			if !an.CalleeIs(call, mastPersistS3, "Persist", "Store") {
				continue
			}
			c.R.SawFunc(fname)
			rv := an.RecvValue(call)
			switch {
			case fname == "(*kv.DB).Commit" && an.HasField(rv, rootF):
				c.R.OK(rule, fname+": PUT via DB.root", c.P.Pos(call.Pos()), "the version object (content-named, C04.content-named)")
			case fn == retire && an.HasField(rv, mergedF):
				c.R.OK(rule, fname+": PUT via DB.merged", c.P.Pos(call.Pos()), "copy of a retired version under its own name with its recorded bytes (C03.retire)")
			case fname == "(*kv.persistEncryptor).Store":
				// receiver must be the embedded Persist of the encryptor itself
				emb := false
				for _, f := range an.FieldPath(rv) {
					if f != nil && f.Embedded() {
						emb = true
					}
				}
				c.R.Cond(emb, rule, fname+": PUT via embedded node store", c.P.Pos(call.Pos()), "content-addressed node objects", "persistEncryptor.Store writes through something other than its own embedded store")
			default:
				c.R.Bad(rule, fname+": PUT", c.P.Pos(call.Pos()), "an object PUT outside the three confirmed sites: version / merged / node objects could be overwritten with other bytes")
			}
		}
	}
}

func sinkKindByName(n string) an.SinkKind {
	for _, pre := range []string{"Get", "Head", "List", "Select", "Wait"} {
		if len(n) >= len(pre) && n[:len(pre)] == pre {
			return an.SinkRead
		}
	}
	return an.SinkMut
}

func c11HistoricStrict(c *Ctx) {
	const rule = "C11.historic-strict"
	fn := mustFunc(c, "kv", "", "mergeRoots")
	if fn == nil {
		return
	}
	name := core.FuncName(fn)
	skip := an.BoolParamUnderError(fn, "skipUnreadable")
	if skip == nil {
		c.R.Errorf("mergeRoots has no single bool parameter (skipUnreadable)")
		return
	}
	// loop header = block of the range-index phi that dominates the loadRootFromAny call
	loadAny := c.P.LookupFunc("kv", "", "loadRootFromAny")
	var L ssa.CallInstruction
	for _, call := range an.Calls(fn) {
		if call.Common().StaticCallee() == loadAny {
			L = call
		}
	}
	if L == nil {
		c.R.Unk(rule, name+": loop", c.P.Pos(fn.Pos()), "no loadRootFromAny call found")
		return
	}
	var H *ssa.BasicBlock
	for b := L.Block(); b != nil; b = b.Idom() {
		isHeader := false
		for _, p := range b.Preds {
			if b.Dominates(p) {
				isHeader = true
			}
		}
		if isHeader {
			H = b
			break
		}
	}
	if H == nil {
		c.R.Unk(rule, name+": loop", c.P.Pos(L.Pos()), "the version load is not inside a loop")
		return
	}
	// recording blocks
	var recs []*ssa.BasicBlock
	for _, b := range fn.Blocks {
		for _, in := range b.Instrs {
			if mu, ok := in.(*ssa.MapUpdate); ok && H.Dominates(b) {
				if _, isMake := mu.Map.(*ssa.MakeMap); isMake {
					recs = append(recs, b)
				}
			}
		}
	}
	dead := an.DeadBlocks(fn)
	n := 0
	for _, p := range H.Preds {
		if !H.Dominates(p) {
			continue
		}
		through := false
		for _, rb := range recs {
			if rb == p || rb.Dominates(p) {
				through = true
			}
		}
		if through {
			continue
		}
		n++
		pos := c.P.Pos(lastInstrPos(p))
		if dead[p] {
			c.R.OK(rule, fmt.Sprintf("%s: skip path #%d", name, n), pos, "unreachable: the error is nil on this side (path facts)")
			continue
		}
		g := an.GuardedByValue(an.Edge{From: p, To: H}, func(v ssa.Value) bool { return v == skip }, true)
		if !g {
			// the skip is signalled by a helper split out of the loop: "tree, err := helper(…, skipUnreadable);
			// if tree == nil { continue }" — then the helper returns (nil, nil) only under its own copy of the flag
			sc := c.Scope(fn)
			var viaHelper *ssa.Call
			an.GuardedByNilTest(an.Edge{From: p, To: H}, func(v ssa.Value) bool {
				if ex, ok := v.(*ssa.Extract); ok && ex.Index == 0 {
					if cl, ok := ex.Tuple.(*ssa.Call); ok && cl.Call.StaticCallee() != nil && sc.Contains(cl.Call.StaticCallee()) {
						viaHelper = cl
						return true
					}
				}
				return false
			}, true)
			if viaHelper != nil {
				h := viaHelper.Call.StaticCallee()
				var hp *ssa.Parameter
				for i, a := range viaHelper.Call.Args {
					if a == ssa.Value(skip) && i < len(h.Params) {
						hp = h.Params[i]
					}
				}
				if hp != nil {
					hdead := an.DeadBlocks(h)
					allGuarded, any := true, false
					for _, hb := range h.Blocks {
						ret, ok := hb.Instrs[len(hb.Instrs)-1].(*ssa.Return)
						if !ok || len(ret.Results) != 2 || !an.IsNilConst(an.RetVal(ret, 0)) || !an.IsNilConst(an.RetErr(ret)) {
							continue
						}
						any = true
						if hdead[hb] {
							continue
						}
						if !an.GuardedByValue(an.Edge{From: hb}, func(v ssa.Value) bool { return v == ssa.Value(hp) }, true) {
							allGuarded = false
						}
					}
					g = any && allGuarded
				}
			}
		}
		c.R.Cond(g, rule, fmt.Sprintf("%s: skip path #%d", name, n), pos, "a version is skipped only when skipUnreadable is true",
			"a version can be skipped although skipUnreadable is false: opening an explicit version set (s3db_changes, historic open) would succeed with part of the snapshot")
	}
}

func c11Roots(c *Ctx) {
	const rule = "C11.roots"
	fn := mustFunc(c, "kv", "*DB", "Roots")
	mrF := mustField(c, "kv", "DB", "mergedRoots")
	if fn == nil || mrF == nil {
		return
	}
	name := core.FuncName(fn)
	var rng *ssa.Range
	for _, b := range fn.Blocks {
		for _, in := range b.Instrs {
			if r, ok := in.(*ssa.Range); ok && an.FieldOfLoad(r.X) == mrF {
				rng = r
			}
		}
	}
	c.R.Cond(rng != nil, rule, name+": ranges over DB.mergedRoots", c.P.Pos(fn.Pos()), "iterates the recorded merged versions", "Roots() does not iterate DB.mergedRoots")
	if rng == nil {
		return
	}
	// every append adds the range key
	ok, n := true, 0
	for _, b := range fn.Blocks {
		for _, in := range b.Instrs {
			cl, isCall := in.(*ssa.Call)
			if !isCall {
				continue
			}
			bi, isB := cl.Call.Value.(*ssa.Builtin)
			if !isB || bi.Name() != "append" {
				continue
			}
			n++
			elems, lit := sliceLitElems(cl.Call.Args[1])
			if !lit || len(elems) != 1 {
				ok = false
				continue
			}
			ex, isEx := an.Unwrap(elems[0]).(*ssa.Extract)
			if !isEx || ex.Index != 1 {
				ok = false
				continue
			}
			nx, isNx := ex.Tuple.(*ssa.Next)
			if !isNx || nx.Iter != rng {
				ok = false
			}
		}
	}
	c.R.Cond(ok && n > 0, rule, name+": returns the map keys", c.P.Pos(fn.Pos()), "every appended element is a key of DB.mergedRoots", "Roots() returns something other than the keys of DB.mergedRoots")
	// mergedRoots changes only at Commit: while the handle holds uncommitted values the list names the
	// version the transaction started from, not the rows a SELECT shows
	roF := mustField(c, "kv", "DB", "readonly")
	if roF == nil {
		return
	}
	h := an.THooks{Branch: func(iff *ssa.If, side bool, st an.TState) an.TState {
		cond, neg := an.StripNot(iff.Cond)
		if cl, isCall := cond.(*ssa.Call); isCall && calleeLabel(cl) == "IsDirty" && side == neg {
			return ansState(true) // IsDirty() is false here
		}
		if an.FieldOfLoad(cond) == roF && side != neg {
			return ansState(true) // a read-only handle never holds values of its own
		}
		return st
	}}
	exits := an.WalkTypestate(fn, ansState(false), h, c.Scope(fn))
	good := len(exits) > 0
	why := ""
	for _, ex := range exits {
		if ex.ErrNil != 0 && !bool(ex.St.(ansState)) {
			good = false
			why = "Roots() can answer at " + c.P.Pos(ex.Ret.Pos()) + " for a writable handle that was not found clean: inside a transaction that has written, s3db_version() then names the version the transaction started from while SELECT on the same connection shows the uncommitted rows — re-opening that version shows other rows than were visible"
		}
	}
	c.R.Cond(good, rule, name+": answers only for a handle without uncommitted values", c.P.Pos(fn.Pos()), "every successful return lies behind !IsDirty() or readonly", why)
}

// ---- C11.empty-version: the empty version list is a version, "absent" is nil -------------------

func init() {
	register(&Rule{Name: "C11.empty-version", Min: 2, Run: c11EmptyVersion,
		Doc: "'no explicit version set' is decided by a nil test, never by a length test: [] is the version of an empty table"})
	byProp["C11"] = append(byProp["C11"], "C11.empty-version", "C03.retire")
	explain["C11"] += " Also: empty-version (the version list [] that s3db_version returns for a never-written table is a snapshot like any other: the decision to list current/ or to diff against the live table must be a nil test, not a length test) and retire (shared with C03: a version leaves current/ only after its copy to merged/ succeeded, so its name keeps denoting an object)."
	byProp["C12"] = append(byProp["C12"], "C11.empty-version")
}

func c11EmptyVersion(c *Ctx) {
	const rule = "C11.empty-version"
	open := mustFunc(c, "kv", "", "Open")
	listRoots := mustFunc(c, "kv", "", "listRoots")
	ov := mustField(c, "kv", "OpenOptions", "OnlyVersions")
	if open != nil && listRoots != nil && ov != nil {
		n := 0
		osc := c.Scope(open)
		for _, call := range osc.Calls() {
			if call.Common().StaticCallee() != listRoots {
				continue
			}
			n++
			g := an.GuardedByNilTest(an.Edge{From: call.Block()}, func(v ssa.Value) bool { return an.FieldOfLoad(osc.ArgOfParam(v)) == ov }, true)
			c.R.Cond(g, rule, "kv.Open: lists current/ only when OnlyVersions is nil", c.P.Pos(call.Pos()),
				"listing is chosen by 'OnlyVersions == nil'", "the choice between listing current/ and opening the given versions is not a nil test of OnlyVersions: the empty list [] (version of an empty table) would be opened as 'whatever is current'")
		}
		if n == 0 {
			c.R.Unk(rule, "kv.Open: lists current/ only when OnlyVersions is nil", c.P.Pos(open.Pos()), "no listRoots call in Open")
		}
	}
	// s3db_changes: the live table stands in for 'from' only when fromVer is nil
	co := mustFunc(c, "sqlite", "*ChangesTable", "Open")
	fromVer := mustField(c, "sqlite", "ChangesTable", "fromVer")
	vtTree := mustField(c, "", "VirtualTable", "Tree")
	if co == nil || fromVer == nil || vtTree == nil {
		return
	}
	found := false
	startsDiff := false
	sc := c.Scope(co)
	for _, call := range sc.Calls() {
		if an.CalleeIs(call, kvPkg, "DB", "StartDiff") {
			startsDiff = true
		}
	}
	if !startsDiff {
		// the diff may be started by a helper that Open shares with other callers (a re-scan):
		// judge the function of the same receiver that starts it
		for _, f := range c.P.RepoFuncs(func(rel string) bool { return rel == "sqlite" }) {
			if f.Signature.Recv() == nil || co.Signature.Recv() == nil || !types.Identical(f.Signature.Recv().Type(), co.Signature.Recv().Type()) {
				continue
			}
			for _, call := range an.Calls(f) {
				if an.CalleeIs(call, kvPkg, "DB", "StartDiff") {
					startsDiff = true
					sc = c.Scope(f)
				}
			}
		}
	}
	// every place in Open (and the helpers split out of it) that takes the live table's tree does so
	// on the nil side of a test of fromVer
	for _, f := range sc.Funcs {
		for _, b := range f.Blocks {
			for _, in := range b.Instrs {
				ld, ok := in.(*ssa.UnOp)
				if !ok || ld.Op != token.MUL || an.FieldOfLoad(ld) != vtTree {
					continue
				}
				found = true
				g := an.GuardedByNilTest(an.Edge{From: b}, func(v ssa.Value) bool { return an.FieldOfLoad(v) == fromVer }, true)
				c.R.Cond(g, rule, "(*sqlite.ChangesTable).Open: live table as 'from' only when fromVer is nil", c.P.Pos(ld.Pos()),
					"the live table stands in only for an absent from", "the live table is used as 'from' on a path not decided by 'fromVer == nil': from='[]' (empty table) would be diffed against the current contents and report nothing")
			}
		}
	}
	if !startsDiff {
		found = false
	}
	if !found {
		c.R.Unk(rule, "(*sqlite.ChangesTable).Open: live table as 'from' only when fromVer is nil", c.P.Pos(co.Pos()), "cannot find where the live table is chosen as the diff base")
	}
}

func init() {
	byProp["C11"] = append(byProp["C11"], "C05.snapshot")
	explain["C11"] += " snapshot (shared with C05): after a commit that failed the rollback restores the pre-transaction tree on every path, so the rows visible on the connection are the rows of the version s3db_version() names."
}

// ---- C11.created-stamp: every tree handed out by an open is stamped with the open's time -----------

func init() {
	register(&Rule{Name: "C11.created-stamp", Min: 1, Run: c11CreatedStamp,
		Doc: "mergeRoots stamps the tree it returns with the time of this open (Created = when), whether it continues one version or merges several"})
	byProp["C11"] = append(byProp["C11"], "C11.created-stamp")
	byProp["C10"] = append(byProp["C10"], "C11.created-stamp")
	byProp["C09"] = append(byProp["C09"], "C11.created-stamp")
	explain["C11"] += " created-stamp: a version's Created time is what vacuum compares with the cutoff for the versions it superseded; a handle that continues a single version must not inherit that version's stamp, or versions committed long after a cutoff look older than it and are deleted. On every successful path of mergeRoots, after the merge loop, the returned tree's Created is assigned from the parameter 'when' (or the tree is a new empty root built from 'when')."
}

type stampState bool

func (s stampState) Key() string {
	if s {
		return "stamped"
	}
	return "-"
}

func c11CreatedStamp(c *Ctx) {
	const rule = "C11.created-stamp"
	fn := mustFunc(c, "kv", "", "mergeRoots")
	created := mustField(c, "kv/internal/crdt", "Tree", "Created")
	if fn == nil || created == nil {
		return
	}
	name := core.FuncName(fn)
	var when *ssa.Parameter
	for _, p := range fn.Params {
		if nt := an.NamedOf(p.Type()); nt != nil && nt.Obj().Pkg() != nil && nt.Obj().Pkg().Path() == "time" && nt.Obj().Name() == "Time" {
			when = p
		}
	}
	if when == nil {
		c.R.Unk(rule, name+": stamps the tree", c.P.Pos(fn.Pos()), "no time.Time parameter")
		return
	}
	fromWhen := func(v ssa.Value) bool {
		return an.DependsOn(v, func(x ssa.Value) bool { return x == ssa.Value(when) })
	}
	sc := c.Scope(fn)
	h := an.THooks{Instr: func(in ssa.Instruction, st an.TState) an.TState {
		s := st.(stampState)
		if in == in.Block().Instrs[0] && an.InCycle(in.Block()) {
			s = false // a stamp inside the merge loop is not the final one
		}
		switch x := in.(type) {
		case *ssa.Store:
			if fa, ok := x.Addr.(*ssa.FieldAddr); ok && an.FieldVar(fa.X.Type(), fa.Field) == created && fromWhen(x.Val) {
				s = true
			}
		case ssa.CallInstruction:
			// the empty version's constructor, by role: a kv function that returns a crdt.Root
			// (emptyRoot today)
			if cal := x.Common().StaticCallee(); cal != nil && an.PkgPathOf(cal) == kvPkg && returnsCrdtRoot(cal) {
				for _, a := range x.Common().Args {
					if fromWhen(a) {
						s = true
					}
				}
			}
		}
		return s
	}}
	exits := an.WalkTypestate(fn, stampState(false), h, sc)
	good := len(exits) > 0
	why := ""
	nOK := 0
	for _, ex := range exits {
		if ex.ErrNil == 0 {
			continue
		}
		// successful (or unknown) return
		if an.IsNilConst(an.RetVal(ex.Ret, 0)) {
			continue
		}
		nOK++
		if !bool(ex.St.(stampState)) {
			good = false
			why = "mergeRoots can return a tree at " + c.P.Pos(ex.Ret.Pos()) + " whose Created was not set from this open's time: a handle that continues a single version keeps that version's creation time, every commit through it is stamped with its predecessor's time, and a vacuum with an old cutoff deletes versions that were committed long after it"
		}
	}
	if nOK == 0 {
		good, why = false, "no successful return found"
	}
	c.R.Cond(good, rule, name+": stamps the tree", c.P.Pos(fn.Pos()), "every successful return follows 'Created = when' (or a new empty root built from when)", why)
}


// ---- C11.continues-merged: "this handle continues one version" is decided by what was merged -----------

func init() {
	register(&Rule{Name: "C11.continues-merged", Min: 1, Run: c11ContinuesMerged,
		Doc: "mergeRoots sets the tree's Source (the version it continues unchanged) from the merged set, under the test that exactly one version was merged — not from what was listed"})
	byProp["C11"] = append(byProp["C11"], "C11.continues-merged")
	explain["C11"] += " continues-merged: 's3db_version() is left unchanged by refreshes that change nothing' — Commit returns early only for a clean tree with a Source; mergeRoots sets Source iff exactly one version was merged. Listed and merged differ when a listed version was set aside as unreadable (a peer's version whose nodes are not there yet): deciding by the listing leaves Source nil although one version was merged, and every writable open or refresh then commits a new, identical version and retires the previous one. The map that mergeRoots returns as the merged set is the operand of the len(...) == 1 test that guards the store, and the stored name is taken from it."
}

func c11ContinuesMerged(c *Ctx) { continuesMerged(c, "C11.continues-merged") }

// continuesMerged is shared by C11.continues-merged and C16.single-source (the same clause, claimed
// for two properties under the name each of them introduced it with).
func continuesMerged(c *Ctx, rule string) {
	fn := mustFunc(c, "kv", "", "mergeRoots")
	srcF := mustField(c, "kv/internal/crdt", "Tree", "Source")
	if fn == nil || srcF == nil {
		return
	}
	name := core.FuncName(fn)
	// the merged set: the map returned as a result
	var merged ssa.Value
	for _, b := range fn.Blocks {
		if ret, ok := b.Instrs[len(b.Instrs)-1].(*ssa.Return); ok {
			for _, r := range ret.Results {
				if _, isMap := r.Type().Underlying().(*types.Map); isMap {
					if mm, isMk := an.Unwrap(r).(*ssa.MakeMap); isMk {
						merged = mm
					}
				}
			}
		}
	}
	if merged == nil {
		c.R.Unk(rule, name+": shape", c.P.Pos(fn.Pos()), "mergeRoots does not return a map made in the function")
		return
	}
	n := 0
	for _, st := range an.StoresToField(fn, srcF) {
		if an.IsNilConst(st.Val) {
			continue
		}
		n++
		fromMerged := an.DependsOn(st.Val, func(v ssa.Value) bool { return v == merged })
		guarded := false
		for _, b := range fn.Blocks {
			iff, ok := b.Instrs[len(b.Instrs)-1].(*ssa.If)
			if !ok {
				continue
			}
			bo, ok := iff.Cond.(*ssa.BinOp)
			if !ok || bo.Op != token.EQL {
				continue
			}
			for _, pair := range [][2]ssa.Value{{bo.X, bo.Y}, {bo.Y, bo.X}} {
				cl, isCall := pair[0].(*ssa.Call)
				k, isK := constInt(pair[1])
				if !isCall || !isK || k != 1 {
					continue
				}
				if bi, isB := cl.Call.Value.(*ssa.Builtin); isB && bi.Name() == "len" && an.Unwrap(cl.Call.Args[0]) == merged {
					if an.OnlyVia(b, 0, st.Block()) {
						guarded = true
					}
				}
			}
		}
		why := ""
		switch {
		case !guarded:
			why = "the store is not guarded by len(<merged set>) == 1: when a listed version was set aside as unreadable, 'one version listed' and 'one version merged' differ — Source stays nil (or names a version that was not merged), the commit every writable open runs no longer returns early, and each refresh that changes nothing publishes a new version"
		case !fromMerged:
			why = "the name stored as Source is not taken from the merged set"
		}
		c.R.Cond(guarded && fromMerged, rule, fmt.Sprintf("%s: Source #%d", name, n), c.P.Pos(st.Pos()), "Source = the single merged version, under len(merged) == 1", why)
	}
	if n == 0 {
		c.R.Unk(rule, name+": Source", c.P.Pos(fn.Pos()), "mergeRoots never sets Source")
	}
}

// constInt reads an integer constant.
func constInt(v ssa.Value) (int64, bool) {
	k, ok := v.(*ssa.Const)
	if !ok || k.Value == nil || k.Value.Kind() != constant.Int {
		return 0, false
	}
	return k.Int64(), true
}

func returnsCrdtRoot(f *ssa.Function) bool {
	res := f.Signature.Results()
	if res.Len() != 1 {
		return false
	}
	nt := an.NamedOf(res.At(0).Type())
	return nt != nil && nt.Obj().Name() == "Root" && nt.Obj().Pkg() != nil && nt.Obj().Pkg().Path() == core.ModPath+"/kv/internal/crdt"
}
