package rules

import (
	"fmt"
	"go/token"
	"go/types"
	"sort"
	"strings"

	"golang.org/x/tools/go/ssa"

	"s3dbcheck/an"
	"s3dbcheck/core"
)

func init() {
	register(&Rule{Name: "C12.errors", Min: 4, Run: func(c *Ctx) {
		errorsRule(c, "C12.errors", func(pos string) bool { return strings.HasPrefix(pos, "sqlite/s3db_changes.go:") })
	}, Doc: "no storage error is dropped while opening or stepping the diff"})
	register(&Rule{Name: "C12.live-rows", Min: 2, Run: c12LiveRows,
		Doc: "a cursor's current row is only ever a row that was tested and found not deleted"})
	register(&Rule{Name: "C12.readonly", Min: 3, Run: c12Readonly,
		Doc: "the changes module opens versions through loadForDiffing (ReadOnly=true, OnlyVersions) and reaches no ungated mutation"})
	claim("C12", "C12 clauses decided: errors (the diff cursor propagates every storage error), live-rows (path-sensitive: no row whose Deleted flag is set, or untested, becomes the current row of a cursor), readonly (both sides of a diff are opened read-only with an explicit version set), historic-strict (shared with C11: an explicit version set never skips an unreadable part). Not decided: completeness/minimality of mast's structural diff, equality of column values.",
		"C12.errors", "C12.live-rows", "C12.readonly", "C11.historic-strict")
}

func c12LiveRows(c *Ctx) {
	const rule = "C12.live-rows"
	// discover: struct types of library packages with a field currentRow of type *v1proto.Row
	rowDeleted := mustField(c, "proto/v1", "Row", "Deleted")
	if rowDeleted == nil {
		return
	}
	var fields []*types.Var
	for _, pk := range c.P.Roots {
		rel := strings.TrimPrefix(strings.TrimPrefix(pk.PkgPath, core.ModPath), "/")
		if !an.LibraryPkg(rel) {
			continue
		}
		sc := pk.Types.Scope()
		for _, n := range sc.Names() {
			tn, ok := sc.Lookup(n).(*types.TypeName)
			if !ok {
				continue
			}
			st, ok := tn.Type().Underlying().(*types.Struct)
			if !ok {
				continue
			}
			for i := 0; i < st.NumFields(); i++ {
				f := st.Field(i)
				// the cursor's current row, by role: a *Row field of a cursor struct
				if !strings.HasSuffix(tn.Name(), "Cursor") {
					continue
				}
				if nt := an.NamedOf(f.Type()); nt != nil && nt.Obj().Name() == "Row" {
					fields = append(fields, f)
				}
			}
		}
	}
	if len(fields) < 2 {
		c.R.Errorf("expected >= 2 cursor types with a currentRow field, found %d", len(fields))
	}
	isField := func(v *types.Var) bool {
		for _, f := range fields {
			if f == v {
				return true
			}
		}
		return false
	}
	for _, fn := range c.P.RepoFuncs(an.LibraryPkg) {
		for _, b := range fn.Blocks {
			for _, in := range b.Instrs {
				st, ok := in.(*ssa.Store)
				if !ok {
					continue
				}
				fa, ok := st.Addr.(*ssa.FieldAddr)
				if !ok || !isField(an.FieldVar(fa.X.Type(), fa.Field)) {
					continue
				}
				if an.IsNilConst(st.Val) {
					continue // reset
				}
				fname := core.FuncName(fn)
				c.R.SawFunc(fname)
				construct := fname + ": currentRow = <row>"
				pos := c.P.Pos(st.Pos())
				key := an.ExprKey(st.Val)
				root := an.ExprRoot(st.Val)
				var stop map[*ssa.BasicBlock]bool
				if ri, ok := root.(ssa.Instruction); ok && ri.Block() != nil {
					// do not walk into a later loop iteration: the root value is redefined there
					stop = map[*ssa.BasicBlock]bool{}
					_ = ri
				}
				// Deleted tests on the same row expression
				type dtest struct {
					b       *ssa.BasicBlock
					trueIdx int
				}
				var tests []dtest
				for _, tb := range fn.Blocks {
					iff, ok := tb.Instrs[len(tb.Instrs)-1].(*ssa.If)
					if !ok {
						continue
					}
					cond, neg := an.StripNot(iff.Cond)
					ld, ok := cond.(*ssa.UnOp)
					if !ok || ld.Op != token.MUL {
						continue
					}
					dfa, ok := ld.X.(*ssa.FieldAddr)
					if !ok || an.FieldVar(dfa.X.Type(), dfa.Field) != rowDeleted {
						continue
					}
					if an.ExprKey(dfa.X) != key {
						continue
					}
					ti := 0
					if neg {
						ti = 1
					}
					tests = append(tests, dtest{tb, ti})
				}
				if len(tests) == 0 {
					c.R.Bad(rule, construct, pos, "a row becomes the cursor's current row without its Deleted flag being tested: xColumn fails the whole query (\"accessing deleted row\") or a deleted row is returned")
					continue
				}
				// every path from the definition of the row to the assignment must leave a Deleted
				// test of that row through its false edge: forbid those edges and look for a path
				good := true
				why := ""
				forbid := map[[2]*ssa.BasicBlock]bool{}
				for _, t := range tests {
					forbid[[2]*ssa.BasicBlock{t.b, t.b.Succs[1-t.trueIdx]}] = true
				}
				start := fn.Blocks[0]
				stopSet := map[*ssa.BasicBlock]bool{}
				if ri, ok := root.(ssa.Instruction); ok && ri.Block() != nil {
					start = ri.Block()
					stopSet[start] = true // a later loop iteration re-reads the row
				}
				_ = stop
				if start == b || an.ReachableWithFactsAvoiding(start, nil, b, stopSet, nil, forbid) {
					good = false
					why = "the assignment is reachable on a path that does not pass the Deleted==false edge of a test of this row (flag-sensitive path search)"
				}
				c.R.Cond(good, rule, construct, pos, "every path from the row's definition to the assignment leaves a Deleted test of that row on its false side (flag-sensitive)", why)
			}
		}
	}
}

func c12Readonly(c *Ctx) {
	const rule = "C12.readonly"
	e := c.Eff()
	lfd := mustFunc(c, "sqlite", "", "loadForDiffing")
	openKV := mustFunc(c, "", "", "OpenKV")
	soRO := mustField(c, "", "S3Options", "ReadOnly")
	soOV := mustField(c, "", "S3Options", "OnlyVersions")
	if lfd == nil || openKV == nil || soRO == nil || soOV == nil {
		return
	}
	// inside loadForDiffing: the options passed to OpenKV have ReadOnly=true and OnlyVersions=versions
	for _, call := range an.Calls(lfd) {
		if call.Common().StaticCallee() != openKV {
			continue
		}
		opt := call.Common().Args[1]
		ld, ok := opt.(*ssa.UnOp)
		var al *ssa.Alloc
		if ok && ld.Op == token.MUL {
			al, _ = ld.X.(*ssa.Alloc)
		}
		roTrue, ovParam := false, false
		if al != nil {
			if v := an.StoreToFieldOf(al, "ReadOnly"); v != nil {
				if cb, isC := constBool(v); isC && cb {
					roTrue = true
				}
			}
			if v := an.StoreToFieldOf(al, "OnlyVersions"); v != nil {
				if _, isP := v.(*ssa.Parameter); isP {
					ovParam = true
				}
			}
		}
		c.R.Cond(roTrue, rule, core.FuncName(lfd)+": ReadOnly=true", c.P.Pos(call.Pos()), "diff sides are opened read-only", "a diff side is opened without ReadOnly=true: computing a diff could merge and commit")
		c.R.Cond(ovParam, rule, core.FuncName(lfd)+": OnlyVersions=versions", c.P.Pos(call.Pos()), "diff sides are opened for exactly the requested versions", "a diff side is not restricted to the requested versions")
	}
	// every OpenKV reachable in s3db_changes.go goes through loadForDiffing
	for _, fn := range c.P.RepoFuncs(func(rel string) bool { return rel == "sqlite" }) {
		for _, call := range an.Calls(fn) {
			if call.Common().StaticCallee() != openKV {
				continue
			}
			pos := c.P.Pos(call.Pos())
			if !strings.HasPrefix(pos, "sqlite/s3db_changes.go:") {
				continue
			}
			c.R.Cond(fn == lfd, rule, core.FuncName(fn)+": opens through loadForDiffing", pos, "only loadForDiffing opens versions for a diff", "the changes module opens a table directly, not through the read-only helper")
		}
	}
	// no ungated mutation from any callback of the changes types
	mutCut := e.ReachSetCut(func(k an.SinkKind) bool { return k == an.SinkMut })
	for _, en := range an.SqliteEntries(c.P) {
		if !strings.HasPrefix(en.Recv, "Changes") {
			continue
		}
		c.R.Cond(!mutCut[en.Fn], rule, en.Name()+": no ungated mutation", c.P.Pos(en.Fn.Pos()), "cannot modify the bucket", "a changes callback reaches a mutating S3 request outside read-only gates")
	}
	_ = fmt.Sprint
}

// ---- C12.diff-complete: the kv diff cursor hands on every entry the tree diff reports ----------------

func init() {
	register(&Rule{Name: "C12.diff-complete", Min: 2, Run: c12DiffComplete,
		Doc: "kv.DiffCursor.NextEntry returns the entry of exactly one step of the tree diff: no loop, no filtering"})
	byProp["C12"] = append(byProp["C12"], "C12.diff-complete")
	byProp["C17"] = append(byProp["C17"], "C12.diff-complete")
	explain["C12"] += " diff-complete: the kv-level diff cursor performs one step of the structural diff per call and returns its entry (only unwrapping the values); it neither loops nor skips entries by inspecting them — in s3db the entry's write time does not identify the row's content, so any 'same write' filter drops rows that differ."
}

func c12DiffComplete(c *Ctx) {
	const rule = "C12.diff-complete"
	fn := mustFunc(c, "kv", "*DiffCursor", "NextEntry")
	if fn == nil {
		return
	}
	name := core.FuncName(fn)
	var inner []ssa.CallInstruction
	for _, call := range an.Calls(fn) {
		if an.CalleeIs(call, mastPkg, "DiffCursor", "NextEntry") {
			inner = append(inner, call)
		}
	}
	c.R.Cond(len(inner) == 1 && !an.InCycle(inner[0].Block()), rule, name+": one step per call", c.P.Pos(fn.Pos()),
		"exactly one call of the tree diff's NextEntry, not in a loop", fmt.Sprintf("%d calls of the tree diff's NextEntry (or one inside a loop): entries can be skipped or a failed step retried past the sub-trees it had already popped", len(inner)))
	if len(inner) != 1 {
		return
	}
	// every nil-error return returns that step's entry
	var entry ssa.Value
	if cv := inner[0].Value(); cv != nil {
		for _, r := range *cv.Referrers() {
			if ex, ok := r.(*ssa.Extract); ok && ex.Index == 0 {
				entry = ex
			}
		}
	}
	k := 0
	for _, b := range fn.Blocks {
		ret, ok := b.Instrs[len(b.Instrs)-1].(*ssa.Return)
		if !ok || !an.IsNilConst(an.RetErr(ret)) {
			continue
		}
		k++
		rv := an.RetVal(ret, 0)
		good := entry != nil && an.DependsOn(rv, func(v ssa.Value) bool { return v == entry })
		// and no condition on the entry's fields other than nil tests decides the return
		extra := ""
		for _, blk := range fn.Blocks {
			iff, ok := blk.Instrs[len(blk.Instrs)-1].(*ssa.If)
			if !ok {
				continue
			}
			if _, _, isNil := anyNilTestExported(iff); isNil {
				continue
			}
			if an.DependsOn(iff.Cond, func(v ssa.Value) bool { return v == entry }) {
				extra = iff.Cond.String()
			}
		}
		c.R.Cond(good && extra == "", rule, fmt.Sprintf("%s: success return #%d hands on the step's entry unfiltered", name, k), c.P.Pos(ret.Pos()),
			"returns the entry of this step; only nil tests of its values", "the entry is filtered by a condition on its contents ("+extra+") or another value is returned")
	}
}

func anyNilTestExported(iff *ssa.If) (ssa.Value, int, bool) {
	cond, _ := an.StripNot(iff.Cond)
	if bo, ok := cond.(*ssa.BinOp); ok && (bo.Op == token.EQL || bo.Op == token.NEQ) {
		if an.IsNilConst(bo.X) {
			return bo.Y, 0, true
		}
		if an.IsNilConst(bo.Y) {
			return bo.X, 0, true
		}
	}
	return nil, 0, false
}

// ---- C12.reports-visible / C12.versions-as-given ----------------------------------------------------

func init() {
	register(&Rule{Name: "C12.reports-visible", Min: 1, Run: c12ReportsVisible,
		Doc: "ChangesCursor.Next: a diff entry whose new value is a live row always becomes the current row — no other condition can skip it"})
	register(&Rule{Name: "C12.versions-as-given", Min: 1, Run: c12VersionsAsGiven,
		Doc: "the version sets s3db_changes opens are exactly the ones it was given: OnlyVersions is only ever assigned from the caller's argument, and each side is opened once"})
	byProp["C12"] = append(byProp["C12"], "C12.reports-visible", "C12.versions-as-given")
	explain["C12"] += " reports-visible: the decision table of ChangesCursor.Next in the world 'the step succeeded, the entry's new value is a row, the row is not deleted' — every feasible path stores that row as the current row; reaching the next loop iteration, eof or a row-less return there means a condition other than 'absent or deleted in to' filters rows (e.g. a value comparison that ignores the storage class drops NULL -> 0 changes). versions-as-given: in package sqlite the only value stored into S3Options.OnlyVersions is the enclosing function's parameter, and loadForDiffing calls OpenKV once — a fallback that opens another version set (the empty table) when a version cannot be found turns 'cannot read' into a complete-looking answer."
}

type chgState struct {
	iter   int
	stored bool
}

func (s chgState) Key() string { return fmt.Sprintf("%d/%v", s.iter, s.stored) }

func c12ReportsVisible(c *Ctx) {
	const rule = "C12.reports-visible"
	fn := mustFunc(c, "sqlite", "*ChangesCursor", "Next")
	curRow := mustField(c, "sqlite", "ChangesCursor", "currentRow")
	eofF := mustField(c, "sqlite", "ChangesCursor", "eof")
	if fn == nil || curRow == nil || eofF == nil {
		return
	}
	name := core.FuncName(fn)
	sc := c.Scope(fn)
	var step *ssa.Call
	for _, call := range sc.Calls() {
		if cl, ok := call.(*ssa.Call); ok && calleeLabel(call) == "NextEntry" {
			step = cl
		}
	}
	if step == nil {
		c.R.Unk(rule, name+": visible rows are reported", c.P.Pos(fn.Pos()), "no NextEntry call found")
		return
	}
	H := loopHeaderOf(step.Block())
	if H == nil {
		c.R.Unk(rule, name+": visible rows are reported", c.P.Pos(fn.Pos()), "NextEntry is not called in a loop")
		return
	}
	var entry, stepErr ssa.Value
	for _, r := range *step.Referrers() {
		if ex, ok := r.(*ssa.Extract); ok {
			if ex.Index == 0 {
				entry = ex
			} else {
				stepErr = ex
			}
		}
	}
	fromEntry := func(v ssa.Value) bool {
		for i := 0; i < 6; i++ {
			r := an.ExprRoot(v)
			if r == entry {
				return true
			}
			if ex, ok := r.(*ssa.Extract); ok {
				if ta, ok := ex.Tuple.(*ssa.TypeAssert); ok {
					v = ta.X
					continue
				}
			}
			if al, ok := r.(*ssa.Alloc); ok { // the entry spilled to a local
				for _, rr := range *al.Referrers() {
					if st, ok := rr.(*ssa.Store); ok && st.Addr == ssa.Value(al) {
						v = st.Val
					}
				}
				if an.ExprRoot(v) == r {
					return false
				}
				continue
			}
			return false
		}
		return false
	}
	var violations []string
	h := an.THooks{}
	h.Branch = func(iff *ssa.If, side bool, st an.TState) an.TState {
		cond, neg := an.StripNot(iff.Cond)
		val, known := false, false
		switch x := cond.(type) {
		case *ssa.BinOp:
			if x.Op == token.EQL || x.Op == token.NEQ {
				var tested ssa.Value
				if an.IsNilConst(x.Y) {
					tested = x.X
				} else if an.IsNilConst(x.X) {
					tested = x.Y
				}
				switch {
				case tested != nil && tested == stepErr:
					val, known = x.Op == token.EQL, true // the step succeeded: err is nil
				case tested != nil && fromEntry(tested):
					val, known = x.Op != token.EQL, true // new value and row are non-nil
				case tested == nil && (x.X == stepErr || x.Y == stepErr):
					val, known = x.Op != token.EQL, true // err is not a sentinel either
				}
			}
		case *ssa.UnOp:
			if f := an.FieldOfLoad(x); f != nil && f.Name() == "Deleted" && fromEntry(x) {
				val, known = false, true
			}
		case *ssa.Call:
			// row.GetDeleted()
			if calleeLabel(x) == "GetDeleted" && len(x.Call.Args) > 0 && fromEntry(x.Call.Args[0]) {
				val, known = false, true
			}
		case *ssa.Extract:
			// ok of "row, ok := de.NewValue.(*Row)": it is a row
			if ta, isTA := x.Tuple.(*ssa.TypeAssert); isTA && x.Index == 1 && fromEntry(ta.X) {
				val, known = true, true
			}
		}
		if known && (val != neg) != side {
			return nil
		}
		return st
	}
	h.Instr = func(in ssa.Instruction, st0 an.TState) an.TState {
		st := st0.(chgState)
		if in.Block() == H && in == H.Instrs[firstNonPhi(H)] {
			st.iter++
			if st.iter >= 2 {
				if !st.stored {
					violations = append(violations, "the entry is skipped (the loop goes on to the next diff entry)")
				}
				return nil
			}
		}
		if s, ok := in.(*ssa.Store); ok {
			if fa, ok := s.Addr.(*ssa.FieldAddr); ok {
				switch an.FieldVar(fa.X.Type(), fa.Field) {
				case curRow:
					if fromEntry(s.Val) {
						st.stored = true
					}
				case eofF:
					if cb, isC := constBool(s.Val); isC && cb && !st.stored {
						violations = append(violations, "the entry is taken for the end of the diff (eof = true)")
						return nil
					}
				}
			}
		}
		return st
	}
	exits, _ := an.WalkTypestateFrom(H, 0, chgState{}, nil, h, sc)
	for _, ex := range exits {
		if ex.ErrNil != 0 && !ex.St.(chgState).stored {
			violations = append(violations, "Next returns without a current row at "+c.P.Pos(ex.Ret.Pos()))
		}
	}
	sort.Strings(violations)
	violations = uniqStrings(violations)
	c.R.Cond(len(violations) == 0, rule, name+": visible rows are reported", c.P.Pos(fn.Pos()),
		"in the world 'step succeeded, new value is a live row' every path makes it the current row",
		"a row that is visible in 'to' and differs from 'from' can be left out of s3db_changes: "+strings.Join(violations, "; ")+" — only 'absent or deleted in to' may filter a diff entry")
}

func c12VersionsAsGiven(c *Ctx) {
	const rule = "C12.versions-as-given"
	onlyV := mustField(c, "", "S3Options", "OnlyVersions")
	lfd := mustFunc(c, "sqlite", "", "loadForDiffing")
	if onlyV == nil || lfd == nil {
		return
	}
	n := 0
	for _, fn := range c.P.RepoFuncs(func(rel string) bool { return rel == "sqlite" }) {
		for _, st := range an.StoresToField(fn, onlyV) {
			n++
			root := an.Unwrap(st.Val)
			_, isParam := root.(*ssa.Parameter)
			c.R.Cond(isParam, rule, core.FuncName(fn)+": OnlyVersions is the caller's argument", c.P.Pos(st.Pos()),
				"assigned from a parameter", "OnlyVersions is assigned a value that is not the version set the caller asked for (e.g. the empty version as a fallback when a version cannot be found): the diff is taken against another table state and looks complete")
		}
	}
	opens := 0
	sc := c.Scope(lfd)
	for _, call := range sc.Calls() {
		if f := call.Common().StaticCallee(); f != nil && f.Name() == "OpenKV" {
			opens++
		}
	}
	c.R.Cond(opens == 1, rule, core.FuncName(lfd)+": one open per side", c.P.Pos(lfd.Pos()), "OpenKV is called once", fmt.Sprintf("OpenKV is called %d times: a second open after a failed one answers a query about versions that could not be read", opens))
	if n == 0 {
		c.R.Unk(rule, "sqlite: OnlyVersions", "-", "no assignment of S3Options.OnlyVersions found in package sqlite")
	}
}

// ---- C12.always-diffs: no answer without comparing the two trees ------------------------------------------

func init() {
	register(&Rule{Name: "C12.always-diffs", Min: 1, Run: c12AlwaysDiffs,
		Doc: "every cursor ChangesTable.Open hands out was started by StartDiff over the two trees: no shortcut answers 'no changes' from the version lists"})
	byProp["C12"] = append(byProp["C12"], "C12.always-diffs")
	explain["C12"] += " always-diffs: a version is a set of names, and only equal sets denote equal rows (a read-only table that merged two writers in memory reports a two-name version of which each writer's own version is a proper subset); every successful return of ChangesTable.Open lies behind the StartDiff call, so no comparison of the lists stands in for comparing the trees."
}

func c12AlwaysDiffs(c *Ctx) {
	const rule = "C12.always-diffs"
	fn := mustFunc(c, "sqlite", "*ChangesTable", "Open")
	if fn == nil {
		return
	}
	name := core.FuncName(fn)
	c.R.SawFunc(name)
	isStart := func(in ssa.Instruction) bool {
		cl, ok := in.(ssa.CallInstruction)
		return ok && an.CalleeIs(cl, kvPkg, "DB", "StartDiff")
	}
	h := an.THooks{Instr: func(in ssa.Instruction, st an.TState) an.TState {
		if isStart(in) || callsOneThatAlwaysDoes(c, in, isStart, 0) {
			return ansState(true)
		}
		return st
	}}
	exits := an.WalkTypestate(fn, ansState(false), h, c.Scope(fn))
	good := len(exits) > 0
	why := ""
	for _, ex := range exits {
		if ex.ErrNil != 0 && !bool(ex.St.(ansState)) {
			good = false
			why = "Open can hand out a cursor at " + c.P.Pos(ex.Ret.Pos()) + " without having started a diff: whatever decides that (e.g. 'from and to name the same versions', which a subset test also satisfies) replaces the comparison of the trees, and rows that differ are not reported"
		}
	}
	c.R.Cond(good, rule, name+": every cursor comes from StartDiff", c.P.Pos(fn.Pos()), "no successful return bypasses StartDiff", why)
}


// alwaysDoes: every possibly-successful return of fn lies behind an instruction accepted by pred —
// directly, or through a call of a repository function of which the same holds (bounded depth). Used
// for helpers that have several callers and are therefore not part of a Scope.
func alwaysDoes(c *Ctx, fn *ssa.Function, pred func(ssa.Instruction) bool, depth int) bool {
	if fn == nil || len(fn.Blocks) == 0 || depth > 3 {
		return false
	}
	h := an.THooks{Instr: func(in ssa.Instruction, st an.TState) an.TState {
		if pred(in) || callsOneThatAlwaysDoes(c, in, pred, depth+1) {
			return ansState(true)
		}
		return st
	}}
	exits := an.WalkTypestate(fn, ansState(false), h, c.Scope(fn))
	if len(exits) == 0 {
		return false
	}
	for _, ex := range exits {
		if ex.ErrNil != 0 && !bool(ex.St.(ansState)) {
			return false
		}
	}
	return true
}

func callsOneThatAlwaysDoes(c *Ctx, in ssa.Instruction, pred func(ssa.Instruction) bool, depth int) bool {
	cl, ok := in.(ssa.CallInstruction)
	if !ok {
		return false
	}
	cal := cl.Common().StaticCallee()
	if cal == nil || !strings.HasPrefix(an.PkgPathOf(cal), core.ModPath) || cal == in.Parent() {
		return false
	}
	return alwaysDoes(c, cal, pred, depth)
}
