package rules

import (
	"fmt"
	"go/token"
	"go/types"
	"strings"

	"golang.org/x/tools/go/ssa"

	"s3dbcheck/an"
	"s3dbcheck/core"
)

func init() {
	register(&Rule{Name: "C12.errors", Min: 4, Run: func(c *Ctx) {
		errorsRule(c, "C12.errors", func(pos string) bool { return strings.HasPrefix(pos, "sqlite/s3db_changes.go:") })
	}, Doc: "no storage error is dropped while opening or stepping the diff"})
	register(&Rule{Name: "C12.live-rows", Min: 2, Run: c12LiveRows,
		Doc: "a cursor's current row is only ever a row that was tested and found not deleted"})
	register(&Rule{Name: "C12.readonly", Min: 3, Run: c12Readonly,
		Doc: "the changes module opens versions through loadForDiffing (ReadOnly=true, OnlyVersions) and reaches no ungated mutation"})
	claim("C12", "C12 clauses decided: errors (the diff cursor propagates every storage error), live-rows (path-sensitive: no row whose Deleted flag is set, or untested, becomes the current row of a cursor), readonly (both sides of a diff are opened read-only with an explicit version set), historic-strict (shared with C11: an explicit version set never skips an unreadable part). Not decided: completeness/minimality of mast's structural diff, equality of column values.",
		"C12.errors", "C12.live-rows", "C12.readonly", "C11.historic-strict")
}

func c12LiveRows(c *Ctx) {
	const rule = "C12.live-rows"
	// discover: struct types of library packages with a field currentRow of type *v1proto.Row
	rowDeleted := mustField(c, "proto/v1", "Row", "Deleted")
	if rowDeleted == nil {
		return
	}
	var fields []*types.Var
	for _, pk := range c.P.Roots {
		rel := strings.TrimPrefix(strings.TrimPrefix(pk.PkgPath, core.ModPath), "/")
		if !an.LibraryPkg(rel) {
			continue
		}
		sc := pk.Types.Scope()
		for _, n := range sc.Names() {
			tn, ok := sc.Lookup(n).(*types.TypeName)
			if !ok {
				continue
			}
			st, ok := tn.Type().Underlying().(*types.Struct)
			if !ok {
				continue
			}
			for i := 0; i < st.NumFields(); i++ {
				f := st.Field(i)
				if f.Name() != "currentRow" {
					continue
				}
				if nt := an.NamedOf(f.Type()); nt != nil && nt.Obj().Name() == "Row" {
					fields = append(fields, f)
				}
			}
		}
	}
	if len(fields) < 2 {
		c.R.Errorf("expected >= 2 cursor types with a currentRow field, found %d", len(fields))
	}
	isField := func(v *types.Var) bool {
		for _, f := range fields {
			if f == v {
				return true
			}
		}
		return false
	}
	for _, fn := range c.P.RepoFuncs(an.LibraryPkg) {
		for _, b := range fn.Blocks {
			for _, in := range b.Instrs {
				st, ok := in.(*ssa.Store)
				if !ok {
					continue
				}
				fa, ok := st.Addr.(*ssa.FieldAddr)
				if !ok || !isField(an.FieldVar(fa.X.Type(), fa.Field)) {
					continue
				}
				if an.IsNilConst(st.Val) {
					continue // reset
				}
				fname := core.FuncName(fn)
				c.R.SawFunc(fname)
				construct := fname + ": currentRow = <row>"
				pos := c.P.Pos(st.Pos())
				key := an.ExprKey(st.Val)
				root := an.ExprRoot(st.Val)
				var stop map[*ssa.BasicBlock]bool
				if ri, ok := root.(ssa.Instruction); ok && ri.Block() != nil {
					// do not walk into a later loop iteration: the root value is redefined there
					stop = map[*ssa.BasicBlock]bool{}
					_ = ri
				}
				// Deleted tests on the same row expression
				type dtest struct {
					b       *ssa.BasicBlock
					trueIdx int
				}
				var tests []dtest
				for _, tb := range fn.Blocks {
					iff, ok := tb.Instrs[len(tb.Instrs)-1].(*ssa.If)
					if !ok {
						continue
					}
					cond, neg := an.StripNot(iff.Cond)
					ld, ok := cond.(*ssa.UnOp)
					if !ok || ld.Op != token.MUL {
						continue
					}
					dfa, ok := ld.X.(*ssa.FieldAddr)
					if !ok || an.FieldVar(dfa.X.Type(), dfa.Field) != rowDeleted {
						continue
					}
					if an.ExprKey(dfa.X) != key {
						continue
					}
					ti := 0
					if neg {
						ti = 1
					}
					tests = append(tests, dtest{tb, ti})
				}
				if len(tests) == 0 {
					c.R.Bad(rule, construct, pos, "a row becomes the cursor's current row without its Deleted flag being tested: xColumn fails the whole query (\"accessing deleted row\") or a deleted row is returned")
					continue
				}
				// every path from the definition of the row to the assignment must leave a Deleted
				// test of that row through its false edge: forbid those edges and look for a path
				good := true
				why := ""
				forbid := map[[2]*ssa.BasicBlock]bool{}
				for _, t := range tests {
					forbid[[2]*ssa.BasicBlock{t.b, t.b.Succs[1-t.trueIdx]}] = true
				}
				start := fn.Blocks[0]
				stopSet := map[*ssa.BasicBlock]bool{}
				if ri, ok := root.(ssa.Instruction); ok && ri.Block() != nil {
					start = ri.Block()
					stopSet[start] = true // a later loop iteration re-reads the row
				}
				_ = stop
				if start == b || an.ReachableWithFactsAvoiding(start, nil, b, stopSet, nil, forbid) {
					good = false
					why = "the assignment is reachable on a path that does not pass the Deleted==false edge of a test of this row (flag-sensitive path search)"
				}
				c.R.Cond(good, rule, construct, pos, "every path from the row's definition to the assignment leaves a Deleted test of that row on its false side (flag-sensitive)", why)
			}
		}
	}
}

func c12Readonly(c *Ctx) {
	const rule = "C12.readonly"
	e := c.Eff()
	lfd := mustFunc(c, "sqlite", "", "loadForDiffing")
	openKV := mustFunc(c, "", "", "OpenKV")
	soRO := mustField(c, "", "S3Options", "ReadOnly")
	soOV := mustField(c, "", "S3Options", "OnlyVersions")
	if lfd == nil || openKV == nil || soRO == nil || soOV == nil {
		return
	}
	// inside loadForDiffing: the options passed to OpenKV have ReadOnly=true and OnlyVersions=versions
	for _, call := range an.Calls(lfd) {
		if call.Common().StaticCallee() != openKV {
			continue
		}
		opt := call.Common().Args[1]
		ld, ok := opt.(*ssa.UnOp)
		var al *ssa.Alloc
		if ok && ld.Op == token.MUL {
			al, _ = ld.X.(*ssa.Alloc)
		}
		roTrue, ovParam := false, false
		if al != nil {
			if v := an.StoreToFieldOf(al, "ReadOnly"); v != nil {
				if cb, isC := constBool(v); isC && cb {
					roTrue = true
				}
			}
			if v := an.StoreToFieldOf(al, "OnlyVersions"); v != nil {
				if _, isP := v.(*ssa.Parameter); isP {
					ovParam = true
				}
			}
		}
		c.R.Cond(roTrue, rule, core.FuncName(lfd)+": ReadOnly=true", c.P.Pos(call.Pos()), "diff sides are opened read-only", "a diff side is opened without ReadOnly=true: computing a diff could merge and commit")
		c.R.Cond(ovParam, rule, core.FuncName(lfd)+": OnlyVersions=versions", c.P.Pos(call.Pos()), "diff sides are opened for exactly the requested versions", "a diff side is not restricted to the requested versions")
	}
	// every OpenKV reachable in s3db_changes.go goes through loadForDiffing
	for _, fn := range c.P.RepoFuncs(func(rel string) bool { return rel == "sqlite" }) {
		for _, call := range an.Calls(fn) {
			if call.Common().StaticCallee() != openKV {
				continue
			}
			pos := c.P.Pos(call.Pos())
			if !strings.HasPrefix(pos, "sqlite/s3db_changes.go:") {
				continue
			}
			c.R.Cond(fn == lfd, rule, core.FuncName(fn)+": opens through loadForDiffing", pos, "only loadForDiffing opens versions for a diff", "the changes module opens a table directly, not through the read-only helper")
		}
	}
	// no ungated mutation from any callback of the changes types
	mutCut := e.ReachSetCut(func(k an.SinkKind) bool { return k == an.SinkMut })
	for _, en := range an.SqliteEntries(c.P) {
		if !strings.HasPrefix(en.Recv, "Changes") {
			continue
		}
		c.R.Cond(!mutCut[en.Fn], rule, en.Name()+": no ungated mutation", c.P.Pos(en.Fn.Pos()), "cannot modify the bucket", "a changes callback reaches a mutating S3 request outside read-only gates")
	}
	_ = fmt.Sprint
}

// ---- C12.diff-complete: the kv diff cursor hands on every entry the tree diff reports ----------------

func init() {
	register(&Rule{Name: "C12.diff-complete", Min: 2, Run: c12DiffComplete,
		Doc: "kv.DiffCursor.NextEntry returns the entry of exactly one step of the tree diff: no loop, no filtering"})
	byProp["C12"] = append(byProp["C12"], "C12.diff-complete")
	byProp["C17"] = append(byProp["C17"], "C12.diff-complete")
	explain["C12"] += " diff-complete: the kv-level diff cursor performs one step of the structural diff per call and returns its entry (only unwrapping the values); it neither loops nor skips entries by inspecting them — in s3db the entry's write time does not identify the row's content, so any 'same write' filter drops rows that differ."
}

func c12DiffComplete(c *Ctx) {
	const rule = "C12.diff-complete"
	fn := mustFunc(c, "kv", "*DiffCursor", "NextEntry")
	if fn == nil {
		return
	}
	name := core.FuncName(fn)
	var inner []ssa.CallInstruction
	for _, call := range an.Calls(fn) {
		if an.CalleeIs(call, mastPkg, "DiffCursor", "NextEntry") {
			inner = append(inner, call)
		}
	}
	c.R.Cond(len(inner) == 1 && !an.InCycle(inner[0].Block()), rule, name+": one step per call", c.P.Pos(fn.Pos()),
		"exactly one call of the tree diff's NextEntry, not in a loop", fmt.Sprintf("%d calls of the tree diff's NextEntry (or one inside a loop): entries can be skipped or a failed step retried past the sub-trees it had already popped", len(inner)))
	if len(inner) != 1 {
		return
	}
	// every nil-error return returns that step's entry
	var entry ssa.Value
	if cv := inner[0].Value(); cv != nil {
		for _, r := range *cv.Referrers() {
			if ex, ok := r.(*ssa.Extract); ok && ex.Index == 0 {
				entry = ex
			}
		}
	}
	k := 0
	for _, b := range fn.Blocks {
		ret, ok := b.Instrs[len(b.Instrs)-1].(*ssa.Return)
		if !ok || !an.IsNilConst(an.RetErr(ret)) {
			continue
		}
		k++
		rv := an.RetVal(ret, 0)
		good := entry != nil && an.DependsOn(rv, func(v ssa.Value) bool { return v == entry })
		// and no condition on the entry's fields other than nil tests decides the return
		extra := ""
		for _, blk := range fn.Blocks {
			iff, ok := blk.Instrs[len(blk.Instrs)-1].(*ssa.If)
			if !ok {
				continue
			}
			if _, _, isNil := anyNilTestExported(iff); isNil {
				continue
			}
			if an.DependsOn(iff.Cond, func(v ssa.Value) bool { return v == entry }) {
				extra = iff.Cond.String()
			}
		}
		c.R.Cond(good && extra == "", rule, fmt.Sprintf("%s: success return #%d hands on the step's entry unfiltered", name, k), c.P.Pos(ret.Pos()),
			"returns the entry of this step; only nil tests of its values", "the entry is filtered by a condition on its contents ("+extra+") or another value is returned")
	}
}

func anyNilTestExported(iff *ssa.If) (ssa.Value, int, bool) {
	cond, _ := an.StripNot(iff.Cond)
	if bo, ok := cond.(*ssa.BinOp); ok && (bo.Op == token.EQL || bo.Op == token.NEQ) {
		if an.IsNilConst(bo.X) {
			return bo.Y, 0, true
		}
		if an.IsNilConst(bo.Y) {
			return bo.X, 0, true
		}
	}
	return nil, 0, false
}
