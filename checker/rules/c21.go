package rules

import (
	"fmt"
	"go/constant"
	"go/token"
	"go/types"
	"sort"
	"strings"

	"golang.org/x/tools/go/ssa"

	"s3dbcheck/an"
	"s3dbcheck/core"
)

// Rules written for the defects that the side observations of the round-5 seeding agents led to
// (each reproduced against the real code first, repaired in /repo, DESIGN.md section 6).

func init() {
	register(&Rule{Name: "C15.cancel-only-resets", Min: 1, Run: c15CancelOnlyResets,
		Doc: "the connection's cancel function is called only by ResetContext, which installs a live context again"})
	register(&Rule{Name: "C15.time-range", Min: 1, Run: c15TimeRange,
		Doc: "an assigned write_time is stored only behind the 'can be held as nanoseconds since 1970' test"})
	register(&Rule{Name: "C17.tombstone-tests-agree", Min: 1, Run: c17TombstoneTestsAgree,
		Doc: "no test of an entry's tombstone time against zero depends on its sign: Tombstoned() is '!= 0', and vacuum's markers are negative"})
	register(&Rule{Name: "C05.begin-releases", Min: 2, Run: c05BeginReleases,
		Doc: "xBegin releases the write time it fixed when it fails; xSync of every table ends the transaction xBegin started"})
	register(&Rule{Name: "C20.endpoint-resolved", Min: 1, Run: c20EndpointResolved,
		Doc: "OpenKV never hands kv.Open an endpoint that may be empty: on every path it was tested non-empty or assigned"})
	register(&Rule{Name: "C20.dup-case", Min: 1, Run: c20DupCase,
		Doc: "the duplicate-column test of convertSchema compares case-folded names, as SQLite's own declaration check (which runs after the storage was opened) does"})
	register(&Rule{Name: "C12.options-default", Min: 1, Run: c12OptionsDefault,
		Doc: "the option switch of s3db_changes refuses what it does not know (sibling of C20.options)"})
	register(&Rule{Name: "C09.gc-root-kept", Min: 1, Run: c09GcRootKept,
		Doc: "vacuum's 'whatever the retained tree links must stay' also takes the root node, which only the version object links, off the deletion list"})
	byProp["C15"] = append(byProp["C15"], "C15.cancel-only-resets", "C15.time-range")
	byProp["C19"] = append(byProp["C19"], "C15.cancel-only-resets")
	byProp["C02"] = append(byProp["C02"], "C15.time-range")
	byProp["C17"] = append(byProp["C17"], "C17.tombstone-tests-agree")
	byProp["C10"] = append(byProp["C10"], "C17.tombstone-tests-agree")
	byProp["C05"] = append(byProp["C05"], "C05.begin-releases")
	byProp["C13"] = append(byProp["C13"], "C05.begin-releases")
	byProp["C15"] = append(byProp["C15"], "C05.begin-releases")
	byProp["C20"] = append(byProp["C20"], "C20.endpoint-resolved", "C20.dup-case")
	byProp["C12"] = append(byProp["C12"], "C12.options-default")
	byProp["C09"] = append(byProp["C09"], "C09.gc-root-kept")
	byProp["C16"] = append(byProp["C16"], "C09.gc-root-kept")
	explain["C15"] += " cancel-only-resets: 'deadline … applies to exactly the statements issued while it is set' — the context is the connection's, not a table's: a callback that cancels it without rebuilding it (DROP of one table) makes every later statement on the connection's other tables fail with 'context canceled'. The stored cancel function is called only inside ResetContext. time-range: UnixNano wraps outside 1677..2262, so a write_time of 2300 is stored as a time in the past and loses against 2006 ('an older statement cannot undo a newer change'); on every successful path of ConnModule.Update on which write_time was parsed, the parsed value passed TimeInRange. begin-releases (shared with C05)."
	explain["C19"] += " cancel-only-resets (shared with C15): no cross-talk between the tables of one connection either."
	explain["C02"] += " time-range (shared with C15): write times that cannot be stored are refused, so 'greatest write time wins' is decided on values that order like the times they stand for."
	explain["C17"] += " tombstone-tests-agree: crdt.Value.Tombstoned() is TombstoneSinceEpochNanos != 0; a test '> 0' elsewhere takes a tombstone with a negative time (vacuum's markers; any Tombstone() before 1970) for a live entry with a nil value — Get reported it as found and the SQL layer dereferenced the nil row. In kv/internal/crdt and kv/crdt no comparison of that field with the constant 0 uses an ordering operator."
	explain["C10"] += " tombstone-tests-agree (shared with C17): a marker that a vacuum left behind must at least stay a tombstone for every reader."
	explain["C05"] += " begin-releases: SQLite calls neither xCommit nor xRollback for a table whose xBegin failed, so (a) every failing return of the sqlite layer's Begin on which the write time was fixed by that call lies behind its release; (b) every successful return of Sync lies behind the common layer's Commit or a call that drops the snapshot (read-only tables have no commit: before the repair their transaction never ended, every later write was answered 'transaction already in progress', and that failing xBegin left a stale fixed write time that stamped later statements on other tables)."
	explain["C13"] += " begin-releases (shared with C05): write statements on a read-only table keep failing with the read-only error."
	explain["C20"] += " endpoint-resolved: 'accepts exactly the documented arguments' — s3_bucket without s3_endpoint is the documented way to use AWS; kv.Open refuses an empty endpoint, so on every path to the kv.Open call the options' Endpoint was tested non-empty or assigned (from the in-memory server or from the endpoint the SDK resolved). dup-case: SQLite does not tell column names apart by case and refuses 'name, NAME' when the table is declared — after OpenKV, which merges and commits: 'rejected … and no object written' needs s3db's own duplicate test, which precedes the open, to fold case; every map lookup in convertSchema whose 'found' side is an error is indexed by a strings.ToLower/ToUpper result."
	explain["C12"] += " options-default: from ='[…]' (a blank before '=') used to be accepted with the from version dropped, and the changes were computed against the live table; the switch over option names in ChangesModule.Connect has a default that returns an error."
	explain["C09"] += " gc-root-kept: DiffLinks reports what nodes link to; the root node's name appears in the version object only. When the tree returned to the content of an earlier version and a later vacuum purged nothing, the root node was among that earlier version's nodes and was deleted (fresh readers: empty table). The function that collects the deletion list removes from it a name taken from MakeRoot().Link."
	explain["C16"] += " gc-root-kept (shared with C09)."
}

func c15CancelOnlyResets(c *Ctx) {
	const rule = "C15.cancel-only-resets"
	cancelF := mustField(c, "sqlite", "S3DBConn", "ctxCancel")
	reset := mustFunc(c, "sqlite", "*S3DBConn", "ResetContext")
	if cancelF == nil || reset == nil {
		return
	}
	var bad []string
	n := 0
	for _, fn := range c.P.RepoFuncs(an.LibraryPkg) {
		for _, call := range an.Calls(fn) {
			if call.Common().IsInvoke() || call.Common().StaticCallee() != nil {
				continue
			}
			if an.FieldOfLoad(call.Common().Value) != cancelF {
				continue
			}
			n++
			if fn != reset {
				bad = append(bad, core.FuncName(fn)+" at "+c.P.Pos(call.Pos()))
			}
		}
	}
	sort.Strings(bad)
	if n == 0 {
		c.R.Unk(rule, "the connection's context is cancelled only to be rebuilt", "-", "no call of the stored cancel function found")
		return
	}
	c.R.Cond(len(bad) == 0, rule, "the connection's context is cancelled only to be rebuilt", c.P.Pos(reset.Pos()), fmt.Sprintf("%d call(s) of ctxCancel, all inside ResetContext", n),
		"ctxCancel is called in "+strings.Join(bad, "; ")+" without a new context being installed: with a deadline set, every later statement on the connection fails with 'context canceled'")
}

func c15TimeRange(c *Ctx) {
	const rule = "C15.time-range"
	upd := mustFunc(c, "sqlite", "*ConnModule", "Update")
	if upd == nil {
		return
	}
	name := core.FuncName(upd)
	var valuesParam ssa.Value
	for _, p := range upd.Params {
		if _, ok := p.Type().Underlying().(*types.Slice); ok {
			valuesParam = p
		}
	}
	fromCol := func(v ssa.Value, col int64) bool {
		hit := false
		an.DependsOn(v, func(w ssa.Value) bool {
			if ia, ok := w.(*ssa.IndexAddr); ok && an.Unwrap(ia.X) == valuesParam {
				if k, ok := constInt(ia.Index); ok && k == col {
					hit = true
				}
			}
			return false
		})
		return hit
	}
	h := an.THooks{}
	h.Instr = func(in ssa.Instruction, s0 an.TState) an.TState {
		s := s0.(kvState)
		if cl, ok := in.(*ssa.Call); ok {
			if f := cl.Call.StaticCallee(); f != nil && (isTimeParse(f) || callsTimeParse(f)) {
				for _, a := range cl.Call.Args {
					if fromCol(a, 1) {
						s.a = true
					}
				}
			}
		}
		return s
	}
	h.Branch = func(iff *ssa.If, side bool, s0 an.TState) an.TState {
		s := s0.(kvState)
		cond, neg := an.StripNot(iff.Cond)
		if cl, ok := cond.(*ssa.Call); ok && calleeLabel(cl) == "TimeInRange" && side != neg {
			s.b = true
		}
		return s
	}
	good, n := true, 0
	why := ""
	for _, ex := range an.WalkTypestate(upd, kvState{}, h, c.Scope(upd)) {
		s := ex.St.(kvState)
		if ex.ErrNil == 0 || !s.a {
			continue
		}
		n++
		if !s.b {
			good = false
			why = "Update can succeed at " + c.P.Pos(ex.Ret.Pos()) + " with a parsed write_time that never passed TimeInRange: '2300-01-01 00:00:00' is stored as a wrapped-around UnixNano, i.e. a time in the past, and a statement stamped 2006 executed afterwards undoes it"
		}
	}
	if n == 0 {
		c.R.Unk(rule, name+": an assigned write_time can be stored", c.P.Pos(upd.Pos()), "no successful path parses write_time")
		return
	}
	c.R.Cond(good, rule, name+": an assigned write_time can be stored", c.P.Pos(upd.Pos()), fmt.Sprintf("%d successful paths that parse write_time, each behind TimeInRange", n), why)
}

// kvState is a small two-flag client state.
type kvState struct{ a, b bool }

func (k kvState) Key() string { return fmt.Sprintf("%v/%v", k.a, k.b) }

func c17TombstoneTestsAgree(c *Ctx) {
	const rule = "C17.tombstone-tests-agree"
	n := 0
	var bad []string
	for _, fn := range c.P.RepoFuncs(func(rel string) bool { return rel == "kv/internal/crdt" || rel == "kv/crdt" || rel == "kv" }) {
		for _, b := range fn.Blocks {
			for _, in := range b.Instrs {
				bo, ok := in.(*ssa.BinOp)
				if !ok {
					continue
				}
				isT := func(v ssa.Value) bool {
					if fv := an.FieldOfLoad(v); fv != nil && fv.Name() == "TombstoneSinceEpochNanos" {
						return true
					}
					if f, isF := v.(*ssa.Field); isF {
						fv := an.FieldVar(f.X.Type(), f.Field)
						return fv != nil && fv.Name() == "TombstoneSinceEpochNanos"
					}
					return false
				}
				var other ssa.Value
				switch {
				case isT(bo.X):
					other = bo.Y
				case isT(bo.Y):
					other = bo.X
				default:
					continue
				}
				k, isK := constInt(other)
				if !isK || k != 0 {
					continue // a comparison with a cutoff or another entry's time
				}
				n++
				switch bo.Op {
				case token.EQL, token.NEQ:
				default:
					bad = append(bad, fmt.Sprintf("%s at %s (%s 0)", core.FuncName(fn), c.P.Pos(bo.Pos()), bo.Op))
				}
			}
		}
	}
	sort.Strings(bad)
	if n < 2 {
		c.R.Errorf("C17.tombstone-tests-agree: only %d tests of the tombstone time against 0 found", n)
	}
	c.R.Cond(len(bad) == 0, rule, "tests of the tombstone time against zero do not depend on its sign", "-", fmt.Sprintf("%d tests, all == / !=", n),
		"sign-dependent test in "+strings.Join(bad, "; ")+": a tombstone with a negative time (vacuum's markers) passes for a live entry there, while Tombstoned() and the merge treat it as a tombstone")
}

func c05BeginReleases(c *Ctx) {
	const rule = "C05.begin-releases"
	begin := mustFunc(c, "sqlite", "*VirtualTable", "Begin")
	sync := mustFunc(c, "sqlite", "*VirtualTable", "Sync")
	pinF := mustField(c, "sqlite", "S3DBConn", "txFixedWriteTime")
	txStart := mustField(c, "", "VirtualTable", "txStart")
	commonCommit := mustFunc(c, "", "*VirtualTable", "Commit")
	if begin == nil || sync == nil || pinF == nil || txStart == nil || commonCommit == nil {
		return
	}
	// (a) Begin
	{
		name := core.FuncName(begin)
		h := an.THooks{Instr: func(in ssa.Instruction, s0 an.TState) an.TState {
			s := s0.(kvState)
			if st, ok := in.(*ssa.Store); ok {
				if fa, ok := st.Addr.(*ssa.FieldAddr); ok && an.FieldVar(fa.X.Type(), fa.Field) == pinF {
					if cb, isC := constBool(st.Val); isC {
						if cb {
							s.a = true
							s.b = false
						} else {
							s.b = true
						}
					}
				}
			}
			return s
		}}
		good := true
		why := ""
		nFail := 0
		for _, ex := range an.WalkTypestate(begin, kvState{}, h, c.Scope(begin)) {
			s := ex.St.(kvState)
			if ex.ErrNil == 1 {
				continue
			}
			nFail++
			if s.a && !s.b && ex.ErrNil == 0 {
				good = false
				why = "Begin can fail at " + c.P.Pos(ex.Ret.Pos()) + " with the write time it fixed still in place: SQLite ends no transaction on a table whose xBegin failed, so the stale time stays on the connection and stamps its later statements (on other tables too)"
			}
		}
		// ErrNil is unknown when the error goes through the conversion helper: decide on the structure
		// instead — a failing path exists iff the inner Begin's error is tested
		if good && nFail > 0 {
			tested := false
			for _, b := range begin.Blocks {
				if iff, ok := b.Instrs[len(b.Instrs)-1].(*ssa.If); ok {
					if v, _, isNil := an.NilTestOf(iff); isNil && an.IsErrorType(v.Type()) {
						tested = true
					}
				}
			}
			if !tested {
				good = false
				why = "Begin fixes the write time and returns the common layer's error without looking at it: when that Begin fails (a second transaction on a read-only table, a failing GET of the root node) the time stays fixed, SQLite ends no transaction on a table whose xBegin failed, and the stale time stamps the connection's later statements"
			}
		}
		c.R.Cond(good, rule, name+": a failing xBegin releases the time it fixed", c.P.Pos(begin.Pos()), "the inner Begin's error is tested and the failing side releases the pin", why)
	}
	// (b) Sync
	{
		name := core.FuncName(sync)
		// a callee that drops the snapshot on every path, itself or through a helper of its own
		// (EndReadOnly -> forgetSnapshot)
		dropsSnapshot := func(f *ssa.Function) bool {
			return alwaysDoes(c, f, func(in ssa.Instruction) bool {
				st, ok := in.(*ssa.Store)
				if !ok || !an.IsNilConst(st.Val) {
					return false
				}
				fa, ok := st.Addr.(*ssa.FieldAddr)
				return ok && an.FieldVar(fa.X.Type(), fa.Field) == txStart
			}, 0)
		}
		h := an.THooks{Instr: func(in ssa.Instruction, s an.TState) an.TState {
			if cl, ok := in.(ssa.CallInstruction); ok {
				if cal := cl.Common().StaticCallee(); cal != nil && (cal == commonCommit || dropsSnapshot(cal)) {
					return ansState(true)
				}
			}
			return s
		}}
		good := true
		why := ""
		for _, ex := range an.WalkTypestate(sync, ansState(false), h, c.Scope(sync)) {
			if ex.ErrNil != 0 && !bool(ex.St.(ansState)) {
				good = false
				why = "Sync can succeed at " + c.P.Pos(ex.Ret.Pos()) + " without ending the transaction (neither the common layer's Commit nor a call that drops the snapshot): for a read-only table the snapshot taken by xBegin stays for ever, every later write statement is answered 'transaction already in progress', and that failing xBegin is where the write time stays fixed"
			}
		}
		c.R.Cond(good, rule, name+": every successful xSync ends the transaction", c.P.Pos(sync.Pos()), "Commit, or the read-only end of transaction, on every successful path", why)
	}
}

type epState int

func (e epState) Key() string { return fmt.Sprint(int(e)) }

func c20EndpointResolved(c *Ctx) {
	const rule = "C20.endpoint-resolved"
	fn := mustFunc(c, "", "", "OpenKV")
	epF := mustField(c, "", "S3Options", "Endpoint")
	kvOpen := c.P.LookupFunc("kv", "", "Open")
	if fn == nil || epF == nil || kvOpen == nil {
		if kvOpen == nil {
			c.R.Errorf("anchor kv.Open not found")
		}
		return
	}
	name := core.FuncName(fn)
	// 0 unknown, 1 known empty, 2 non-empty or assigned
	bad := ""
	h := an.THooks{}
	h.Branch = func(iff *ssa.If, side bool, s an.TState) an.TState {
		cond, neg := an.StripNot(iff.Cond)
		bo, ok := cond.(*ssa.BinOp)
		if !ok || (bo.Op != token.EQL && bo.Op != token.NEQ) {
			return s
		}
		var k *ssa.Const
		var v ssa.Value
		if kk, ok := bo.Y.(*ssa.Const); ok {
			k, v = kk, bo.X
		} else if kk, ok := bo.X.(*ssa.Const); ok {
			k, v = kk, bo.Y
		}
		if k == nil || k.Value == nil || k.Value.Kind() != constant.String || constant.StringVal(k.Value) != "" || an.FieldOfLoad(v) != epF {
			return s
		}
		isEmpty := (bo.Op == token.EQL) == (side != neg)
		if isEmpty {
			return epState(1)
		}
		return epState(2)
	}
	h.Instr = func(in ssa.Instruction, s an.TState) an.TState {
		switch x := in.(type) {
		case *ssa.Store:
			if fa, ok := x.Addr.(*ssa.FieldAddr); ok && an.FieldVar(fa.X.Type(), fa.Field) == epF {
				return epState(2)
			}
		case ssa.CallInstruction:
			if x.Common().StaticCallee() == kvOpen && s.(epState) != 2 {
				bad = c.P.Pos(x.Pos())
			}
		}
		return s
	}
	an.WalkTypestate(fn, epState(0), h, c.Scope(fn))
	c.R.Cond(bad == "", rule, name+": kv.Open never gets an empty endpoint", c.P.Pos(fn.Pos()), "on every path the endpoint was tested non-empty or assigned before kv.Open",
		"kv.Open at "+bad+" can be reached with an endpoint that was neither tested non-empty nor assigned: s3_bucket without s3_endpoint — the documented way to use AWS — is refused with 'config Storage.EndpointURL unset'")
}

func c20DupCase(c *Ctx) {
	const rule = "C20.dup-case"
	fn := mustFunc(c, "", "", "convertSchema")
	if fn == nil {
		return
	}
	name := core.FuncName(fn)
	n := 0
	good := true
	why := ""
	for _, f := range c.Scope(fn).Funcs {
		for _, b := range f.Blocks {
			iff, ok := b.Instrs[len(b.Instrs)-1].(*ssa.If)
			if !ok {
				continue
			}
			cond, neg := an.StripNot(iff.Cond)
			ex, ok := cond.(*ssa.Extract)
			if !ok || ex.Index != 1 {
				continue
			}
			lk, ok := ex.Tuple.(*ssa.Lookup)
			if !ok || !lk.CommaOk {
				continue
			}
			si := 0
			if neg {
				si = 1
			}
			if !returnsNonNilError(b.Succs[si]) {
				continue // "not found" is the error here (the key's column must exist)
			}
			n++
			folded := an.DependsOn(lk.Index, func(v ssa.Value) bool {
				cl, ok := v.(*ssa.Call)
				if !ok {
					return false
				}
				g := cl.Call.StaticCallee()
				return g != nil && an.PkgPathOf(g) == "strings" && (g.Name() == "ToLower" || g.Name() == "ToUpper")
			})
			if !folded {
				good = false
				why = "the duplicate test at " + c.P.Pos(lk.Pos()) + " looks the name up as written: 'name, NAME' passes it and is refused by SQLite's declaration only after OpenKV has merged and committed what it found under the prefix"
			}
		}
	}
	if n == 0 {
		c.R.Unk(rule, name+": duplicate columns are found whatever their case", c.P.Pos(fn.Pos()), "no duplicate test (map lookup whose found side is an error) in convertSchema")
		return
	}
	c.R.Cond(good, rule, name+": duplicate columns are found whatever their case", c.P.Pos(fn.Pos()), fmt.Sprintf("%d duplicate test(s) on case-folded names", n), why)
}

func c12OptionsDefault(c *Ctx) {
	const rule = "C12.options-default"
	fn := mustFunc(c, "sqlite", "*ChangesModule", "Connect")
	if fn == nil {
		return
	}
	name := core.FuncName(fn)
	// the dispatch: blocks that end in "<name> == <non-empty string constant>" (a switch over option
	// names and an if / else-if chain compile to the same thing)
	dispatch := map[*ssa.BasicBlock]bool{}
	var order []*ssa.BasicBlock
	for _, b := range fn.Blocks {
		iff, ok := b.Instrs[len(b.Instrs)-1].(*ssa.If)
		if !ok {
			continue
		}
		bo, ok := iff.Cond.(*ssa.BinOp)
		if !ok || bo.Op != token.EQL {
			continue
		}
		k, ok := bo.Y.(*ssa.Const)
		if !ok || k.Value == nil || k.Value.Kind() != constant.String || constant.StringVal(k.Value) == "" {
			continue
		}
		if _, isLoad := bo.X.(*ssa.UnOp); !isLoad {
			continue
		}
		dispatch[b] = true
		order = append(order, b)
	}
	if len(order) < 2 {
		c.R.Unk(rule, "s3db_changes: option dispatch", c.P.Pos(fn.Pos()), "cannot find the comparisons of the option name with the known names")
		return
	}
	// the "none of them" continuation: the false successor of a dispatch block that is not itself one
	good := false
	why := "no 'none of the known names' continuation found"
	for _, b := range order {
		f := b.Succs[1]
		if dispatch[f] {
			continue
		}
		// every path from f returns a non-nil error before it gets back to the dispatch
		good = true
		seen := map[*ssa.BasicBlock]bool{}
		var walk func(x *ssa.BasicBlock)
		walk = func(x *ssa.BasicBlock) {
			if seen[x] || !good {
				return
			}
			seen[x] = true
			if ret, ok := x.Instrs[len(x.Instrs)-1].(*ssa.Return); ok {
				if e := an.RetErr(ret); e == nil || an.IsNilConst(e) {
					good = false
					why = "an option name that matches none of the known ones can lead to a successful return at " + c.P.Pos(ret.Pos())
				}
				return
			}
			for _, s := range x.Succs {
				if dispatch[s] || s.Dominates(order[0]) {
					good = false
					why = "an option name that matches none of the known ones is skipped: the loop goes on to the next argument (a mis-spelt option — from ='…' — is dropped silently and the changes are computed against something else than was asked for)"
					return
				}
				walk(s)
			}
		}
		walk(f)
	}
	c.R.Cond(good, rule, "s3db_changes: unknown options are an error", c.P.Pos(order[0].Instrs[len(order[0].Instrs)-1].Pos()), fmt.Sprintf("%d known names; anything else returns an error", len(order)), why)
	_ = name
}

func c09GcRootKept(c *Ctx) {
	const rule = "C09.gc-root-kept"
	gc := gcFunc(c)
	if gc == nil {
		c.R.Errorf("C09.gc-root-kept: the function that collects vacuum's deletion list was not found")
		return
	}
	name := core.FuncName(gc)
	found := false
	var fns []*ssa.Function
	for _, f := range c.Scope(gc).Funcs {
		fns = append(fns, f)
		fns = append(fns, f.AnonFuncs...)
	}
	for _, f := range fns {
		for _, call := range an.Calls(f) {
			bi, ok := call.Common().Value.(*ssa.Builtin)
			if !ok || bi.Name() != "delete" || len(call.Common().Args) != 2 {
				continue
			}
			if an.DependsOn(call.Common().Args[1], func(v ssa.Value) bool {
				cl, ok := v.(*ssa.Call)
				return ok && calleeLabel(cl) == "MakeRoot"
			}) {
				found = true
			}
		}
	}
	c.R.Cond(found, rule, name+": the root node is taken off the deletion list", c.P.Pos(gc.Pos()), "a name taken from MakeRoot() is deleted from the candidate set",
		"nothing removes the root node's own name from the deletion list: the walk over the retained tree reports what nodes link to, and the root node is linked by the version object only — a vacuum that finds nothing to purge on a tree that returned to earlier content deletes the root node of the current version")
}

// Shares found with the round-5 seeds: a change that breaks property X was already reported by a
// rule written for property Y, because the clause is a necessary condition of both.
func init() {
	byProp["C01"] = append(byProp["C01"], "C03.commit-order")
	byProp["C02"] = append(byProp["C02"], "C13.flag")
	byProp["C16"] = append(byProp["C16"], "C13.flag")
	byProp["C04"] = append(byProp["C04"], "C16.store-means-stored", "C09.gc-retires-first")
	byProp["C06"] = append(byProp["C06"], "C20.schema")
	byProp["C07"] = append(byProp["C07"], "C06.no-omit")
	byProp["C08"] = append(byProp["C08"], "C07.convert-range")
	byProp["C11"] = append(byProp["C11"], "C17.local-update", "C16.cache-scope")
	byProp["C13"] = append(byProp["C13"], "C14.errors")
	explain["C01"] += " commit-order (shared with C03): 'merging adds nothing when nothing new was committed; re-opening a quiescent table yields the same rows' — a merge-commit whose version PUT fails must not have retired the versions it merged."
	explain["C02"] += " flag (shared with C13): an accepted statement takes part in every later merge only if its transaction was stored — the table's own options are never modified after the table was created (a query helper that sets ReadOnly on them makes xSync skip the commit)."
	explain["C16"] += " flag (shared with C13): the same — 'immediately after a commit is acknowledged a fresh process can read it'."
	explain["C04"] += " store-means-stored (shared with C16): a node counts as written only after this call's PUT succeeded — a record made before the PUT and kept when it fails lets the retried, byte-identical transaction skip its node PUTs and acknowledge a version whose nodes do not exist. gc-retires-first (shared with C09): 'every later open succeeds' after an interrupted vacuum."
	explain["C06"] += " schema (shared with C20): the table's key column index is computed from maps that have been built (a read of a nil map yields 0: every table would be keyed by its first column while SQLite plans by the declared key)."
	explain["C07"] += " no-omit (shared with C06): SQLite re-checks every constraint; the seek of a descending scan lands on the smallest key at or above the operand, so 'omit' on '=' would return the row of another key."
	explain["C08"] += " convert-range (shared with C07): the float bounds of the INTEGER/REAL comparison are exact constants; with math.MaxInt64 (which rounds to 2^63) the REAL key 2^63 collides with an INTEGER key and a merged row is lost."
	explain["C11"] += " local-update (shared with C17): a write that loses last-writer-wins stores nothing, so the tree stays clean and 's3db_version() is left unchanged by statements that change nothing'. cache-scope (shared with C16): the 'already stored' identity of a node includes the table's prefix, or a version committed through a shared cache lacks nodes for every other process."
	explain["C13"] += " errors (shared with C14): 'write statements against it fail with an error' — the read-only refusal comes from the storage layer and reaches SQLite only if no layer in between drops it."
}


func isTimeParse(f *ssa.Function) bool {
	return f != nil && an.PkgPathOf(f) == "time" && strings.HasPrefix(f.Name(), "Parse")
}

// callsTimeParse: a repository helper that parses a time (one level).
func callsTimeParse(f *ssa.Function) bool {
	if f == nil || !strings.HasPrefix(an.PkgPathOf(f), core.ModPath) {
		return false
	}
	for _, call := range an.Calls(f) {
		if isTimeParse(call.Common().StaticCallee()) {
			return true
		}
	}
	return false
}

// ---- C15.time-as-given: the attribute is the time that was written, to the nanosecond ------------------

func init() {
	register(&Rule{Name: "C15.time-as-given", Min: 2, Run: c15TimeAsGiven,
		Doc: "what ConnModule.Update stores as write_time / deadline is the parsed time itself: no Truncate, Round or arithmetic on the way"})
	byProp["C15"] = append(byProp["C15"], "C15.time-as-given")
	byProp["C01"] = append(byProp["C01"], "C15.time-as-given")
	byProp["C02"] = append(byProp["C02"], "C15.time-as-given")
	explain["C15"] += " time-as-given: time.Parse accepts fractional seconds although the layout shows none, so write_time='… 00:00:00.250' is a valid, distinct time; the values stored into the connection's writeTime / deadline derive from the parse result through assignments, phis and helper returns only — never through a time.Time method that changes the instant (Truncate, Round, Add, AddDate) or a conversion through Unix seconds."
	explain["C01"] += " time-as-given (shared with C15): two writers' pairwise distinct write times must stay distinct when stored, or their versions tie and the merge result depends on fold order."
	explain["C02"] += " time-as-given (shared with C15)."
}

func c15TimeAsGiven(c *Ctx) {
	const rule = "C15.time-as-given"
	upd := mustFunc(c, "sqlite", "*ConnModule", "Update")
	wtF := mustField(c, "sqlite", "S3DBConn", "writeTime")
	dlF := mustField(c, "sqlite", "S3DBConn", "deadline")
	if upd == nil || wtF == nil || dlF == nil {
		return
	}
	changing := map[string]bool{"Truncate": true, "Round": true, "Add": true, "AddDate": true, "Unix": true, "UnixMilli": true, "UnixMicro": true, "Date": true}
	var tainted func(v ssa.Value, d int) string
	tainted = func(v ssa.Value, d int) string {
		if d > 3 {
			return ""
		}
		res := ""
		an.DependsOn(v, func(w ssa.Value) bool {
			cl, ok := w.(*ssa.Call)
			if !ok || res != "" {
				return false
			}
			f := cl.Call.StaticCallee()
			if f == nil {
				return false
			}
			if an.PkgPathOf(f) == "time" && changing[f.Name()] {
				res = "time." + f.Name()
				return false
			}
			if strings.HasPrefix(an.PkgPathOf(f), core.ModPath) && len(f.Blocks) > 0 {
				for _, b := range f.Blocks {
					if ret, ok := b.Instrs[len(b.Instrs)-1].(*ssa.Return); ok && len(ret.Results) > 0 {
						if r := tainted(ret.Results[0], d+1); r != "" {
							res = r + " in " + f.Name()
						}
					}
				}
			}
			return false
		})
		return res
	}
	n := 0
	for _, f := range c.Scope(upd).Funcs {
		for _, fv := range []*types.Var{wtF, dlF} {
			for _, st := range an.StoresToField(f, fv) {
				n++
				t := tainted(st.Val, 0)
				c.R.Cond(t == "", rule, fmt.Sprintf("%s: %s is stored as parsed #%d", core.FuncName(upd), fv.Name(), n), c.P.Pos(st.Pos()), "derived from the parse result by assignment only",
					"the stored "+fv.Name()+" passes through "+t+": write times that differ by less than the unit it rounds to become equal — two writers' distinct times tie, and which value survives the merge depends on the order in which versions are folded")
			}
		}
	}
	if n == 0 {
		c.R.Unk(rule, core.FuncName(upd)+": attribute stores", c.P.Pos(upd.Pos()), "no store of writeTime / deadline found")
	}
}
